#!/usr/bin/env python3
"""Orchestrator: ./run.py <Cxx> [--tier quick|thorough] [--replay <file>]   |   ./run.py --selftest

Exit 0: property held on everything explored (KNOWN-FINDING lines may be printed).
Exit 1: `VIOLATION property=<id> replay=<path>` printed for every conformance failure not
        listed in known_findings.json.
Exit 2: INCONCLUSIVE (infrastructure problem: never a verdict).
"""
import argparse
import importlib
import os
import subprocess
import sys
import traceback

sys.path.insert(0, os.path.dirname(os.path.abspath(__file__)))
import vlib  # noqa: E402


_NEEDED = None


def needed_specs(specdir):
    """Modules that a registered check (MANIFEST checks and extensions) names, plus what they EXTEND / INSTANCE."""
    global _NEEDED
    if _NEEDED is not None:
        return _NEEDED
    import json
    import re
    names = {f[:-4] for f in os.listdir(specdir) if f.endswith(".tla")}
    ids = set()
    try:
        with open(os.path.join(vlib.VERIF, "MANIFEST.json")) as fh:
            m = json.load(fh)
        ids = {c["property_id"].lower() for c in m.get("checks", [])} | {e["id"].lower() for e in m.get("extensions", [])}
    except Exception:
        pass
    need = set()
    srcs = []
    for cid in ids:
        try:
            with open(os.path.join(vlib.VERIF, "checks", cid + ".py")) as fh:
                src = fh.read()
        except Exception:
            continue
        srcs.append(src)
        for dep in re.findall(r'from checks import ([a-z0-9_, ]+)', src):
            for mname in dep.split(","):
                try:
                    with open(os.path.join(vlib.VERIF, "checks", mname.strip() + ".py")) as fh:
                        srcs.append(fh.read())
                except Exception:
                    pass
    for src in srcs:
        for w in set(re.findall(r'["\']([A-Za-z][A-Za-z0-9_]*)(?:\.tla|\.cfg)?["\']', src)):
            if w in names:
                need.add(w)
    changed = True
    while changed:
        changed = False
        for n in list(need):
            try:
                with open(os.path.join(specdir, n + ".tla")) as fh:
                    txt = fh.read()
            except Exception:
                continue
            for line in re.findall(r'(?:EXTENDS|INSTANCE)\s+([^\n]*)', txt):
                for w in re.findall(r'[A-Za-z][A-Za-z0-9_]*', line):
                    if w in names and w not in need:
                        need.add(w)
                        changed = True
    _NEEDED = need
    return need


def selftest():
    """Parse every spec with SANY and build every driver once (warms the Go build cache)."""
    bad = 0
    import tempfile
    import shutil
    d = tempfile.mkdtemp(prefix="verif-selftest-")
    try:
        for f in sorted(os.listdir(vlib.SPEC)):
            if f.endswith(".tla") or f.endswith(".cfg"):
                shutil.copy(os.path.join(vlib.SPEC, f), d)
        for f in sorted(os.listdir(d)):
            if not f.endswith(".tla"):
                continue
            p = subprocess.run(["java", "-cp", vlib.TLA_CP, "tla2sany.SANY", f], cwd=d,
                               stdout=subprocess.PIPE, stderr=subprocess.STDOUT, text=True, timeout=120)
            ok = p.returncode == 0 and "Semantic errors" not in p.stdout and "***Parse Error***" not in p.stdout \
                and "Fatal errors" not in p.stdout and "Could not find module" not in p.stdout
            must = f[:-4] in needed_specs(d)
            print("sany %-28s %s%s" % (f, "ok" if ok else "FAILED", "" if ok or must else " (not used by a registered check yet: ignored)"))
            if not ok:
                print(p.stdout[-3000:])
                if must:
                    bad += 1
    finally:
        shutil.rmtree(d, ignore_errors=True)
    env = dict(os.environ)
    env.update(vlib.GOENV)
    d = tempfile.mkdtemp(prefix="verif-selftest-bin-")
    try:
        mf = os.path.join(d, "alt.mod")
        with open(os.path.join(vlib.HARNESS, "go.mod")) as fh:
            txt = fh.read().replace("=> /repo", "=> " + vlib.REPO)
        with open(mf, "w") as fh:
            fh.write(txt)
        shutil.copy(os.path.join(vlib.REPO, "go.sum"), os.path.join(d, "alt.sum"))
        os.makedirs(os.path.join(d, "bin"))
        # drivers of claimed checks must build; drivers of checks still under construction only warn
        import json
        import re
        claimed = set()
        try:
            with open(os.path.join(vlib.VERIF, "MANIFEST.json")) as fh:
                for c in json.load(fh).get("checks", []):
                    claimed.add(c["property_id"].lower())
        except Exception:
            pass
        needed = set()
        for cid in claimed:
            try:
                with open(os.path.join(vlib.VERIF, "checks", cid + ".py")) as fh:
                    src = fh.read()
            except Exception:
                continue
            needed.update(re.findall(r'go_build\(\s*"([a-z0-9_]+)"', src))
            needed.update(re.findall(r'DRIVER\s*=\s*"([a-z0-9_]+)"', src))
            for dep in re.findall(r'from checks import ([a-z0-9_, ]+)', src):
                for m in dep.split(","):
                    try:
                        with open(os.path.join(vlib.VERIF, "checks", m.strip() + ".py")) as fh:
                            needed.update(re.findall(r'go_build\(\s*"([a-z0-9_]+)"', fh.read()))
                    except Exception:
                        pass
        for drv in sorted(os.listdir(os.path.join(vlib.HARNESS, "cmd"))):
            p = subprocess.run(["go", "build", "-tags", "verif", "-modfile", mf, "-o", os.path.join(d, "bin", drv), "./cmd/" + drv],
                               cwd=vlib.HARNESS, env=env, stdout=subprocess.PIPE, stderr=subprocess.STDOUT, text=True, timeout=1800)
            ok = p.returncode == 0
            must = drv in needed
            print("go build -tags verif ./cmd/%-10s %s%s" % (drv, "ok" if ok else "FAILED", "" if ok or must else " (check not claimed yet: ignored)"))
            if not ok:
                print(p.stdout[-1500:])
                if must:
                    bad += 1
    finally:
        shutil.rmtree(d, ignore_errors=True)
    return 1 if bad else 0


def main():
    ap = argparse.ArgumentParser()
    ap.add_argument("prop", nargs="?")
    ap.add_argument("--tier", default=os.environ.get("VERIF_TIER") or "quick", choices=["quick", "thorough"])
    ap.add_argument("--replay")
    ap.add_argument("--selftest", action="store_true")
    a = ap.parse_args()
    if a.selftest:
        sys.exit(selftest())
    if not a.prop:
        ap.error("property id required")
    prop = a.prop.upper()
    try:
        seed = int(os.environ.get("VERIF_SEED", "1"))
    except ValueError:
        seed = 1
    seed = abs(seed) % (2 ** 31 - 1) or 1
    try:
        mod = importlib.import_module("checks." + prop.lower())
    except ModuleNotFoundError:
        print("INCONCLUSIVE: no check registered for %s" % prop)
        sys.exit(2)
    ctx = vlib.Ctx(prop, a.tier, seed)
    try:
        if a.replay:
            mod.replay(ctx, a.replay)
        else:
            mod.run(ctx)
    except vlib.Inconclusive as e:
        print("INCONCLUSIVE property=%s: %s" % (prop, e))
        ctx.cleanup()
        sys.exit(2)
    except SystemExit:
        raise
    except Exception:
        traceback.print_exc()
        print("INCONCLUSIVE property=%s: internal error in the check" % prop)
        ctx.cleanup()
        sys.exit(2)


if __name__ == "__main__":
    main()
