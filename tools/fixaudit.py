#!/usr/bin/env python3
"""Cross-check /repo's history with known_findings.json and tools/hook_commits.json.

Every commit of /repo after the pinned snapshot is either a `fix:` commit recorded as status fixed, or a
`verif hooks:` commit listed in hook_commits.json; every recorded commit exists.  Exit 0 when consistent.
"""
import json
import os
import subprocess
import sys

V = os.path.dirname(os.path.dirname(os.path.abspath(__file__)))
REPO = os.environ.get("VERIF_REPO", "/repo")


def main():
    k = json.load(open(os.path.join(V, "known_findings.json")))
    fs = k["findings"] if isinstance(k, dict) else k
    hooks = {h[:7] for h in json.load(open(os.path.join(V, "tools", "hook_commits.json")))}
    log = subprocess.run(["git", "-C", REPO, "log", "--format=%h %s"], capture_output=True, text=True).stdout.splitlines()
    commits = {l.split()[0][:7]: l.split(" ", 1)[1] for l in log}
    bad = 0
    fixed = {f["commit"][:7]: f["id"] for f in fs if f["status"] == "fixed"}
    for c, fid in fixed.items():
        if c not in commits:
            print("recorded commit missing in", REPO, fid, c); bad += 1
        elif not commits[c].startswith("fix:"):
            print("recorded commit is not a fix: commit", fid, c, commits[c]); bad += 1
    for f in fs:
        if f["status"] == "fixed" and not f.get("line", "").startswith("fixed: property=%s %s " % (f["property"], f["commit"])):
            print("malformed line", f["id"]); bad += 1
    for c, subj in commits.items():
        if subj.startswith("fix:") and c not in fixed:
            print("unrecorded fix commit", c, subj); bad += 1
        elif subj.startswith("verif hooks") and c not in hooks:
            print("hook commit not in hook_commits.json", c, subj); bad += 1
        elif not subj.startswith(("fix:", "verif hooks")) and subj != log[-1].split(" ", 1)[1]:
            print("other commit", c, subj); bad += 1
    for h in hooks:
        if h not in commits:
            print("hook commit missing", h); bad += 1
    print("fix commits %d, hook commits %d, inconsistencies %d" % (len(fixed), len(hooks), bad))
    return 1 if bad else 0


if __name__ == "__main__":
    sys.exit(main())
