#!/usr/bin/env python3
"""Confirm an independently written breaking change and run the check(s) against it.

usage: tools/seedtest.py <PROP> <dir with patch.diff, demo_test.go|demo program, meta.json> <seed-name> [--checks C16,C10]

1. scratch worktree of /repo HEAD (never /repo itself);
2. demonstration passes on HEAD;
3. patch applied: `go build ./...` ok, existing tests of the touched packages pass, demonstration fails;
4. quick tier of the check(s) with VERIF_REPO=<worktree> (same code path as /repo, other runs are not disturbed);
5. everything is stored under /verif/seeded/<seed-name>/ (patch.diff, demo, meta.json with what was run and seen).
"""
import json
import os
import re
import shutil
import subprocess
import sys

V = os.path.dirname(os.path.dirname(os.path.abspath(__file__)))
ENV = dict(os.environ, GOFLAGS="-mod=mod", GOPROXY="off", GOSUMDB="off", GOTOOLCHAIN="local")


def sh(cmd, cwd=None, timeout=1800, env=None):
    p = subprocess.run(cmd, shell=True, cwd=cwd, env=env or ENV, stdout=subprocess.PIPE, stderr=subprocess.STDOUT, text=True,
                       timeout=timeout, errors="replace")
    return p.returncode, p.stdout


def main():
    prop, src, name = sys.argv[1], sys.argv[2].rstrip("/"), sys.argv[3]
    checks = [prop]
    if "--checks" in sys.argv:
        checks = sys.argv[sys.argv.index("--checks") + 1].split(",")
    meta = json.load(open(os.path.join(src, "meta.json")))
    wt = "/tmp/seedchk-" + name
    sh("git -C /repo worktree remove --force %s; rm -rf %s; git -C /repo worktree prune" % (wt, wt))
    rc, out = sh("git -C /repo worktree add --detach %s HEAD" % wt)
    if rc != 0:
        print(out)
        sys.exit(2)
    res = {"worktree_base": sh("git -C /repo rev-parse --short HEAD")[1].strip()}
    try:
        demos = [f for f in os.listdir(src) if f.endswith("_test.go")]
        mains = [f for f in os.listdir(src) if f.endswith(".go") and not f.endswith("_test.go")]
        subdirs = [f for f in os.listdir(src) if os.path.isdir(os.path.join(src, f)) and
                   any(x.endswith(".go") for x in os.listdir(os.path.join(src, f)))]
        pkgs = sorted({os.path.dirname(f) for f in meta.get("files", []) if f.endswith(".go")})
        if demos:
            m = re.search(r"(?:^|\s)(\.?/?[A-Za-z0-9_/.-]+)/%s" % re.escape(demos[0]), meta.get("demo", "").replace(src, ""))
            cands = [c for c in re.findall(r"([A-Za-z0-9_./-]+)/%s" % re.escape(demos[0]), meta.get("demo", "")) if not c.startswith("/tmp")]
            target = cands[0].lstrip("./") if cands else pkgs[0]
            os.makedirs(os.path.join(wt, target), exist_ok=True)   # a demonstration may live in a package of its own
            for d in demos:
                shutil.copy(os.path.join(src, d), os.path.join(wt, target, d))
            tags = ""
            if any("go:build verif" in open(os.path.join(src, d)).read() for d in demos):
                tags = "-tags verif "   # the demonstration forces an interleaving through the inert verif yield points
            democmd = "go test -vet=off -count=1 %s-run 'Demo|demo' ./%s/" % (tags, target)
        elif subdirs:
            # a demonstration program in its own directory (the directory name may matter, e.g. as log origin)
            shutil.copytree(os.path.join(src, subdirs[0]), os.path.join(wt, subdirs[0]))
            democmd = "go run ./%s" % subdirs[0]
        elif mains:
            os.makedirs(os.path.join(wt, "zz_demo"), exist_ok=True)
            for d in mains:
                shutil.copy(os.path.join(src, d), os.path.join(wt, "zz_demo", d))
            democmd = "go run ./zz_demo"
        else:
            print("no demonstration found in", src)
            sys.exit(2)
        rc0, out0 = sh(democmd, cwd=wt)
        res["demo_cmd"] = democmd
        res["demo_on_head"] = "pass" if rc0 == 0 else "FAIL"
        rc, out = sh("git apply %s" % os.path.join(src, "patch.diff"), cwd=wt)
        if rc != 0:
            print("patch does not apply:", out)
            sys.exit(2)
        rcb, outb = sh("go build ./...", cwd=wt)
        res["build_with_patch"] = "ok" if rcb == 0 else "FAIL: " + outb[-500:]
        # existing tests (without the demo files)
        for d in demos:
            os.rename(os.path.join(wt, target, d), os.path.join(wt, target, d + ".off"))
        tests = {}
        for pk in pkgs:
            rct, outt = sh("go test -vet=off -count=1 ./%s/..." % pk, cwd=wt)
            note = ""
            if rct != 0:
                # timing-sensitive tests of the baseline fail under machine load on the unchanged tree as well:
                # a failing test counts only if it also fails in 4 further runs on its own
                failing = sorted(set(re.findall(r"--- FAIL: (\w+)", outt)))
                still = []
                for tn in failing:
                    okonce = False
                    for _ in range(4):
                        r2, _o = sh("go test -vet=off -count=1 -run '^%s$' ./%s/..." % (tn, pk), cwd=wt)
                        if r2 == 0:
                            okonce = True
                            break
                    if not okonce:
                        # does it fail on the unchanged tree under the same machine load as well?
                        sh("git apply -R %s" % os.path.join(src, "patch.diff"), cwd=wt)
                        r3, _o = sh("go test -vet=off -count=1 -run '^%s$' ./%s/..." % (tn, pk), cwd=wt)
                        sh("git apply %s" % os.path.join(src, "patch.diff"), cwd=wt)
                        if r3 == 0:
                            still.append(tn)
                if failing and not still:
                    rct = 0
                    note = " (load-sensitive, passed when re-run alone: %s)" % ",".join(failing)
                else:
                    outt = "\n".join("--- FAIL: " + t for t in still) or outt
            tests[pk] = ("pass" + note) if rct == 0 else "FAIL: " + "\n".join(l for l in outt.splitlines() if l.startswith("--- FAIL"))[:400]
        res["package_tests_with_patch"] = tests
        for d in demos:
            os.rename(os.path.join(wt, target, d + ".off"), os.path.join(wt, target, d))
        rc1, out1 = sh(democmd, cwd=wt)
        res["demo_with_patch"] = "fail (as required)" if rc1 != 0 else "PASSES (not a valid demonstration)"
        # remove the demo again: checks see only the library change
        for d in demos:
            os.remove(os.path.join(wt, target, d))
        shutil.rmtree(os.path.join(wt, "zz_demo"), ignore_errors=True)
        for sd in subdirs:
            shutil.rmtree(os.path.join(wt, sd), ignore_errors=True)
        det = {}
        for c in checks:
            env = dict(ENV, VERIF_REPO=wt)
            rcc, outc = sh("./run.py %s --tier quick" % c, cwd=V, env=env, timeout=3600)
            sigs = re.findall(r"signature: (.*)", outc)
            det[c] = {"exit": rcc, "detected": rcc == 1, "signatures": sigs[:12],
                      "summary": [l for l in outc.splitlines() if l.startswith(("PASS", "FAIL", "INCONCLUSIVE"))][-1:]}
        res["checks_quick_tier"] = det
    finally:
        sh("git -C /repo worktree remove --force %s; git -C /repo worktree prune" % wt)
        shutil.rmtree(wt, ignore_errors=True)
        shutil.rmtree("/tmp/verif-out-" + os.path.basename(wt), ignore_errors=True)
    dst = os.path.join(V, "seeded", name)
    os.makedirs(dst, exist_ok=True)
    for f in os.listdir(src):
        if os.path.isfile(os.path.join(src, f)) and f != "meta.json":
            shutil.copy(os.path.join(src, f), dst)
        elif os.path.isdir(os.path.join(src, f)) and f in subdirs:
            shutil.copytree(os.path.join(src, f), os.path.join(dst, f), dirs_exist_ok=True)
    meta["confirmed_by_main"] = res
    meta["breaks_property"] = prop
    json.dump(meta, open(os.path.join(dst, "meta.json"), "w"), indent=1)
    ok = res.get("demo_on_head") == "pass" and res.get("build_with_patch") == "ok" and \
        all(v.startswith("pass") for v in res.get("package_tests_with_patch", {}).values()) and res.get("demo_with_patch", "").startswith("fail")
    print(json.dumps(res, indent=1))
    print("VALID SEED" if ok else "INVALID SEED", name, "detected by:", [c for c, d in res.get("checks_quick_tier", {}).items() if d["detected"]])


if __name__ == "__main__":
    main()
