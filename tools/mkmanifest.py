#!/usr/bin/env python3
import json, os, sys
sys.path.insert(0, os.path.dirname(os.path.abspath(__file__)))
from claims import CLAIMS, ENGINES
V = os.path.dirname(os.path.dirname(os.path.abspath(__file__)))
props = [json.loads(l) for l in open(os.path.join(V, "properties.jsonl"))]
try:
    hooks = json.load(open(os.path.join(V, "tools", "hook_commits.json")))
except Exception:
    hooks = []
m = {"version": 1,
     "setup_cmd": "./run.py --selftest",
     "hooks": {"guard": "verif",
               "enable": "go build -tags verif (drivers in /verif/harness are built with -tags verif against /repo via a replace directive)",
               "baseline_off_cmd": "cd /repo && GOFLAGS=-mod=mod GOPROXY=off GOSUMDB=off GOTOOLCHAIN=local go test -json -vet=off -count=1 -timeout 25m ./...",
               "source_commits": hooks, "add_only": True},
     "engines": [], "checks": [], "not_applicable": [],
     "notes": "See DESIGN.md. Every check: ./run.py <id> --tier quick|thorough; honours VERIF_SEED; exit 2 + INCONCLUSIVE for infrastructure problems; known_findings.json lists recorded and fixed defects."}
for name, txt in ENGINES.items():
    serves = sorted(i for i, c in CLAIMS.items() if c["engine"] == name)
    if serves:
        m["engines"].append({"name": name, "path": "vlib/__init__.py", "serves_properties": serves, "kind_free_text": txt})
for p in props:
    i = p["id"]
    if i in CLAIMS:
        c = CLAIMS[i]
        m["checks"].append({"property_id": i, "quick_cmd": "./run.py %s --tier quick" % i,
                            "thorough_cmd": "./run.py %s --tier thorough" % i,
                            "evidence_file": "evidence/%s.json" % i,
                            "replay_cmd_template": "./run.py %s --replay {path}" % i, "engine": c["engine"],
                            "level_claimed": {"category": c["level"], "text": c["text"], "design_ref": c["ref"]},
                            "level_note": c["note"], "technique": c["technique"]})
    else:
        m["not_applicable"].append({"property_id": i, "reason": "check under construction (planned per DESIGN.md §4); not claimed until its TLA+ spec and conformance harness are committed"})
# extension checks: behaviour beyond the listed properties (same run contract; not part of the property list)
try:
    from claims import EXTENSIONS
except ImportError:
    EXTENSIONS = {}
m["extensions"] = [{"id": i, "subject": e["subject"], "quick_cmd": "./run.py %s --tier quick" % i,
                    "thorough_cmd": "./run.py %s --tier thorough" % i, "evidence_file": "evidence/%s.json" % i,
                    "specs": e["specs"], "statement_in": e["statement_in"]}
                   for i, e in sorted(EXTENSIONS.items()) if e.get("ready", True) and os.path.exists(os.path.join(V, "checks", i.lower() + ".py"))]
json.dump(m, open(os.path.join(V, "MANIFEST.json"), "w"), indent=1)
print("claimed:", [c["property_id"] for c in m["checks"]])
