#!/usr/bin/env python3
"""Detection robustness: every stored seeded change against the check(s) that caught it, for other VERIF_SEED values.

usage: tools/seedscan.py [--only name,name] [seed values, default 2 3] ; writes seeded/SCAN.json {name: {check: {seed: detected}}}
Only applies the patch in a scratch worktree and runs the quick tier (no demonstration, no package tests).
"""
import json
import os
import subprocess
import sys
from concurrent.futures import ThreadPoolExecutor

V = os.path.dirname(os.path.dirname(os.path.abspath(__file__)))
ENV = dict(os.environ, GOFLAGS="-mod=mod", GOPROXY="off", GOSUMDB="off", GOTOOLCHAIN="local")


def sh(cmd, env=None, timeout=3600):
    p = subprocess.run(cmd, shell=True, env=env or ENV, stdout=subprocess.PIPE, stderr=subprocess.STDOUT, text=True, timeout=timeout)
    return p.returncode, p.stdout


def one(name, seeds):
    d = os.path.join(V, "seeded", name)
    try:
        meta = json.load(open(os.path.join(d, "meta.json")))
    except Exception:
        return name, {"error": "no meta"}
    c = meta.get("confirmed_by_main", {}).get("checks_quick_tier", {})
    checks = [k for k, v in c.items() if v.get("detected")]
    if not checks:
        return name, {"skipped": "not detected when stored"}
    wt = "/tmp/seedscan-" + name
    sh("git -C /repo worktree remove --force %s; rm -rf %s; git -C /repo worktree prune" % (wt, wt))
    rc, out = sh("git -C /repo worktree add --detach %s HEAD" % wt)
    res = {}
    try:
        rc, out = sh("git -C %s apply %s" % (wt, os.path.join(d, "patch.diff")))
        if rc != 0:
            return name, {"skipped": "patch no longer applies"}
        for chk in checks[:1]:
            res[chk] = {}
            for s in seeds:
                env = dict(ENV, VERIF_REPO=wt, VERIF_SEED=str(s))
                rc, out = sh("./run.py %s --tier quick" % chk, env=env)
                res[chk][str(s)] = (rc == 1)
                if rc not in (0, 1):
                    res[chk][str(s)] = "rc=%d" % rc
    finally:
        sh("git -C /repo worktree remove --force %s; git -C /repo worktree prune; rm -rf /tmp/verif-out-%s" % (wt, os.path.basename(wt)))
    return name, res


def main():
    args = sys.argv[1:]
    only = None
    if "--only" in args:     # re-scan some seeds and merge into the stored result
        i = args.index("--only")
        only = args[i + 1].split(",")
        del args[i:i + 2]
    seeds = [int(x) for x in args] or [2, 3]
    names = sorted(n for n in os.listdir(os.path.join(V, "seeded")) if os.path.isdir(os.path.join(V, "seeded", n)))
    out = {}
    if only:
        names = [n for n in names if n in only]
        try:
            out = json.load(open(os.path.join(V, "seeded", "SCAN.json")))
        except Exception:
            out = {}
    os.chdir(V)
    with ThreadPoolExecutor(max_workers=4) as ex:
        for name, res in ex.map(lambda n: one(n, seeds), names):
            out[name] = res
            print(name, json.dumps(res), flush=True)
    json.dump(out, open(os.path.join(V, "seeded", "SCAN.json"), "w"), indent=1, sort_keys=True)


if __name__ == "__main__":
    main()
