"""Source of MANIFEST.json: one entry per claimed property. Run tools/mkmanifest.py after editing."""

ENGINES = {
    "tlc-replay": "E1: TLC generates histories/vectors from the TLA+ reference model, a Go driver replays them into the real package, TLC validates the recorded trace against the same model (spec/*Trace.tla)",
    "tlc-interleave": "E2: TLC explores the implementation-shaped model exhaustively; its behaviours become scheduling policies for gate/yield-point drivers; the recorded trace is validated by TLC against the abstract property model",
    "tlc-syscall": "E3: strace system-call traces validated by TLC against AtomicFile.tla plus crash-point enumeration with strace fault injection",
}

CLAIMS = {
    "C16": dict(engine="tlc-replay", level="model_checking", ref="DESIGN.md §4 C16",
        technique="TLA+ reference model (Container.tla) + TLC-generated histories replayed into the Go package + TLC trace validation of the recorded results",
        text="TLC checks the queue laws of the reference semantics exhaustively for short histories; TLC -simulate generates operation histories over boundary-rich argument domains; the real container executes them and TLC validates every recorded return value and length against the set of outcomes the byte-queue model allows. Conformance on the explored histories, not a proof about the Go code.",
        note="Trusted: TLC, the Go driver cmd/cont (maps model ops to API calls), argument domains of spec/Container.tla; slices up to 12 bytes, histories up to 24 operations."),
    "C10": dict(engine="tlc-replay", level="exploration", ref="DESIGN.md §4 C10",
        technique="TLA+ transcription of the varint format over digit sequences (Varint.tla); enumerated + TLC-generated inputs evaluated by the Go functions; every call judged by TLC (VarintTrace.tla)",
        text="Exhaustive for all 8-bit values and all byte strings up to length 2 in both tiers and for all 16-bit values in the thorough tier; boundary-exhaustive at every 7-bit group boundary for 32/64 bit plus seeded random numbers and byte strings. Each call's result and consumed-byte count must be in the set the model allows; panics are rejections.",
        note="Trusted: TLC and spec/Varint.tla as independent definition of the format; driver cmd/varintx converts uint64 to digit sequences. 32/64-bit ranges are sampled, not enumerated."),
    "C01": dict(engine="tlc-interleave", level="model_checking", ref="DESIGN.md §4 C01",
        technique="TLC exhaustive check of the implementation-shaped manager model (Lifecycle.tla, all DAGs) + its behaviours replayed as gate schedules into the real module manager + TLC trace validation against the property-level state machine (LifecycleAbs.tla)",
        text="TLC explores every dependency DAG on 3 (thorough: 4) modules with every completion order, failure placement and Enable/Disable/ManageModules history within small budgets and checks start/stop/prep order, the online set after a successful pass and the post-shutdown state. Behaviours of that model drive the real modules package through callback gates (one process per script); every recorded begin/end/call/return event is validated by TLC against LifecycleAbs, which accepts any order compatible with the dependency graph, so only a real ordering/accounting violation is reported.",
        note="Trusted: TLC, the gate driver harness/cmd/life, callbacks return when released (timeouts of 2 min/1 min never expire), Enable/Disable only between manager calls. Conformance on the explored schedules, not a proof."),
}
