#!/usr/bin/env python3
"""Print the markdown table of seeded changes and which checks caught them (from seeded/*/meta.json)."""
import json, os, glob
V = os.path.dirname(os.path.dirname(os.path.abspath(__file__)))
rows = []
for d in sorted(glob.glob(os.path.join(V, "seeded", "*"))):
    try:
        m = json.load(open(os.path.join(d, "meta.json")))
    except Exception:
        continue
    c = m.get("confirmed_by_main", {})
    det = [k for k, v in c.get("checks_quick_tier", {}).items() if v.get("detected")]
    tried = list(c.get("checks_quick_tier", {}).keys())
    sig = []
    for k, v in c.get("checks_quick_tier", {}).items():
        sig += v.get("signatures", [])[:2]
    rows.append((os.path.basename(d), m.get("title", "")[:110].replace("|", "/"), m.get("needs_to_manifest", "")[:140].replace("|", "/").replace("\n", " "),
                 ", ".join(det) or "— (not detected; tried " + ", ".join(tried) + ")", "; ".join(sig)[:120].replace("|", "/")))
print("| seed | change | needs | caught by (quick tier) | first signatures |")
print("|---|---|---|---|---|")
for r in rows:
    print("| %s | %s | %s | %s | %s |" % r)
