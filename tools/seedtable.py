#!/usr/bin/env python3
"""Print the markdown table of seeded changes and which checks caught them (from seeded/*/meta.json)."""
import json, os, glob
V = os.path.dirname(os.path.dirname(os.path.abspath(__file__)))
rows = []
for d in sorted(glob.glob(os.path.join(V, "seeded", "*"))):
    try:
        m = json.load(open(os.path.join(d, "meta.json")))
    except Exception:
        continue
    c = m.get("confirmed_by_main", {})
    det = [k for k, v in c.get("checks_quick_tier", {}).items() if v.get("detected")]
    tried = list(c.get("checks_quick_tier", {}).keys())
    sig = []
    for k, v in c.get("checks_quick_tier", {}).items():
        sig += v.get("signatures", [])[:2]
    rows.append((os.path.basename(d), m.get("title", "")[:110].replace("|", "/"), m.get("needs_to_manifest", "")[:140].replace("|", "/").replace("\n", " "),
                 ", ".join(det) or "— (not detected; tried " + ", ".join(tried) + ")", "; ".join(sig)[:120].replace("|", "/")))
print("| seed | change | needs | caught by (quick tier) | first signatures |")
print("|---|---|---|---|---|")
for r in rows:
    print("| %s | %s | %s | %s | %s |" % r)
import sys
if "--update" in sys.argv:
    # replace the table inside DESIGN.md in place
    p = os.path.join(V, "DESIGN.md")
    lines = open(p).read().split("\n")
    a = next(i for i, l in enumerate(lines) if l.startswith("| seed | change | needs |"))
    b = a
    while b < len(lines) and lines[b].startswith("|"):
        b += 1
    table = ["| seed | change | needs | caught by (quick tier) | first signatures |", "|---|---|---|---|---|"] + ["| %s | %s | %s | %s | %s |" % r for r in rows]
    open(p, "w").write("\n".join(lines[:a] + table + lines[b:]))
    sys.stderr.write("DESIGN.md: table of %d seeds updated\n" % len(rows))
