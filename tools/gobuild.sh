#!/bin/sh
# manual driver build through a scratch modfile (the committed harness/go.mod stays minimal)
# usage: tools/gobuild.sh <driver> <output>
set -e
export GOFLAGS=-mod=mod GOPROXY=off GOSUMDB=off GOTOOLCHAIN=local
R=${VERIF_REPO:-/repo}
D=$(mktemp -d /tmp/verif-gobuild-XXXXXX)
sed "s#=> /repo#=> $R#" /verif/harness/go.mod > $D/alt.mod
cp $R/go.sum $D/alt.sum
cd /verif/harness && go build -tags verif -modfile $D/alt.mod -o "$2" ./cmd/$1
rm -rf $D
