#!/usr/bin/env python3
"""Vacuity check: run the implementation-shaped models with TLC's -coverage and list actions that were never taken.

usage: tools/coverage.py            writes coverage/<module>.txt summaries and prints the never-taken actions
"""
import os
import re
import sys

V = os.path.dirname(os.path.dirname(os.path.abspath(__file__)))
sys.path.insert(0, V)
import vlib  # noqa: E402
from checks import c01, c05, c07, c15  # noqa: E402

RUNS = [
    ("Lifecycle", lambda: vlib.cfg_text(constants=c01.consts(3, True, 1, 2), invariants=c01.INV)),
    ("StopProtocol", lambda: vlib.cfg_text(constants=c05.consts(2, ("worker", "task"), True, False), invariants=c05.INV)),
    ("StopProtocol", lambda: vlib.cfg_text(constants=c05.consts(3, ("worker", "task", "micro"), False, True), invariants=c05.INV)),
    ("MicroTasks", lambda: vlib.cfg_text(constants=c15.consts(("high", "med", "low", "med"), 2, True), invariants=c15.INV)),
    ("MicroTasks", lambda: vlib.cfg_text(constants=c15.consts(("med", "med", "low"), 2, True, qcap=1), invariants=c15.INV)),
    ("TasksImpl", lambda: vlib.cfg_text(constants=c07.consts(2, 3, 2, 3, rep=1), invariants=["NoSelfOverlap", "NoEarlyStart"], view="View")),
]


def main():
    ctx = vlib.Ctx("COV", "quick", 1)
    os.makedirs(os.path.join(V, "coverage"), exist_ok=True)
    bad = 0
    union = {}
    try:
        for mod, cfg in RUNS:
            r = ctx.tlc(mod, cfg_text=cfg(), timeout=3000, extra=["-coverage", "1"], want_ok=False, count=False)
            acts = {}
            for m in re.finditer(r"<(\w+) line (\d+), col \d+ to line \d+, col \d+ of module (\w+)>: (\d+):(\d+)", r.out):
                name, _, module, distinct, total = m.groups()
                if module == mod:
                    acts[name] = (int(distinct), int(total))
            u = union.setdefault(mod, {})
            for a, (d, t) in acts.items():
                u[a] = (u.get(a, (0, 0))[0] + d, u.get(a, (0, 0))[1] + t)
            acts = u
            never = sorted(a for a, (d, t) in acts.items() if t == 0)
            with open(os.path.join(V, "coverage", mod + ".txt"), "w") as fh:
                fh.write("TLC -coverage on spec/%s.tla (%d distinct states)\n" % (mod, r.distinct or 0))
                for a in sorted(acts):
                    fh.write("%-28s distinct=%-9d taken=%d\n" % (a, acts[a][0], acts[a][1]))
            print("%-14s actions=%d never taken: %s" % (mod, len(acts), never or "none"))
    finally:
        ctx.cleanup()
    bad = sum(1 for u in union.values() for a, (d, t) in u.items() if t == 0)
    return 1 if bad else 0


if __name__ == "__main__":
    sys.exit(main())
