"""C12 — an API handler runs only for requests holding the permission it requires
(and the API part of C06: a panicking endpoint function is answered with 500, the server keeps serving).

spec/ApiAuth.tla       the decision function request x configuration -> set of allowed outcomes, and its laws
spec/ApiAuthTable.tla  the decision table (TLC checks the laws on every cell and prints the cells as scripts)
spec/ApiAuthGen.tla    the state machine around it: key configuration changes, dev mode, authenticator,
                       sessions, key expiry (TLC: exhaustive over small domains; simulation prints histories)
spec/ApiAuthTrace.tla  judges what the real api package answered (driver harness/cmd/apiauth: real module
                       system, HTTP server on a loopback port, database bridge)
"""
import json
import vlib

LEVEL = "model_checking"
DRIVER = "apiauth"
STRIP = ("hdr", "entries", "seed")


def table(ctx, thorough):
    r = ctx.tlc("ApiAuthTable", cfg_text=vlib.cfg_text(
        constants={"Thorough": thorough, "Emit": True}, invariants=["CellLaws"]), timeout=2400,
        workers=8 if thorough else 4)
    groups = r.emitted()
    if len(groups) < 10:
        raise vlib.Inconclusive("ApiAuthTable emitted only %d groups" % len(groups))
    return r, groups


def machine(ctx, depth):
    return ctx.tlc("ApiAuthGen", cfg_text=vlib.cfg_text(
        constants={"MaxLen": depth, "Emit": False, "Small": True, "AuthSet": True, "Storms": True},
        invariants=["LawsHold", "RevokedKeysDead"], properties=["SessionsMonotone"], view="View"), timeout=2400,
        workers=4 if depth < 3 else vlib.NCPU)


def simulate(ctx, k, num, authset, storms=False):
    r = ctx.tlc("ApiAuthGen", cfg_text=vlib.cfg_text(
        constants={"MaxLen": 30, "Emit": True, "Small": False, "AuthSet": authset, "Storms": storms}),
        mode="simulate", num=num, depth=34, seed=ctx.seed * 101 + k, timeout=2400, count=False)
    return r.emitted()


def build_scripts(ctx, groups, hists, per):
    """Table groups are cut into scripts of `per` operations behind the group's prefix."""
    scripts = []
    for g in groups:
        ops = g["ops"]
        for a in range(0, len(ops), per):
            scripts.append({"authset": g["authset"], "steps": list(g["prefix"]) + ops[a:a + per],
                            "kind": "table:" + g["name"]})
    for h in hists:
        scripts.append({"authset": h["authset"], "steps": h["steps"], "kind": "history"})
    for i, s in enumerate(scripts):
        s["seed"] = ctx.seed * 1000003 + i
    return scripts


def execute(ctx, scripts):
    """Run the scripts (one server process serves many) and return (histories, owner script index)."""
    binp = ctx.go_build(DRIVER)
    hists, owner = [], []
    infra = 0
    for authset, args in ((True, []), (False, ["noauthfn"])):
        idx = [i for i, s in enumerate(scripts) if s["authset"] == authset]
        if not idx:
            continue
        res = vlib.drive(ctx, binp, [scripts[i] for i in idx], chunk=max(1, min(24, (len(idx) + 47) // 48)),
                         timeout=420, args=args)
        for i, r in zip(idx, res):
            evs = [e for e in r["events"] if e.get("e") != "try"]
            if r["crashed"] and "rc=5" in r["crashed"]:
                pass    # a configuration change did not return: recorded as an event, judged by the trace spec
            elif r["crashed"]:
                why = r["crashed"]
                if "rc=3" in why or "rc=4" in why or "setup:" in why or "harness:" in why:
                    raise vlib.Inconclusive("driver apiauth failed: " + why[:800])
                tries = [e for e in r["events"] if e.get("e") == "try"]
                last = tries[-1] if tries else {}
                kind = "hang" if "timeout" in why else "crash"
                ctx.violation("%s:%s" % (kind, req_sig(last) if "q" in last else last.get("panic", "?")),
                              "the server process died while serving %s: %s" % (json.dumps(last)[:400], why[:600]),
                              {"script": scripts[i], "died_in": last})
                continue
            if any(e.get("e") == "infra" for e in evs):
                infra += 1
                continue
            if not evs:
                raise vlib.Inconclusive("driver apiauth recorded nothing for script %d" % i)
            hists.append(evs)
            owner.append(i)
    if infra > max(2, len(scripts) // 50):
        raise vlib.Inconclusive("%d of %d histories could not be set up (configuration reload did not settle)" % (
            infra, len(scripts)))
    return hists, owner, infra


def req_sig(ev):
    """Stable signature of a request: a cross-origin class if present, else the outermost credential class
    that is present, and the outcome."""
    q = ev.get("q", {})
    ob = ev.get("ob")
    out = "-"
    if ob is not None:
        if ob.get("err"):
            out = "err"
        elif ob.get("inv"):
            out = "invoked"
        elif ob.get("st") in (401, 403, 404, 405, 500):
            out = "refused"
        else:
            out = "noinv/%s" % ob.get("st")
    if q.get("origin") in ("local", "portless", "foreign", "bad", "garbage"):
        what = "origin=%s" % q.get("origin")
    elif q.get("azk") != "none":
        what = "az=%s" % q.get("azk")
    elif q.get("ckk") != "none":
        what = "ck=%s" % q.get("ckk")
    elif q.get("origin") != "none":
        what = "origin=%s" % q.get("origin")
    else:
        what = "route=%s:%s" % (q.get("route"), q.get("m"))
    return "req:%s:%s:%s" % (q.get("via"), what, out)


def ev_sig(ev):
    if ev.get("e") == "req":
        return req_sig(ev)
    if ev.get("e") == "apipanic":
        return "apipanic:%s:%s:st=%s:probe=%s" % (ev.get("kind"), ev.get("pv"), ev.get("st"), ev.get("probe"))
    if ev.get("e") in ("keys", "dev", "storm"):
        return "config:%s:%s" % (ev.get("e"), ev.get("err") or "ok")
    return "event:%s" % ev.get("e")


def slim(h):
    return [{k: v for k, v in e.items() if k not in STRIP} for e in h]


def judge(ctx, scripts, hists, owner, sig=None):
    ok, rej, unex = vlib.validate(ctx, "ApiAuthTrace", "ApiAuthTrace.cfg", [slim(h) for h in hists], timeout=2400,
                                  max_reject=12)
    for hi, ej, _ in rej:
        ev = hists[hi][ej]
        ctx.violation(sig or ev_sig(ev),
                      "script %d (%s) event %d: the observed answer is not an outcome the ApiAuth model allows: %s" % (
                          owner[hi], scripts[owner[hi]].get("kind"), ej, json.dumps(ev)[:900]),
                      {"script": scripts[owner[hi]], "observed": hists[hi][max(0, ej - 3):ej + 1]})
    return ok, unex


def run(ctx):
    quick = ctx.tier == "quick"
    # 1. the model: laws on every cell of the decision table (and the cells as scripts), laws on every
    #    reachable state of the configuration/session machine x small request space, random histories
    nsim = 4 if quick else 24
    per_sim = 90 if quick else 500
    jobs = [("table",), ("machine",)] + [("sim", k) for k in range(nsim)] + [("storm",)]

    def work(j):
        if j[0] == "table":
            return table(ctx, not quick)
        if j[0] == "machine":
            return machine(ctx, 2 if quick else 5)
        if j[0] == "storm":   # a few histories with concurrent configuration changes
            return simulate(ctx, 99, 8 if quick else 32, True, storms=True)
        return simulate(ctx, j[1], per_sim, j[1] % 4 != 3)
    out = ctx.pmap(work, jobs)
    (tr, groups), mr = out[0], out[1]
    sims = [h for part in out[2:] for h in part]
    if len(sims) < nsim * per_sim // 2:
        raise vlib.Inconclusive("history generation produced only %d histories" % len(sims))
    scripts = build_scripts(ctx, groups, sims, 250)
    # 2. the implementation
    hists, owner, infra = execute(ctx, scripts)
    # 3. the verdict
    ok, unex = judge(ctx, scripts, hists, owner)
    reqs = [e for h in hists for e in h if e.get("e") == "req"]
    pans = [e for h in hists for e in h if e.get("e") == "apipanic"]
    # distinct cases: (abstract request, expiry phase, dev mode, authenticator behaviour) of requests that carry a
    # credential or an Origin, use the bridge, or address a routed handler (bookkeeping only, no judgement)
    seen = set()
    for h in hists:
        dev, auth, authset = False, ("nil", 1, 1), True
        for e in h:
            k = e.get("e")
            if k == "new":
                dev, auth, authset = False, ("nil", 1, 1), e.get("authset")
            elif k in ("dev", "storm"):
                dev = e.get("on")
            elif k == "auth":
                auth = (e.get("mode"), e.get("r"), e.get("w"))
            elif k == "req":
                q = e["q"]
                if q["azk"] != "none" or q["ckk"] != "none" or q["origin"] != "none" or q["via"] == "bridge" \
                        or q["route"] in ("wrap", "ep", "getonly", "plain"):
                    seen.add(json.dumps([q, e["phase"], dev, auth if authset else None], sort_keys=True))
    distinct = len(seen)
    after = sum(1 for e in reqs if e["phase"] == "after" and e["q"]["azk"] in ("bearer", "basic"))
    cells = sum(len(g["ops"]) for g in groups)
    samples = [{k: e[k] for k in ("q", "phase", "ob", "hdr")} for e in reqs
               if e["q"]["azk"] in ("short", "basicbad", "bearer") or e["q"]["ckk"] == "sess"][:3] + pans[:1]
    vlib.finish(ctx, LEVEL, {
        "traces_validated_against_impl": ok,
        "evaluations": len(reqs) + len(pans), "distinct_nontrivial": distinct,
        "rule": "one evaluation = one request sent to the running api server (HTTP over loopback, or a database access "
                "through the api: bridge) judged by TLC against spec/ApiAuth.tla; requests come from the decision table "
                "enumerated by TLC (spec/ApiAuthTable.tla, %s) and from histories of key-configuration / dev-mode / "
                "authenticator / session operations drawn by TLC -simulate from spec/ApiAuthGen.tla (depth 30); "
                "non-trivial = carries a credential or an Origin, uses the bridge, or addresses a routed handler; "
                "distinct = distinct (abstract request, expiry phase, dev mode, authenticator behaviour)" % (
                    "complete table" if not quick else "covering subset"),
        "table_cells": cells, "table_groups": len(groups), "histories": len(sims), "scripts": len(scripts),
        "requests": len(reqs), "api_panic_probes": len(pans), "requests_after_key_expiry": after,
        "table_states": tr.distinct, "machine_states": mr.distinct,
        "histories_dropped_reload_not_settled": infra, "histories_unexamined_after_rejections": unex,
        "samples": samples, "exhaustive": not quick,
        "exhaustive_note": "thorough: every cell of required permission (9 values incl. both out-of-range sides) x other "
                           "class permission x 12 method/preflight forms x every credential source and state alone (46 "
                           "Authorization classes, 17 Cookie classes, 9 combinations), plus the authenticator, origin, dev-mode, "
                           "bridge, expired-key and no-authenticator slices; header strings are drawn per class, not enumerated",
    }, ["TLC + spec/ApiAuth.tla is the only oracle; where the property statement is silent the model allows every outcome "
        "(refusal status any of 401/403/404/405/500; preflight and unclassified methods: no handler, any answer)",
        "session expiry and the session cleaner are reached through the verif-tagged accessors api.VerifExpireSession / "
        "VerifCleanSessions; the asynchronous reload of the key table is awaited through api.VerifHasAPIKey",
        "a key that expires during the history: requests are classified before/after/around the expiry instant by the "
        "driver's wall clock (1 ms margin), 'around' allows both outcomes",
        "configuration changes are applied one at a time and awaited (reload hook and clean-up microtask at rest)"])


def replay(ctx, path):
    with open(path) as fh:
        doc = json.load(fh)
    script = doc["replay"]["script"]
    hists, owner, _ = execute(ctx, [script])
    for v in ctx.violations:   # a dead server process
        v["sig"] = doc["signature"]
    if hists:
        judge(ctx, [script], hists, owner, sig=doc["signature"])
    vlib.finish(ctx, LEVEL, {"states": 1, "transitions": 1, "traces_validated_against_impl": len(hists) - (len(ctx.violations) > 0),
                             "samples": [script["steps"][-1]]}, ["replay of one recorded script"])
