"""C13 — every database-API message gets the replies its protocol prescribes.

spec/DbApi.tla: the API (api/database.go) as a protocol monitor: per operation id the automaton of its
request (get / query / sub / qsub / create / update / insert / delete, cancel, malformed classes), a store
projection as a non-local non-internal interface sees it (3 JSON fields per record; secret and crown jewel
records are hidden), notification accounting for subscriptions.  Req / Rep / EndOK.
spec/DbApiGen.tla: client + most general server: TLC checks the laws of the monitor (a finished operation
is silent, hidden records never shown, a written record is read back, accounting) and, under a fair server,
that every connection becomes quiet with nothing owed; -simulate generates the request scripts.
harness/cmd/dbapi: one process per script (exit status = crash detector), real hashmap / bbolt databases
holding JSON, CBOR, raw, empty, secret, crown jewel and unreadable records; requests one at a time or in
bursts with cancels and concurrent internal writers; every message logged inside send.
spec/DbApiTrace.tla: TLC validates the recorded message traces against the monitor.
"""
import json
import re
import threading
from concurrent.futures import ThreadPoolExecutor

import vlib

LEVEL = "model_checking"
ALLFAMS = '{"get", "query", "sub", "qsub", "put", "insert", "delete", "cancel", "mal", "iw"}'
INV = ["TypeOK", "ReplyLaws", "ReadBackPossible", "Counters", "StoreSane"]
OPCMDS = ("get", "query", "sub", "qsub", "create", "update", "insert", "delete")


def q(xs):
    return "{" + ", ".join('"%s"' % x for x in xs) + "}"


def mc_consts(mode, maxreq, keys, qs, kinds, fams):
    return {"MaxId": 1, "MaxReq": maxreq, "Emit": False, "GenIds": "{0, 1}", "GenKeys": keys, "GenQs": qs,
            "GenModes": q([mode]), "GenKinds": q(kinds), "GenFams": fams if fams.startswith("{") else q(fams.split()),
            "GenBackends": q(["hashmap"])}


def model_check(ctx, quick):
    """Laws of the monitor itself (BFS) and absence of traps (liveness under a fair server)."""
    allk = ["abs", "json", "opq", "hid", "bad"]
    runs = [
        # read-back: writes and reads of one key, every initial kind
        ("safety", mc_consts("seq", 3, "{1}", "{2}", allk, "put insert get delete")),
        # subscriptions: notification accounting
        ("safety", mc_consts("seq", 3, "{1}", "{2, 7}", ["abs", "json", "hid"] if quick else ["abs", "json", "opq", "hid"],
                             "sub qsub cancel put iw")),
        # concurrent requests, cancels, malformed messages, unreadable records
        ("safety", mc_consts("burst", 3, "{1}", "{2, 7}", ["json", "hid", "bad"], "query qsub cancel mal get")),
        # everything, two requests
        ("safety", mc_consts("seq", 2, "{1, 2}", "{2, 7}", ["json", "hid"] if quick else allk, ALLFAMS)),
        ("live", mc_consts("seq", 2, "{1}", "{2, 7}", allk, ALLFAMS)),
        ("live", mc_consts("burst", 2, "{1}", "{2, 7}", ["json", "hid", "bad"], ALLFAMS)),
    ]
    if not quick:
        runs += [
            ("safety", mc_consts("burst", 2, "{1, 2}", "{2, 7}", ["json", "opq", "hid", "bad"], ALLFAMS)),
            ("safety", mc_consts("seq", 4, "{1}", "{2}", ["abs", "json"], "sub cancel put iw")),
            ("safety", mc_consts("burst", 4, "{1, 2}", "{2}", ["json", "bad"], "query get cancel")),
            ("safety", mc_consts("seq", 3, "{1, 2}", "{2}", ["json", "hid"], "put insert get delete query")),
            ("live", mc_consts("seq", 3, "{1}", "{2}", ["abs", "json", "hid"], "sub qsub cancel put iw")),
            ("live", mc_consts("burst", 3, "{1}", "{2, 7}", ["json", "bad"], "query qsub cancel mal")),
        ]

    def one(r):
        kind, consts = r
        if kind == "safety":
            return ctx.tlc("DbApiGen", cfg_text=vlib.cfg_text(spec="Spec", constants=consts, invariants=INV),
                           workers=4, timeout=1500)
        return ctx.tlc("DbApiGen", cfg_text=vlib.cfg_text(spec="FairSpec", constants=consts, properties=["Quiesces"]),
                       workers=4, timeout=1500)
    return ctx.pmap(one, runs, par=len(runs))


def generate(ctx, quick):
    """Request scripts from TLC -simulate: the general mix and five focused mixes."""
    base = {"MaxId": 31, "Emit": True, "GenIds": "{" + ", ".join(str(i) for i in range(0, 26)) + "}",
            "GenKeys": "{1, 2, 3, 4, 5}", "GenQs": "{1, 2, 3, 4, 5, 6, 7, 8}", "GenModes": q(["seq", "burst"]),
            "GenKinds": q(["abs", "json", "opq", "hid", "bad"]), "GenFams": "{}", "GenBackends": q(["hashmap", "bbolt"])}
    m = 1 if quick else 30
    jobs = []
    for n in (8, 12, 16):
        for part in range(1 if quick else 6):
            jobs.append((dict(base, MaxReq=n), 160 * m // (1 if quick else 6)))
    # queries over unreadable records (the iterator fails: `done` would be wrong)
    jobs.append((dict(base, MaxReq=24, GenModes=q(["seq"]), GenKinds=q(["bad", "json"]), GenBackends=q(["bbolt"]),
                      GenFams=q(["query", "qsub", "get"]), GenQs="{1, 2, 3, 8}"), 40 * m))
    # concurrent queries and writes of stored records
    jobs.append((dict(base, MaxReq=20, GenModes=q(["burst"]), GenKinds=q(["json", "opq"]),
                      GenFams=q(["query", "qsub", "insert", "delete", "put", "iw"]), GenQs="{1, 2, 8}",
                      GenKeys="{1, 2, 3}"), 20 * m))
    # ... many queries against inserts into the records they iterate over (the in-memory backend hands out
    # the stored objects themselves)
    jobs.append((dict(base, MaxReq=24, GenModes=q(["burst"]), GenKinds=q(["json"]), GenBackends=q(["hashmap"]),
                      GenFams=q(["query", "insert"]), GenQs="{1, 2}", GenKeys="{1, 2, 3}"), 30 * m))
    # the first requests a database ever sees, concurrently (requests for an unregistered database hold the
    # lock of the database registry for a moment and release the waiting ones at the same instant)
    jobs.append((dict(base, MaxReq=16, GenModes=q(["burst"]), GenKinds=q(["abs"]), GenBackends=q(["hashmap"]),
                      GenFams=q(["get", "sub", "qsub", "put", "insert", "cancel"]),
                      GenQs="{1, 2, 4, 6}", GenKeys="{1, 2, 3, 5}"), 80 * m))
    # subscriptions fed by writers, cancels
    jobs.append((dict(base, MaxReq=16, GenKinds=q(["json", "hid", "opq", "abs"]),
                      GenFams=q(["sub", "qsub", "cancel", "put", "insert", "delete", "iw", "iw"]), GenQs="{1, 2, 3, 4, 8}",
                      GenKeys="{1, 2, 3}"), 40 * m))

    def gen(a):
        k, (consts, num) = a
        r = ctx.tlc("DbApiGen", cfg_text=vlib.cfg_text(spec="Spec", constants=consts), mode="simulate",
                    num=num, depth=consts["MaxReq"] + 4, seed=ctx.seed * 101 + k, timeout=900, count=False)
        return r.emitted()
    scripts = []
    for part in ctx.pmap(gen, list(enumerate(jobs))):
        scripts.extend(part)
    want = sum(n for _, n in jobs)
    if len(scripts) < want * 3 // 4:
        raise vlib.Inconclusive("script generation produced only %d of %d scripts" % (len(scripts), want))
    for i, s in enumerate(scripts):
        s["seed"] = ctx.seed * 1000003 + i
    return scripts


def clean(evs):
    out = []
    for e in evs:
        if e.get("e") in ("note", "try"):
            continue
        out.append(e)
    return out


def op_of(hist, ej):
    ev = hist[ej]
    for e in reversed(hist[:ej]):
        if e.get("e") == "req" and e.get("id") == ev.get("id") and e.get("cmd") in OPCMDS:
            return e
    return None


def unanswered(hist):
    """Requests without the reply that ends them (for signatures and descriptions only; TLC has judged already)."""
    need = {"get": ("ok", "error"), "query": ("done", "error"), "qsub": ("done", "error"), "create": ("success", "error"),
            "update": ("success", "error"), "insert": ("success", "error"), "delete": ("success", "error"),
            "cancel": ("done", "error"), "mal": ("error",)}
    out = []
    sublike = set()
    for i, e in enumerate(hist):
        if e.get("e") != "req" or e.get("cmd") not in need:
            continue
        if e["cmd"] in ("qsub",):
            sublike.add(e["id"])
        if e["cmd"] == "cancel" and e["id"] not in sublike and not any(
                x.get("e") == "req" and x.get("cmd") == "sub" and x.get("id") == e["id"] for x in hist[:i]):
            continue     # a cancel of something that is no subscription may stay unanswered
        ids = (e["id"], 0) if e["cmd"] == "mal" else (e["id"],)
        if not any(x.get("e") == "rep" and x.get("id") in ids and x.get("typ") in need[e["cmd"]] for x in hist[i + 1:]):
            out.append("probe" if e.get("probe") else e["cmd"])
    return out


def sig_of(hist, ej):
    ev = hist[ej]
    init = hist[0] if hist else {}
    mode = init.get("mode", "?")
    what = ev.get("e")
    if what == "died":
        if ev.get("why") == "timeout":
            return "hang:%s:%s" % (mode, init.get("backend", "?"))
        m = re.search(r"github\.com/safing/portbase/([\w/]+\.(?:\(\*?\w+\)\.)?\w+)", ev.get("stderr", ""))
        return "crash:%s" % (m.group(1) if m else "unknown")
    if what == "rep":
        o = op_of(hist, ej)
        cmd = o["cmd"] if o else "noop"
        extra = ""
        if cmd in ("query", "qsub") and any(r.get("k") == "bad" for r in init.get("store", [])):
            extra = ":unreadable-record"
        if ev.get("id", -1) < 0:
            cmd = "unknown-id"
        return "reply:%s:%s:%s%s" % (mode, cmd, ev.get("typ"), extra)
    if what == "end":
        missing = ",".join(sorted(set(unanswered(hist[:ej])))) or "none"
        if not ev.get("probe_answered", True):
            return "wedge:%s:%s" % (mode, init.get("backend", "?"))
        return "unanswered:%s:%s:%s" % (mode, init.get("backend", "?"), missing)
    return "%s:%s" % (what, mode)


def describe(hist, ej):
    ev = hist[ej]
    lines = []
    for e in hist[max(1, ej - 14):ej + 1]:
        raw = ""
        if e.get("raw"):
            try:
                raw = repr(bytes.fromhex(e["raw"])[:120])
            except ValueError:
                raw = e["raw"][:60]
        if e.get("e") == "req":
            lines.append("  -> %s id=%s key=%s q=%s pf=%s c=%s %s" % (e.get("cmd"), e.get("id"), e.get("key"), e.get("q"),
                                                                   e.get("pf"), e.get("c"), raw))
        elif e.get("e") == "rep":
            lines.append("  <- %s id=%s key=%s c=%s meta=%s %s" % (e.get("typ"), e.get("id"), e.get("key"), e.get("c"),
                                                                 e.get("meta"), raw))
        else:
            lines.append("  %s %s" % (e.get("e"), json.dumps({k: v for k, v in e.items() if k not in ("stacks", "stderr", "e")})[:300]))
    init = hist[0]
    head = "mode=%s backend=%s store=%s" % (init.get("mode"), init.get("backend"),
                                          [(r.get("k"), r.get("c")) for r in init.get("store", [])])
    tail = ""
    if ev.get("e") == "died":
        tail = "\nprocess died (%s):\n%s" % (ev.get("why"), "\n".join(ev.get("stderr", "").splitlines()[:14]))
    if ev.get("e") == "end" and ev.get("stacks"):
        tail = "\nthe API did not become quiet; goroutines:\n%s" % ev["stacks"][:2500]
    return "event %d is not allowed by the protocol monitor DbApi (%s)\n%s%s" % (ej, head, "\n".join(lines), tail)


def execute(ctx, scripts):
    binp = ctx.go_build("dbapi")
    res = vlib.drive(ctx, binp, scripts, chunk=max(4, len(scripts) // 48), timeout=1500)
    hists, owner = [], []
    for i, r in enumerate(res):
        if r["crashed"]:
            raise vlib.Inconclusive("the dbapi parent process failed: %s" % r["crashed"][:600])
        evs = clean(r["events"])
        for e in evs:
            if e.get("e") == "infra":
                raise vlib.Inconclusive("driver could not set up script %d: %s" % (i, e.get("msg")))
        if not evs or evs[0].get("e") != "new":
            raise vlib.Inconclusive("no trace for script %d" % i)
        hists.append(evs)
        owner.append(i)
    return hists, owner


def judge(ctx, scripts, hists, owner):
    # one TLC state per event: keep every behaviour far below TLC's limit of 65535 states
    nev = sum(len(h) for h in hists)
    ok, rej, unex = vlib.validate(ctx, "DbApiTrace", "DbApiTrace.cfg", hists, max_reject=60,
                                  chunks=max(1, min(len(hists), (nev + 11999) // 12000)))
    for hi, ej, ev in rej:
        ctx.violation(sig_of(hists[hi], ej), describe(hists[hi], ej),
                      {"script": scripts[owner[hi]], "observed": hists[hi][:ej + 1]})
    return ok, unex


def serialise_sub(ctx):
    """ctx.sub numbers the scratch directories without a lock; this check calls it from several threads."""
    lock = threading.Lock()
    orig = ctx.sub

    def sub(name):
        with lock:
            return orig(name)
    ctx.sub = sub


def run(ctx):
    quick = ctx.tier == "quick"
    serialise_sub(ctx)
    with ThreadPoolExecutor(max_workers=1) as bg:
        mc = bg.submit(model_check, ctx, quick)          # runs while the scripts are generated and replayed
        scripts = generate(ctx, quick)
        hists, owner = execute(ctx, scripts)
        ok, unex = judge(ctx, scripts, hists, owner)
        mcs = mc.result()
    nreq = sum(len(s["steps"]) for s in scripts)
    nev = sum(len(h) for h in hists)
    modes = {}
    for s in scripts:
        k = s["mode"] + "/" + s["backend"]
        modes[k] = modes.get(k, 0) + 1
    vlib.finish(ctx, LEVEL, {
        "states": sum(r.distinct for r in mcs), "transitions": sum(r.generated for r in mcs),
        "traces_validated_against_impl": ok,
        "evaluations": len(scripts), "requests_sent": nreq, "events_validated": nev,
        "scripts_by_mode_backend": modes, "histories_unexamined_after_rejections": unex,
        "rule": "request scripts generated by TLC -simulate from spec/DbApiGen.tla (8/12/16 requests, sequential and "
                "burst mode, hashmap and bbolt; plus focused mixes: queries over unreadable records, concurrent queries "
                "and writes, first requests on an unopened database, subscriptions with writers); each script runs in "
                "a process of its own",
        "samples": scripts[:2],
        "exhaustive": False,
    }, ["the model-checked universes are small (2 ids, 1-2 keys, 2-3 requests); the replayed scripts use 26 ids, 5 keys, "
        "8 query classes and 27 record contents",
        "payload equality is judged on 3 JSON fields with 2 values each (concrete values chosen per script by the driver); "
        "other payloads (non-object JSON, CBOR, raw ...) are opaque: any read result is allowed for them",
        "a subscription is taken as registered when no goroutine of the process is runnable any more (goroutine dump)",
        "query language beyond key prefixes and plain where clauses is property C11; struct (non-wrapper) records, "
        "the websocket framing and operation ids shared by concurrently running operations are not exercised"])


def replay(ctx, path):
    with open(path) as fh:
        doc = json.load(fh)
    serialise_sub(ctx)
    script = doc["replay"]["script"]
    reps = 1 if doc["signature"].startswith("crash:") else 200   # races need a few attempts
    scripts = [dict(script) for _ in range(reps)]
    hists, owner = execute(ctx, scripts)
    ok, rej, _ = vlib.validate(ctx, "DbApiTrace", "DbApiTrace.cfg", hists, max_reject=5)
    for hi, ej, ev in rej:
        ctx.violation(sig_of(hists[hi], ej), "replay: " + describe(hists[hi], ej), doc["replay"])
    vlib.finish(ctx, LEVEL, {"states": 1, "transitions": 1, "traces_validated_against_impl": ok,
                             "samples": [script]}, ["replay of one recorded script (%d runs)" % reps])
