"""C02 — every database backend behaves like one reference key-to-record store.

spec/RecordStore.tla       reference model: a plain map key -> (data fields, metadata); `StepAt(st, op, t)` = set of allowed
                           outcomes of one interface call at time t (put, put-new, get, exists, delete, batch put, purge,
                           expiry setting, flags, maintenance, query(prefix, condition), flush, tick); query semantics from
                           spec/QuerySem.tla; `Post` judges an observed answer; `OpLaws` = laws of the model itself.
spec/RecordStoreGen.tla    TLC breadth first over every reachable state of small key sets (laws as invariants) and
                           -simulate generation of operation histories.
spec/RecordStoreTrace.tla  TLC judges what real interfaces answered: driver harness/cmd/dbx runs every history on
                           {hashmap, bbolt, fstree, badger} x shadow delete {on, off} x cache {none, read cache, delayed write
                           cache with the DelayedCacheWriter running}, records written as typed structs and as wrapped JSON
                           and read back both ways, raw storage inspected around maintenance calls.
spec/Iterator.tla          producer/consumer hand-over of a query's terminal error: TLC shows the window of the order
                           "close, then store" and that "store, then close" is safe; its behaviours are schedules for the
spec/IteratorTrace.tla     yield point iterator.finish.mid of the real iterator, the recorded events are judged by a monitor.
"""
import json
import os
import shutil
import tempfile

import vlib

LEVEL = "model_checking"
DRIVER = "dbx"
KEYCH = " abcd/xyzqr"
WRITES = ("Put", "PutNew", "Delete", "PutMany", "Purge", "SetAbsoluteExpiry", "SetRelativeExpiry", "MakeSecret", "MakeCrownJewel")


def kstr(codes):
    return "".join(KEYCH[c] if 0 < c < len(KEYCH) else "?" for c in codes)


def configs(backends, caches):
    out = []
    for b in backends:
        for sd in (True, False):
            for c in caches:
                if c == "write" and b in ("fstree", "badger"):
                    continue    # the delayed write cache needs a backend with batch support
                out.append({"b": b, "sd": sd, "c": c, "cs": 64})
    return out


# ------------------------------------------------------------------------------------------ model checking
def model_checking(ctx):
    quick = ctx.tier == "quick"
    invs = ["StateOK", "LawsOK"]
    # (key set, depth, workers, Always... option of the interface)
    plan = [(1, 3, 6, "none"), (3, 2, 4, "none"), (1, 2, 2, "abs"), (1, 2, 2, "rel")] if quick else \
           [(1, 4, 8, "none"), (2, 4, 6, "none"), (3, 3, 8, "none"), (4, 3, 8, "none"),
            (1, 3, 4, "abs"), (1, 3, 4, "rel"), (2, 3, 4, "sec"), (2, 3, 4, "cj")]

    def job(p):
        ks, depth, workers, opt = p
        r = ctx.tlc("RecordStoreGen", cfg_text=vlib.cfg_text(
            constants={"MaxLen": depth, "Emit": False, "Timed": False, "BfsKeys": ks, "BfsOpt": '"%s"' % opt},
            invariants=invs, view="View"), workers=workers, timeout=3000)
        return "keys%d-depth%d-%s" % (ks, depth, opt), {"states": r.distinct, "transitions": r.generated, "depth": r.depth}
    return dict(ctx.pmap(job, plan, par=min(4, len(plan))))


# ------------------------------------------------------------------------------------------ histories
def gen_histories(ctx):
    quick = ctx.tier == "quick"
    # (Timed, operations per history, number of histories)
    plan = [(False, 12, 60), (False, 25, 100), (False, 25, 100), (False, 40, 40)] if quick else \
           [(False, 12, 150), (False, 25, 200), (False, 25, 200), (False, 25, 200), (False, 40, 120), (False, 60, 60),
            (True, 14, 24), (True, 14, 24), (True, 20, 24), (True, 20, 24)]    # (about 5 GB of recorded events in this process)

    def gen(k):
        timed, depth, num = plan[k]
        r = ctx.tlc("RecordStoreGen", cfg_text=vlib.cfg_text(
            constants={"MaxLen": depth, "Emit": True, "Timed": timed, "BfsKeys": 1, "BfsOpt": '"none"'}), mode="simulate", num=num,
            depth=depth + 3, seed=ctx.seed * 101 + k, timeout=1500, count=False)
        return r.emitted()
    scripts = []
    for part in ctx.pmap(gen, range(len(plan))):
        scripts.extend(part)
    want = sum(n for _, _, n in plan)
    if len(scripts) < want // 2:
        raise vlib.Inconclusive("history generation produced only %d of %d scripts" % (len(scripts), want))
    scripts.extend(directed_expiry(scripts))
    return scripts


BLANK = {"op": "Get", "k": [], "data": [], "m": {"cr": 0, "exp": 0, "del": False, "rel": 0, "sec": False, "cj": False},
         "form": "", "pfx": [], "cond": {"op": "", "k": "and", "key": [], "val": {"b": False, "t": "none", "i": 0, "s": [], "l": []}, "sub": []},
         "x": 0, "batch": []}


def directed_expiry(scripts):
    """Directed timed history (both tiers): maintenance and reads in exactly the second in which a record expires - the record
    is still valid in that second ("expires < now") - and in the second after it."""
    tpl = next((st for sc in scripts for st in sc["steps"] if st["op"] == "Put" and st.get("data")), None)
    if tpl is None:
        return []
    # expiry values of a script are offsets from the time of the call (0: none)
    KAB, KAD, KAB2 = [1, 5, 2], [1, 5, 4], [1, 2]
    M = lambda exp: dict(BLANK["m"], exp=exp)
    op = lambda name, **kw: dict(BLANK, op=name, **kw)
    put = lambda k, exp: dict(tpl, op="Put", k=k, m=M(exp))
    reads = [op("Get", k=KAB), op("Get", k=KAD), op("Get", k=KAB2), op("Query"), op("Exists", k=KAB)]
    out = []
    for maint in ("MaintainRecordStates", "Maintain", "MaintainThorough"):
        steps = [op("Tick", x=1), put(KAB, 2), put(KAD, 0), put(KAB2, -10), op("Tick", x=2)] + reads + [op(maint)] + reads + \
                [op("Tick", x=1)] + reads + [op(maint)] + reads + [op("Purge")] + reads
        cfgs = [dict(c, cs=64 if c["c"] != "none" else 0) for c in configs(["hashmap", "bbolt"], ["none", "read"])] + \
               [dict(c, cs=0) for c in configs(["fstree", "badger"], ["none"])]
        out.append({"keys": [KAB, KAD, KAB2], "fs": True, "timed": True, "opt": {"k": "none", "x": 0}, "steps": steps,
                    "directed": "expiry", "swept": True, "cfgs": cfgs})
    return out


def assign_configs(ctx, scripts):
    """Routing only: which configurations a history is run on (file-tree only for key sets the spec marks as legal)."""
    quick = ctx.tier == "quick"
    fast = configs(["hashmap", "bbolt"], ["none", "read", "write"])
    fst = configs(["fstree"], ["none", "read"])
    bad = configs(["badger"], ["none", "read"])
    timed_all = configs(["hashmap", "bbolt", "fstree", "badger"], ["none", "read"])
    nt = 0
    for i, s in enumerate(scripts):
        if s.get("directed"):
            continue       # configurations and steps are fixed
        if s["timed"]:
            # clock ticks take real seconds: four configurations per history, rotating
            pool = [c for c in timed_all if s["fs"] or c["b"] != "fstree"]
            s["cfgs"] = [pool[(nt * 4 + j) % len(pool)] for j in range(4)]
            nt += 1
            continue
        # cache sizes: smaller than the key set (evictions, records re-read from storage and kept), the usual 64, and
        # 1024 (flush thresholds are computed in percent of the size: few pending writes are 0 percent)
        cs = {3: 2, 1: 3, 6: 1024, 2: 1024}.get(i % 8, 64)
        # two closing sweeps of Get over all keys: what was read from storage earlier and is still cached is read again
        blank = {"op": "Get", "k": [], "data": [], "m": {"cr": 0, "exp": 0, "del": False, "rel": 0, "sec": False, "cj": False},
                 "form": "", "pfx": [], "cond": {"op": "", "k": "and", "key": [], "val": {"b": False, "t": "none", "i": 0, "s": [], "l": []}, "sub": []},
                 "x": 0, "batch": []}
        if not s.get("swept"):
            ks = [st["k"] for st in s["steps"] if st.get("k")]
            uniq = []
            for k in ks:
                if k not in uniq:
                    uniq.append(k)
            puts = [st for st in s["steps"] if st["op"] in ("Put", "PutNew") and st.get("data")]
            sweep = []
            if puts:
                # a batch put (documented cache bypass: the driver clears the read cache behind it), so that the
                # following reads come from storage and their results stay in the cache ...
                last = puts[-1]
                sweep.append(dict(blank, op="PutMany", batch=[{"k": last["k"], "data": last["data"], "m": last["m"], "form": last["form"]}]))
            sweep += [dict(blank, k=k) for k in uniq]
            # ... while further writes go to storage (several transactions, so that freed pages are reused), and
            # everything is read again after each round
            for rnd_ in range(4):
                seen = []
                for st in reversed(puts[: len(puts) - rnd_] or puts):
                    if st["k"] not in seen:
                        seen.append(st["k"])
                        sweep.append(dict(st, op="Put"))
                    if len(seen) >= 3:
                        break
                sweep += [dict(blank, k=k) for k in uniq]
            # a slow consumer: all records are queried, three records are written while the results wait, then they are read
            if len(puts) >= 2:
                sweep.append(dict(blank, op="Query", late=3))
                sweep += [dict(st, op="Put") for st in (puts[-3:] if len(puts) >= 3 else puts + puts[:1])]
                sweep += [dict(blank, k=k) for k in uniq]
            # prefix sweep (every third history): every key of the key set is stored, then every cut of every key is used as
            # a query prefix - a prefix that names a directory of the file tree while a sibling key continues its last segment
            # (a/b next to ab, prefix a), a prefix that ends inside a segment, a whole key
            if puts and i % 3 == 1:
                allk = sorted(s.get("keys", []))
                sweep += [dict(puts[-1], op="Put", k=k, m=dict(puts[-1]["m"], **{"del": False, "exp": 0, "rel": 0})) for k in allk]
                cuts = []
                for k in allk:
                    for j in range(1, len(k) + 1):
                        if k[:j] not in cuts:
                            cuts.append(k[:j])
                sweep += [dict(blank, op="Query", pfx=c) for c in cuts]
            s["steps"] += sweep
            s["swept"] = True
        sel = list(fast)
        if s["fs"]:
            sel += fst
        if not quick or i % 3 == 0:
            sel += bad                    # badger opens slowly: a subset in the quick tier
        s["cfgs"] = [dict(c, cs=cs if c["c"] != "none" else 0) for c in sel]
    return scripts


def split_histories(scripts, res):
    """One recorded history per (script, configuration)."""
    hists, owner, crashes = [], [], []
    for i, r in enumerate(res):
        by = {}
        for e in r["events"]:
            if e.get("e") == "skip":
                raise vlib.Inconclusive("the driver could not set up a database: %s" % e.get("why"))
            if e.get("e") in ("reset", "op"):
                by.setdefault(e.get("c", 0), []).append(e)
        for c in sorted(by):
            hists.append(by[c])
            owner.append((i, c))
        if r["crashed"]:
            tries = [e for e in r["events"] if e.get("e") == "try"]
            last_op = [e for e in r["events"] if e.get("e") == "op"]
            hung = bool(last_op and last_op[-1]["res"].get("panic"))
            crashes.append((i, tries[-1] if tries else {}, r["crashed"], hung))
    return hists, owner, crashes


def op_sig(hist, ej):
    """Stable description of the rejected call: operation, backend, cache mode, what came back, class of input."""
    ev = hist[ej]
    cfg = hist[0].get("cfg", {})
    if ev.get("e") != "op":
        return "%s:%s" % (ev.get("e"), cfg.get("b"))
    o, r = ev["op"], ev["res"]
    parts = [o["op"], cfg.get("b", "?"), "cache=" + cfg.get("c", "?")]
    if r.get("panic"):
        parts.append("hang" if r["panic"].startswith("hang") else "panic")
    else:
        parts.append("err=" + r.get("err", "?"))
    if o["op"] in ("Query", "Purge"):
        parts.append("pfx=" + kstr(o["pfx"]))
        if o["op"] == "Query":
            parts.append("iterr=" + r.get("iterr", "?"))
    elif o.get("k"):
        prev = [e["op"]["op"] for e in hist[1:ej] if e["op"]["op"] in WRITES and
                (e["op"].get("k") == o["k"] or e["op"]["op"] in ("PutMany", "Purge"))]
        parts.append("after=" + (prev[-1] if prev else "none"))
    return ":".join(parts)


def describe(ev):
    if ev.get("e") != "op":
        return json.dumps(ev)[:300]
    o, r = ev["op"], ev["res"]
    what = {"op": o["op"]}
    if o.get("k"):
        what["key"] = kstr(o["k"])
    if o["op"] in ("Query", "Purge"):
        what["prefix"] = kstr(o["pfx"])
        what["cond"] = o["cond"]
    if o["op"] in ("Put", "PutNew"):
        what["meta"] = o["m"]
        what["form"] = o["form"]
    if o["op"] in ("SetAbsoluteExpiry", "SetRelativeExpiry", "Tick"):
        what["x"] = o["x"]
    if o["op"] == "PutMany":
        what["batch"] = [kstr(b["k"]) for b in o["batch"]]
    got = {k: v for k, v in r.items() if k in ("err", "flag", "n", "iterr", "panic", "info") and v not in ("", None)}
    got["items"] = [{"key": kstr(i["key"]), "cr": i["cr"], "mo": i["mo"], "exp": i["exp"], "rel": i["rel"],
                     "sec": i["sec"], "cj": i["cj"], "wrapped": i.get("w")} for i in r.get("items", [])]
    if r.get("pb") or r.get("pa"):
        got["stored_before"] = [kstr(k) for k in r["pb"]]
        got["stored_after"] = [kstr(k) for k in r["pa"]]
    return "%s -> %s (clock %s..%s)" % (json.dumps(what), json.dumps(got), ev.get("t0"), ev.get("t1"))


def run_histories(ctx, scripts, env):
    """Drives and judges the histories in batches (the recorded events of all histories at once take many gigabytes)."""
    binp = ctx.go_build(DRIVER)
    timed = [s for s in scripts if s.get("timed")]
    plain = [s for s in scripts if not s.get("timed")]
    total = {"accepted": 0, "rejected": 0, "unexamined": 0, "events": 0, "histories": 0,
             "per_backend": {b: 0 for b in ("hashmap", "bbolt", "fstree", "badger")}, "per_cache": {c: 0 for c in ("none", "read", "write")}}
    batches = [("plain", plain[i:i + 240]) for i in range(0, len(plain), 240)] + ([("timed", timed)] if timed else [])
    base = 0
    for kind, order in batches:
        if kind == "plain":
            res = vlib.drive(ctx, binp, order, chunk=max(2, (len(order) + 47) // 48), timeout=600, env=env)
        else:
            res = vlib.drive(ctx, binp, order, chunk=max(1, (len(order) + 31) // 32), timeout=1200, env=env, par=32)
        hists, owner, crashes = split_histories(order, res)
        del res
        for i, last, why, hung in crashes:
            if hung:
                continue    # the call that did not return is in the trace and is judged by TLC
            ctx.violation("crash:%s" % last.get("op", "?"),
                          "the driver process died while executing %s: %s" % (json.dumps(last), why[:600]),
                          {"script": order[i]})
        for h in hists:
            for e in h:
                e.pop("h", None)
                e.pop("c", None)
        if hists:
            ok, rej, unex = vlib.validate(ctx, "RecordStoreTrace", "RecordStoreTrace.cfg", hists, max_reject=12, timeout=1500)
        else:
            ok, rej, unex = 0, [], 0
        for hi, ej, ev in rej:
            si, ci = owner[hi]
            cfg = hists[hi][0].get("cfg", {})
            sc = dict(order[si])
            sc["cfgs"] = [cfg]
            before = [describe(e) for e in hists[hi][max(1, ej - 4):ej]]
            ctx.violation(op_sig(hists[hi], ej),
                          "history %d on %s (shadow delete %s, cache %s/%s), call %d is not allowed by spec/RecordStore.tla: %s\n  preceding calls: %s" % (
                              base + si, cfg.get("b"), cfg.get("sd"), cfg.get("c"), cfg.get("cs"), ej, describe(ev), " | ".join(before)),
                          {"script": sc, "observed": hists[hi][:ej + 1]})
        total["accepted"] += ok
        total["rejected"] += len(rej)
        total["unexamined"] += unex
        total["events"] += sum(len(h) - 1 for h in hists)
        total["histories"] += len(hists)
        for h in hists:
            cfg = h[0].get("cfg", {})
            if cfg.get("b") in total["per_backend"]:
                total["per_backend"][cfg["b"]] += 1
            if cfg.get("c") in total["per_cache"]:
                total["per_cache"][cfg["c"]] += 1
        base += len(order)
        del hists, owner
    if not total["histories"]:
        raise vlib.Inconclusive("the driver recorded nothing")
    return total


# ------------------------------------------------------------------------------------------ iterator hand-over
def run_iterator(ctx, env):
    mc = {}
    policies = []
    for has_err in (True, False):
        good = ctx.tlc("Iterator", cfg_text=vlib.cfg_text(constants={"StoreFirst": True, "HasErr": has_err, "Emit": True},
                                                          invariants=["ErrHandOver"]), workers=1, timeout=600)
        mc["store-then-close:err=%s" % has_err] = {"states": good.distinct, "transitions": good.generated}
        policies += good.emitted()
        # the schedules of the other order (the window) are replayed against the real code as well
        allb = ctx.tlc("Iterator", cfg_text=vlib.cfg_text(constants={"StoreFirst": False, "HasErr": has_err, "Emit": True}),
                       workers=1, timeout=600)
        mc["close-then-store:err=%s" % has_err] = {"states": allb.distinct, "transitions": allb.generated}
        policies += allb.emitted()
    # the model has to show the window: with "close, then store" a consumer can read nil although the storage failed
    bad = ctx.tlc("Iterator", cfg_text=vlib.cfg_text(constants={"StoreFirst": False, "HasErr": True, "Emit": False},
                                                     invariants=["ErrHandOver"]), workers=1, timeout=600, want_ok=False, count=False)
    if bad.violated != "ErrHandOver":
        raise vlib.Inconclusive("spec/Iterator.tla does not show the hand-over window of the close-then-store order")
    scripts = []
    seen = set()
    for p in policies:
        for items in (0, 3, 10):
            key = (tuple(p["policy"]), p["err"], items)
            if key in seen:
                continue
            seen.add(key)
            scripts.append({"kind": "iter", "policy": p["policy"], "err": p["err"], "items": items})
    if len(scripts) < 12:
        raise vlib.Inconclusive("only %d iterator schedules generated" % len(scripts))
    nsched = len(scripts)
    # a real storage error: a consumer that starts late lets the backend run into its result-stream timeout
    # (badger waits a minute for its consumer: left out)
    scripts += [{"kind": "slowq", "backend": b, "total": 15, "waitms": 1400} for b in ("hashmap", "bbolt", "fstree")]
    # a purge of more records than a storage handles in one batch (bbolt: 1000), in both delete modes
    scripts += [{"kind": "bulk", "backend": b, "sd": sd, "total": 2300 if ctx.tier == "quick" else 5200}
                for b in ("bbolt", "hashmap") for sd in (False, True)]
    binp = ctx.go_build(DRIVER)
    res = vlib.drive(ctx, binp, scripts[:nsched], chunk=max(1, nsched // 8), timeout=120, env=env)
    res += vlib.drive(ctx, binp, scripts[nsched:], chunk=1, timeout=120, env=env)
    hists, owner = [], []
    for i, r in enumerate(res):
        if any(e.get("e") == "skip" for e in r["events"]):
            raise vlib.Inconclusive("the driver could not set up the slow-consumer scenario: %s" % r["events"])
        if r["crashed"]:
            ctx.violation("crash:iterator", "the driver died in an iterator schedule: %s" % r["crashed"][:500], {"script": scripts[i]})
            continue
        evs = [dict((k, v) for k, v in e.items() if k != "h") for e in r["events"]]
        if not evs:
            raise vlib.Inconclusive("no events recorded for iterator schedule %d" % i)
        hists.append(evs)
        owner.append(i)
    ok, rej, unex = vlib.validate(ctx, "IteratorTrace", "IteratorTrace.cfg", hists, chunks=2)
    for hi, ej, ev in rej:
        sc = scripts[owner[hi]]
        if sc["kind"] == "bulk":
            ctx.violation("bulkpurge:%s:sd=%s:%s" % (sc["backend"], str(sc["sd"]).lower(), "left" if ev.get("left") else "count"),
                          "purge of %d records below one prefix on %s (shadow delete %s): %s" % (
                              sc["total"], sc["backend"], sc["sd"], json.dumps(ev)), {"script": sc, "observed": hists[hi]})
            continue
        if sc["kind"] == "slowq":
            ctx.violation("slowquery:%s:%s:err=%s" % (sc["backend"], "short" if ev.get("n", 0) < sc["total"] else "complete", ev.get("v")),
                          "%s with %d matching records and a consumer that starts %d ms late: %s" % (
                              sc["backend"], sc["total"], sc["waitms"], json.dumps(ev)), {"script": sc, "observed": hists[hi]})
            continue
        ctx.violation("iterator:%s:got=%s:want=%s" % (ev.get("e"), ev.get("v", ev.get("n")), hists[hi][0].get("err")),
                      "schedule %s, %d records, storage error %s: the consumer saw the end of the stream and then %s; events: %s" % (
                          "".join(sc["policy"]), sc["items"], sc["err"], json.dumps(ev), json.dumps(hists[hi])),
                      {"script": sc, "observed": hists[hi]})
    return {"schedules": len(scripts), "accepted": ok, "unexamined": unex, "model_checking": mc}


# ------------------------------------------------------------------------------------------ entry points
def _tmp_env():
    """The driver's databases live in memory-backed storage when there is one (bbolt and badger sync every write)."""
    for base in ("/dev/shm", None):
        try:
            if base is None or (os.path.isdir(base) and os.access(base, os.W_OK)):
                d = tempfile.mkdtemp(prefix="verif-c02-", dir=base)
                return d, {"TMPDIR": d}
        except OSError:
            continue
    return None, {}


def nontrivial(s):
    ops = [st["op"] for st in s["steps"]]
    return sum(1 for o in ops if o in ("Put", "PutNew", "PutMany")) >= 2 and any(o in ("Get", "Query", "Exists") for o in ops)


def run(ctx):
    tmpd, env = _tmp_env()
    try:
        ctx.go_build(DRIVER)

        def histories(c):
            sc = assign_configs(c, gen_histories(c))
            return sc, run_histories(c, sc, env)
        out = ctx.pmap(lambda f: f(ctx), [model_checking, histories, lambda c: run_iterator(c, env)], par=3)
    finally:
        if tmpd:
            shutil.rmtree(tmpd, ignore_errors=True)
    mc, (scripts, hs), it = out
    allmc = dict(mc)
    allmc.update({"iterator:" + k: v for k, v in it["model_checking"].items()})
    sample = dict(scripts[0], steps=scripts[0]["steps"][:6], cfgs=scripts[0]["cfgs"][:2])
    vlib.finish(ctx, LEVEL, {
        "states": sum(m["states"] for m in allmc.values()), "transitions": sum(m["transitions"] for m in allmc.values()),
        "traces_validated_against_impl": hs["accepted"] + it["accepted"],
        "evaluations": hs["histories"] + it["schedules"],
        "distinct_nontrivial": len({vlib.sha(s["steps"]) for s in scripts if nontrivial(s)}),
        "rule": "operation histories generated by TLC -simulate from spec/RecordStoreGen.tla (12..60 calls over 3..6 keys), each "
                "executed on several backend x delete mode x cache configurations and judged call by call by TLC "
                "(spec/RecordStoreTrace.tla); non-trivial = at least two writes of records and a read or query, distinct by hash "
                "of the operation sequence; plus every schedule of the iterator hand-over (spec/Iterator.tla)",
        "histories_generated": len(scripts), "timed_histories": sum(1 for s in scripts if s["timed"]),
        "histories_run": hs["histories"], "calls_validated": hs["events"], "histories_rejected": hs["rejected"],
        "histories_unexamined_after_rejections": hs["unexamined"] + it["unexamined"],
        "per_backend": hs["per_backend"], "per_cache": hs["per_cache"], "iterator_schedules": it["schedules"],
        "model_checking": allmc,
        "samples": [sample],
        "exhaustive": False,
        "exhaustive_note": "exhaustive: laws of the reference model on all states reachable within the stated depth over 2-3 keys, "
                           "all schedules of the iterator hand-over; sampled: histories over up to 6 keys",
    }, ["spec/RecordStore.tla is the oracle; one fully privileged interface per history, used exclusively",
        "PutMany is documented to bypass the cache: the driver flushes delayed writes before it and clears the read cache after it; "
        "on a write-cached interface queries and maintenance are preceded by FlushCache (documented precondition)",
        "PutMany/Purge may answer 'not implemented' (store unchanged); a relative expiry set through the interface may take effect at "
        "once or at the next save; Modified is checked as a lower bound (a delayed write may refresh it); the purge count may include expired records",
        "clock: every call is logged with the second before and after it and judged for any second in between; clock ticks, expiry "
        "times a few seconds ahead and relative expiries only in the thorough tier (real waits), without the write cache",
        "file-tree backend only for key sets without a key that is a directory of another (precondition of the property); "
        "storage errors cannot be injected into a real backend: the error hand-over is checked on the iterator itself",
        "physical removal is observed through storage.Interface.Get on every key of the model's key universe (verif accessor database.VerifStorage)"])


def replay(ctx, path):
    with open(path) as fh:
        doc = json.load(fh)
    sc = doc["replay"]["script"]
    tmpd, env = _tmp_env()
    try:
        if sc.get("kind") in ("iter", "slowq", "bulk"):
            binp = ctx.go_build(DRIVER)
            res = vlib.drive(ctx, binp, [sc], chunk=1, env=env)
            evs = [dict((k, v) for k, v in e.items() if k != "h") for e in res[0]["events"]]
            ok, rej, _ = vlib.validate(ctx, "IteratorTrace", "IteratorTrace.cfg", [evs])
            for hi, ej, ev in rej:
                ctx.violation(doc["signature"], "replay: %s rejected; events: %s" % (json.dumps(ev), json.dumps(evs)), doc["replay"])
            n = ok
        else:
            sc.setdefault("timed", False)
            hs = run_histories(ctx, [sc], env)
            n = hs["accepted"]
    finally:
        if tmpd:
            shutil.rmtree(tmpd, ignore_errors=True)
    vlib.finish(ctx, LEVEL, {"states": 1, "transitions": 1, "traces_validated_against_impl": n,
                             "samples": [dict(sc, steps=sc.get("steps", [])[:6])]}, ["replay of one recorded case"])
