"""C14 — subscriptions deliver every matching write in order; hooks fire as registered.

Sequential part (shared with checks/c03.py): spec/RecordAccess.tla models subscriptions (query, owner privileges,
active, feed, capacity) and hooks (query, phases, pass / replace / veto); spec/RecordAccessGen.tla is model-checked
(breadth first) for the laws of the model - feeds are exactly the permitted matching writes of the active period in
write order (FeedExact), nothing on an inactive subscription, hooks only inside their registration and in registration
order, a failed or vetoed call changes nothing - and generates histories (TLC -simulate, flavour c14: subscriptions and
hooks also share one query object); the driver harness/cmd/dbacc executes them on the real database package (feeds
drained and hook calls collected after every call); spec/RecordAccessTrace.tla judges every recorded call.

Concurrent part: spec/SubCancel.tla is the implementation-shaped model of Controller.Put/PushUpdate notifying vs
Subscription.Cancel; TLC explores every interleaving (no send on a closed feed, no delivery after Cancel returned, ...).
Its behaviours, projected to actor sequences (spec/SubCancelGen.tla), drive writers and cancellers of the real package
through the yield points put.beforeNotify / push.beforeNotify / sub.cancel.locked (build tag verif); the recorded events
are judged by the property-level monitor spec/SubCancelTrace.tla; a send on a closed feed kills the driver process.
"""
import json
import random

import vlib
from checks import c03

LEVEL = "model_checking"
DRIVER = "dbacc"
SC_INV = ["NoSendOnClosed", "NoDeliveryAfterCancel", "ClosedAfterReturn", "ClosedOnlyByOwnCancel", "AtMostOnce",
          "WriterOrder", "Complete", "CompleteBeforeCancel"]


# ------------------------------------------------------------------------------------------ model checking
def sc_consts(nw, per, nsub, cancels, sameq, bypointer=False, cap=10):
    return {"NW": nw, "WritesPer": per, "NSub": nsub, "Cancels": c03.tla_set(cancels), "SameQuery": sameq,
            "ByPointer": bypointer, "Cap": cap}


def model_check(ctx):
    quick = ctx.tier == "quick"
    jobs = []
    # sequential model: hooks (every reachable state of a one-key domain), history-level feed law (bounded depth)
    jobs.append(lambda: c03.bfs_laws(ctx, "c14", keys=(1,), ns=(1,) if quick else (1, 2), ifs=(1, 4), subs=(1,), hooks=(1,),
                                     qs=(1, 2), phases=(1, 5, 6) if quick else (1, 2, 3, 4, 5, 6),
                                     fams=["put", "mut", "read", "sub", "unsub", "hook", "unhook", "push"], workers=6))
    jobs.append(lambda: ctx.tlc("RecordAccessGen", cfg_text=vlib.cfg_text(
        constants=c03.gen_consts("bfs", "c14", maxlen=4 if quick else 5, keys=(1,), ns=(1,), ifs=(1, 4), subs=(1,), hooks=(),
                                 qs=(1, 2), phases=(), fams=["put", "mut", "sub", "unsub", "push"], track=True),
        invariants=["LawsOK", "FeedsOK"], constraint="Depth", view="GenView"), workers=6, timeout=3000))
    # concurrent model: every interleaving
    combos = [(2, 1, 2, (1, 2), True), (2, 2, 2, (2,), True), (2, 2, 2, (1, 2), False), (2, 1, 2, (1,), False)]
    if not quick:
        combos += [(2, 2, 2, (1, 2), True), (3, 1, 2, (1, 2), True), (2, 2, 3, (1, 3), True), (2, 2, 2, (1,), True)]
    for nw, per, nsub, cancels, sameq in combos:
        jobs.append(lambda a=(nw, per, nsub, cancels, sameq): ctx.tlc("SubCancel", cfg_text=vlib.cfg_text(
            constants=sc_consts(*a), invariants=SC_INV), workers=2, timeout=1500))
    # a feed that fills up: drops are allowed, everything else still holds
    jobs.append(lambda: ctx.tlc("SubCancel", cfg_text=vlib.cfg_text(
        constants=sc_consts(2, 2, 2, (1,), True, cap=2), invariants=SC_INV), workers=2, timeout=1500))
    res = ctx.pmap(lambda f: f(), jobs, par=len(jobs))
    # the model of the defect of the pinned tree (entries compared by query pointer) must show the panic: this run is
    # about the model, not about the code, and is not counted as coverage
    r = ctx.tlc("SubCancel", cfg_text=vlib.cfg_text(constants=sc_consts(2, 1, 2, (2,), True, bypointer=True),
                                                    invariants=SC_INV), workers=2, timeout=600, want_ok=False, count=False)
    if r.violated != "NoSendOnClosed" and r.violated != "Complete":
        raise vlib.Inconclusive("SubCancel with ByPointer does not reproduce the send on a closed feed: %s" % r.out[-600:])
    return res


# ------------------------------------------------------------------------------------------ concurrent schedules
def conc_scripts(ctx):
    quick = ctx.tier == "quick"
    per_cfg = 8 if quick else 60
    rnd = random.Random(ctx.seed * 7919 + 3)
    cfgs = []
    for sameq in (True, False):
        for cancels in ((1,), (2,), (1, 2)):
            for per in (1, 2):
                cfgs.append((2, per, 2, cancels, sameq))
    if not quick:
        cfgs += [(3, 1, 2, (1, 2), True), (2, 2, 3, (1, 3), True), (2, 2, 3, (2, 3), False), (3, 2, 2, (2,), True)]

    def one(a):
        k, c = a
        r = ctx.tlc("SubCancelGen", cfg_text=vlib.cfg_text(spec="GenSpec", constants=sc_consts(*c)), mode="simulate",
                    num=per_cfg, depth=200, seed=ctx.seed * 613 + k, timeout=900, count=False)
        return r.emitted()
    scripts = []
    for part in ctx.pmap(one, list(enumerate(cfgs))):
        for g in part:
            backend = rnd.choice(["hashmap", "hashmap", "bbolt", "runtime"])
            kinds = ["put", "delete"] if backend != "runtime" else ["put", "push"]
            scripts.append({"mode": "conc", "backend": backend, "typed": rnd.random() < 0.5, "shadow": False,
                            "nw": g["nw"], "per": g["per"], "nsub": g["nsub"], "cancels": sorted(g["cancels"]),
                            "sameq": g["sameq"], "policy": g["policy"],
                            "wkinds": [rnd.choice(kinds) for _ in range(g["nw"])]})
    return scripts


def conc_sig(script, ev):
    return "conc:%s:sameq=%s:cancels=%s" % (ev.get("e", "?"), str(script["sameq"]).lower(), ",".join(map(str, script["cancels"])))


def run_conc(ctx, scripts):
    binp = ctx.go_build(DRIVER)
    res = vlib.drive(ctx, binp, scripts, chunk=max(2, len(scripts) // 40), timeout=240, env={"TMPDIR": ctx.scratch})
    hists, owner = [], []
    for i, r in enumerate(res):
        evs = r["events"]
        if r["crashed"]:
            kind = "send-on-closed" if "send on closed channel" in r["crashed"] else "died"
            ctx.violation("conc:crash:%s:sameq=%s:cancels=%s" % (kind, str(scripts[i]["sameq"]).lower(), ",".join(map(str, scripts[i]["cancels"]))),
                          "the driver process died while writers and Cancel ran concurrently: %s\nevents so far: %s" % (
                              r["crashed"][:700], json.dumps(evs)[:1200]),
                          {"script": scripts[i], "observed": evs})
            continue
        if not evs or evs[0].get("e") != "init":
            raise vlib.Inconclusive("the driver recorded no run for schedule %d: %s" % (i, json.dumps(evs[:1])[:300]))
        if any(e.get("e") == "hang" for e in evs):
            ctx.violation("conc:hang:sameq=%s" % str(scripts[i]["sameq"]).lower(),
                          "writers / cancellers did not finish within 15 s: %s" % json.dumps(evs)[:1500],
                          {"script": scripts[i], "observed": evs})
            continue
        for e in evs:
            e.pop("h", None)
        hists.append(evs)
        owner.append(i)
    ok, rej, unex = vlib.validate(ctx, "SubCancelTrace", "SubCancelTrace.cfg", hists)
    for hi, ej, ev in rej:
        ctx.violation(conc_sig(scripts[owner[hi]], ev),
                      "schedule %d: event %d rejected by spec/SubCancelTrace.tla: %s\ntrace: %s" % (
                          owner[hi], ej, json.dumps(ev), json.dumps(hists[hi])[:2500]),
                      {"script": scripts[owner[hi]], "observed": hists[hi]})
    return {"accepted": ok, "run": len(hists), "unexamined": unex}


# ------------------------------------------------------------------------------------------ entry points
def nontrivial_c14(s):
    """A history is non-trivial for C14 if something is written while a subscription or hook is registered."""
    armed = False
    for st in s["steps"]:
        if st["op"] in ("Subscribe", "Qsub", "RegisterHook"):
            armed = True
        elif armed and st["op"] in ("Put", "PutNew", "InsertValue", "Delete", "Push", "MakeSecret", "MakeCrownJewel",
                                    "SetAbsoluteExpiry", "SetRelativeExpiry", "Burst", "Get"):
            return True
    return False


# ---------------------------------------------------------------------------------------------- hooks vs Cancel
def hook_part(ctx):
    """spec/HookCancel.tla (operations iterating the hook list under the read lock vs RegisteredHook.Cancel): TLC
    checks the code-shaped variant, refutes the regression variant (iteration without the lock), and behaviours of
    both become schedules for harness/cmd/hookx (hooks are gates); HookTrace/HookAbs judges the recorded events."""
    import json as _json
    quick = ctx.tier == "quick"
    inv = ["NoCallAfterCancel", "AtMostOncePerOp", "InOrder", "Complete"]

    def hc(nh, cancels, nops, hold):
        return {"NHooks": nh, "Cancels": "{%s}" % ", ".join(str(c) for c in cancels), "NOps": nops, "HoldLock": hold}
    for nh, cs, no in ([(3, (2,), 2)] if quick else [(3, (2,), 2), (3, (1, 3), 2), (4, (2, 3), 2)]):
        ctx.tlc("HookCancel", cfg_text=vlib.cfg_text(constants=hc(nh, cs, no, True), invariants=inv, properties=["AllDone"]),
                timeout=1800)
    r = ctx.tlc("HookCancel", cfg_text=vlib.cfg_text(constants=hc(3, (2,), 2, False), invariants=inv), timeout=900,
                want_ok=False, count=False)
    if not r.violated:
        raise vlib.Inconclusive("HookCancel: the variant without the lock was not refuted (model insensitive)")
    cfgs = [(3, (2,), 2, True), (3, (2,), 2, False), (3, (1, 3), 2, False), (4, (2, 3), 2, False), (3, (1,), 3, False)]
    per = 12 if quick else 80

    def one(a):
        k, (nh, cs, no, hold) = a
        rr = ctx.tlc("HookCancelGen", cfg_text=vlib.cfg_text(spec="GenSpec", constants=hc(nh, cs, no, hold)), mode="simulate",
                     num=per, depth=80, seed=ctx.seed * 433 + k, timeout=600, count=False)
        return rr.emitted()
    scripts = []
    for part in ctx.pmap(one, list(enumerate(cfgs))):
        for i, g in enumerate(part):
            scripts.append({"hooks": g["hooks"], "cancels": sorted(g["cancels"]), "ops": g["ops"],
                            "kind": "put" if i % 3 else "get", "policy": g["policy"]})
    binp = ctx.go_build("hookx")
    res = vlib.drive(ctx, binp, scripts, chunk=1, timeout=60)
    hists, owner = [], []
    for i, rr in enumerate(res):
        if rr["crashed"]:
            ctx.violation("hooks:crash", "hookx died: %s" % rr["crashed"][:600], {"script": scripts[i], "hookx": True})
            continue
        evs = rr["events"]
        for e in evs:
            e.pop("h", None)
            e.pop("seq", None)
        hists.append(evs)
        owner.append(i)
    ok, rej, unex = vlib.validate(ctx, "HookTrace", "HookTrace.cfg", hists)
    for hi, ej, ev in rej:
        what = ev.get("e")
        ctx.violation("hooks:%s:%s" % (what, scripts[owner[hi]]["kind"]),
                      "event %d rejected by HookAbs: %s\ntrace: %s" % (ej, _json.dumps(ev), _json.dumps(hists[hi][:ej + 1])[:2000]),
                      {"script": scripts[owner[hi]], "hookx": True, "observed": hists[hi]})
    return {"hook_schedules": len(scripts), "hook_schedules_accepted": ok, "hook_unexamined": unex}


def run(ctx):
    quick = ctx.tier == "quick"
    ctx.go_build(DRIVER)

    def part_mc(c):
        return model_check(c)

    def part_sim(c):
        plan = [(12, 40)] * 6 + [(18, 35)] * 8 if quick else [(12, 300)] * 6 + [(18, 300)] * 8 + [(28, 150)] * 4
        sc = c03.sim_scripts(c, "c14", plan)
        burst = c03.sim_scripts(c, "c14", [(8, 6 if quick else 24)], burst=1003,
                                fams=["put", "sub", "unsub", "burst", "push", "mut"])
        scripts = c03.expand(c, sc + burst, every_backend=False, salt=1)
        return sc + burst, scripts, c03.run_hist(c, scripts)

    def part_conc(c):
        sc = conc_scripts(c)
        return sc, run_conc(c, sc)
    mc, (sims, sscripts, sstat), (cscripts, cstat), hstat = ctx.pmap(lambda f: f(ctx), [part_mc, part_sim, part_conc, hook_part], par=4)
    distinct = len({vlib.sha({k: s[k] for k in ("steps", "backend", "typed", "shadow", "cachei", "queries")})
                    for s in sscripts if nontrivial_c14(s)}) + \
        len({vlib.sha({k: s[k] for k in ("policy", "cancels", "sameq", "backend", "wkinds")}) for s in cscripts})
    bursts = sum(1 for s in sscripts for st in s["steps"] if st["op"] == "Burst")
    sameobj = sum(1 for s in sscripts if len([st["q"] for st in s["steps"] if st["op"] in ("Subscribe", "RegisterHook")]) >
                  len({(st["op"], st["q"]) for st in s["steps"] if st["op"] in ("Subscribe", "RegisterHook")}))
    vlib.finish(ctx, LEVEL, {
        "traces_validated_against_impl": sstat["accepted"] + cstat["accepted"] + hstat["hook_schedules_accepted"],
        "evaluations": len(sscripts) + len(cscripts) + hstat["hook_schedules"], "distinct_nontrivial": distinct,
        "hooks_vs_cancel": hstat,
        "rule": "histories: TLC -simulate of spec/RecordAccessGen.tla (flavour c14: subscribe/cancel, hook register/cancel, "
                "put/delete/insert/flag/expiry calls by interfaces of every privilege combination, pushed updates of an injected "
                "database, database-API subscriptions, one burst beyond the feed buffer), one backend each; non-trivial = a write "
                "or get happens while a subscription or hook is registered.  schedules: behaviours of spec/SubCancel.tla (TLC "
                "-simulate of SubCancelGen) as actor sequences for 2-3 writers (put / delete / pushed update) and 1-2 cancellers, "
                "subscriptions from one shared or from separate query objects; distinct by content hash",
        "histories": len(sims), "history_executions": sstat["run"], "history_accepted": sstat["accepted"],
        "calls_judged": sstat["calls"], "calls_failing_outside_model": sstat["other_errors"],
        "bursts_beyond_feed_capacity": bursts, "histories_sharing_a_query_object": sameobj,
        "schedules": len(cscripts), "schedules_accepted": cstat["accepted"],
        "schedules_unexamined_after_rejections": cstat["unexamined"],
        "backends": c03.backends(ctx) + ["runtime"],
        "samples": [sscripts[0], cscripts[0]],
        "exhaustive": False,
        "exhaustive_note": "exhaustive: all interleavings of spec/SubCancel.tla for the listed constants, reachable states of the "
                           "breadth-first domains of RecordAccessGen; sampled: histories and schedules",
    }, ["spec/RecordAccess.tla / spec/SubCancelTrace.tla are the oracles",
        "bulk calls are not judged for notification: PutMany is documented to omit hooks and subscriptions, Purge works inside "
        "the storage layer; both outcomes (announced / not announced) are allowed",
        "hooks are exercised on uncached interfaces and without shadow delete (a cached get does not reach the controller; "
        "a shadow-deleted record is still loaded and shown to post-get hooks)",
        "a hook that replaces the record hands the replacement to the hooks registered after it (pipeline reading of 'may replace')",
        "API subscription replies are judged as a subsequence of the expected deliveries (C13 judges the protocol)",
        "yield points compiled in with -tags verif; a policy releases actors in the order of a model behaviour, what is judged "
        "is the recorded trace, never the schedule"])


def replay(ctx, path):
    with open(path) as fh:
        doc = json.load(fh)
    script = doc["replay"]["script"]
    if doc["replay"].get("hookx"):
        binp = ctx.go_build("hookx")
        res = vlib.drive(ctx, binp, [script], chunk=1, timeout=60)
        evs = res[0]["events"]
        for e in evs:
            e.pop("h", None)
            e.pop("seq", None)
        if res[0]["crashed"]:
            ctx.violation(doc["signature"], "replay: hookx died", doc["replay"])
        ok, rej, _ = vlib.validate(ctx, "HookTrace", "HookTrace.cfg", [evs])
        for hi, ej, ev in rej:
            ctx.violation(doc["signature"], "replay: event %d rejected: %s" % (ej, json.dumps(ev)), doc["replay"])
        vlib.finish(ctx, LEVEL, {"states": 1, "transitions": 1, "traces_validated_against_impl": ok, "samples": [script]},
                    ["replay of one hook schedule"])
    if script.get("mode") == "conc":
        st = run_conc(ctx, [script])
    else:
        st = c03.run_hist(ctx, [script], chunk=1)
    vlib.finish(ctx, LEVEL, {"states": 1, "transitions": 1, "traces_validated_against_impl": st["accepted"],
                             "samples": [script]}, ["replay of one recorded script"])
