"""C05 — stopping a module waits for all of its managed work.

StopProtocol.tla: Module.stop/stopAllTasks step by step, the stop-function goroutine and the work items
with the counter decrement and the five separate reads of checkIfStopComplete; TLC checks all
interleavings (safety + liveness under weak fairness).  StopProtocolGen: behaviours as actor
sequences = policies for the yield-point driver harness/cmd/stopwork (hooks: stop.*, work.dec,
task.dec, micro.dec, micro.conclude, ctrl.unset, stop.beforeclose).  StopTrace/StopAbs: TLC validates
the recorded events (work begin/end, ctx state, stop fn, offline, dependency stop, Shutdown return
with promptness) against the property-level monitor.
"""
import json
import random
import vlib

LEVEL = "model_checking"
INV = ["CancelBeforeStopFn", "OfflineAfterWork", "NoLostSignal", "CountersNonNeg"]
CONCRETE = {
    "worker": ["worker", "startworker", "service", "hook", "xhook"],
    "task": ["task"],
    "micro": ["micro_high", "micro_med", "micro_low", "startmicro", "signal"],
}


def consts(n, kinds, fn, after=False, tail="none"):
    k = list(kinds) + ["worker"] * 4
    return {"NItems": n, "K1": '"%s"' % k[0], "K2": '"%s"' % k[1], "K3": '"%s"' % k[2], "K4": '"%s"' % k[3],
            "HasStopFn": fn, "ManualCtrl": True, "StopAfterWork": after, "LateTail": '"%s"' % tail}


def model_check(ctx, quick):
    runs = [(2, ("worker", "task"), True), (2, ("micro", "worker"), False), (3, ("worker", "task", "micro"), True)]
    if not quick:
        runs += [(3, ("micro", "micro", "worker"), False), (4, ("worker", "task", "micro", "micro"), True)]
    for n, kinds, fn in runs:
        ctx.tlc("StopProtocol", cfg_text=vlib.cfg_text(constants=consts(n, kinds, fn), invariants=INV,
                                                       properties=["StopCompletes"]), timeout=3000)
    # the goroutine of the previous control function (the start routine) signals its end only while the stop is under way:
    # harmless when it ends its own invocation only (repaired tree) ...
    ctx.tlc("StopProtocol", cfg_text=vlib.cfg_text(constants=consts(2, ("worker", "task"), True, tail="own"), invariants=INV,
                                                   properties=["StopCompletes"]), timeout=3000)
    # ... and the model must see the defect when it clears the flag unconditionally (finding F-C01-2)
    r = ctx.tlc("StopProtocol", cfg_text=vlib.cfg_text(constants=consts(2, ("worker", "task"), True, tail="clears"),
                                                       invariants=["OfflineAfterWork"]), timeout=3000, want_ok=False, count=False)
    if r.violated != "OfflineAfterWork":
        raise vlib.Inconclusive("StopProtocol does not see the late end of the previous control function (model is insensitive)")


def gen_scripts(ctx, quick, after=False, outs=("ok", "ok", "ok", "err"), per=None):
    rnd = random.Random(ctx.seed + (17 if after else 0))
    cfgs = []
    kindsets = [("worker",), ("task",), ("micro",), ("worker", "task"), ("micro", "worker"), ("task", "micro"),
                ("worker", "task", "micro"), ("micro", "micro", "worker"), ("worker", "worker", "task"),
                ("worker", "task", "micro", "micro")]
    for ks in kindsets:
        for fn in (True, False):
            cfgs.append((len(ks), ks, fn))
    per = per or (10 if quick else 80)

    def one(a):
        k, (n, ks, fn) = a
        cc = consts(n, ks, fn, after)
        # every third configuration holds the first item(s) back until the stop only waits for them
        cc["LateItems"] = "{}" if after or k % 3 else ("{1}" if k % 2 else "{1, 2}")
        r = ctx.tlc("StopProtocolGen", cfg_text=vlib.cfg_text(spec="GenSpec", constants=cc),
                    mode="simulate", num=per, depth=150, seed=ctx.seed * 977 + k + (5000 if after else 0),
                    timeout=900, count=False)
        return r.emitted()
    scripts = []
    for part in ctx.pmap(one, list(enumerate(cfgs))):
        for g in part:
            items = []
            for i, k in enumerate(g["kinds"]):
                ck = rnd.choice(CONCRETE[k])
                out = rnd.choice(outs)
                if ck == "signal" and out.startswith("panic"):
                    out = "ok"   # the code between Signal*MicroTask and done() is the caller's own, not managed
                if ck == "service" and rnd.random() < 0.25:
                    out = "restartnow"   # returns an error wrapping ErrRestartNow, before as well as after the cancellation
                it = {"id": "i%d" % (i + 1), "kind": ck, "out": out, "done": rnd.choice([1, 2, 3])}
                if ck == "service" and out != "ok" and not after and rnd.random() < 0.6:
                    it["bo"] = 6000    # still in its restart back-off when the module is stopped
                if ck in ("worker", "startworker") and rnd.random() < 0.3:
                    it["pre"] = True     # started before the module system: its context must be cancelled by the stop all the same
                items.append(it)
            pol = ["stopper" if a == 0 else "fn" if a == -1 else "i%d" % a for a in g["policy"]]
            scripts.append({"items": items, "hasStopFn": g["hasStopFn"], "dep": True,
                            # every fourth stop routine fails: the stop sequence goes on all the same
                            "stopErr": bool(g["hasStopFn"]) and rnd.random() < 0.25,
                            "mode": rnd.choice(["shutdown", "manage"]), "probes": True, "waitAgain": after,
                            "policy": pol})
    # directed: a task that was taken from the queue and waits for its time slot (the microtask limit is reached)
    # when the stop begins - it never runs, and nothing of it may hold up the stop
    if not after:
        for fn in (True, False):
            for mode in ("shutdown", "manage"):
                items = [{"id": "i1", "kind": "micro_med", "out": "ok", "done": 1}, {"id": "i2", "kind": "micro_med", "out": "ok", "done": 1},
                         {"id": "i3", "kind": "task", "out": "ok", "done": 1}]
                scripts.append({"items": items, "hasStopFn": fn, "dep": True, "mode": mode, "probes": True, "waitAgain": False,
                                "microLimit": 2, "directed": "timeslot",
                                "policy": ["i1", "i2", "i3", "stopper", "stopper", "stopper", "stopper", "fn", "i1", "i2",
                                           "i1", "i2", "stopper", "fn", "stopper", "i1", "i2", "stopper"]})
        # directed: work that was started before the module system was (it lives on across the start of its module) and
        # returns after the stop routine has begun
        for kind in ("worker", "startworker"):
            for mode in ("shutdown", "manage"):
                scripts.append({"items": [{"id": "i1", "kind": kind, "out": "ok", "done": 1, "pre": True},
                                          {"id": "i2", "kind": "worker", "out": "ok", "done": 1}],
                                "hasStopFn": True, "dep": True, "mode": mode, "probes": True, "waitAgain": False, "directed": "prestart",
                                "policy": ["i2", "stopper", "stopper", "stopper", "stopper", "fn", "i1", "i2", "fn", "stopper", "stopper"]})
        # directed: the judged history is the second life cycle of the module - in the first one the stop ran into its
        # timeout (a worker that ignores its context), the module was started again and the straggler returned
        for items, pol in (([{"id": "i1", "kind": "worker", "out": "ok", "done": 1}, {"id": "i2", "kind": "task", "out": "ok", "done": 1}],
                            ["i1", "i2", "stopper", "stopper", "stopper", "stopper", "fn", "i1", "fn", "i2", "stopper", "stopper"]),
                           ([{"id": "i1", "kind": "micro_med", "out": "ok", "done": 1}, {"id": "i2", "kind": "startworker", "out": "ok", "done": 1}],
                            ["i1", "i2", "stopper", "stopper", "stopper", "stopper", "i2", "fn", "fn", "i1", "stopper", "stopper"])):
            for fn in (True, False):
                scripts.append({"items": items, "hasStopFn": fn, "dep": True, "mode": "manage", "probes": True, "waitAgain": False,
                                "prelude": True, "directed": "secondcycle", "policy": pol})
        # directed: a service worker whose function has failed and which sits in a long restart back-off when its module is
        # stopped (by the shutdown and by module management): the back-off must end with the module's stop
        for out in ("err", "panic_str"):
            for mode in ("shutdown", "manage"):
                scripts.append({"items": [{"id": "i1", "kind": "service", "out": out, "done": 1, "bo": 6000},
                                          {"id": "i2", "kind": "worker", "out": "ok", "done": 1}],
                                "hasStopFn": True, "dep": True, "mode": mode, "probes": True, "waitAgain": False, "directed": "backoff",
                                "policy": ["i1", "stopper", "stopper", "stopper", "stopper", "fn", "i2", "fn", "stopper", "stopper"]})
    return scripts


def sig_of(hist, ej):
    ev = hist[ej]
    init = hist[0]
    what = ev.get("e", "?")
    extra = ""
    if what in ("wbegin", "wend", "wret", "report", "restarted"):
        try:
            k = init["kinds"][init["ids"].index(ev["i"])]
        except Exception:
            k = "?"
        extra = ":" + k
        if what == "wbegin":
            extra += ":ctxdone=%s" % str(ev.get("ctxdone")).lower()
    if what == "stopret":
        late = ev.get("t", 0) - max([e.get("t", 0) for e in hist[:ej] if e.get("e") in ("wend", "fnend", "released", "stopcall")] or [0])
        extra = ":late" if late > 2500 else ":early"
    if what == "final":
        extra = ":w%s:t%s:m%s" % (ev.get("workers"), ev.get("tasks"), ev.get("micro"))
    return "%s%s:mode=%s" % (what, extra, init.get("mode"))


def execute(ctx, scripts, timeout=120):
    binp = ctx.go_build("stopwork")
    res = vlib.drive(ctx, binp, scripts, chunk=1, timeout=timeout)
    hists, owner = [], []
    for i, r in enumerate(res):
        evs = r["events"]
        if r["crashed"]:
            kinds = ",".join(sorted({it["kind"] + ":" + it["out"] for it in scripts[i]["items"] if it["out"].startswith("panic")}))
            ctx.violation("crash:" + (kinds or "nopanic"), "driver process died: %s" % r["crashed"][:800],
                          {"script": scripts[i], "observed": evs})
            continue
        for e in evs:
            e.pop("h", None)
            e.pop("seq", None)
        hists.append(evs)
        owner.append(i)
    return hists, owner


def judge(ctx, scripts, hists, owner, patient=True):
    ok, rej, unex = vlib.validate(ctx, "StopTrace", "StopTrace.cfg", hists)
    for hi, ej, ev in rej:
        sc = scripts[owner[hi]]
        if patient and ev.get("e") == "final" and sc.get("waitAgain") and not sc.get("patient") and \
                any(it["kind"] in ("task", "service") and it["out"] != "ok" for it in sc["items"]):
            # a missing re-run is re-judged with the documented execution-wait limit (1 min) before it counts
            sc2 = dict(sc, patient=True)
            h2, o2 = execute(ctx, [sc2], timeout=200)
            if h2:
                ok2, _ = judge(ctx, [sc2], h2, o2, patient=False)
                ok += ok2
            continue
        ctx.violation(sig_of(hists[hi], ej),
                      "event %d rejected by StopAbs: %s\ntrace so far: %s" % (ej, json.dumps(ev), json.dumps(hists[hi][:ej + 1])[:2500]),
                      {"script": scripts[owner[hi]], "observed": hists[hi]})
    return ok, unex


def run(ctx):
    quick = ctx.tier == "quick"
    model_check(ctx, quick)
    scripts = gen_scripts(ctx, quick)
    if len(scripts) < 50:
        raise vlib.Inconclusive("only %d scripts generated" % len(scripts))
    hists, owner = execute(ctx, scripts)
    ok, unex = judge(ctx, scripts, hists, owner)
    nontriv = len({vlib.sha(s) for s in scripts if len(s["items"]) >= 2})
    vlib.finish(ctx, LEVEL, {
        "traces_validated_against_impl": ok,
        "evaluations": len(scripts), "distinct_nontrivial": nontriv,
        "rule": "scripts = behaviours of spec/StopProtocol.tla (TLC -simulate) projected to actor sequences, item kinds "
                "concretised by seed (worker, StartWorker, service worker, event hook, task, micro high/med/low, Start*, Signal*); "
                "non-trivial = at least two concurrent work items; distinct by hash",
        "histories_unexamined_after_rejections": unex,
        "samples": scripts[:1] + ([hists[0]] if hists else []),
        "exhaustive": False,
    }, ["work items and the stop function return when released (far below the 8 s stop timeout set for the harness)",
        "promptness bound 2.5 s against an 8 s stop timeout", "yield points compiled in with -tags verif"])


def replay(ctx, path):
    with open(path) as fh:
        doc = json.load(fh)
    scripts = [doc["replay"]["script"]]
    hists, owner = execute(ctx, scripts)
    judge(ctx, scripts, hists, owner)
    vlib.finish(ctx, LEVEL, {"states": 1, "transitions": 1, "traces_validated_against_impl": len(hists),
                             "samples": scripts}, ["replay of one script"])
