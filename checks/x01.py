"""X01 (extension) — the module event bus: RegisterEvent / RegisterEventHook / TriggerEvent / InjectEvent /
SetEventSubscriptionFunc (modules/events.go).

spec/EventsAbs.tla   the statement (E1..E8, top of the file) as a monitor: Apply(state, observation) = allowed successors
spec/Events.tla      implementation-shaped model of events.go + the lifecycle fields it reads (one action per critical
                     section); TLC checks over all interleavings that the monitor never rejects an observation of the
                     model (invariant NoReject) and two direct invariants; the same module generates the driver scripts
                     (TLC -simulate); its fault variant (Buggy = TRUE: the wait as written in the pinned code) must be
                     rejected by TLC - the counterexamples become directed scripts
spec/EventsTrace.tla TLC validates what harness/cmd/events recorded from the real code against the monitor
"""
import json
import vlib

LEVEL = "model_checking"
DRIVER = "events"


def tla(v):
    """Python value -> TLA+ text (tuples = sequences, sets, str, bool, int)."""
    if isinstance(v, bool):
        return "TRUE" if v else "FALSE"
    if isinstance(v, int):
        return str(v)
    if isinstance(v, str):
        return '"%s"' % v
    if isinstance(v, tuple):
        return "<<" + ", ".join(tla(x) for x in v) + ">>"
    if isinstance(v, (set, frozenset, list)):
        return "{" + ", ".join(sorted(tla(x) for x in v)) + "}"
    raise TypeError(v)


def mc(name, mods, deps, evcand, trigcand, injcand, hookcand, prereg=()):
    """Text of the wrapper module that carries the structured constants."""
    dep = "[m \\in %s |-> CASE %s [] OTHER -> {}]" % (
        tla(set(mods)), " [] ".join('m = "%s" -> %s' % (m, tla(set(deps.get(m, [])))) for m in mods))
    return "\n".join([
        "---- MODULE %s ----" % name, "EXTENDS Events",
        "c_Mods == %s" % tla(tuple(mods)), "c_Dep == %s" % dep,
        "c_EvCand == %s" % tla(set(evcand)), "c_TrigCand == %s" % tla(set(trigcand)),
        "c_InjCand == %s" % tla(set(injcand)), "c_HookCand == %s" % tla(set(hookcand)),
        "c_PreReg == %s" % tla(tuple(prereg)), "===="]) + "\n"


def cfg(mgmt, sub, buggy, emit, maxtrig, maxhooks, maxcalls, maxg, maxsteps, invariants=(), view=True):
    c = {"Mods": "c_Mods", "Dep": "c_Dep", "EvCand": "c_EvCand", "TrigCand": "c_TrigCand", "InjCand": "c_InjCand",
         "HookCand": "c_HookCand", "PreReg": "c_PreReg"}
    L = ["SPECIFICATION Spec", "CONSTANTS"]
    for k, v in c.items():
        L.append("  %s <- %s" % (k, v))
    for k, v in {"Mgmt": mgmt, "Subscribed": sub, "Buggy": buggy, "Emit": emit, "MaxTrig": maxtrig, "MaxHooks": maxhooks,
                 "MaxCalls": maxcalls, "MaxG": maxg, "MaxSteps": maxsteps}.items():
        L.append("  %s = %s" % (k, vlib.tla_value(v)))
    for i in invariants:
        L.append("INVARIANT %s" % i)
    if view and not emit:
        L.append("VIEW View")
    L.append("CHECK_DEADLOCK FALSE")
    return "\n".join(L) + "\n"


E1 = ("S", "e1")
E2 = ("S", "e2")
EX = ("S", "ex")      # never registered
HE = ("H", "e1")
XE = ("X", "e1")      # module X does not exist

# implementation-shaped model: exhaustive configurations (structure, bounds); `pre` = hooks (and their events) registered
# before the first step, MaxSteps counts them (two steps each)
def B(name, mgmt, sub, mods, deps, ev, tg, ij, hk, pre, mt, mh, mcalls, mg, ms):
    return dict(name=name, mgmt=mgmt, sub=sub, mods=mods, deps=deps, ev=ev, tg=tg, ij=ij, hk=hk, pre=pre, mt=mt, mh=mh,
                mcalls=mcalls, mg=mg, ms=ms)


BFS_QUICK = [
    B("plain2", False, True, ["S", "H"], {}, [], [E1], [], [], [("H", E1)], 2, 1, 2, 6, 8),
    B("mgmt2", True, False, ["S", "H"], {}, [], [E1], [], [], [("H", E1)], 1, 1, 2, 3, 10),
]
BFS_THOROUGH = BFS_QUICK + [
    B("plain2reg", False, True, ["S", "H"], {}, [E1], [E1], [], [("H", E1)], [], 1, 1, 2, 4, 8),
    B("plain2inj", False, True, ["S", "H"], {}, [], [E1], [E1], [], [("H", E1)], 2, 1, 2, 6, 9),
    B("plain2dep", False, False, ["S", "H"], {"H": ["S"]}, [], [E1, EX], [], [], [("H", E1)], 2, 1, 2, 6, 9),
    B("mgmt2b", True, False, ["S", "H"], {}, [], [E1], [], [], [("H", E1)], 1, 1, 3, 3, 12),
    B("plain2hooks", False, False, ["S", "H"], {}, [], [E1], [], [], [("H", E1), ("S", E1)], 1, 2, 2, 5, 10),
]
INV = ["NoReject", "CountersOK", "NotBeforeStart"]

# script generation (TLC -simulate over the same model)
SIM = [
    ("simA", False, True, ["S", "H"], {}, [E1, E2], [E1, E2, EX], [E1, XE, EX], [("H", E1), ("S", E1), ("H", E2), ("H", XE), ("H", EX)]),
    ("simB", False, True, ["S", "H", "J"], {"H": ["S"]}, [E1, E2, HE], [E1, E2, HE], [E1, HE], [("H", E1), ("J", E1), ("S", HE), ("J", E2), ("H", E1)]),
    ("simC", True, True, ["S", "H"], {}, [E1, E2], [E1, E2, EX], [E1, XE], [("H", E1), ("S", E1), ("H", E2)]),
    ("simD", True, False, ["S", "H", "J"], {}, [E1, HE], [E1, HE], [E1, HE], [("H", E1), ("J", E1), ("S", HE), ("J", HE)]),
    ("simE", False, False, ["S", "H", "J"], {"H": ["J"], "S": []}, [E1], [E1], [E1], [("H", E1), ("J", E1), ("S", E1)]),
]


def model_check(ctx, quick):
    """Exhaustive runs: the design (Buggy = FALSE) satisfies the monitor and the direct invariants on every interleaving;
    the fault variant (Buggy = TRUE, the wait as written in the pinned code) must be rejected - its counterexamples are
    returned as directed scripts."""
    runs = [(r, False) for r in (BFS_QUICK if quick else BFS_THOROUGH)] + [(BFS_QUICK[0], True)]
    par = 3 if quick else 2

    def one(a):
        c, buggy = a
        return ctx.tlc("EventsMC", cfg_text=cfg(c["mgmt"], c["sub"], buggy, False, c["mt"], c["mh"], c["mcalls"], c["mg"], c["ms"],
                                               ["NoRejectPrint"] if buggy else INV),
                       files={"EventsMC.tla": mc("EventsMC", c["mods"], c["deps"], c["ev"], c["tg"], c["ij"], c["hk"], c["pre"])},
                       workers=max(2, vlib.NCPU // par), timeout=3000, want_ok=not buggy, count=not buggy)
    res = ctx.pmap(one, runs, par=par)
    r = res[-1]
    if r.violated != "NoRejectPrint":
        raise vlib.Inconclusive("the fault variant of spec/Events.tla (Buggy = TRUE) is not rejected by the monitor: "
                                "the model lost its sensitivity\n" + "\n".join(r.out.splitlines()[-20:]))
    cex = []
    seen = set()
    for s in r.emitted():
        h = vlib.sha(s)
        if h not in seen:
            seen.add(h)
            s["origin"] = "cex"
            cex.append(s)
    if not cex:
        raise vlib.Inconclusive("no counterexample script printed by the fault variant")
    return res[:-1], cex


def gen_scripts(ctx, quick):
    per = 160 if quick else 1500
    jobs = []
    for i, s in enumerate(SIM):
        jobs.append((i, s, False, per))
        jobs.append((i, s, True, per // 2))

    def one(j):
        i, (name, mgmt, sub, mods, deps, ev, tg, ij, hk), buggy, num = j
        r = ctx.tlc("EventsMC", cfg_text=cfg(mgmt, sub, buggy, True, 4, 4, 4, 14, 14 if quick else 18),
                    files={"EventsMC.tla": mc("EventsMC", mods, deps, ev, tg, ij, hk)}, mode="simulate", num=num,
                    depth=140, seed=ctx.seed * 131 + i * 2 + (1 if buggy else 0), timeout=1500, count=False)
        out = []
        for s in r.emitted():
            if buggy and not s.get("rej"):
                continue     # of the fault variant only the behaviours the monitor rejects are kept (directed scripts)
            s["origin"] = "fault-sim" if buggy else "sim"
            out.append(s)
        return out
    scripts = []
    for part in ctx.pmap(one, jobs):
        scripts.extend(part)
    return scripts


def strip(s):
    return {k: v for k, v in s.items() if k not in ("rej", "origin")}


def execute(ctx, scripts, patient=False):
    binp = ctx.go_build(DRIVER)
    todo = [dict(strip(s), settle_ms=30, quiet_ms=600) if patient else strip(s) for s in scripts]
    res = vlib.drive(ctx, binp, todo, chunk=1, timeout=120)
    hists, owner, crashed = [], [], []
    for i, r in enumerate(res):
        evs = [e for e in r["events"] if e.get("e") != "try"]
        if r["crashed"]:
            tries = [e for e in r["events"] if e.get("e") == "try"]
            crashed.append((i, tries[-1]["op"] if tries else {}, r["crashed"], evs))
            continue
        for e in evs:
            e.pop("h", None)
            e.pop("seq", None)
        hists.append(evs)
        owner.append(i)
    return hists, owner, crashed


def sig_of(script, hist, ej):
    ev = hist[ej]
    ops = [s["op"] for s in script["steps"] if s["op"] != "sync"]
    calls = [e.get("kind") for e in hist[:ej] if e.get("e") == "call"]
    what = ev.get("e", "?")
    if what == "sync":
        what = "sync-undelivered"
    return "%s:%s:calls=%s:trigger-before-start=%s" % (
        what, "mgmt" if script.get("mgmt") else "plain", ",".join(calls) or "none",
        str(any(o in ("trig", "inject") for o in ops[:ops.index("start")]) if "start" in ops else False).lower())


def judge(ctx, scripts):
    """Execute, validate; what is rejected is executed once more with ten times the patience before it counts."""
    hists, owner, crashed = execute(ctx, scripts)
    for i, op, why, evs in crashed:
        ctx.violation("crash:%s" % op.get("op", "?"), "driver process died in step %s: %s" % (json.dumps(op), why[:600]),
                      {"script": scripts[i], "observed": evs})
    ok, rej, unex = vlib.validate(ctx, "EventsTrace", "EventsTrace.cfg", hists)
    nev = sum(len(h) for h in hists)
    again = sorted({owner[hi] for hi, _, _ in rej})
    if again:
        sub = [scripts[i] for i in again]
        h2, o2, c2 = execute(ctx, sub, patient=True)
        ok2, rej2, unex2 = vlib.validate(ctx, "EventsTrace", "EventsTrace.cfg", h2)
        ok += ok2
        unex += unex2
        for hi, ej, ev in rej2:
            sc = sub[o2[hi]]
            ctx.violation(sig_of(sc, h2[hi], ej),
                          "observation %d is not allowed by spec/EventsAbs.tla: %s\nscript: %s\ntrace so far: %s" % (
                              ej, json.dumps(ev), json.dumps(strip(sc))[:1500], json.dumps(h2[hi][:ej + 1])[:2500]),
                          {"script": strip(sc), "observed": h2[hi]})
        for i, op, why, evs in c2:
            ctx.violation("crash:%s" % op.get("op", "?"), "driver process died: %s" % why[:600], {"script": strip(sub[i]), "observed": evs})
    return ok, unex, nev, len(again)


def run(ctx):
    quick = ctx.tier == "quick"
    mcs, cex = model_check(ctx, quick)
    scripts = gen_scripts(ctx, quick)
    if len(scripts) < 100:
        raise vlib.Inconclusive("only %d scripts generated" % len(scripts))
    scripts = cex + scripts
    ok, unex, nev, retried = judge(ctx, scripts)
    nontriv = len({vlib.sha(strip(s)) for s in scripts
                   if any(st["op"] in ("trig", "inject") for st in s["steps"]) and any(st["op"] == "reghook" for st in s["steps"])})
    directed = len([s for s in scripts if s["origin"] != "sim"])
    vlib.finish(ctx, LEVEL, {
        "states": sum(r.distinct for r in mcs), "transitions": sum(r.generated for r in mcs),
        "traces_validated_against_impl": ok,
        "evaluations": len(scripts), "distinct_nontrivial": nontriv,
        "rule": "driver scripts = behaviours of spec/Events.tla projected to the driver steps (TLC -simulate, 5 configurations: "
                "2-3 modules, dependencies, module management, several events, unknown names, InjectEvent) plus directed scripts: "
                "counterexamples of the fault variant (Buggy = TRUE) found by TLC exhaustively and in simulation; non-trivial = "
                "registers a hook and triggers/injects an event; distinct by content hash",
        "directed_scripts": directed, "observations_validated": nev, "scripts_retried_with_patience": retried,
        "histories_unexamined_after_rejections": unex,
        "samples": [strip(scripts[0]), strip(scripts[-1])],
        "exhaustive": False,
    }, ["start routines and hook functions are gates controlled by the script; everything else runs freely (interleavings inside "
        "events.go are explored by TLC on the model, in the real code only as far as gates and pauses reach)",
        "a rejected history is executed again with 10x the pauses (settle 30 ms, quiet 600 ms) before it counts",
        "lifecycle phases as seen by the monitor come from driver observations (call/ret, start routine begin/end)"])


def replay(ctx, path):
    with open(path) as fh:
        doc = json.load(fh)
    scripts = [dict(doc["replay"]["script"], origin="replay")]
    ok, unex, nev, _ = judge(ctx, scripts)
    vlib.finish(ctx, LEVEL, {"states": 1, "transitions": 1, "traces_validated_against_impl": ok,
                             "samples": [strip(scripts[0])]}, ["replay of one script"])
