"""X01 (extension) — the module event bus: RegisterEvent / RegisterEventHook / TriggerEvent / InjectEvent /
SetEventSubscriptionFunc (modules/events.go).

spec/EventsAbs.tla   the statement (E1..E8, top of the file) as a monitor: Apply(state, observation) = allowed successors
spec/Events.tla      implementation-shaped model of events.go + the lifecycle fields it reads (one action per critical
                     section); TLC checks over all interleavings that the monitor never rejects an observation of the
                     model (invariant NoReject) and two direct invariants; the same module generates the driver scripts
                     (TLC -simulate); its fault variants (Buggy: the hook wait as written in the pinned code, TreeBuggy:
                     buildEnabledTree as pinned) must be rejected by TLC - the counterexamples become directed scripts
spec/EventsTrace.tla TLC validates what harness/cmd/events recorded from the real code against the monitor
"""
import json
import vlib

LEVEL = "model_checking"
DRIVER = "events"


def tla(v):
    """Python value -> TLA+ text (tuples = sequences, sets, str, bool, int)."""
    if isinstance(v, bool):
        return "TRUE" if v else "FALSE"
    if isinstance(v, int):
        return str(v)
    if isinstance(v, str):
        return '"%s"' % v
    if isinstance(v, tuple):
        return "<<" + ", ".join(tla(x) for x in v) + ">>"
    if isinstance(v, (set, frozenset, list)):
        return "{" + ", ".join(sorted(tla(x) for x in v)) + "}"
    raise TypeError(v)


def mc(name, mods, deps, evcand, trigcand, injcand, hookcand, prereg=()):
    """Text of the wrapper module that carries the structured constants."""
    dep = "[m \\in %s |-> CASE %s [] OTHER -> {}]" % (
        tla(set(mods)), " [] ".join('m = "%s" -> %s' % (m, tla(set(deps.get(m, [])))) for m in mods))
    return "\n".join([
        "---- MODULE %s ----" % name, "EXTENDS Events",
        "c_Mods == %s" % tla(tuple(mods)), "c_Dep == %s" % dep,
        "c_EvCand == %s" % tla(set(evcand)), "c_TrigCand == %s" % tla(set(trigcand)),
        "c_InjCand == %s" % tla(set(injcand)), "c_HookCand == %s" % tla(set(hookcand)),
        "c_PreReg == %s" % tla(tuple(prereg)), "===="]) + "\n"


def cfg(mgmt, sub, buggy, emit, maxtrig, maxhooks, maxcalls, maxg, maxsteps, invariants=(), view=True, prehold=False,
        treebuggy=False):
    c = {"Mods": "c_Mods", "Dep": "c_Dep", "EvCand": "c_EvCand", "TrigCand": "c_TrigCand", "InjCand": "c_InjCand",
         "HookCand": "c_HookCand", "PreReg": "c_PreReg"}
    L = ["SPECIFICATION Spec", "CONSTANTS"]
    for k, v in c.items():
        L.append("  %s <- %s" % (k, v))
    for k, v in {"Mgmt": mgmt, "Subscribed": sub, "Buggy": buggy, "Emit": emit, "MaxTrig": maxtrig, "MaxHooks": maxhooks,
                 "MaxCalls": maxcalls, "MaxG": maxg, "MaxSteps": maxsteps, "PreHold": prehold, "TreeBuggy": treebuggy}.items():
        L.append("  %s = %s" % (k, vlib.tla_value(v)))
    for i in invariants:
        L.append("INVARIANT %s" % i)
    if view and not emit:
        L.append("VIEW View")
    L.append("CHECK_DEADLOCK FALSE")
    return "\n".join(L) + "\n"


E1 = ("S", "e1")
E2 = ("S", "e2")
EX = ("S", "ex")      # never registered
HE = ("H", "e1")
XE = ("X", "e1")      # module X does not exist

# implementation-shaped model: exhaustive configurations (structure, bounds); `pre` = hooks (and their events) registered
# before the first step, MaxSteps counts them (two steps each)
def B(name, mgmt, sub, mods, deps, ev, tg, ij, hk, pre, mt, mh, mcalls, mg, ms):
    return dict(name=name, mgmt=mgmt, sub=sub, mods=mods, deps=deps, ev=ev, tg=tg, ij=ij, hk=hk, pre=pre, mt=mt, mh=mh,
                mcalls=mcalls, mg=mg, ms=ms)


BFS_QUICK = [
    B("plain2", False, True, ["S", "H"], {}, [], [E1], [], [], [("H", E1)], 1, 1, 2, 4, 9),
    B("mgmt2", True, False, ["S", "H"], {}, [], [E1], [], [], [("H", E1)], 1, 1, 2, 3, 12),
    B("mgmtdep", True, False, ["S", "H"], {"H": ["S"]}, [], [E1], [], [], [("H", E1)], 1, 1, 2, 3, 12),
]
BFS_THOROUGH = BFS_QUICK + [
    B("plain2reg", False, True, ["S", "H"], {}, [E1], [E1], [], [("H", E1)], [], 1, 1, 2, 4, 8),
    B("plain2inj", False, True, ["S", "H"], {}, [], [], [E1], [], [("H", E1)], 1, 1, 2, 4, 9),
    B("plain2dep", False, False, ["S", "H"], {"H": ["S"]}, [], [E1, EX], [], [], [("H", E1)], 2, 1, 2, 6, 8),
    B("mgmt2b", True, False, ["S", "H"], {}, [], [E1], [], [], [("H", E1)], 1, 1, 3, 3, 14),
    B("plain2hooks", False, False, ["S", "H"], {}, [], [E1], [], [], [("H", E1), ("S", E1)], 1, 2, 2, 5, 10),
    B("mgmt2inj", True, False, ["S", "H"], {}, [], [E1], [E1], [], [("H", E1)], 2, 1, 2, 4, 9),
    B("plain2two", False, False, ["S", "H"], {}, [], [E1], [], [], [("H", E1)], 2, 1, 2, 4, 8),
]
INV = ["NoReject", "CountersOK", "NotBeforeStart"]

# script generation (TLC -simulate over the same model)
SIM = [
    ("simA", False, True, ["S", "H"], {}, [E1, E2], [E1, E2, EX], [E1, XE, EX], [("H", E1), ("S", E1), ("H", E2), ("H", XE), ("H", EX)]),
    ("simB", False, True, ["S", "H", "J"], {"H": ["S"]}, [E1, E2, HE], [E1, E2, HE], [E1, HE], [("H", E1), ("J", E1), ("S", HE), ("J", E2), ("H", E1)]),
    ("simC", True, True, ["S", "H"], {}, [E1, E2], [E1, E2, EX], [E1, XE], [("H", E1), ("S", E1), ("H", E2)]),
    ("simD", True, False, ["S", "H", "J"], {"H": ["S"]}, [E1, HE], [E1, HE], [E1, HE], [("H", E1), ("J", E1), ("S", HE), ("J", HE)]),
    ("simE", False, False, ["S", "H", "J"], {"H": ["J"], "S": []}, [E1], [E1], [E1], [("H", E1), ("J", E1), ("S", E1)]),
    # isolation: two blocking hooks on the same event are there from the beginning
    ("simF", False, True, ["S", "H"], {}, [], [E1], [], [], [("H", E1), ("S", E1)], 13, 2),
    ("simG", True, False, ["S", "H", "J"], {}, [], [E1], [E1], [], [("H", E1), ("J", E1)], 16, 2),
    # module management with modules that run only as a dependency of an enabled module
    ("simH", True, True, ["S", "H", "J"], {"J": ["H"], "H": ["S"]}, [], [E1, HE], [], [], [("H", E1), ("J", E1), ("J", HE)], 16),
]


# fault variants of the model: (configuration, constant that switches the pinned code's behaviour on)
MGMTDEP = B("mgmtdep", True, False, ["S", "H"], {"H": ["S"]}, [], [E1], [], [], [("H", E1)], 1, 1, 2, 3, 12)
FAULTS = [(BFS_QUICK[0], "Buggy"), (MGMTDEP, "TreeBuggy")]


def model_check(ctx, quick):
    """Exhaustive runs: the design (no fault constant set) satisfies the monitor and the direct invariants on every
    interleaving; each fault variant (the code as pinned: hook wait / buildEnabledTree) must be rejected - the
    counterexamples are returned as directed scripts."""
    runs = [(r, None) for r in (BFS_QUICK if quick else BFS_THOROUGH)] + FAULTS
    par = 4 if quick else 1

    def one(a):
        c, fault = a
        return ctx.tlc("EventsMC", cfg_text=cfg(c["mgmt"], c["sub"], fault == "Buggy", False, c["mt"], c["mh"], c["mcalls"], c["mg"],
                                               c["ms"], ["NoRejectPrint"] if fault else INV, treebuggy=fault == "TreeBuggy"),
                       files={"EventsMC.tla": mc("EventsMC", c["mods"], c["deps"], c["ev"], c["tg"], c["ij"], c["hk"], c["pre"])},
                       workers=max(2, vlib.NCPU // par), timeout=3000, want_ok=not fault, count=not fault)
    res = ctx.pmap(one, runs, par=par)
    cex = []
    seen = set()
    for (c, fault), r in zip(runs, res):
        if not fault:
            continue
        if r.violated != "NoRejectPrint":
            raise vlib.Inconclusive("the fault variant %s of spec/Events.tla is not rejected by the monitor: the model lost its "
                                    "sensitivity\n%s" % (fault, "\n".join(r.out.splitlines()[-20:])))
        got = 0
        for s in r.emitted():
            h = vlib.sha(s)
            if h not in seen:
                seen.add(h)
                s["origin"] = "cex-" + fault
                cex.append(s)
                got += 1
        if not got:
            raise vlib.Inconclusive("no counterexample script printed by the fault variant %s" % fault)
    return res[:-len(FAULTS)], cex


def gen_scripts(ctx, quick):
    per = 120 if quick else 1500
    jobs = []
    for i, s in enumerate(SIM):
        jobs.append((i, s, False, per))
        jobs.append((i, s, True, per // 2))

    def one(j):
        i, sim, buggy, num = j
        name, mgmt, sub, mods, deps, ev, tg, ij, hk = sim[:9]
        pre = sim[9] if len(sim) > 9 else []
        ms = sim[10] if len(sim) > 10 else (18 if quick else 24)   # configurations with few possible steps end earlier
        mt = sim[11] if len(sim) > 11 else 4
        r = ctx.tlc("EventsMC", cfg_text=cfg(mgmt, sub, buggy, True, mt, 4, 4, 16, ms, prehold=bool(pre), treebuggy=buggy),
                    files={"EventsMC.tla": mc("EventsMC", mods, deps, ev, tg, ij, hk, pre)}, mode="simulate", num=num,
                    depth=320 if quick else 500, seed=ctx.seed * 131 + i * 2 + (1 if buggy else 0), timeout=1500, count=False)
        out = []
        for s in r.emitted():
            if buggy and not s.get("rej"):
                continue     # of the fault variant only the behaviours the monitor rejects are kept (directed scripts)
            s["origin"] = "fault-sim" if buggy else "sim"
            out.append(s)
        return out
    scripts = []
    for part in ctx.pmap(one, jobs):
        scripts.extend(part)
    return scripts


def strip(s):
    return {k: v for k, v in s.items() if k not in ("rej", "origin")}


def execute(ctx, scripts, patient=False):
    binp = ctx.go_build(DRIVER)
    todo = [dict(strip(s), settle_ms=30, quiet_ms=600) if patient else strip(s) for s in scripts]
    res = vlib.drive(ctx, binp, todo, chunk=1, timeout=120)
    hists, owner, crashed = [], [], []
    for i, r in enumerate(res):
        evs = [e for e in r["events"] if e.get("e") != "try"]
        if r["crashed"]:
            tries = [e for e in r["events"] if e.get("e") == "try"]
            crashed.append((i, tries[-1]["op"] if tries else {}, r["crashed"], evs))
            continue
        for e in evs:
            e.pop("h", None)
            e.pop("seq", None)
        hists.append(evs)
        owner.append(i)
    return hists, owner, crashed


def sig_of(script, hist, ej):
    ev = hist[ej]
    ops = [s["op"] for s in script["steps"] if s["op"] != "sync"]
    calls = [e.get("kind") for e in hist[:ej] if e.get("e") == "call"]
    what = ev.get("e", "?")
    if what == "sync":
        what = "sync-undelivered"
    return "%s:%s:calls=%s:trigger-before-start=%s" % (
        what, "mgmt" if script.get("mgmt") else "plain", ",".join(calls) or "none",
        str(any(o in ("trig", "inject") for o in ops[:ops.index("start")]) if "start" in ops else False).lower())


STATS = {}


def describe(hist):
    """Descriptive counters of what the run exercised (evidence only, no verdict)."""
    def inc(k):
        STATS[k] = STATS.get(k, 0) + 1
    phase, trig_phase, stopped, held = {}, {}, set(), set()
    hookmod = {}
    begun = set()
    for e in hist:
        k = e.get("e")
        if k == "sfbegin":
            phase[e["m"]] = "starting"
        elif k == "sfend":
            phase[e["m"]] = "started"
        elif k == "reghook" and e.get("ok"):
            hookmod[e["k"]] = e["hm"]
        elif k == "reghook":
            inc("hook_registrations_refused")
        elif k == "call" and e["kind"] in ("manage", "shutdown"):
            inc("stop_passes")
        elif k in ("trig", "inject"):
            inc("triggers" if k == "trig" else "injects")
            trig_phase[e["t"]] = dict(phase)
        elif k == "injret" and not e.get("ok"):
            inc("injects_refused")
        elif k == "hbegin":
            inc("hook_executions")
            begun.add((e["t"], e["k"]))
            hm = hookmod.get(e["k"])
            if trig_phase.get(e["t"], {}).get(hm) != "started":
                inc("hook_executions_delayed_until_start")
        elif k == "hend":
            begun.discard((e["t"], e["k"]))
        elif k == "sub":
            inc("subscription_calls")
        elif k == "sync":
            inc("syncs")
            if begun:
                inc("syncs_with_a_hook_still_running")


def judge(ctx, scripts):
    """Execute, validate; what is rejected is executed once more with ten times the patience before it counts."""
    hists, owner, crashed = execute(ctx, scripts)
    for i, op, why, evs in crashed:
        ctx.violation("crash:%s" % op.get("op", "?"), "driver process died in step %s: %s" % (json.dumps(op), why[:600]),
                      {"script": scripts[i], "observed": evs})
    ok, rej, unex = vlib.validate(ctx, "EventsTrace", "EventsTrace.cfg", hists)
    nev = sum(len(h) for h in hists)
    for h in hists:
        describe(h)
    again = sorted({owner[hi] for hi, _, _ in rej})
    if again:
        sub = [scripts[i] for i in again]
        h2, o2, c2 = execute(ctx, sub, patient=True)
        ok2, rej2, unex2 = vlib.validate(ctx, "EventsTrace", "EventsTrace.cfg", h2)
        ok += ok2
        unex += unex2
        for hi, ej, ev in rej2:
            sc = sub[o2[hi]]
            ctx.violation(sig_of(sc, h2[hi], ej),
                          "observation %d is not allowed by spec/EventsAbs.tla: %s\nscript: %s\ntrace so far: %s" % (
                              ej, json.dumps(ev), json.dumps(strip(sc))[:1500], json.dumps(h2[hi][:ej + 1])[:2500]),
                          {"script": strip(sc), "observed": h2[hi]})
        for i, op, why, evs in c2:
            ctx.violation("crash:%s" % op.get("op", "?"), "driver process died: %s" % why[:600], {"script": strip(sub[i]), "observed": evs})
    return ok, unex, nev, len(again)


def run(ctx):
    quick = ctx.tier == "quick"
    mcs, cex = model_check(ctx, quick)
    scripts = gen_scripts(ctx, quick)
    if len(scripts) < 100:
        raise vlib.Inconclusive("only %d scripts generated" % len(scripts))
    scripts = cex + scripts
    ok, unex, nev, retried = judge(ctx, scripts)
    nontriv = len({vlib.sha(strip(s)) for s in scripts
                   if any(st["op"] in ("trig", "inject") for st in s["steps"]) and any(st["op"] == "reghook" for st in s["steps"])})
    directed = len([s for s in scripts if s["origin"] != "sim"])
    vlib.finish(ctx, LEVEL, {
        "states": sum(r.distinct for r in mcs), "transitions": sum(r.generated for r in mcs),
        "traces_validated_against_impl": ok,
        "evaluations": len(scripts), "distinct_nontrivial": nontriv,
        "rule": "driver scripts = behaviours of spec/Events.tla projected to the driver steps (TLC -simulate, 8 configurations: "
                "2-3 modules, dependencies, module management, several events, unknown names, InjectEvent) plus directed scripts: "
                "counterexamples of the two fault variants (Buggy, TreeBuggy) found by TLC exhaustively and in simulation; non-trivial = "
                "registers a hook and triggers/injects an event; distinct by content hash",
        "directed_scripts": directed, "exercised": dict(STATS), "observations_validated": nev, "scripts_retried_with_patience": retried,
        "histories_unexamined_after_rejections": unex,
        "samples": [strip(scripts[0]), strip(scripts[-1])],
        "exhaustive": False,
    }, ["start routines and hook functions are gates controlled by the script; everything else runs freely (interleavings inside "
        "events.go are explored by TLC on the model, in the real code only as far as gates and pauses reach)",
        "a rejected history is executed again with 10x the pauses (settle 30 ms, quiet 600 ms) before it counts",
        "lifecycle phases as seen by the monitor come from driver observations (call/ret, start routine begin/end)"])


def replay(ctx, path):
    with open(path) as fh:
        doc = json.load(fh)
    scripts = [dict(doc["replay"]["script"], origin="replay")]
    ok, unex, nev, _ = judge(ctx, scripts)
    vlib.finish(ctx, LEVEL, {"states": 1, "transitions": 1, "traces_validated_against_impl": ok,
                             "samples": [strip(scripts[0])]}, ["replay of one script"])
