"""C20 — no enabled log line is lost, duplicated or reordered.

Log.tla: producers, bounded buffer, wake-up flag/token, writer with forced emptying, duplicate merging,
back-off and shutdown/finalize, checked exhaustively by TLC (TokenImpliesFlag, NoBlockedSend, PrefixOK,
Complete).  LogAbs.tla: the property-level model (per-goroutine pending sequences, level in force per
origin, tracer submissions); LogAbsGen generates workloads from it; harness/cmd/logx runs them on the real
logger (free-running or paced writer, stalled writer with > 1024 lines, varying Shutdown moment);
LogTrace validates submissions and adapter output against LogAbs.
"""
import json
import random
import vlib

LEVEL = "model_checking"


def model_check(ctx, quick):
    for np_, nm, cap, sched in ([(2, 2, 2, False), (2, 3, 2, True)] if quick else [(3, 2, 2, True), (2, 3, 1, False), (3, 3, 2, False)]):
        ctx.tlc("Log", cfg_text=vlib.cfg_text(constants={"NProd": np_, "NMsgs": nm, "Cap": cap, "Scheduled": sched},
                                              invariants=["TokenImpliesFlag", "NoBlockedSend", "PrefixOK", "Complete"]),
                timeout=3000)
    ctx.tlc("LogAbsGen", cfg_text=vlib.cfg_text(spec="GenSpec", constants={"NP": 2, "MaxOps": 2 if quick else 3, "Emit": False, "Rerun": False},
                                                invariants=["OnlyEnabled"], view="View"), timeout=3000)


def gen_scripts(ctx, quick):
    rnd = random.Random(ctx.seed)
    cfgs = [(1, 12, False), (2, 20, False), (3, 30, False), (4, 40, False), (2, 60, False), (3, 12, False),
            (1, 16, True), (2, 24, True)]
    per = 14 if quick else 150

    def one(a):
        k, (np_, ops, rerun) = a
        r = ctx.tlc("LogAbsGen", cfg_text=vlib.cfg_text(spec="GenSpec", constants={"NP": np_, "MaxOps": ops, "Emit": True, "Rerun": rerun}),
                    mode="simulate", num=per, depth=ops + 5, seed=ctx.seed * 389 + k, timeout=900, count=False)
        return r.emitted()
    scripts = []
    for part in ctx.pmap(one, list(enumerate(cfgs))):
        for g in part:
            s = {"np": g["np"], "ops": g["ops"], "paced": rnd.random() < 0.5, "stallMs": rnd.choice([0, 0, 5, 40]),
                 "paceUs": rnd.choice([100, 500, 3000, 15000]), "burst": 0, "shutMs": rnd.choice([0, 0, 1, 15]),
                 "shut2Ms": rnd.choice([0, 0, 0, 1, 5])}
            if any(o["kind"] == "tracer" and o.get("a") == 1 for o in g["ops"]) and rnd.random() < 0.7:
                # re-run tracer operations: keep the lines of several phases in the buffer together
                s.update({"paced": True, "stallMs": rnd.choice([40, 80])})
            scripts.append(s)
    # buffer overflow runs: more lines than the 1024-entry buffer holds while the writer is stalled / slow
    nb = 6 if quick else 40
    for k in range(nb):
        base = dict(scripts[rnd.randrange(len(scripts))])
        base.update({"paced": k % 3 != 2, "stallMs": rnd.choice([50, 150]), "paceUs": rnd.choice([200, 2000]),
                     "burst": rnd.choice([700, 1500, 2500])})
        scripts.append(base)
    # directed: the same tracer code location runs twice in a row, first with tracing off (its lines go out as plain
    # lines) and then, after the level was lowered, with tracing on (one trace whose main line is that same last line);
    # the writer is stalled so that both sit next to each other in the buffer
    def E(kind, p, origin, sev, rep, k, lines, a=0, b=0):
        return {"kind": kind, "p": p, "origin": origin, "sev": sev, "rep": rep, "k": k, "lines": lines, "a": a, "b": b}
    for first_level, lines, origin in [(3, [3, 4], "logx"), (2, [3], "logx"), (3, [5, 3, 3], "other"), (4, [4], "other"),
                                       (2, [2, 6], "logx"), (3, [3], "other")][:(3 if quick else 6)]:
        ops = [E("setlevel", 0, "logx", first_level, 0, 1, []), E("tracer", 1, origin, 0, 1, 2, lines),
               E("setlevel", 0, "logx", 1, 0, 3, []), E("tracer", 1, origin, 0, 1, 2, lines, a=1),
               E("log", 1, origin, 3, 1, 5, []), E("setlevel", 0, "logx", first_level, 0, 6, []),
               E("tracer", 1, origin, 0, 1, 2, lines, a=1), E("tracer", 1, origin, 0, 1, 2, lines, a=1)]
        # (free-running writer held up by a slow first write: everything after it is drained in one pass)
        scripts.append({"np": 1, "ops": ops, "paced": False, "stallMs": 80, "paceUs": 500, "burst": 0, "shutMs": 0, "shut2Ms": 0})
    # two Shutdown callers while a backlog is still being written (slow writer)
    for k in range(3 if quick else 16):
        base = dict(scripts[rnd.randrange(len(scripts))])
        base.update({"paced": True, "stallMs": rnd.choice([0, 20]), "paceUs": rnd.choice([1000, 2000]), "burst": rnd.choice([300, 700]),
                     "shutMs": 0, "shut2Ms": rnd.choice([5, 20, 60])})
        scripts.append(base)
    # directed: a backlog that nobody has triggered the (externally scheduled) writer for is still in the buffer when Shutdown
    # is called, and the adapter is slow: writing it takes far longer than the writer's idle timeout; all of it must be written
    for k, (burst, slow) in enumerate([(400, 100), (150, 400)][:(2 if quick else 2)]):
        base = dict(scripts[k])
        base.update({"paced": True, "stallMs": 10000, "paceUs": 1000, "burst": burst, "shutMs": 0, "shut2Ms": 0, "slowUs": slow})
        scripts.append(base)
    # pulse runs (free-running writer): the writer is woken by forced emptying at a batch boundary
    for k in range(4 if quick else 24):
        base = dict(scripts[rnd.randrange(len(scripts))])
        base.update({"paced": False, "stallMs": 0, "burst": 0, "pulses": 6})
        scripts.append(base)
    return scripts


def sig_of(hist, ej):
    ev = hist[ej]
    what = ev.get("e", "?")
    if what == "out":
        what += ":dups" if ev.get("dups") else (":tracer" if ev.get("lines") else ":plain")
    return what


def execute(ctx, scripts):
    binp = ctx.go_build("logx")
    res = vlib.drive(ctx, binp, scripts, chunk=1, timeout=180)
    hists, owner = [], []
    for i, r in enumerate(res):
        evs = r["events"]
        if r["crashed"]:
            ctx.violation("crash", "driver process died: %s" % r["crashed"][:800], {"script": scripts[i]})
            continue
        for e in evs:
            e.pop("h", None)
            e.pop("seq", None)
        hists.append(evs)
        owner.append(i)
    return hists, owner


def judge(ctx, scripts, hists, owner):
    ok, rej, unex = vlib.validate(ctx, "LogTrace", "LogTrace.cfg", hists)
    for hi, ej, ev in rej:
        ctx.violation(sig_of(hists[hi], ej),
                      "event %d rejected by LogAbs: %s\nprevious events: %s" % (ej, json.dumps(ev), json.dumps(hists[hi][max(0, ej - 12):ej])[:2000]),
                      {"script": scripts[owner[hi]], "observed_tail": hists[hi][max(0, ej - 200):ej + 1]})
    return ok, unex


def run(ctx):
    quick = ctx.tier == "quick"
    model_check(ctx, quick)
    scripts = gen_scripts(ctx, quick)
    if len(scripts) < 40:
        raise vlib.Inconclusive("only %d scripts generated" % len(scripts))
    hists, owner = execute(ctx, scripts)
    ok, unex = judge(ctx, scripts, hists, owner)
    nontriv = len({vlib.sha(s) for s in scripts if s["np"] >= 2})
    vlib.finish(ctx, LEVEL, {
        "traces_validated_against_impl": ok,
        "evaluations": len(scripts), "distinct_nontrivial": nontriv,
        "events_validated": sum(len(h) for h in hists),
        "rule": "workloads = behaviours of spec/LogAbsGen.tla (TLC -simulate): per-goroutine programs of log calls of every "
                "severity from two origins, runs of identical lines, context tracers, level/package-level changes at barriers; "
                "writer free-running or paced/stalled, overflow runs with 700-2500 extra lines per goroutine; "
                "non-trivial = at least two concurrently logging goroutines; distinct by hash",
        "histories_unexamined_after_rejections": unex,
        "samples": scripts[:1] + ([hists[0][:30]] if hists else []),
        "exhaustive": False,
    }, ["level changes happen while no producer runs (the level in force is then well defined for every line)",
        "lines are logged after log.Start and before log.Shutdown is called", "no hooks: observed through log.SetAdapter"])


def replay(ctx, path):
    with open(path) as fh:
        doc = json.load(fh)
    scripts = [doc["replay"]["script"]]
    hists, owner = execute(ctx, scripts)
    judge(ctx, scripts, hists, owner)
    vlib.finish(ctx, LEVEL, {"states": 1, "transitions": 1, "traces_validated_against_impl": len(hists),
                             "samples": scripts}, ["replay of one script"])
