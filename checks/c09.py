"""C09 — DSD dump/load round-trips in every format, compressed or over HTTP.

spec/Dsd.tla models what formats/dsd adds around the third-party encoders: format resolution
(AUTO -> default), the identifier prefix, the compression wrapper, and the HTTP negotiation over
media-type token lists (which formats a responder may use for an Accept header, when it has to
answer, and that the Content-Type label names the encoding of the body so that the load side
recovers the value).  spec/DsdGen.tla is model-checked (BFS over all header lists up to MaxLen,
all format x compression requests, all structured corruptions) for the laws of the model and
prints every vector; cmd/dsdx instantiates each vector with seeded values of the harness schema
through the real package; spec/DsdTrace.tla judges every recorded case.
"""
import json
import os
import random
import shutil
import subprocess

import vlib

LEVEL = "exploration"
DRIVER = "dsdx"
MIME = [74, 67, 77, 89]


# ---------------------------------------------------------------------------------------------
def build(ctx):
    """Like ctx.go_build, but always through a scratch -modfile: the driver imports packages with
    third-party dependencies and `go build -mod=mod` would otherwise rewrite harness/go.mod."""
    out = os.path.join(ctx.scratch, "bin-" + DRIVER)
    if os.path.exists(out):
        return out
    env = dict(os.environ)
    env.update(vlib.GOENV)
    mf = os.path.join(ctx.scratch, "c09.mod")
    with open(os.path.join(vlib.HARNESS, "go.mod")) as fh:
        txt = fh.read()
    if vlib.REPO != "/repo":
        txt = txt.replace("=> /repo", "=> " + vlib.REPO)
    with open(mf, "w") as fh:
        fh.write(txt)
    shutil.copy(os.path.join(vlib.REPO, "go.sum"), os.path.join(ctx.scratch, "c09.sum"))
    p = subprocess.run(["go", "build", "-tags", "verif", "-modfile", mf, "-o", out, "./cmd/" + DRIVER],
                       cwd=vlib.HARNESS, env=env, stdout=subprocess.PIPE, stderr=subprocess.STDOUT, text=True, timeout=900)
    if p.returncode != 0:
        raise vlib.Inconclusive("go build of driver %s failed:\n%s" % (DRIVER, p.stdout[-4000:]))
    return out


def model(ctx):
    """Model-check the laws of the Dsd model over every vector and collect the vectors."""
    quick = ctx.tier == "quick"
    g = ctx.tlc("DsdGen", cfg_text=vlib.cfg_text(
        constants={"MaxLen": 3, "Wide": not quick, "Emit": True},
        invariants=["LawFormats", "LawHdr", "LawRt"]), workers=1, timeout=900)
    vecs = g.emitted()
    if len(vecs) != g.distinct or not vecs:
        raise vlib.Inconclusive("DsdGen printed %d vectors for %d states" % (len(vecs), g.distinct))
    return g, vecs


def directives(ctx, vecs):
    quick = ctx.tier == "quick"
    rnd = random.Random(ctx.seed)
    ds = []
    k = 0

    def seed():
        nonlocal k
        k += 1
        return ctx.seed * 1000003 + k

    hdr = [v for v in vecs if v["t"] == "hdr"]
    short = [v for v in hdr if len(v["hdr"]) <= 2]
    long_ = [v for v in hdr if len(v["hdr"]) > 2]
    rnd.shuffle(long_)
    for v in short:
        for dser in ([74, 67] if quick else MIME):
            ds.append({"t": "hdr", "hdr": v["hdr"], "dser": dser, "seed": seed(), "n": 2})
    for i, v in enumerate(long_):
        ds.append({"t": "hdr", "hdr": v["hdr"], "dser": MIME[(i + ctx.seed) % 4], "seed": seed(), "n": 1 if quick else 2})
    for v in vecs:
        if v["t"] == "rt":
            for dser in ([74, 67] if quick else MIME):
                ds.append({"t": "rt", "f": v["f"], "c": v["c"], "dser": dser, "seed": seed(), "n": 6 if quick else 16})
            if v["c"] == -1:
                ds.append({"t": "echo", "f": v["f"], "dser": 74, "seed": seed(), "n": 2 if quick else 6})
        elif v["t"] == "corrupt":
            if v["mk"] == "nest" and v["ma"] > 4:
                if not quick:   # 10 MB inputs: seconds per call
                    ds.append({"t": "corrupt", "f": v["f"], "c": v["c"], "mk": v["mk"], "ma": v["ma"], "dser": 74, "seed": seed(), "n": 1})
                continue
            ds.append({"t": "corrupt", "f": v["f"], "c": v["c"], "mk": v["mk"], "ma": v["ma"], "dser": 74,
                       "seed": seed(), "n": 2 if quick else 8})
    for _ in range(200 if quick else 2500):   # small directives: a call that kills the process loses the rest of its directive
        ds.append({"t": "random", "dser": 74, "seed": seed(), "n": 25})
    return ds


# ---------------------------------------------------------------------------------------------
def outcome(ev):
    if ev.get("panic"):
        return "panic"
    if "dok" in ev and not ev["dok"]:
        return "dumperr"
    if ev["e"] == "rt":
        if ev["id"] < 0 or (ev["api"] == "compress" and ev["inner"] < 0):
            return "noid"
        if not (ev["lok"] or ev["lraw"]):
            return "id%d:loaderr" % (ev["inner"] if ev["api"] == "compress" else ev["id"])
        if ev["got"] != ev["want"]:
            return "value"
        return "id%d:fmt%d" % (ev["id"], ev["lfmt"])
    if ev["e"] == "echo" and not ev.get("sok"):
        return "servererr"
    if "ct" in ev and ev["e"] != "cload" and ev["ct"] not in (
            "application/json", "application/cbor", "application/msgpack", "application/yaml"):
        return "label=%s" % ev["ct"][:40]
    if not ev.get("lok"):
        return "loaderr"
    if ev["got"] != ev["want"]:
        return "value"
    return "fmt%d" % ev.get("lfmt", -1)


def sig(ev):
    """Stable label of a rejected case (operation + class of input + what was observed)."""
    e = ev["e"]
    o = outcome(ev)
    if e == "rt":
        return "rt:%s:%s:f%d:c%d:%s" % (ev["api"], ev["via"], ev["f"], ev["c"], o)
    if e == "req":
        return "req:f%d:%s" % (ev["f"], o)
    if e == "resp":
        return "resp:%s:%s" % (ev["api"], o)
    if e == "cload":
        return "cload:%s:fb%d:%s" % (ev["api"], ev["fb"], o)
    if e == "echo":
        return "echo:f%d:%s" % (ev["f"], o)
    if e == "total":
        return "total:%s:%s:%s:%s" % (ev["api"], ev["cls"].split(":")[0], ev["target"], o)
    return e + ":" + o


def reached_format(mark):
    """Serialization format whose decoder a Load* call on these bytes reaches (label for signatures only)."""
    if mark.get("api") in ("LoadAsFormat", "MimeLoad", "LoadFromHTTPRequest"):
        return mark.get("fmt", -1)
    if not mark.get("hex") and mark.get("n"):      # big input, not written out: the class names the format
        import re
        m = re.search(r":f(\d+):", mark.get("cls", ""))
        return int(m.group(1)) if m else -1
    try:
        b = bytes.fromhex(mark.get("hex", ""))
        if mark.get("api") == "DecompressAndLoad":
            b = bytes([90]) + b
        if b and b[0] == 90:
            import zlib
            b = zlib.decompressobj(31).decompress(b[1:], 64)
        return b[0] if b else -1
    except Exception:
        return -1


def evaluate(ctx, ds):
    binp = build(ctx)
    # Load* on corrupted/random bytes can make a third-party decoder allocate (and touch) gigabytes for a
    # few input bytes: those directives run with limited parallelism so that the machine is not exhausted.
    hungry = [i for i, d in enumerate(ds) if d["t"] in ("corrupt", "random", "bytes")]
    other = [i for i, d in enumerate(ds) if d["t"] not in ("corrupt", "random", "bytes")]
    res = [None] * len(ds)

    def part(idx, par):
        if idx:
            sub = [ds[i] for i in idx]
            for i, r in zip(idx, vlib.drive(ctx, binp, sub, chunk=max(4, (len(sub) + 63) // 64), timeout=600, par=par)):
                res[i] = r
    ctx.pmap(lambda a: part(*a), [(other, 10), (hungry, 6)], par=2)
    events = []
    for i, r in enumerate(res):
        if r["crashed"]:
            d = ds[i]
            marks = [e for e in r["events"] if e.get("e") == "try" and "api" in e]
            if marks:
                m = marks[-1]
                one = {"t": "bytes", "api": m["api"], "hex": m["hex"], "target": m["target"], "fmt": m.get("fmt", 0),
                       "dser": 74, "seed": 1, "n": 1}
                how = "oom" if "out of memory" in r["crashed"] else "stack" if "stack overflow" in r["crashed"] else "fatal"
                ctx.violation("died:%s:%s:ser%d:%s:%s" % (how, m["api"], reached_format(m), m["target"], m["cls"].split(":")[0]),
                              "the process died in %s(%d bytes: %s) [%s] into target %s: %s" % (
                                  m["api"], m.get("n", 0), m["hex"][:200], m["cls"], m["target"], r["crashed"][:400]),
                              {"directive": one if m["hex"] or not m.get("n") else d})
            else:
                ctx.violation("crash:%s:f%s:c%s:%s" % (d["t"], d.get("f", "-"), d.get("c", "-"), d.get("mk", "-")),
                              "driver died on directive %s: %s" % (json.dumps(d), r["crashed"][:600]), {"directive": d})
        for e in r["events"]:
            if e.get("e") != "try":
                e.pop("h", None)
                e["di"] = i
                events.append(e)
    return events


def judge(ctx, ds, events):
    bad = vlib.validate_stateless(ctx, "DsdTrace", "DsdTrace.cfg", events, chunks=vlib.NCPU, timeout=1500)
    for ev in bad:
        d = dict(ds[ev["di"]])
        if "kind" in ev:
            d["kinds"] = [ev["kind"]]
        brief = {k: v for k, v in ev.items() if k not in ("blob", "body", "hex") or len(str(v)) < 200}
        ctx.violation(sig(ev), "case rejected by the Dsd model: %s" % json.dumps(brief)[:1500],
                      {"directive": d, "event": ev, "signature": sig(ev)})
    return len(events) - len(bad)


def input_key(e):
    return json.dumps([e.get(k) for k in ("e", "api", "via", "f", "c", "dser", "kind", "hdr", "fb", "want", "hex", "indent",
                                          "target", "fmt")], sort_keys=True)


def run(ctx):
    g, vecs = model(ctx)
    ds = directives(ctx, vecs)
    events = evaluate(ctx, ds)
    ok = judge(ctx, ds, events)
    nontrivial = {input_key(e) for e in events if e["e"] in ("cload", "total") or e.get("dok")}
    by = {}
    for e in events:
        by[e["e"]] = by.get(e["e"], 0) + 1
    samples = []
    for kind in ("rt", "req", "resp", "cload", "echo", "total"):
        for e in events:
            if e["e"] == kind and (kind in ("cload", "total") or e.get("dok")):
                samples.append({k: (v if len(str(v)) < 300 else str(v)[:300] + "...") for k, v in e.items() if k != "di"})
                break
    nv = {t: sum(1 for v in vecs if v["t"] == t) for t in ("hdr", "rt", "corrupt")}
    vlib.finish(ctx, LEVEL, {
        "evaluations": len(events), "distinct_nontrivial": len(nontrivial),
        "rule": "one evaluation = one case recorded from the real package and judged by TLC against spec/Dsd.tla: a dump+load round "
                "trip (Dump/DumpIndent/DumpAndCompress -> Load/LoadAsFormat/DecompressAndLoad), an HTTP dump+load "
                "(DumpToHTTPRequest/DumpToHTTPResponse/MimeDump -> LoadFromHTTP*/MimeLoad, in memory and over a loopback socket), "
                "a load of an independently encoded body under a generated Content-Type, or one Load* call on corrupted/random bytes. "
                "Vectors are the states of spec/DsdGen.tla (all header lists up to 3 tokens over the "
                + ("26" if ctx.tier != "quick" else "17") + "-token alphabet"
                + ", all single tokens of the complete token space, 14 formats x 7 compressions, every structured corruption), each "
                "instantiated with seeded values of the harness schema and 2-4 default formats. distinct = distinct inputs "
                "(operation, formats, header, value text / bytes); non-trivial = the dump side succeeded, or a load of given bytes",
        "accepted": ok, "events_by_type": by, "model_vectors": nv,
        "model_states": g.distinct, "model_transitions": g.generated, "directives": len(ds),
        "samples": samples, "exhaustive": False,
        "exhaustive_note": "the vector space of the model (header lists, format x compression requests, corruption classes) is "
                           "enumerated completely; values and random bytes are sampled",
    }, ["TLC + spec/Dsd.tla as the oracle; the encoders themselves (encoding/json, fxamacker/cbor, vmihailenco/msgpack, ghodss/yaml, "
        "GenCode codecs) are exercised, not specified",
        "driver cmd/dsdx: canonical text of values (nil and empty slices/maps equal), tokenisation of the Content-Type the "
        "implementation wrote, independent decoding of the body (sniff) and of the identifier/gzip wrapper",
        "RAW is bytes only: Load reports RAW with ErrIsRaw and the caller takes the bytes (modelled as allowed)",
        "values: ints within +-2^53 (record.Meta: full int64), valid UTF-8 strings"])


def replay(ctx, path):
    with open(path) as fh:
        doc = json.load(fh)
    rp = doc["replay"]
    ds = [rp["directive"]]
    events = evaluate(ctx, ds)
    judge(ctx, ds, events)
    vlib.finish(ctx, LEVEL, {"evaluations": max(1, len(events)), "distinct_nontrivial": max(2, len({input_key(e) for e in events})),
                             "rule": "replay of one recorded directive", "samples": events[:2]}, ["replay"])
