"""X09 (extension) — the option registry of package config and the views on it, beyond C04.

Part 1 (stateful): spec/CfgReg.tla is the reference semantics (statement G1..G7 at its top): which options
Register accepts, how values reach the user and the default layer (SetConfigOption, SetDefaultConfigOption,
ReplaceConfig, Put / Delete on the database "config"), what Get / Query of that database show, the release
and expertise level options and what they gate, perspectives, the Clean*Config helpers.  CfgRegGen checks
the laws of that model breadth-first and generates operation histories; harness/cmd/cfgreg runs every
history in a fresh process against the real package (module system started, database.Interface) and records
after every step the complete database view, GetActiveConfigValues, GetExpertiseLevel, ForEachOption,
ExportOptions and the cleaned probe maps; CfgRegTrace decides every recorded step.

Part 2 (stateless): spec/CfgMaps.tla defines Flatten / Expand / PutValueIntoHierarchicalConfig / JSONToMap /
MapToJSON / Clean*Config over symbolic nested maps (statement M1..M5); CfgMapsGen checks its laws
(expand(flatten(m)) = m ...) on every nested map of a small domain and generates vectors; CfgMapsTrace
decides every recorded call.
"""
import json
import random
import resource
from concurrent.futures import ThreadPoolExecutor

import vlib

LEVEL = "model_checking"
DRIVER = "cfgreg"

TOK = ["", "/", "a", "b", "core", "d", "expertiseLevel", "k", "releaseLevel", "t", "u"]


def ktext(k):
    return "".join(TOK[c] if 0 < c < len(TOK) else "?" for c in (k or []))


def kind_of(raw):
    """class of a raw value identifier: s i f b ss is x nil absent; f:frac = a number with a fraction, is:mixed = a list
    with a non-string entry"""
    kind = raw.split(":", 1)[0] if ":" in raw else raw
    if kind == "f" and "." in raw:
        return "f:frac"
    if kind == "is" and "#" in raw:
        return "is:mixed"
    return kind


def spec_class(op, regs):
    """what is special about a registration request (stable text for signatures)"""
    s = op.get("spec", {})
    marks = []
    if not op.get("k"):
        marks.append("nokey")
    if not s.get("nm"):
        marks.append("noname")
    if not s.get("ds"):
        marks.append("nodesc")
    if s.get("t") not in (1, 2, 3, 4):
        marks.append("type%s" % s.get("t"))
    if s.get("re") == 2:
        marks.append("badregex")
    elif s.get("re") == 1:
        marks.append("regex")
    if s.get("pv"):
        marks.append("pv%d" % s["pv"])
    if s.get("vf"):
        marks.append("vfunc")
    if ktext(op.get("k")) in regs:
        marks.append("dup")
    return "t%s:%s:d=%s" % (s.get("t"), "+".join(marks) or "plain", kind_of(s.get("d", "?")))


def step_class(hist, ej):
    """Stable description of the failing step: operation, kind of target and input, observed error class."""
    ev = hist[ej]
    o = ev.get("op", {})
    res = ev.get("res", {})
    name = o.get("op", "?")
    if res.get("panic"):
        return "panic:%s" % name
    regs = {}
    for e in hist[:ej]:
        if e.get("e") == "op" and e["op"]["op"] == "register" and e["res"]["err"] == "ok":
            regs[ktext(e["op"]["k"])] = e["op"]["spec"]
    key = ktext(o.get("k"))
    if name == "register":
        where = spec_class(o, regs)
    elif name in ("setuser", "setdef", "dbput", "dbdel", "dbget"):
        if key.startswith("core/"):
            target = "level"
        elif key in regs:
            s = regs[key]
            target = "t%d%s%s%s" % (s["t"], "+regex" if s["re"] == 1 else "", "+pv%d" % s["pv"] if s["pv"] else "",
                                    "+vfunc" if s["vf"] else "")
        else:
            target = "unknown"
        where = "%s:%s" % (target, kind_of(o.get("raw", "?")) if name in ("setuser", "setdef", "dbput") else "-")
    elif name == "dbquery":
        where = "prefix=%s" % (key or "-")
    else:
        where = "map"
    return "%s:%s:err=%s" % (name, where, res.get("err", "?"))


# ------------------------------------------------------------------------------------------ part 1
def reg_generate(ctx, nsim):
    plans = [6, 10, 10, 14, 14, 20, 10, 14]
    per = max(1, nsim // len(plans))

    def gen(k):
        r = ctx.tlc("CfgRegGen", cfg_text=vlib.cfg_text(constants={"MaxLen": plans[k], "Level": 1, "Emit": True}),
                    mode="simulate", num=per, depth=plans[k] + 3, seed=ctx.seed * 13 + k, timeout=1500, count=False)
        return r.emitted()
    scripts = []
    for part in ctx.pmap(gen, range(len(plans))):
        scripts.extend(part)
    return scripts


def execute(ctx, scripts, chunk=None):
    binp = ctx.go_build(DRIVER)
    res = vlib.drive(ctx, binp, scripts, chunk=chunk or max(8, len(scripts) // 48), timeout=900)
    out = []
    for i, r in enumerate(res):
        if r["crashed"]:
            # the parent driver (not a worker process) failed: infrastructure
            raise vlib.Inconclusive("cfgreg driver failed on script %d: %s" % (i, r["crashed"][:600]))
        evs = r["events"]
        for e in evs:
            if e.get("e") == "setup-failed":
                raise vlib.Inconclusive("cfgreg worker could not be set up: %s" % json.dumps(e))
            e.pop("h", None)
        out.append(evs)
    return out


def reg_judge(ctx, scripts, hists, sig_override=None):
    ok, rej, unex = vlib.validate(ctx, "CfgRegTrace", "CfgRegTrace.cfg", hists,
                                  max_reject=6 if ctx.tier == "quick" else 40)
    for hi, ej, ev in rej:
        sig = sig_override or ("reg:" + step_class(hists[hi], ej))
        lines = ["  %d. %s -> %s" % (n, json.dumps({k: v for k, v in e["op"].items() if v not in ([], "nil")
                                                     and not (k == "spec" and e["op"]["op"] != "register")}),
                                     json.dumps({k: v for k, v in e["res"].items() if v not in ([], "")}))
                 for n, e in enumerate(hists[hi][1:ej + 1], 1)][-6:]
        ctx.violation(sig,
                      "history %d step %d: what the config package did is not an outcome spec/CfgReg.tla allows "
                      "(keys as token lists: %s)\n%s\n  observed afterwards: %s" % (
                          hi, ej, " ".join("%d=%s" % (i, t) for i, t in enumerate(TOK) if t), "\n".join(lines),
                          json.dumps(ev.get("obs"))[:900]),
                      {"part": "reg", "script": scripts[hi], "observed": hists[hi][:ej + 1]})
    return ok, unex


def reg_nontrivial(s):
    """at least two registrations and a value-changing operation and a database read"""
    ops = [o["op"] for o in s["steps"]]
    return ops.count("register") >= 2 and any(o in ("setuser", "setdef", "dbput", "replace") for o in ops)


# ------------------------------------------------------------------------------------------ part 2
def maps_generate(ctx, nscripts, per_script):
    parts = 8

    def gen(k):
        r = ctx.tlc("CfgMapsGen", cfg_text=vlib.cfg_text(constants={"MaxLen": per_script, "Emit": True}),
                    mode="simulate", num=max(1, nscripts // parts), depth=per_script + 3, seed=ctx.seed * 17 + k,
                    timeout=1500, count=False)
        return r.emitted()
    scripts = []
    for part in ctx.pmap(gen, range(parts)):
        scripts.extend(part)
    return scripts


def maps_sig(ev):
    if ev.get("panic"):
        return "maps:panic:%s" % ev.get("fn")
    ins = ev.get("flat") or ev.get("tree") or []
    paths = [tuple(e["p"]) for e in ins]
    conflict = any(a != b and a == b[:len(a)] for a in paths for b in paths)
    empties = any(e["v"] == 0 for e in ins)
    return "maps:%s:%s%s" % (ev.get("fn"), "conflict" if conflict else "plain", "+emptysection" if empties else "")


def maps_judge(ctx, events, sig_override=None):
    bad = vlib.validate_stateless(ctx, "CfgMapsTrace", "CfgMapsTrace.cfg", events, chunks=vlib.NCPU)
    for ev in bad:
        ctx.violation(sig_override or maps_sig(ev),
                      "call rejected by spec/CfgMaps.tla (segments 1 2 3 = a b c; v = 0 an empty section): %s" % json.dumps(ev)[:900],
                      {"part": "maps", "script": {"mode": "maps", "vec": [
                          {k: ev.get(k) for k in ("fn", "tree", "flat", "k", "v", "reg")}]}})
    return len(events) - len(bad)


def maps_events(hists):
    events = []
    for evs in hists:
        for e in evs:
            if e.get("e") == "vec":
                events.append(e)
            elif e.get("e") == "op" and (e.get("res") or {}).get("panic"):
                events.append({"e": "vec", "fn": "process", "tree": [], "flat": [], "k": [], "v": 0, "reg": [],
                               "out": [], "same": True, "panic": e["res"]["panic"]})
    return events


# ------------------------------------------------------------------------------------------ run
def run(ctx):
    quick = ctx.tier == "quick"

    # 1. laws of the two reference models on every reachable state of a small domain; beside the pipeline
    def laws():
        out = [ctx.tlc("CfgRegGen", cfg_text=vlib.cfg_text(
            constants={"MaxLen": 3 if quick else 4, "Level": 1, "Emit": False}, invariants=["Laws"], view="GenView"),
            workers=max(2, vlib.NCPU // 2), timeout=3000)]
        out.append(ctx.tlc("CfgMapsGen", cfg_text=vlib.cfg_text(
            constants={"MaxLen": 3 if quick else 4, "Emit": False}, invariants=["Laws"], view="MapsView"),
            workers=max(2, vlib.NCPU // 4), timeout=3000))
        if not quick:
            out.append(ctx.tlc("CfgRegGen", cfg_text=vlib.cfg_text(
                constants={"MaxLen": 2, "Level": 2, "Emit": False}, invariants=["Laws"], view="GenView"),
                workers=max(2, vlib.NCPU // 2), timeout=3000))
        return out
    pool = ThreadPoolExecutor(max_workers=1)
    laws_future = pool.submit(laws)

    # 2. histories and vectors from the specifications
    import time
    t0 = time.time()
    nsim = 1600 if quick else 24000
    scripts = reg_generate(ctx, nsim)
    if len(scripts) < nsim // 2:
        raise vlib.Inconclusive("history generation produced only %d scripts" % len(scripts))
    per = 150
    mscripts = maps_generate(ctx, 64 if quick else 640, per)
    if len(mscripts) < (64 if quick else 640) // 2:
        raise vlib.Inconclusive("vector generation produced only %d scripts" % len(mscripts))

    vlib.log("x09: generated %d histories, %d vector scripts in %.1fs" % (len(scripts), len(mscripts), time.time() - t0))
    # 3. run them against the real package, 4. let TLC judge what was recorded
    random.Random(ctx.seed).shuffle(scripts)
    ok = unex = nevents = 0
    ops = {}
    batch = 4000
    for b0 in range(0, len(scripts), batch):
        part = scripts[b0:b0 + batch]
        t1 = time.time()
        hists = execute(ctx, part)
        t2 = time.time()
        k, u = reg_judge(ctx, part, hists)
        vlib.log("x09: batch of %d histories: executed in %.1fs, validated in %.1fs" % (len(part), t2 - t1, time.time() - t2))
        ok += k
        unex += u
        for h in hists:
            nevents += len(h)
            for e in h:
                if e.get("e") == "op":
                    key = "%s:%s" % (e["op"].get("op"), e["res"]["err"])
                    ops[key] = ops.get(key, 0) + 1
        del hists
        if len(ctx.violations) >= 12:
            unex += len(scripts) - b0 - len(part)
            break
    mhists = execute(ctx, mscripts, chunk=max(1, len(mscripts) // 32))
    mevents = maps_events(mhists)
    mok = maps_judge(ctx, mevents)
    fns = {}
    for e in mevents:
        fns[e["fn"]] = fns.get(e["fn"], 0) + 1

    vlib.log("x09: map vectors done at %.1fs" % (time.time() - t0))
    mcs = laws_future.result()
    vlib.log("x09: laws done at %.1fs" % (time.time() - t0))
    pool.shutdown()
    distinct = len({vlib.sha(s) for s in scripts if reg_nontrivial(s)}) + \
        len({vlib.sha({k: e.get(k) for k in ("fn", "tree", "flat", "k", "v")}) for e in mevents
             if len(e.get("tree") or e.get("flat") or []) >= 2})
    vlib.finish(ctx, LEVEL, {
        "states": sum(m.distinct for m in mcs), "transitions": sum(m.generated for m in mcs),
        "traces_validated_against_impl": ok,
        "evaluations": len(scripts) + len(mevents), "distinct_nontrivial": distinct,
        "rule": "part 1: operation histories generated by TLC -simulate from spec/CfgRegGen.tla (6 to 20 operations), "
                "non-trivial = at least two registrations and a value-changing operation; part 2: calls of the map "
                "conversions generated from spec/CfgMapsGen.tla, non-trivial = at least two entries in the argument; "
                "distinct by content hash",
        "events_validated": nevents, "histories_unexamined_after_rejections": unex,
        "operations_by_outcome": dict(sorted(ops.items())),
        "map_calls_validated": mok, "map_calls_by_function": dict(sorted(fns.items())),
        "samples": [scripts[0], {"mode": "maps", "vec": mscripts[0]["vec"][:2]}],
        "check_process_maxrss_mb": resource.getrusage(resource.RUSAGE_SELF).ru_maxrss // 1024,
        "exhaustive": False,
    }, ["trace validation judges per step: the result (error class, records, reported keys, perspective answers) and, "
        "after the step, the complete Query of the database config (key, type, levels, RequiresRestart, default in force, "
        "user value, annotations), GetActiveConfigValues, GetExpertiseLevel, ForEachOption, ExportOptions and the probe "
        "maps after CleanFlattenedConfig / CleanHierarchicalConfig",
        "every history runs in its own process with the module system started on a fresh data root; the options "
        "core/log/level and core/devMode that the config module registers itself are left out of every observation",
        "option requests range over the fixture of spec/CfgReg.tla: four keys plus the empty key, the four types plus an "
        "unset and an unknown type, one compiling and one broken regex, possible values with and without a regex "
        "metacharacter, one validation function; values are the raw identifiers of RawTab (Go values; JSON for database Put)",
        "ascending key order of Query and ExportOptions is claimed because the code sorts deliberately (sortByKey); "
        "an option registered after ReplaceConfig starts without a user value (the code never applies earlier maps)",
        "registering a key twice: refusal and replacement are both accepted (undocumented); keys that are a path prefix of "
        "another key and keys outside the category/sub/key form are not generated",
        "map conversions: path segments are the plain names a b c (no empty, dotted or slash-containing segments, on which "
        "the documentation is silent); leaves are a string, a number, a bool and a string list"])


def replay(ctx, path):
    with open(path) as fh:
        doc = json.load(fh)
    script = doc["replay"]["script"]
    hists = execute(ctx, [script], chunk=1)
    if doc["replay"].get("part") == "maps":
        events = maps_events(hists)
        maps_judge(ctx, events, sig_override=doc["signature"])
        n = len(events)
    else:
        reg_judge(ctx, [script], hists, sig_override=doc["signature"])
        n = len(hists)
    vlib.finish(ctx, LEVEL, {"states": 1, "transitions": 1, "traces_validated_against_impl": n,
                             "samples": [script]}, ["replay of one recorded script"])
