"""X10 (extension) — the database bridge of package api (database "api:") and the built-in endpoints.

spec/ApiBr.tla is the reference model (statement P1..P8 at its top: accepted keys and scope, routing by
key, mapping of Method/Query/Data/MimeType onto the internal request, the permission a bridged request
holds, the result record / error per status class, delivery of the response to subscribers, equality with
the same request over real HTTP, and what ping, endpoints, config/options, auth/permissions, auth/bearer,
auth/basic, auth/reset, modules/status and the event trigger answer and do).  ApiBrGen checks the laws of
that table breadth-first and generates call histories (bridge Get / Put with typed and wrapped records,
HTTP round trips with and without credentials, the same request both ways, dev mode, subscriptions,
sessions); harness/cmd/apibr replays them against the real package with a live server on loopback;
ApiBrTrace decides every recorded step.
"""
import json
import random
import time
from concurrent.futures import ThreadPoolExecutor

import vlib

LEVEL = "model_checking"
DRIVER = "apibr"


def _side(ob):
    if ob.get("ok"):
        return "ok"
    if ob.get("ec"):
        return "%s%s" % (ob["ec"], ":%d" % ob["code"] if ob.get("ec") == "code" else "")
    return "st=%s" % ob.get("code")


def step_sig(hist, ej):
    """Stable description of the rejected step: operation, class of input, observed class of answer."""
    ev = hist[ej]
    e = ev.get("e")
    o = ev.get("op", {})
    dev = False
    for x in hist[:ej]:
        if x.get("e") == "dev":
            dev = x["op"]["on"]
    where = "%s:%s:m=%s:kf=%s%s" % (o.get("ch"), o.get("ep"), o.get("m") or "default", o.get("kf"), ":dev" if dev else "")
    # the two ways a bridge call can fail on its own, whatever the endpoint: one signature each
    b = ev.get("b") if e == "pair" else ev.get("ob") if e == "call" and o.get("ch") != "http" else None
    if b is not None and b.get("ec") == "panic":
        return "bridge:panic:key=weird" if o.get("kf") == "weird" and o.get("m") != "bad" else "bridge:panic:m=%s" % (o.get("m") or "default")
    if b is not None and b.get("ec") == "code" and 200 <= b.get("code", 0) <= 299:
        return "bridge:status-%d-reported-as-error" % b["code"]
    if e == "call":
        ob = ev["ob"]
        cred = ":cred=%s" % o.get("cred") if o.get("ch") == "http" else ""
        return "call:%s%s:%s:inv=%s:body=%s:evd=%s" % (where, cred, _side(ob), ob.get("inv"), ob.get("body") or ob.get("ebody"), ob.get("evd"))
    if e == "pair":
        return "pair:%s:cred=%s:bridge=%s:http=%s:same=%s:samect=%s" % (
            where, o.get("cred"), _side(ev["b"]), _side(ev["w"]), ev.get("same"), ev.get("samect"))
    if e == "login":
        return "login:perm=%s:%s:cookie=%s%s" % (o.get("perm"), _side(ev["ob"]), ev["ob"].get("cookie"), ":dev" if dev else "")
    return "%s" % e


def generate(ctx, nsim):
    plans = [8, 12, 12, 16, 16, 20, 24, 30]
    per = max(1, nsim // len(plans))

    def gen(k):
        r = ctx.tlc("ApiBrGen", cfg_text=vlib.cfg_text(constants={"MaxLen": plans[k], "Emit": True}),
                    mode="simulate", num=per, depth=plans[k] + 3, seed=ctx.seed * 17 + k, timeout=1500, count=False)
        return r.emitted()
    scripts = []
    for part in ctx.pmap(gen, range(len(plans))):
        scripts.extend(part)
    rnd = random.Random(ctx.seed)
    for s in scripts:
        s["seed"] = rnd.randrange(1, 1 << 30)
    return scripts


def execute(ctx, scripts, chunk=None):
    binp = ctx.go_build(DRIVER)
    res = vlib.drive(ctx, binp, scripts, chunk=chunk or max(8, len(scripts) // 32), timeout=900)
    hists, owner = [], []
    for i, r in enumerate(res):
        evs = [e for e in r["events"] if e.get("e") != "try"]
        infra = [e for e in evs if e.get("e") in ("setup-failed", "infra")]
        if infra:
            raise vlib.Inconclusive("driver infrastructure failed: %s" % json.dumps(infra[:1]))
        if r["crashed"]:
            tries = [e for e in r["events"] if e.get("e") == "try"]
            last = tries[-1] if tries else {}
            o = last.get("op", {})
            ctx.violation("crash:%s:%s:%s:m=%s" % (o.get("op"), o.get("ch"), o.get("ep"), o.get("m") or "default"),
                          "the driver process died or hung while executing %s: %s" % (json.dumps(o)[:400], r["crashed"][:600]),
                          {"script": scripts[i], "died_in": last})
            continue
        if not evs:
            raise vlib.Inconclusive("driver recorded nothing for script %d" % i)
        hists.append(evs)
        owner.append(i)
    return hists, owner


def judge(ctx, scripts, hists, owner, sig_override=None):
    ok, rej, unex = vlib.validate(ctx, "ApiBrTrace", "ApiBrTrace.cfg", hists,
                                  max_reject=8 if ctx.tier == "quick" else 40)
    for hi, ej, ev in rej:
        sig = sig_override or step_sig(hists[hi], ej)
        ctx.violation(sig,
                      "history %d step %d: what the api package did is not an outcome the bridge model allows: %s" % (
                          owner[hi], ej, json.dumps({k: v for k, v in ev.items() if k != "h"})[:1800]),
                      {"script": scripts[owner[hi]], "observed": hists[hi][:ej + 1]})
    return ok, unex


def nontrivial(s):
    """at least three calls, one of them through the bridge"""
    calls = [o for o in s["steps"] if o["op"] in ("call", "pair")]
    return len(calls) >= 3 and any(o["op"] == "pair" or o["ch"] != "http" for o in calls)


def run(ctx):
    quick = ctx.tier == "quick"

    # 1. laws of the answer table on every reachable state (dev mode x sessions x subscriptions) and every
    #    request of the domain; runs beside the conformance pipeline
    def laws():
        return [ctx.tlc("ApiBrGen", cfg_text=vlib.cfg_text(constants={"MaxLen": 1, "Emit": False},
                                                          invariants=["Laws"], view="View"),
                        workers=max(2, vlib.NCPU // 4), timeout=1500)]
    pool = ThreadPoolExecutor(max_workers=1)
    laws_future = pool.submit(laws)
    # 2. histories from the specification
    nsim = 2400 if quick else 72000
    t0 = time.time()
    scripts = generate(ctx, nsim)
    vlib.log("x10: %d histories generated in %.1fs" % (len(scripts), time.time() - t0))
    if len(scripts) < nsim // 2:
        raise vlib.Inconclusive("history generation produced only %d scripts" % len(scripts))
    random.Random(ctx.seed).shuffle(scripts)
    # 3. replay against the real package, 4. TLC judges what was recorded
    ok = unex = nevents = 0
    stats = {}
    batch = 8000
    tdrive = tjudge = 0.0
    for b0 in range(0, len(scripts), batch):
        part = scripts[b0:b0 + batch]
        t0 = time.time()
        hists, owner = execute(ctx, part, chunk=max(8, min(250, len(part) // 32)))
        t1 = time.time()
        k, u = judge(ctx, part, hists, owner)
        tdrive += t1 - t0
        tjudge += time.time() - t1
        vlib.log("x10: batch of %d: driven in %.1fs, judged in %.1fs" % (len(part), t1 - t0, time.time() - t1))
        ok += k
        unex += u
        for h in hists:
            nevents += len(h)
            for e in h:
                t = e.get("e")
                if t == "call":
                    ob = e["ob"]
                    key = "call:%s:%s" % ("http" if e["op"]["ch"] == "http" else "bridge", _side(ob))
                    if ob.get("evd"):
                        stats["events_injected"] = stats.get("events_injected", 0) + ob["evd"]
                elif t == "pair":
                    key = "pair:%s/%s" % (_side(e["b"]), _side(e["w"]))
                    if e["b"].get("ok") and e["w"].get("ok"):
                        stats["pairs_compared_bytewise"] = stats.get("pairs_compared_bytewise", 0) + 1
                elif t == "login":
                    key = "login:cookie=%s" % e["ob"].get("cookie")
                else:
                    key = t
                stats[key] = stats.get(key, 0) + 1
        del hists
        if len(ctx.violations) >= 12:
            unex += len(scripts) - b0 - len(part)
            break
    mcs = laws_future.result()
    pool.shutdown()
    distinct = len({vlib.sha(s["steps"]) for s in scripts if nontrivial(s)})
    ncalls = sum(v for k, v in stats.items() if k.startswith("call:")) + 2 * sum(v for k, v in stats.items() if k.startswith("pair:"))
    vlib.finish(ctx, LEVEL, {
        "states": sum(m.distinct for m in mcs), "transitions": sum(m.generated for m in mcs),
        "traces_validated_against_impl": ok,
        "evaluations": len(scripts), "distinct_nontrivial": distinct,
        "rule": "call histories generated by TLC -simulate from spec/ApiBrGen.tla (8 to 30 operations: bridge Get/Put, typed "
                "and wrapped request records, HTTP round trips, the same request both ways, dev mode, subscriptions, "
                "sessions); non-trivial = at least three calls, one of them through the bridge; distinct by content hash",
        "events_validated": nevents, "calls_executed": ncalls, "histories_unexamined_after_rejections": unex,
        "drive_s": round(tdrive, 1), "judge_s": round(tjudge, 1),
        "events_by_outcome": dict(sorted(stats.items())),
        "samples": [{"steps": s["steps"][:6]} for s in scripts[:2]],
        "exhaustive": False,
    }, ["trace validation judges per step: whether the call returned a record or an error and of which class, the status code "
        "named by the error, the class of the body / of the error text and of the content type, the key of the response "
        "record, which instrumented endpoint function ran and how often, the method, input, query, content type and token "
        "it saw, the number of events injected, the number of records pushed to each subscription, and for the paired "
        "calls byte equality of body and content type between bridge and HTTP",
        "HTTP credentials are modelled by an authenticator that turns a request header into a token (user, admin, self) "
        "and by the session cookies it issues; API keys are part of C12",
        "bodies are compared by class (exact text for fixed answers; the endpoint listing against ExportEndpoints, the "
        "options and module status by their marker entries); modules/status is exempt from the byte comparison",
        "the built-in debug endpoints other than ping (stack, profiles, debug info) are not called",
        "one process serves many histories: dev mode, subscriptions and cookies are reset at the start of each; the "
        "endpoint registry and the session table are global and only grow"])


def replay(ctx, path):
    with open(path) as fh:
        doc = json.load(fh)
    script = doc["replay"]["script"]
    scripts = [script] * 3
    hists, owner = execute(ctx, scripts, chunk=1)
    judge(ctx, scripts, hists, owner, sig_override=doc["signature"])
    vlib.finish(ctx, LEVEL, {"states": 1, "transitions": 1, "traces_validated_against_impl": len(hists),
                             "samples": [script]}, ["replay of one recorded script"])
