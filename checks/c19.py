"""C19 — the updater selects the prescribed version and never purges what is needed.

spec/Updater.tla         reference model of one resource: selection cascade (`Prescribed`), what Blacklist may do,
                         post-conditions of a purge (`PurgeViolations`), `Step(st, op)` = set of allowed outcomes.
spec/UpdaterLaws.tla     TLC, exhaustive over every configuration of 4 (quick) / 5 (thorough) versions: the cascade
                         agrees with its tier formulation, blacklisted only as last resort, Blacklist never takes
                         the last valid version, the intended purge algorithm meets the post-conditions.
spec/UpdaterGen.tla      TLC, breadth first over all reachable states of a small version set (every allowed purge
                         outcome is followed), and -simulate generation of operation histories.
spec/UpdaterTrace.tla    judges what a real ResourceRegistry did (driver harness/cmd/upd: temp storage dir, real
                         files, loopback download server); names the violated requirement of every rejected call.
spec/UpdaterNames*.tla   file-name <-> (identifier, version): character-level model of the documented format, laws
                         checked by TLC on every vector, every vector evaluated by the Go functions and judged.
"""
import json
import os
import threading

import vlib

LEVEL = "model_checking"
SELECTING = ("Select", "GetFile", "Blacklist")


# ------------------------------------------------------------------------------------------ model checking
def model_checking(ctx):
    quick = ctx.tier == "quick"
    v_sel = "{1, 2, 4, 6}" if quick else "{1, 2, 4, 5, 6}"
    v_pur = "{1, 2, 4, 6}" if quick else "{1, 2, 3, 4, 6}"
    invs = ["SelectionOK", "BlacklistOK", "PurgeOK", "TotalOK"]
    jobs = [
        ("laws-select", lambda: ctx.tlc("UpdaterLaws", cfg_text=vlib.cfg_text(
            constants={"Vs": v_sel, "Mode": '"select"'}, invariants=["LawsOK"]), workers=6, timeout=1500)),
        ("laws-purge", lambda: ctx.tlc("UpdaterLaws", cfg_text=vlib.cfg_text(
            constants={"Vs": v_pur, "Mode": '"purge"'}, invariants=["LawsOK"]), workers=4, timeout=1500)),
        # every reachable state of a two-version resource (dev version + a pre-release), no depth bound
        ("reach-2", lambda: ctx.tlc("UpdaterGen", cfg_text=vlib.cfg_text(
            constants={"Vs": "{1, 4}", "MaxLen": 0, "Emit": False}, invariants=invs, view="View"),
            workers=3, timeout=1500)),
        # three versions, breadth first to a bounded depth
        ("reach-3-bounded", lambda: ctx.tlc("UpdaterGen", cfg_text=vlib.cfg_text(
            constants={"Vs": "{2, 5, 6}", "MaxLen": 2 if quick else 3, "Emit": False}, invariants=invs,
            view="View", constraint="Depth"), workers=3, timeout=2400)),
    ]
    if not quick:
        # every reachable state of a three-version resource (dev version, a stable one, a pre-release)
        jobs.append(("reach-3", lambda: ctx.tlc("UpdaterGen", cfg_text=vlib.cfg_text(
            constants={"Vs": "{1, 2, 4}", "MaxLen": 0, "Emit": False}, invariants=invs[:3], view="View"),
            workers=8, timeout=3000)))
    res = ctx.pmap(lambda j: (j[0], j[1]()), jobs, par=len(jobs))
    return {name: {"states": r.distinct, "transitions": r.generated, "depth": r.depth} for name, r in res}


# ------------------------------------------------------------------------------------------ histories
def gen_histories(ctx):
    quick = ctx.tier == "quick"
    plan = [(10, 700), (16, 900), (16, 900), (24, 500)] if quick else \
           [(8, 4000), (12, 6000), (16, 8000), (16, 8000), (20, 6000), (24, 5000), (30, 3000), (40, 2000)]

    def gen(k):
        depth, num = plan[k]
        r = ctx.tlc("UpdaterGen", cfg_text=vlib.cfg_text(
            constants={"Vs": "{1, 2, 3, 4, 5, 6}", "MaxLen": depth, "Emit": True}), mode="simulate", num=num,
            depth=depth + 4, seed=ctx.seed * 31 + k, timeout=1500, count=False)
        return r.emitted()
    scripts = []
    for part in ctx.pmap(gen, range(len(plan))):
        scripts.extend(part)
    want = sum(n for _, n in plan)
    if len(scripts) < want // 2:
        raise vlib.Inconclusive("history generation produced only %d of %d scripts" % (len(scripts), want))
    # every third history spells the version of every other Add in its other accepted form (1.0 for 1.0.0, v1.1.0, 2):
    # the spelling of a version is not part of its identity
    for i, sc in enumerate(scripts):
        if i % 3 == 1:
            k = 0
            for st in sc["steps"]:
                if st["op"] == "Add":
                    k += 1
                    st["alt"] = (k % 2 == 0)
    return scripts


def judge_histories(ctx, hists):
    """TLC (spec/UpdaterTrace.tla) consumes every event; rejected calls come back as (line, why)."""
    n = len(hists)
    k = max(1, min(vlib.NCPU, (sum(len(h) for h in hists) + 2999) // 3000))
    parts = [p for p in (list(range(i, n, k)) for i in range(k)) if p]
    rejected = []

    def job(idx):
        lines, owner = [], []
        for i in idx:
            for j, e in enumerate(hists[i]):
                lines.append(json.dumps(e))
                owner.append((i, j))
        r = ctx.tlc("UpdaterTrace", cfg="UpdaterTrace.cfg", workers=1, timeout=1200,
                    files={"trace.ndjson": "\n".join(lines) + "\n"}, want_ok=False, count=False)
        if not r.ok or r.depth != len(lines) + 1:
            tail = "\n".join(r.out.splitlines()[-30:])
            raise vlib.Inconclusive("trace validation with UpdaterTrace did not consume the trace:\n%s" % tail)
        seen = set()
        for d in r.emitted():
            if d["line"] in seen:
                continue
            seen.add(d["line"])
            i, j = owner[d["line"] - 1]
            rejected.append((i, j, sorted(d["why"])))
    ctx.pmap(job, parts)
    return sorted(rejected)


def run_histories(ctx, scripts):
    binp = ctx.go_build("upd")
    res = vlib.drive(ctx, binp, scripts, chunk=max(16, len(scripts) // 48), timeout=600)
    hists, owner, nevents = [], [], 0
    for i, r in enumerate(res):
        evs = [e for e in r["events"] if e.get("e") != "try"]
        if r["crashed"]:
            tries = [e for e in r["events"] if e.get("e") == "try"]
            last = tries[-1] if tries else {}
            ctx.violation("crash:%s" % last.get("op", {}).get("op", "?"),
                          "the driver process died while executing %s: %s" % (json.dumps(last.get("op")), r["crashed"][:600]),
                          {"script": scripts[i], "died_in": last})
            continue
        if not evs:
            raise vlib.Inconclusive("the driver recorded nothing for script %d" % i)
        hists.append(evs)
        owner.append(i)
        nevents += len(evs)
    rejected = judge_histories(ctx, hists)
    for hi, ej, why in rejected:
        ev = hists[hi][ej]
        op = ev.get("op", {}).get("op", ev.get("e"))
        ctx.violation("%s:%s" % (op, "+".join(why)),
                      "history %d, call %d: %s is not allowed by spec/Updater.tla (%s); call %s, result %s, observed afterwards %s" % (
                          owner[hi], ej, op, ", ".join(why), json.dumps(ev.get("op")), json.dumps(ev.get("res")), json.dumps(ev.get("obs"))),
                      {"script": scripts[owner[hi]], "observed": hists[hi][:ej + 1], "why": why})
    return len(hists) - len({hi for hi, _, _ in rejected}), nevents, len(hists)


# ------------------------------------------------------------------------------------------ file names
def run_names(ctx):
    g = ctx.tlc("UpdaterNamesGen", cfg_text=vlib.cfg_text(
        constants={"Small": ctx.tier == "quick", "Emit": True}, invariants=["LawsOK"]), workers=4, timeout=1500)
    vecs = g.emitted()
    if len(vecs) != g.distinct or not vecs:
        raise vlib.Inconclusive("UpdaterNamesGen emitted %d vectors for %d states" % (len(vecs), g.distinct))
    return vecs, judge_names(ctx, vecs), {"states": g.distinct, "transitions": g.generated, "depth": g.depth}


def judge_names(ctx, vecs):
    binp = ctx.go_build("upd")
    batches = [{"names": vecs[i:i + 400]} for i in range(0, len(vecs), 400)]
    res = vlib.drive(ctx, binp, batches, chunk=max(1, len(batches) // 16), timeout=600)
    events = []
    for i, r in enumerate(res):
        if r["crashed"]:
            ctx.violation("crash:names", "the driver died on a batch of file-name vectors: %s" % r["crashed"][:500],
                          {"vectors": batches[i]["names"]})
            continue
        for e in r["events"]:
            e.pop("h", None)
            events.append(e)
    bad = vlib.validate_stateless(ctx, "UpdaterNamesTrace", "UpdaterNamesTrace.cfg", events)
    for ev in bad:
        sig = "names:%s:ext=%d:pre=%d:dir=%d" % ("panic" if ev.get("panic") else "roundtrip", bool(ev["exts"]), bool(ev["pre"]), bool(ev["dir"]))
        ident = "".join(ev["dir"] + ev["stem"] + ev["exts"])
        ctx.violation(sig, "identifier %r with version %s.%s.%s%s: GetVersionedPath gave %r, GetIdentifierAndVersion of that gave (%r, %r, %s)" % (
            ident, "".join(ev["maj"]), "".join(ev["min"]), "".join(ev["pat"]), ("-" + "".join(ev["pre"])) if ev["pre"] else "",
            "".join(ev["name"]), "".join(ev["id"]), "".join(ev["ver"]), ev["ok"]),
            {"vector": {k: ev[k] for k in ("dir", "stem", "exts", "maj", "min", "pat", "pre")}})
    return len(events) - len(bad)


# ------------------------------------------------------------------------------------------ entry points
def _threadsafe_scratch(ctx):
    """ctx.sub() hands out numbered scratch directories; this check calls ctx.tlc from nested thread pools."""
    lock = threading.Lock()
    state = {"n": 0}

    def sub(name):
        with lock:
            state["n"] += 1
            d = os.path.join(ctx.scratch, "%s-c19-%d" % (name, state["n"]))
        os.makedirs(d)
        return d
    ctx.sub = sub


def run(ctx):
    _threadsafe_scratch(ctx)
    ctx.go_build("upd")
    def histories(c):
        sc = gen_histories(c)
        return sc, run_histories(c, sc)
    out = ctx.pmap(lambda f: f(ctx), [model_checking, histories, run_names], par=3)
    mc, (scripts, (accepted, nevents, nrun)), (vecs, names_ok, names_mc) = out
    mc["names-laws"] = names_mc

    def nontrivial(s):
        ops = [st["op"] for st in s["steps"]]
        return any(o in SELECTING for o in ops) and ops.count("Add") >= 2
    distinct = len({vlib.sha(s) for s in scripts if nontrivial(s)})
    purges = sum(1 for s in scripts for st in s["steps"] if st["op"] == "Purge")
    vlib.finish(ctx, LEVEL, {
        "states": sum(m["states"] for m in mc.values()), "transitions": sum(m["transitions"] for m in mc.values()),
        "traces_validated_against_impl": accepted,
        "evaluations": len(scripts) + len(vecs), "distinct_nontrivial": distinct,
        "rule": "histories: TLC -simulate of spec/UpdaterGen.tla over 6 versions (depth 8..40), executed on a real "
                "ResourceRegistry with real files, every call and the state observable after it judged by TLC; "
                "non-trivial = adds at least two versions and contains a selecting call (Select/GetFile/Blacklist), "
                "distinct by content hash.  name vectors: every element of the domain of spec/UpdaterNamesGen.tla",
        "histories_run": nrun, "events_validated": nevents, "purge_calls": purges,
        "name_vectors": len(vecs), "name_vectors_accepted": names_ok,
        "model_checking": mc,
        "samples": scripts[:2] + [{"name_vector": vecs[len(vecs) // 2]}],
        "exhaustive": False,
        "exhaustive_note": "exhaustive: model laws over all configurations of %d versions, reachable states of 2 versions, "
                           "all name vectors of the stated domain; sampled: histories over 6 versions" % (4 if ctx.tier == "quick" else 5),
    }, ["spec/Updater.tla is the oracle: selection is judged by equality with Prescribed, Blacklist by refuse/accept rules, "
        "Purge by post-conditions only (what must remain), on-demand downloads may succeed or fail",
        "one resource with the six versions 0.0.0, 1.0.0, 1.1.0, 1.2.0-beta, 2.0.0-rc, 2.0.0; no signature verification; "
        "version strings are always written in normalized form",
        "the driver maps version strings/file names to symbolic ids with the tables that the trace spec compares with its own"])


def replay(ctx, path):
    _threadsafe_scratch(ctx)
    with open(path) as fh:
        doc = json.load(fh)
    rp = doc["replay"]
    n = 0
    if "vector" in rp or "vectors" in rp:
        vecs = rp.get("vectors") or [rp["vector"]]
        n = judge_names(ctx, vecs)
        sample = vecs[0]
    else:
        n, _, _ = run_histories(ctx, [rp["script"]])
        sample = rp["script"]
    vlib.finish(ctx, LEVEL, {"states": 1, "transitions": 1, "traces_validated_against_impl": n,
                             "samples": [sample]}, ["replay of one recorded case"])
