"""C11 — query text and query objects convert into each other without change of meaning.

spec/QuerySem.tla: meaning of conditions (Matches for the 18 operators on symbolic values);
spec/QueryLang.tla: tokenizer automaton over character classes, escaping, harness schema, query
trees and their rendering as text; spec/QueryLangGen.tla: TLC explores every character string up
to a length bound (laws of the tokenizer, predicted token lists), every leaf of the exhaustive
leaf family wrapped into not/and/or (laws of the semantics), and draws random trees with styled
texts; harness/cmd/qlang evaluates the real package; spec/QueryLangTrace.tla judges every event.

Scripts and events are handled as JSON text lines (millions of them in the thorough tier); only
the lines of rejected events are decoded.
"""
import json
import os
import re
import threading
import time
import vlib

LEVEL = "exploration"
CFG_CONST = {"MaxLen": 0, "Deep": 0, "Emit": True}
BATCH = 120000          # scripts per drive/validate round (bounds memory)


def cfg(mode, inv=None, **const):
    c = dict(CFG_CONST)
    c.update(const)
    return vlib.cfg_text(init="Init" + mode, next_="Next" + mode, constants=c, invariants=[inv] if inv else [])


def emitted_lines(out):
    """The JSON texts printed by the spec with PrintT(<<"@@", ToJson(x)>>), not decoded."""
    res = []
    for line in out.splitlines():
        if not line.startswith('<<"@@", "') or not line.endswith('">>'):
            continue
        try:
            res.append(json.loads(line[8:-2]))     # un-escape the TLA+ string literal
        except Exception:
            continue
    return res


S_RE = re.compile(r'"s":\[([0-9,]*)\]')
SH_RE = re.compile(r'"sh":"(\w+)"')


# ------------------------------------------------------------------------------- generation
def generate(ctx):
    quick = ctx.tier == "quick"
    maxlen = 5 if quick else 6
    deep = 1 if quick else 2
    nsim = 12 if quick else 16
    per = 12 if quick else 80           # behaviours of 100 queries (and 100 long strings) each per simulation run
    jobs = [("S", None), ("L", None)] + [("R", k) for k in range(nsim)]

    def job(j):
        mode, k = j
        if mode == "S":
            r = ctx.tlc("QueryLangGen", cfg_text=cfg("S", "TokLaws", MaxLen=maxlen), workers=8, timeout=1500)
        elif mode == "L":
            r = ctx.tlc("QueryLangGen", cfg_text=cfg("L", "SemLaws", Deep=deep), workers=8, timeout=1500)
        else:
            r = ctx.tlc("QueryLangGen", cfg_text=cfg("R"), mode="simulate", num=per, depth=100,
                        seed=ctx.seed * 101 + k, timeout=1500, count=False)
        lines = emitted_lines(r.out)
        r.out = ""
        return mode, r, lines
    pool = None
    toks, trees, rand, longs = [], [], [], []
    stats = {}
    for mode, r, lines in ctx.pmap(job, jobs):
        if mode == "S":
            stats["strings_states"] = r.distinct
            for v in lines:
                if v.startswith('{"k":"pool"'):
                    pool = json.loads(v)
                elif v.startswith('{"k":"tok"'):
                    toks.append(v)
        elif mode == "L":
            stats["tree_states"] = r.distinct
            trees.extend(v for v in lines if v.startswith('{"k":"q"'))
        else:
            rand.extend(v for v in lines if v.startswith('{"k":"q"'))
            longs.extend('%s,"cm":0,"lite":false}' % v[:-1] for v in lines if v.startswith('{"k":"tok"'))
    want = sum(9 ** k for k in range(maxlen + 1))
    if pool is None or len(toks) != want or not trees or len(rand) < nsim * per * 50:
        raise vlib.Inconclusive("generation incomplete: pool=%s toks=%d/%d trees=%d random=%d" % (
            pool is not None, len(toks), want, len(trees), len(rand)))
    scripts = []
    for v in toks:
        s = S_RE.search(v).group(1)
        n = s.count(",") + 1 if s else 0
        x = SH_RE.search(v).group(1) == "x"
        # the longest strings outside the judged shapes get one context instead of three
        scripts.append('%s,"cm":0,"lite":%s}' % (v[:-1], "true" if x and n == maxlen else "false"))
        if 0 < n <= 4:            # the same string with other runes for blank / multi-byte / letter / digit
            cm = 1 + (sum(int(c) for c in s.split(",")) + n + ctx.seed) % 6
            scripts.append('%s,"cm":%d,"lite":false}' % (v[:-1], cm))
    scripts.extend(longs)
    scripts.extend(trees)
    scripts.extend(rand)
    stats.update({"strings": len(toks), "maxlen": maxlen, "long_strings": len(longs), "trees": len(trees), "random_trees": len(rand)})
    return pool, scripts, stats


def get_pool(ctx):
    r = ctx.tlc("QueryLangGen", cfg_text=cfg("S", MaxLen=0), workers=1, timeout=300, count=False)
    for v in emitted_lines(r.out):
        if v.startswith('{"k":"pool"'):
            return json.loads(v)
    raise vlib.Inconclusive("no witness pool emitted")


# ------------------------------------------------------------------------------- evaluation
H_RE = re.compile(r'(?<![\\\w])"h":(\d+)[,}]')
E_RE = re.compile(r'(?<![\\\w])"e":"(\w+)"')
CTX_RE = re.compile(r'(?<![\\\w])"ctx":"(\w+)"')
O1_RE = re.compile(r'(?<![\\\w])"o1":\[([a-z,]*)\]')


def drive_lines(ctx, binp, lines, poolfile, timeout=900):
    """vlib.drive on JSON text lines: returns ([(script index, event line)], [(script index, why)]).

    A driver that dies (fatal error, kill, timeout) is restarted behind the script it died in."""
    n = len(lines)
    chunk = max(8, n // (4 * vlib.NCPU) + 1)
    jobs = [range(i, min(i + chunk, n)) for i in range(0, n, chunk)]

    def job(idx):
        d = ctx.sub("drive")
        sp = os.path.join(d, "scripts.ndjson")
        with open(sp, "w") as fh:
            fh.write("\n".join(lines[i] for i in idx))
            fh.write("\n")
        evs, crashed = [], []
        skip = rounds = 0
        while skip < len(idx):
            rounds += 1
            tp = os.path.join(d, "trace-%d.ndjson" % rounds)
            rc, out, err, wall = ctx.run([binp, sp, tp, str(skip), poolfile], timeout=timeout)
            got = []
            if os.path.exists(tp):
                with open(tp, errors="replace") as fh:
                    for ln in fh:
                        ln = ln.rstrip("\n")
                        m = H_RE.search(ln) if ln.endswith("}") else None
                        if m:
                            got.append((int(m.group(1)), ln))
                os.unlink(tp)
            if rc == 0:
                evs.extend((idx[h], ln) for h, ln in got if '"e":"try"' not in ln)
                break
            last = max([h for h, _ in got if h >= skip], default=skip)      # the script it died in
            evs.extend((idx[h], ln) for h, ln in got if h < last and '"e":"try"' not in ln)
            why = "driver timeout" if rc == -999 else "driver died rc=%d" % rc
            crashed.append((idx[last], why + ": " + "\n".join((err or out or "").splitlines()[:12])))
            skip = last + 1
        return evs, crashed

    events, crashed = [], []
    for evs, cr in ctx.pmap(job, jobs):
        events.extend(evs)
        crashed.extend(cr)
    return events, crashed


def validate_lines(ctx, evlines):
    """Stateless validation by TLC: {event index: reasons} for the rejected events."""
    n = len(evlines)
    if n == 0:
        return {}
    # cost: a tree event is worth about eight token events; chunks of about 12 000 units, at most 3 per core
    units = sum(8 if '"ast":' in ln else 1 for ln in evlines)
    k = max(1, min(3 * vlib.NCPU, units // 12000 + 1, n))
    parts = [range(i, n, k) for i in range(k)]
    bad = {}

    def job(idx):
        fs = {"trace.ndjson": "\n".join(evlines[i] for i in idx) + "\n"}
        r = ctx.tlc("QueryLangTrace", cfg="QueryLangTrace.cfg", workers=1, timeout=1500, files=fs, want_ok=False, count=False)
        em = r.emitted()
        if not em or em[0].get("n") != len(idx):
            tail = "\n".join(r.out.splitlines()[-30:])
            raise vlib.Inconclusive("trace validation with QueryLangTrace failed to run:\n%s" % tail)
        if bool(em[0]["bad"]) == r.ok:
            raise vlib.Inconclusive("inconsistent TLC verdict in QueryLangTrace")
        for w in em[0]["why"]:
            bad[idx[w["i"] - 1]] = sorted(w["w"])

    ctx.pmap(job, parts, par=vlib.NCPU)
    return bad


# ------------------------------------------------------------------------------- signatures
PRIORITY = ("notnot", "group-end", "empty", "quote-edge", "backslash", "mbend", "key-special", "pfx-special", "pfx-mbend",
            "ob-special", "ob-mbend", "quote", "paren")
RESERVED = ([6], [7])      # keys that read like a token of the grammar: ( )


def strings_of(ast):
    if ast["k"] == "leaf":
        v = ast["val"]
        out = [("key", ast["key"])]
        if v["t"] == "str":
            out.append(("val", v["s"]))
        if v["t"] == "re":           # the source text escapes \ ( ) with a backslash
            out.append(("val", v["s"] + ([5] if any(c in v["s"] for c in (5, 6, 7)) else [])))
        for x in v["l"]:
            out.append(("val", x))
        return out
    return [s for c in ast["sub"] for s in strings_of(c)]


def str_features(kind, s):
    f = set()
    if kind == "val" and not s:
        f.add("empty")
    if 5 in s:
        f.add("backslash")
    if s and s[-1] == 9:
        f.add("mbend")
    if s and (s[0] == 4 or s[-1] == 4):
        f.add("quote-edge")
    if kind == "key" and (3 in s or 4 in s or 6 in s):
        f.add("key-special")
    return f


def features(sc, ctx=None):
    """Class of the input a violation is attributed to (classification for the signature only)."""
    f = set()
    if sc["k"] == "tok":
        if ctx in ("key", "kopen") and sc["t"] in RESERVED:
            return "key-reserved"
        s = sc["s"]
        f |= str_features("tok", s)
        if 4 in s:
            f.add("quote")
        if 6 in s or 7 in s:
            f.add("paren")
    else:
        for kind, s in strings_of(sc["ast"]):
            if kind == "key" and s in RESERVED:
                return "key-reserved"
            f |= str_features(kind, s)
        for name in ("pfx", "ob"):
            s = sc[name]
            if any(c in s for c in (3, 4, 5, 6, 7)):
                f.add(name + "-special")
            if s and s[-1] == 9:
                f.add(name + "-mbend")
        if sc["f"]["notnot"]:
            f.add("notnot")
        if sc["f"]["grpend"]:
            f.add("group-end")
    for name in PRIORITY:            # one feature per signature: the most specific one
        if name in f:
            return name
    return "plain"


def process(ctx, binp, poolfile, scripts, acc, sig_override=None):
    """Drive one batch of scripts, let TLC judge every event, record violations, update the counters."""
    t0 = time.time()
    events, crashed = drive_lines(ctx, binp, scripts, poolfile)
    t1 = time.time()
    for i, why in crashed:
        sc = json.loads(scripts[i])
        ctx.violation(sig_override or "crash:%s:%s" % (sc["k"], features(sc)),
                      "the driver died or hung on script %s: %s" % (scripts[i][:600], why[:500]), {"script": sc})
    evlines = [ln for _, ln in events]
    bad = validate_lines(ctx, evlines)
    t2 = time.time()
    for i in sorted(bad):
        ev, sc = json.loads(evlines[i]), json.loads(scripts[events[i][0]])
        ev.pop("h", None)
        kind = ev["e"] + (":" + ev["ctx"] if ev["e"] == "tok" else "")
        sig = sig_override or "%s:%s:%s" % (kind, "+".join(bad[i]), features(sc, ev.get("ctx")))
        ctx.violation(sig, "rejected by the model (%s): %s" % (", ".join(bad[i]), json.dumps(ev)[:1500]),
                      {"script": sc, "event": ev, "why": bad[i]})
    # counters (evidence only)
    for i, ln in events:
        kind = E_RE.search(ln).group(1)
        ok = '"ok":true' in ln
        if kind == "tok":
            c = CTX_RE.search(ln).group(1)
            kind += ":" + c
            if ok and c[0] != "x":
                acc["nontrivial"].add(hash((c, scripts[i])))
        else:
            m = O1_RE.search(ln)
            if ok and m and "true" in m.group(1) and "false" in m.group(1):   # told apart from TRUE and FALSE by the witnesses
                acc["nontrivial"].add(hash((kind, scripts[i])))
        acc["per_kind"][kind] = acc["per_kind"].get(kind, 0) + 1
    acc["events"] += len(events)
    acc["rejected"] += len(bad)
    acc["t_drive"] += t1 - t0
    acc["t_validate"] += t2 - t1
    for want in ("txt", "rt", "val"):
        if len(acc["samples"].get(want, [])) < 2:
            for _, ln in events[len(events) // 2:]:
                if '"ok":true' in ln and ('"e":"%s"' % want in ln or '"ctx":"%s"' % want in ln):
                    ev = json.loads(ln)
                    acc["samples"].setdefault(want, []).append(
                        {k: ev[k] for k in ("e", "ctx", "s", "ast", "text", "p1", "o1") if k in ev})
                    break
    return events, bad


def new_acc():
    return {"events": 0, "rejected": 0, "per_kind": {}, "nontrivial": set(), "samples": {}, "t_drive": 0.0, "t_validate": 0.0}


def write_pool(ctx, pool):
    pf = os.path.join(ctx.sub("pool"), "pool.json")
    with open(pf, "w") as fh:
        json.dump(pool, fh)
    return pf


def serialize_sub(ctx):
    """ctx.sub numbers the scratch directories with an unprotected counter; this check calls it from many threads."""
    lock, orig = threading.Lock(), ctx.sub

    def sub(name):
        with lock:
            return orig(name)
    ctx.sub = sub


# ------------------------------------------------------------------------------- entry points
def run(ctx):
    serialize_sub(ctx)
    t0 = time.time()
    pool, scripts, stats = generate(ctx)
    t1 = time.time()
    binp = ctx.go_build("qlang")
    pf = write_pool(ctx, pool)
    acc = new_acc()
    for a in range(0, len(scripts), BATCH):
        process(ctx, binp, pf, scripts[a:a + BATCH], acc)
    stats["wall_generate_drive_validate_s"] = [round(t1 - t0, 1), round(acc["t_drive"], 1), round(acc["t_validate"], 1)]
    vlib.log("C11: %d scripts, %d events; generate %.1fs, drive %.1fs, validate %.1fs" % (
        len(scripts), acc["events"], t1 - t0, acc["t_drive"], acc["t_validate"]))
    vlib.finish(ctx, LEVEL, {
        "evaluations": acc["events"], "distinct_nontrivial": len(acc["nontrivial"]),
        "rule": "one evaluation = one event judged by TLC against spec/QueryLangTrace.tla: (rt) a query built through the API from a "
                "model tree -> Check -> Print -> ParseQuery -> Print, answers of both queries on %d typed and %d JSON witness records; "
                "(txt) a model-rendered text of the documented grammar -> ParseQuery, answers, and the same print/parse loop; (tok) one "
                "character string over 9 classes (all strings up to length %d, random ones of 7..30 characters) in a query context chosen by its "
                "predicted token list. "
                "Trees: every leaf of the exhaustive family wrapped %d time(s) (BFS) and random trees (depth <= 2, fan-out <= 3, simulation). "
                "non-trivial: rt/txt events whose query is told apart from TRUE and FALSE by the witnesses; tok events of strings with a "
                "judged token shape that parsed; distinct by (kind or context, script text)" % (
                    len(pool["sw"]), len(pool["jw"]), stats["maxlen"], 1 if ctx.tier == "quick" else 2),
        "accepted": acc["events"] - acc["rejected"], "events_per_kind": acc["per_kind"], "generation": stats,
        "states": ctx.tlc_states, "transitions": ctx.tlc_transitions,
        "samples": [s for k in ("txt", "rt", "val") for s in acc["samples"].get(k, [])],
        "exhaustive": False,
        "exhaustive_note": "exhaustive for character strings up to the length bound over 9 classes and for the leaf family; random beyond",
    }, ["TLC + spec/QuerySem.tla, QueryLang.tla as the oracle; where README.md is silent (unterminated quote, quote inside a word, "
        "trailing backslash, escaped ordinary character, word glued to a closing quote, numeric operator on a field of the other "
        "numeric kind) every outcome is allowed",
        "and/or groups with fewer than two members, `in` lists with fewer than two or comma-containing elements, limit/offset "
        "outside 0..2^31-1 and keys with a backslash are outside the explored domain; the keys ( and ) are explored "
        "(signature *:key-reserved), the keys and/or/not cannot be spelled in the model alphabet",
        "orderby/limit/offset have no accessor: they are observed through Print only"])


def replay(ctx, path):
    with open(path) as fh:
        doc = json.load(fh)
    sc = doc["replay"]["script"]
    serialize_sub(ctx)
    pool = get_pool(ctx)
    binp = ctx.go_build("qlang")
    acc = new_acc()
    process(ctx, binp, write_pool(ctx, pool), [json.dumps(sc)], acc, sig_override=doc["signature"])
    vlib.finish(ctx, LEVEL, {"evaluations": max(1, acc["events"]), "distinct_nontrivial": 1, "rule": "replay of one recorded script",
                             "samples": [sc]}, ["replay"])
