"""X12 (extension) — database/accessor: the struct and the two JSON accessors behave alike.

spec/AccSem.tla is the reference semantics (statement A1..A7 at its top): for every accessor kind, object
state, key and operation the set of allowed results, and for Set the set of allowed (error, object afterwards)
pairs; differences between the struct and the JSON accessors are explicit and only where documented or
inherent.  AccSemGen checks the laws of that model breadth-first (totality, frame, Set-then-Get, struct
typing, "alike") and generates (a) the complete one-step table (every key x getter, every field x every
boundary argument of every Go type) and (b) random Set/Get histories on one object; harness/cmd/accx runs
them against the real package and observes the object without the accessor; AccSemTrace decides every step.
"""
import json

import vlib

LEVEL = "model_checking"
DRIVER = "accx"

GEN_CONST = {"MaxLen": 0, "Emit": False, "Table": False, "Small": False}
LAWS = ["Total", "Frame", "SetGet", "StructTyped", "Alike", "JSONSame"]


def vclass(val):
    g = val.get("g", "")
    v = val.get("v", {})
    if v.get("t") == "num":
        r = v.get("r", 0)
        return "%s:%s" % (g, "frac" if v.get("fr") else "neg" if r < 8 else "big" if r >= 24 else "nat")
    return g or "-"


def kclass(key):
    """class of the addressed key (stable text for signatures)"""
    if key in ("X", "Sub.X"):
        return "missing"
    if key in ("S.X", "I8.X"):
        return "underscalar"
    if key in ("A.0", "A.1", "A.2"):
        return "index"
    if key == "A.#":
        return "length"
    if key in ("Sub", "Sub.Deep", "PS", "M"):
        return "object"
    if key in ("P", "IA", "u", "Emb", "Emb.ES", "PE"):
        return "open:" + key
    base = key.split(".")[-1]
    cls = {"S": "str", "NS": "namedstr", "ES": "promoted:str", "EI": "promoted:int", "A": "strarr", "B": "bool", "NI": "nameduint",
           "k": "mapentry", "z": "mapentry"}.get(base)
    if cls is None:
        cls = "float" if base.startswith("F") else "uint" if base.startswith("U") else "int"
    return ("sub:" if "." in key else "") + cls


def sig(acc, ev):
    o = ev.get("op", {})
    kind = "panic" if ev.get("panic") else "mismatch"
    acc = "json*" if acc.startswith("json") else acc
    if o.get("op") == "Set":
        res = "ok" if ev.get("res", {}).get("ok") else "err"
        return "%s:%s:Set:%s:%s:%s" % (kind, acc, kclass(o.get("key")), vclass(o.get("val", {})), res)
    return "%s:%s:%s:%s" % (kind, acc, o.get("op"), kclass(o.get("key")))


def table_scripts(ops):
    scripts = []
    for acc in ("struct", "json", "jsonbytes"):
        for o in ops:
            scripts.append({"acc": acc, "init": "full", "steps": [o]})
            if o["key"].startswith("PS"):
                scripts.append({"acc": acc, "init": "nilps", "steps": [o]})
    return scripts


def execute(ctx, scripts):
    """-> (hists, owner): recorded histories of the scripts that ran to their end"""
    binp = ctx.go_build(DRIVER)
    res = vlib.drive(ctx, binp, scripts, chunk=max(64, len(scripts) // 32), timeout=300)
    hists, owner = [], []
    for i, r in enumerate(res):
        evs = [e for e in r["events"] if e.get("e") != "try"]
        if r["crashed"]:
            tries = [e for e in r["events"] if e.get("e") == "try"]
            last = tries[-1] if tries else {}
            ctx.violation("crash:" + sig(scripts[i]["acc"], last),
                          "the process died while executing %s: %s" % (json.dumps(last.get("op")), r["crashed"][:600]),
                          {"script": scripts[i]})
            continue
        for e in evs:
            for k in ("h", "int_anchors", "frac_anchors", "object", "init"):
                e.pop(k, None)
        hists.append(evs)
        owner.append(i)
    return hists, owner


def judge(ctx, scripts, hists, owner):
    ok, rej, unex = vlib.validate(ctx, "AccSemTrace", "AccSemTrace.cfg", hists, chunks=vlib.NCPU, max_reject=8)
    for hi, ej, ev in rej:
        s = scripts[owner[hi]]
        ctx.violation(sig(s["acc"], ev),
                      "%s accessor, history %d step %d: %s is not an outcome spec/AccSem.tla allows (object before: see replay)" % (
                          s["acc"], owner[hi], ej, json.dumps({k: ev.get(k) for k in ("op", "res", "rawsame", "panic")})[:900]),
                      {"script": {"acc": s["acc"], "init": s["init"], "steps": s["steps"][:ej]}, "observed": hists[hi][:ej + 1]})
    return ok, unex


def run(ctx):
    quick = ctx.tier == "quick"
    # 1. laws of the model: full domain on the initial objects, reduced domain 2 / 3 steps deep
    mc0 = ctx.tlc("AccSemGen", cfg_text=vlib.cfg_text(constants=GEN_CONST, invariants=LAWS, view="View"), timeout=900)
    mc1 = ctx.tlc("AccSemGen", cfg_text=vlib.cfg_text(
        constants=dict(GEN_CONST, MaxLen=2 if quick else 3, Small=True), invariants=LAWS, view="View"), timeout=1500)
    # 2. the one-step table and histories from the specification
    tb = ctx.tlc("AccSemGen", cfg_text=vlib.cfg_text(constants=dict(GEN_CONST, Emit=True, Table=True)),
                 workers=1, timeout=600, count=False)
    em = tb.emitted()
    if not em or not em[0].get("ops"):
        raise vlib.Inconclusive("AccSemGen emitted no table")
    ops = em[0]["ops"]
    scripts = table_scripts(ops)
    ntable = len(scripts)
    nsim = 4000 if quick else 24000
    nj = 4 if quick else 16

    def gen(k):
        depth = [6, 10, 14, 20][k % 4]
        r = ctx.tlc("AccSemGen", cfg_text=vlib.cfg_text(constants=dict(GEN_CONST, MaxLen=depth, Emit=True)),
                    mode="simulate", num=nsim // nj, depth=depth + 3, seed=ctx.seed * 31 + k, timeout=1500, count=False)
        return r.emitted()
    for part in ctx.pmap(gen, range(nj)):
        scripts.extend(part)
    if len(scripts) - ntable < nsim // 2:
        raise vlib.Inconclusive("history generation produced only %d histories" % (len(scripts) - ntable))
    # 3. the real package
    hists, owner = execute(ctx, scripts)
    nevents = sum(len(h) - 1 for h in hists)
    ok, unex = judge(ctx, scripts, hists, owner)
    openkeys = {"P", "IA", "u", "Emb", "Emb.ES", "PE"}
    distinct = len({vlib.sha(s) for s in scripts if any(st["key"] not in openkeys for st in s["steps"])})
    sample = [s for s in scripts[ntable:ntable + 2]] + [scripts[len(ops) // 2]]
    vlib.finish(ctx, LEVEL, {
        "states": mc0.distinct + mc1.distinct, "transitions": mc0.generated + mc1.generated,
        "traces_validated_against_impl": ok,
        "evaluations": nevents, "distinct_nontrivial": distinct,
        "rule": "one evaluation = one accessor call judged by TLC against spec/AccSem.tla; the one-step table is "
                "exhaustive over (3 accessors) x (every key x 7 getters, every field x every boundary argument of every Go "
                "type, other keys x one argument per Go type) on the initial object (PS set / nil); histories are TLC "
                "-simulate behaviours of AccSemGen (6..20 steps); non-trivial = at least one call addresses a key whose outcome "
                "the model constrains (not one of the 6 'left open' keys); distinct by content hash of (accessor, initial object, steps)",
        "table_ops": len(ops), "table_histories": ntable, "random_histories": len(scripts) - ntable,
        "histories_unexamined_after_rejections": unex,
        "samples": sample, "exhaustive": False,
        "exhaustive_note": "exhaustive for one step from the two initial objects over the anchor domain; sampled beyond",
    }, ["TLC + spec/AccSem.tla as the oracle; numbers are ranks in the anchor tables of harness/cmd/accx",
        "the object is observed without the accessor under test (Go field reads / encoding/json with UseNumber)",
        "keys that need gjson escaping, JSON numbers beyond 2^53 and everything listed as 'left open' in AccSem.tla are not judged"])


def replay(ctx, path):
    with open(path) as fh:
        doc = json.load(fh)
    script = doc["replay"]["script"]
    hists, owner = execute(ctx, [script])
    if hists:
        _, rej, _ = vlib.validate(ctx, "AccSemTrace", "AccSemTrace.cfg", hists)
        for hi, ej, ev in rej:
            ctx.violation(doc["signature"], "replay: step %d rejected: %s" % (ej, json.dumps(ev)[:600]), doc["replay"])
    vlib.finish(ctx, LEVEL, {"states": 1, "transitions": 1, "traces_validated_against_impl": 1 if hists else 0,
                             "samples": [script]}, ["replay of one recorded script"])
