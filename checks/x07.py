"""X07 (extension) — API endpoints: what RegisterEndpoint accepts and what an endpoint answers.

spec/ApiEp.tla is the reference model (statement P1..P7 at its top: registration validation, export /
listing, routing and path parameters, method rules, body handling, BelongsTo, the answer per function
type and the error mapping, as a function from (endpoint declaration, request) to the classes of allowed
answers).  ApiEpGen checks the laws of that table breadth-first and generates histories (registrations,
racing registrations, module on/off, requests, listings); harness/cmd/apiep replays them against the real
package with a live HTTP server on loopback; ApiEpTrace decides every recorded step.
"""
import json
import random
import vlib

LEVEL = "model_checking"
DRIVER = "apiep"


def decl_class(d):
    p = d.get("p", 0)
    path = {0: "empty", -1: "blank", 9: "broken"}.get(p, "tpl")
    perm = "ok" if -1 <= d.get("rd", 0) <= 4 and -1 <= d.get("wr", 0) <= 4 else "bad"
    side = "none" if d.get("rd") == 0 and d.get("wr") == 0 else "some"
    meth = "ok"
    if (d.get("rd") != 0 and d.get("rm") not in ("", "GET")) or (d.get("wr") != 0 and d.get("wm") not in ("", "POST", "PUT", "DELETE")):
        meth = "bad"
    return "path=%s:fns=%d:perm=%s:sides=%s:method=%s" % (path, len(d.get("fns") or []), perm, side, meth)


def step_sig(hist, ej):
    """Stable description of the rejected step: operation, class of input, observed class of answer."""
    ev = hist[ej]
    e = ev.get("e")
    if e == "reg":
        return "reg:%s:res=%s" % (decl_class(ev["d"]), ev.get("res"))
    if e == "race":
        ds, errs = ev.get("ds", []), ev.get("errs", [])
        if any(d.get("p") == 9 and r == "ok" for d, r in zip(ds, errs)):
            return "race:path=broken:res=ok"
        won = [d.get("p") for d, r in zip(ds, errs) if r == "ok"]
        if len(won) != len(set(won)):
            return "race:two-winners-for-one-path"
        return "race:%s" % ",".join(sorted(set(errs)))
    if e == "list":
        return "list:%s" % ev.get("via")
    if e == "bypath":
        return "bypath:found=%s" % ev.get("found")
    if e in ("req", "reqstart"):
        q, ob = ev["q"], ev["ob"]
        # the endpoint concerned: the one whose function ran, else the one the generator aimed at
        inv = ob.get("inv") or []
        want = inv[0] if inv else q.get("tp")
        kind, mod = "nomatch", 0
        for x in hist[:ej]:
            if x.get("e") == "reg" and x.get("res") == "ok" and x["d"]["p"] == want:
                kind, mod = x["d"]["fns"][0], x["d"].get("mod", 0)
            if x.get("e") == "race":
                for d, r in zip(x.get("ds", []), x.get("errs", [])):
                    if r == "ok" and d["p"] == want and d.get("fns"):
                        kind, mod = d["fns"][0], d.get("mod", 0)
        online = False
        for x in hist[:ej]:
            if x.get("e") == "mod":
                online = x["on"]
            if x.get("e") == "reqstart":
                online = True
        where = kind + (":starting" if mod == 1 and e == "reqstart" else ":offline" if mod == 1 and not online else "")
        if ob.get("err"):
            return "req:%s:%s:%s:transport" % (where, q["m"], q["body"])
        if q["body"] in ("overdecl", "overchunk") and inv:
            return "req:body-over-limit:%s:function-invoked" % q["body"]
        st = ob.get("st")
        st = "code" if st == q.get("code") and q["beh"] in ("status", "wrap") else st
        rl = ":rl=%s" % ob.get("rl") if ob.get("rl") not in ("na", "held", None) else ""
        return "req:%s:%s:%s:%s:st=%s:inv=%d:body=%s%s" % (where, q["m"], "body" if q["body"] != "none" else "nobody", q["beh"], st,
                                                          len(inv), ob.get("body"), rl)
    return "%s" % e


def generate(ctx, nsim, heavy=True):
    plans = [10, 14, 14, 18, 18, 24, 24, 32]
    per = max(1, nsim // len(plans))

    def gen(k):
        r = ctx.tlc("ApiEpGen", cfg_text=vlib.cfg_text(
            constants={"MaxLen": plans[k], "Emit": True, "Heavy": heavy, "Dom": 1}),
            mode="simulate", num=per, depth=plans[k] + 3, seed=ctx.seed * 13 + k, timeout=1500, count=False)
        return r.emitted()
    scripts = []
    for part in ctx.pmap(gen, range(len(plans))):
        scripts.extend(part)
    return scripts


def execute(ctx, scripts, chunk=None):
    binp = ctx.go_build(DRIVER)
    res = vlib.drive(ctx, binp, scripts, chunk=chunk or max(16, len(scripts) // 32), timeout=900)
    hists, owner = [], []
    for i, r in enumerate(res):
        evs = [e for e in r["events"] if e.get("e") != "try"]
        if any(e.get("e") == "setup-failed" for e in evs):
            raise vlib.Inconclusive("driver infrastructure failed: %s" % json.dumps([e for e in evs if e.get("e") == "setup-failed"][:1]))
        if r["crashed"]:
            tries = [e for e in r["events"] if e.get("e") == "try"]
            last = tries[-1] if tries else {}
            o = last.get("op", {})
            what = o.get("op", "?")
            if what == "req":
                what = "req:%s:%s:%s" % (o["q"]["m"], o["q"]["body"], o["q"]["beh"])
            elif what == "reg":
                what = "reg:" + decl_class(o["d"])
            ctx.violation("crash:%s" % what,
                          "the driver process died or hung while executing %s: %s" % (json.dumps(o)[:400], r["crashed"][:600]),
                          {"script": scripts[i], "died_in": last})
            continue
        if not evs:
            raise vlib.Inconclusive("driver recorded nothing for script %d" % i)
        hists.append(evs)
        owner.append(i)
    return hists, owner


def judge(ctx, scripts, hists, owner, sig_override=None):
    ok, rej, unex = vlib.validate(ctx, "ApiEpTrace", "ApiEpTrace.cfg", hists,
                                  max_reject=6 if ctx.tier == "quick" else 40)
    for hi, ej, ev in rej:
        sig = sig_override or step_sig(hists[hi], ej)
        ctx.violation(sig,
                      "history %d step %d: what the api package did is not an outcome the endpoint model allows: %s" % (
                          owner[hi], ej, json.dumps({k: v for k, v in ev.items() if k != "h"})[:1200]),
                      {"script": scripts[owner[hi]], "observed": hists[hi][:ej + 1]})
    return ok, unex


def nontrivial(s):
    """a successful-looking registration and at least two requests"""
    ops = [o["op"] for o in s["steps"]]
    return ("reg" in ops or "race" in ops) and ops.count("req") >= 2


def run(ctx):
    quick = ctx.tier == "quick"

    # 1. laws of the response table and of the registry on every reachable state of the small domain;
    #    runs beside the conformance pipeline
    def laws():
        runs = [(2, 1)] if quick else [(2, 3), (3, 2)]     # (depth, declaration domain)
        return [ctx.tlc("ApiEpGen", cfg_text=vlib.cfg_text(
            constants={"MaxLen": depth, "Emit": False, "Heavy": False, "Dom": dom},
            invariants=["Laws"], view="View"), workers=max(2, vlib.NCPU // 2), timeout=3000) for depth, dom in runs]
    from concurrent.futures import ThreadPoolExecutor
    pool = ThreadPoolExecutor(max_workers=1)
    laws_future = pool.submit(laws)
    # 2. histories from the specification
    nsim = 2400 if quick else 40000
    import time
    t0 = time.time()
    scripts = generate(ctx, nsim)
    vlib.log("x07: %d histories generated in %.1fs" % (len(scripts), time.time() - t0))
    if len(scripts) < nsim // 2:
        raise vlib.Inconclusive("history generation produced only %d scripts" % len(scripts))
    random.Random(ctx.seed).shuffle(scripts)
    # 3. replay against the real package, 4. TLC judges what was recorded
    ok = unex = nevents = 0
    stats = {}
    repeated = []
    batch = 6000
    for b0 in range(0, len(scripts), batch):
        part = scripts[b0:b0 + batch]
        t0 = time.time()
        hists, owner = execute(ctx, part, chunk=max(16, min(160, len(part) // 32)))
        t1 = time.time()
        k, u = judge(ctx, part, hists, owner)
        vlib.log("x07: batch of %d: driven in %.1fs, judged in %.1fs" % (len(part), t1 - t0, time.time() - t1))
        ok += k
        unex += u
        for h in hists:
            nevents += len(h)
            for e in h:
                t = e.get("e")
                if t in ("req", "reqstart"):
                    key = "%s:%s:%s" % (t, e["q"]["m"], e["ob"].get("st"))
                    if e["ob"].get("retried"):
                        repeated.append({"q": e["q"], "retried": e["ob"]["retried"], "stacks": e["ob"].get("stacks", "")[:6000]})
                elif t == "reg":
                    key = "reg:%s" % e.get("res")
                else:
                    key = t
                stats[key] = stats.get(key, 0) + 1
        del hists
        if len(ctx.violations) >= 12:
            unex += len(scripts) - b0 - len(part)
            break
    mcs = laws_future.result()
    pool.shutdown()
    distinct = len({vlib.sha(s) for s in scripts if nontrivial(s)})
    nreq = sum(v for k, v in stats.items() if k.startswith("req"))
    vlib.finish(ctx, LEVEL, {
        "states": sum(m.distinct for m in mcs), "transitions": sum(m.generated for m in mcs),
        "traces_validated_against_impl": ok,
        "evaluations": len(scripts), "distinct_nontrivial": distinct,
        "rule": "operation histories generated by TLC -simulate from spec/ApiEpGen.tla (10 to 32 operations: registrations, "
                "racing registrations, module on/off, HTTP requests, listings); non-trivial = at least one registration "
                "and two requests; distinct by content hash",
        "events_validated": nevents, "http_round_trips": nreq, "histories_unexamined_after_rejections": unex,
        "events_by_outcome": dict(sorted(stats.items())),
        "round_trips_repeated_after_transport_error": len(repeated), "repeated_samples": repeated[:3],
        "samples": scripts[:2],
        "exhaustive": False,
    }, ["trace validation judges per step: the result of RegisterEndpoint, the exported registry (own path prefix), and for "
        "every HTTP round trip the status, content type class, body class, which endpoint function ran and how often, the "
        "input and URL variables it saw, the custom response header and the record lock",
        "requests carry no credentials and no authenticator is set: endpoints requiring more than PermitAnyone are "
        "outside this statement (C12); no Origin header (CORS is part of C12)",
        "one controllable module (x07mod) under module management; a request during its start is released into a start that completes 30 ms later (the package waits up to 10 s)",
        "the api registry is global and has no unregister: every history uses its own path prefix inside one process"])


def replay(ctx, path):
    with open(path) as fh:
        doc = json.load(fh)
    script = doc["replay"]["script"]
    reps = 50 if any(o["op"] == "race" for o in script["steps"]) else 1
    scripts = [script] * reps
    hists, owner = execute(ctx, scripts, chunk=8)
    judge(ctx, scripts, hists, owner, sig_override=doc["signature"])
    vlib.finish(ctx, LEVEL, {"states": 1, "transitions": 1, "traces_validated_against_impl": len(hists),
                             "samples": [script]}, ["replay of one recorded script"])
