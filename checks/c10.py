"""C10 — varint pack/unpack are exact inverses with exact byte accounting.

spec/Varint.tla is a transcription of the base-128 format over digit sequences (TLC has no
64-bit integers); VarintGen checks the laws of that model and emits boundary-structured
vectors; the driver evaluates the real functions on enumerated (all 8/16-bit values, all byte
strings up to length 2) and generated inputs; VarintTrace decides every recorded call.
"""
import json
import vlib

LEVEL = "exploration"


def directives(ctx, gen):
    quick = ctx.tier == "quick"
    ds = [{"fam": "values", "from": 0, "to": 256}, {"fam": "bytes1"}, {"fam": "bytes3"}]
    step = 2048
    if quick:
        # all 16-bit values around every 7-bit boundary and a seeded sample of the rest (thorough: all 65536)
        for lo, hi in ((0, 600), (16000, 16800), (32500, 33000), (65000, 65536)):
            ds.append({"fam": "values", "from": lo, "to": hi})
        import random
        rnd = random.Random(ctx.seed)
        for _ in range(6):
            a = rnd.randrange(600, 65000)
            ds.append({"fam": "values", "from": a, "to": a + 300})
        for a in range(0, 256, 16):
            ds.append({"fam": "bytes2", "from": a, "to": a + 16})
    else:
        for a in range(0, 65536, step):
            ds.append({"fam": "values", "from": a, "to": a + step})
        for a in range(0, 256, 8):
            ds.append({"fam": "bytes2", "from": a, "to": a + 8})
    for k in range(8 if quick else 64):
        ds.append({"fam": "rand", "seed": ctx.seed * 1000 + k, "count": 250})
        ds.append({"fam": "randbytes", "seed": ctx.seed * 1000 + k, "count": 400})
    for d in gen["nums"]:
        ds.append({"fam": "num", "num": d})
    for b in gen["unpack"]:
        ds.append({"fam": "unpack", "b": b})
    for b in gen["block"]:
        ds.append({"fam": "block", "b": b})
    return ds


def sig(ev):
    if ev.get("panic"):
        return "panic:%s:w%s" % (ev.get("e"), ev.get("w", "-"))
    if ev["e"] == "unpack":
        cls = "cont" if ev["b"] and ev["b"][0] >= 128 else "single"
        return "unpack:w%d:%s:len%d:%s" % (ev["w"], cls, min(len(ev["b"]), 11), "ok" if ev.get("ok") else "err")
    if ev["e"] == "block":
        return "block:%s" % ("ok" if ev.get("ok") else "err")
    return ev["e"] + ":w%s" % ev.get("w", "-")


def evaluate(ctx, ds):
    binp = ctx.go_build("varintx")
    res = vlib.drive(ctx, binp, ds, chunk=max(4, len(ds) // 48), timeout=600)
    events = []
    for i, r in enumerate(res):
        if r["crashed"]:
            ctx.violation("crash:" + ds[i]["fam"], "driver died on directive %s: %s" % (json.dumps(ds[i]), r["crashed"][:500]),
                          {"directive": ds[i]})
            continue
        for e in r["events"]:
            if e.get("e") != "try":
                e.pop("h", None)
                events.append(e)
    return events


def judge(ctx, events):
    bad = vlib.validate_stateless(ctx, "VarintTrace", "VarintTrace.cfg", events, chunks=vlib.NCPU)
    for ev in bad:
        ctx.violation(sig(ev), "call rejected by the varint model: %s" % json.dumps(ev)[:600], {"event": ev})
    return len(events) - len(bad), 0


def run(ctx):
    g = ctx.tlc("VarintGen", cfg="VarintGen.cfg", workers=1, timeout=600)
    gen = g.emitted()
    if not gen:
        raise vlib.Inconclusive("VarintGen emitted nothing")
    gen = gen[0]
    ds = directives(ctx, gen)
    events = evaluate(ctx, ds)
    ok, unex = judge(ctx, events)
    distinct = len({json.dumps([e.get("e"), e.get("w"), e.get("b"), e.get("num")]) for e in events})
    samples = [e for e in events if e["e"] == "unpack" and len(e["b"]) > 2][:3] + [e for e in events if e["e"] == "block" and e.get("ok")][:2]
    vlib.finish(ctx, LEVEL, {
        "evaluations": len(events), "distinct_nontrivial": distinct,
        "rule": "one evaluation = one call of Pack*/Unpack*/GetNextBlock/PrependLength/EncodedSize judged by TLC against "
                "spec/Varint.tla; inputs: all uint8 values, " + ("boundary windows + seeded windows of uint16" if ctx.tier == "quick" else "all uint16 values")
                + ", all byte strings of length <= 2, length 3 over 9 byte classes, TLC-generated 7-bit-boundary numbers and their "
                "mutated encodings, seeded random numbers/byte strings; distinct = distinct (function, width, input)",
        "accepted": ok, "unexamined_after_rejections": unex,
        "model_vectors": {k: len(v) for k, v in gen.items()},
        "samples": samples, "exhaustive": ctx.tier == "thorough",
        "exhaustive_note": "exhaustive for 2^8 and 2^16 values (thorough tier) and all byte strings up to length 2; sampled beyond",
    }, ["TLC + spec/Varint.tla as the oracle (numbers as base-128 digit sequences)",
        "driver cmd/varintx converts uint64 <-> digit sequences"])


def replay(ctx, path):
    with open(path) as fh:
        doc = json.load(fh)
    rp = doc["replay"]
    if "directive" in rp:
        ds = [rp["directive"]]
    else:
        ev = rp["event"]
        if ev["e"] == "unpack":
            ds = [{"fam": "unpack", "b": ev["b"]}]
        elif ev["e"] in ("block", "prepend"):
            ds = [{"fam": "block", "b": ev["b"]}]
        else:
            ds = [{"fam": "num", "num": ev["num"]}]
    events = evaluate(ctx, ds)
    judge(ctx, events)
    vlib.finish(ctx, LEVEL, {"evaluations": max(1, len(events)), "distinct_nontrivial": max(2, len(events)), "rule": "replay",
                             "samples": events[:3]}, ["replay"])
