"""C08 — the stored-record format round-trips and its decoder is total.

spec/RecordFormat.tla defines the wire layout (version | varint-length-prefixed meta section | DSD
format varint | payload) over byte sequences with a canonical writer `Encode` and a *total* reader
`ParseSet` (a set of allowed outcomes, wide where the property is silent).  RecordFormatGen is both
the law check of that model (TLC, BFS: writer/reader inverse, every truncation, every single-field
corruption, totality, no bytes from outside the input) and the generator of the vectors; the Go
driver cmd/recfmt serialises / parses / unwraps with the real database/record code and logs what
happened; RecordFormatTrace lets TLC judge every logged case.  Python only moves files.
"""
import json
import vlib

LEVEL = "exploration"

FORMATS = [0, 1, 67, 74, 127, 128, 200, 255]


def tla_set(xs):
    return "{" + ", ".join(str(x) for x in xs) + "}"


def gen_constants(ctx, emit):
    quick = ctx.tier == "quick"
    stride = 1 + ctx.seed % 5
    c = {
        "Flags": tla_set([0, 1, 2, 3]),
        "Formats": tla_set(FORMATS),
        "NPay": 5,
        "Emit": emit,
    }
    if not emit:
        # law check: every record of the domain, every truncation and corruption of each
        c.update({"Rots": tla_set([stride] if quick else [0, 1, 2, 3, 4, 5]), "NTyped": 60 if quick else 600,
                  "CutFormats": tla_set(FORMATS), "CutPays": tla_set([1, 2, 3] if quick else [1, 2, 3, 4, 5]),
                  "CutFlags": tla_set([0, 3 - ctx.seed % 3] if quick else [0, 1, 2, 3])})
    else:
        # vectors for the real code: all records of the stride(s), truncations/corruptions of a covering part
        c.update({"Rots": tla_set([stride] if quick else [stride, (stride % 5) + 1]), "NTyped": 400 if quick else 4000,
                  "CutFormats": tla_set([74, 127, 200] if quick else [0, 1, 74, 127, 128, 255]),
                  "CutPays": tla_set([1] if quick else [1, 3]),
                  "CutFlags": tla_set([1 + ctx.seed % 2] if quick else [3, 1 + ctx.seed % 2])})
    return c


INVARIANTS = ["Total", "Inside", "RoundTrip", "TruncLaw", "CorruptLaw", "KeyLaw"]


def directives(ctx, vectors):
    quick = ctx.tier == "quick"
    ds = list(vectors)
    ds.append({"fam": "misc"})
    n = 64 if quick else 640
    for k in range(n):
        s = ctx.seed * 100003 + k
        ds.append({"fam": "randrt", "seed": s, "count": 120})
        ds.append({"fam": "randparse", "seed": s, "count": 200})
        ds.append({"fam": "altmeta", "seed": s, "count": 60})
    return ds


def is_deleted(meta):
    d = meta["deleted"]
    return d[7] < 128 and any(d)


def sig(ev):
    """Stable signature: operation + class of the input, never a random value."""
    where = ""
    if ev.get("panic"):
        where = ":panic@" + ev["panic"].split(":")[0].replace(" ", "")
    if ev["e"] == "rt":
        kind = "typed" if ev.get("typed") else "wrapper"
        life = "deleted" if is_deleted(ev["meta"]) else "live"
        fmt = "fmt>=128" if ev.get("format", 0) >= 128 else "fmt<128"
        return "rt:%s:%s:%s%s" % (kind, life, fmt, where)
    cls = ev.get("cls", "?")
    if ev["e"] == "misc":
        return "misc:%s%s" % (cls, where)
    res = ("ok:fmt>=128" if ev.get("format", 0) >= 128 else "ok:fmt<128") if ev.get("ok") else "err"
    return "parse:%s:%s%s" % (cls, res, where)


def evaluate(ctx, ds):
    binp = ctx.go_build("recfmt")
    res = vlib.drive(ctx, binp, ds, chunk=max(8, len(ds) // 64), timeout=600)
    events = []
    for i, r in enumerate(res):
        evs = [e for e in r["events"] if e.get("e") != "try"]
        if r["crashed"]:
            last = evs[-1] if evs else {}
            ctx.violation("crash:%s:%s" % (ds[i]["fam"], ds[i].get("cls", "rand")),
                          "the driver process died in directive %s (last completed case: %s): %s" % (
                              json.dumps(ds[i])[:300], json.dumps(last)[:300], r["crashed"][:600]),
                          {"directive": ds[i]})
        for e in evs:
            e.pop("h", None)
            events.append(e)
    return events


def judge(ctx, events):
    bad = vlib.validate_stateless(ctx, "RecordFormatTrace", "RecordFormatTrace.cfg", events,
                                  chunks=max(vlib.NCPU, (len(events) + 11999) // 12000), timeout=1500)
    for ev in bad:
        ctx.violation(sig(ev), "case rejected by the record-format model: %s" % json.dumps(ev)[:1500], {"event": ev})
    return len(events) - len(bad)


def nontrivial(ev):
    if ev["e"] == "rt":
        return True
    if ev["e"] != "parse":
        return False
    b = ev["b"]
    return len(b) >= 2 and b[0] == 1      # passes the version stage: the block reader is exercised


def run(ctx):
    quick = ctx.tier == "quick"
    # 1. laws of the model over the whole domain (states/transitions of this run are the evidence numbers)
    mc = ctx.tlc("RecordFormatGen", cfg_text=vlib.cfg_text(constants=gen_constants(ctx, False), invariants=INVARIANTS),
                 timeout=1500)
    # 2. vectors: the same state space, printed (single worker: one line per state)
    g = ctx.tlc("RecordFormatGen", cfg_text=vlib.cfg_text(constants=gen_constants(ctx, True), invariants=INVARIANTS),
                workers=1, timeout=1500, count=False)
    vectors = g.emitted()
    vlib.log("c08: laws %d states %.1fs; %d vectors %.1fs" % (mc.distinct, mc.wall, len(vectors), g.wall))
    if len(vectors) < 1000:
        raise vlib.Inconclusive("RecordFormatGen emitted only %d vectors" % len(vectors))
    ds = directives(ctx, vectors)
    # 3. the real code
    import time
    t0 = time.time()
    events = evaluate(ctx, ds)
    vlib.log("c08: %d events from the driver %.1fs" % (len(events), time.time() - t0))
    if len(events) < len(vectors):
        raise vlib.Inconclusive("driver produced %d events for %d vectors" % (len(events), len(vectors)))
    # 4. TLC judges every case
    t0 = time.time()
    ok = judge(ctx, events)
    vlib.log("c08: judged %.1fs" % (time.time() - t0))
    keyf = lambda e: json.dumps([e["e"], e.get("typed"), e.get("key"), e.get("meta"), e.get("format"), e.get("data"),
                                 e.get("tin"), e.get("b")], sort_keys=True)
    distinct = len({keyf(e) for e in events if nontrivial(e)})
    by = {}
    for e in events:
        k = e["e"] + (":typed" if e.get("typed") else "") + ":" + e.get("cls", "?")
        by[k] = by.get(k, 0) + 1
    samples = ([e for e in events if e["e"] == "rt" and not e["typed"] and e["cls"] == "valid"][:1]
               + [e for e in events if e["e"] == "rt" and e["typed"]][:1]
               + [e for e in events if e["e"] == "parse" and e["cls"] == "trunc"][40:41]
               + [e for e in events if e["e"] == "parse" and e["cls"] == "metalen-over"][:1]
               + [e for e in events if e["e"] == "parse" and e["cls"] == "mutant"][:1])
    vlib.finish(ctx, LEVEL, {
        "evaluations": len(events), "distinct_nontrivial": distinct,
        "rule": "one evaluation = one case executed by the real database/record code and judged by TLC against "
                "spec/RecordFormat.tla: (rt) NewWrapper/typed struct -> MarshalRecord -> NewRawWrapper -> MarshalRecord "
                "(-> Unwrap for typed records); (parse) NewRawWrapper on a byte string (+ MarshalRecord of the result). "
                "Inputs: TLC-enumerated records (6 int64 classes per meta field incl. Min/Max/-1, 4 flag combinations, "
                "8 format ids incl. >= 128, 5 payloads, 7 keys), every truncation and 80+ single-field corruptions of "
                "a covering part of them, TLC-enumerated typed records, seeded random records over the full int64 range, "
                "seeded random byte strings, mutated valid encodings and alternative (JSON/CBOR/MsgPack/YAML/gzip) meta "
                "sections. distinct_nontrivial = distinct inputs that are a round trip or reach the meta block reader "
                "(first byte is the version 1 and at least one more byte)",
        "accepted": ok,
        "by_class": by,
        "model_states": mc.distinct, "model_transitions": mc.generated,
        "states": mc.distinct, "transitions": mc.generated,
        "vectors_from_tlc": len(vectors),
        "samples": samples,
        "exhaustive": False,
    }, ["TLC and spec/RecordFormat.tla (+ spec/Varint.tla) are the oracle; the canonical wire layout is part of the model",
        "int64 meta fields are compared as 8-byte little-endian images; the driver converts them with encoding/binary",
        "for deleted records the data format is not judged (the layout stores none); the key is handed to NewRawWrapper "
        "as (DatabaseName, DatabaseKey) of the original, as a storage backend does",
        "typed records: nil and empty slices/maps have the same image; strings are valid UTF-8; the JSON encoder itself "
        "is exercised, not specified",
        "a meta section that is not plain GenCode (other DSD format, compressed) is only judged for totality and for the "
        "treatment of the bytes behind it"])


def replay(ctx, path):
    with open(path) as fh:
        doc = json.load(fh)
    rp = doc["replay"]
    if "directive" in rp:
        ds = [rp["directive"]]
    else:
        ev = rp["event"]
        if ev["e"] == "parse":
            ds = [{"fam": "parse", "cls": ev.get("cls", "replay"), "b": ev["b"]}]
        elif ev.get("typed"):
            ds = [{"fam": "typed", "cls": ev.get("cls", "replay"), "key": ev["key"], "meta": ev["meta"], "t": ev["tin"]}]
        else:
            ds = [{"fam": "rt", "cls": ev.get("cls", "replay"), "key": ev["key"], "meta": ev["meta"],
                   "format": ev["format"], "data": ev["data"]}]
    events = evaluate(ctx, ds)
    judge(ctx, events)
    vlib.finish(ctx, LEVEL, {"evaluations": max(1, len(events)), "distinct_nontrivial": max(2, len(events)),
                             "rule": "replay of one recorded case", "samples": events[:3]}, ["replay"])
