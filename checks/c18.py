"""C18 — externally supplied names never reach files outside the component's root.

spec/PathScope.tla: paths are segment sequences, lexical Clean/Resolve, `Escapes`, the sandbox
layout of every component operation and the property `Conforms` (nothing outside the owned
directories is changed or returned for EVERY name; an escaping name is answered with an error).
spec/PathScopeGen.tla: BFS over all names of the segment alphabet (one state per name) with the laws
of the model as invariants / step properties; emits every name with the model's verdict.
harness/cmd/paths: one sandbox per vector, calls fstree Put/Get/Delete/Query, updater UnpackArchive
(zip entry), DirStructure EnsureRelPath/EnsureAbsPath, updater ScanStorage; records the returned
error, the before/after difference of the whole sandbox and the origin of returned data.
spec/PathScopeTrace.tla: TLC decides every recorded call.
"""
import json
import os
import shutil
import tempfile

import vlib

LEVEL = "exploration"

LAWS = dict(invariants=["OpsCovered", "Laws"], properties=["StepLaws"])


def gen_cfg(maxlen, pad, depths, abss, emit, laws):
    return vlib.cfg_text(constants={"MaxLen": maxlen, "PadLen": pad, "Depths": set(depths),
                                    "AbsSet": "{%s}" % ", ".join("TRUE" if a else "FALSE" for a in abss),
                                    "Emit": emit},
                         **(LAWS if laws else {}))


def expand(names, tables):
    """names: emitted name records, tables: emitted @T records -> vectors (pure plumbing of TLC output)."""
    tab = {}
    for t in tables:
        tab[t["depth"]] = t
    seen = set()
    vectors = []
    for n in names:
        key = (n["depth"], n["abs"], tuple(n["segs"]))
        if key in seen:
            continue
        seen.add(key)
        t = tab[n["depth"]]
        kidx = {k: i for i, k in enumerate(t["kinds"])}
        for o in t["ops"]:
            if o["op"] == "relroot" and n["abs"]:
                continue    # a scan root with a leading separator is an absolute path, not a name below the working directory
            i = kidx[o["kind"]]
            vectors.append({"comp": o["comp"], "op": o["op"], "depth": n["depth"], "pad": t["pad"], "abs": n["abs"],
                            "segs": n["segs"], "roots": t["lay"][i]["roots"], "base": t["lay"][i]["base"],
                            "esc": n["v"][i]["esc"], "cls": n["v"][i]["cls"]})
    return vectors


def bounds(ctx):
    """Longest name without / with a leading separator (the separator only matters in front of the first segment)."""
    return (4, 3) if ctx.tier == "quick" else (5, 4)


def generate(ctx):
    """The model enumerates the names; returns (vectors, law run)."""
    maxlen, maxlen_abs = bounds(ctx)
    pad = maxlen + 1
    # 1. laws of the model on every name (BFS, all workers)
    jobs = [("laws", None)]
    # 2. emission, one single-worker TLC per (depth, leading separator) partition
    for d in (1, 2):
        for a in (False, True):
            jobs.append(("emit", (d, a)))
    if ctx.tier != "quick":
        for k in range(4):
            jobs.append(("sim", k))

    def job(j):
        kind, arg = j
        if kind == "laws":
            return ctx.tlc("PathScopeGen", cfg_text=gen_cfg(maxlen, pad, (1, 2), (False, True), False, True),
                           workers=max(2, vlib.NCPU - 4), timeout=900)
        if kind == "emit":
            d, a = arg
            return ctx.tlc("PathScopeGen", cfg_text=gen_cfg(maxlen_abs if a else maxlen, pad, (d,), (a,), True, False),
                           workers=1, timeout=900, count=False)
        # seeded random longer names (up to 8 segments), the laws are checked on them as well
        return ctx.tlc("PathScopeGen", cfg_text=gen_cfg(8, 9, (1, 2), (False, True), True, True),
                       mode="simulate", num=60, depth=9, seed=ctx.seed * 13 + arg, workers=1, timeout=900,
                       count=False)

    res = ctx.pmap(job, jobs)
    laws = res[0]
    vectors = []
    for (kind, arg), r in zip(jobs[1:], res[1:]):
        vs = expand(r.emitted("@@"), r.emitted("@T"))
        if not vs:
            raise vlib.Inconclusive("PathScopeGen emitted nothing for %s %s" % (kind, arg))
        if kind == "sim":
            vs = [v for v in vs if len(v["segs"]) > maxlen]
        vectors.extend(vs)
    # the same name can be drawn by several simulation runs
    seen = set()
    uniq = []
    for v in vectors:
        k = (v["comp"], v["op"], v["depth"], v["pad"], v["abs"], tuple(v["segs"]))
        if k not in seen:
            seen.add(k)
            uniq.append(v)
    nsim = sum(1 for v in uniq if len(v["segs"]) > maxlen)
    # the same vectors of the file-tree database once more in a bare sandbox: the root is empty and lies in directories that
    # hold nothing else (whatever tidies up empty directories must stop at the root)
    bare = [dict(v, bare=True) for v in uniq if v["comp"] == "fstree" and v["op"] in ("delete", "put")
            and (v["cls"] in ("root-itself", "inside-via-dotdot") or len(v["segs"]) <= 2)]
    return uniq + bare, laws, nsim


def label(why):
    """Signature part from TLC's account of what the rejected event breaks (spec/PathScopeTrace.tla, Why)."""
    s = []
    if why["layout"]:
        s.append("layout")
    if why["changed"]:
        s.append("outside-change")
    if why["returned"]:
        s.append("returned-outside-data")
    if why["noerror"]:
        s.append("no-error")
    return ",".join(s) or "rejected"


def validate(ctx, events):
    """vlib.validate_stateless, additionally returning TLC's `why` record of every rejected event."""
    n = len(events)
    if n == 0:
        return []
    k = max(1, min(vlib.NCPU, (n + 1999) // 2000))
    parts = [p for p in (list(range(i, n, k)) for i in range(k)) if p]
    bad = []

    def job(idx):
        fs = {"trace.ndjson": "\n".join(json.dumps(events[i]) for i in idx) + "\n"}
        r = ctx.tlc("PathScopeTrace", cfg="PathScopeTrace.cfg", workers=1, timeout=1200, files=fs, want_ok=False, count=False)
        em = r.emitted()
        if not em or em[0].get("n") != len(idx):
            raise vlib.Inconclusive("stateless validation with PathScopeTrace failed to run:\n" + "\n".join(r.out.splitlines()[-30:]))
        b = em[0]["bad"]
        if bool(b) == r.ok:
            raise vlib.Inconclusive("inconsistent TLC verdict in PathScopeTrace")
        for j, w in zip(b, em[0]["why"]):
            bad.append((idx[j - 1], w))

    ctx.pmap(job, parts)
    return [(events[i], w) for i, w in sorted(bad, key=lambda x: x[0])]


def evaluate(ctx, vectors):
    binp = ctx.go_build("paths")
    # sandboxes on a memory file system if there is one: every vector creates and removes ~100 files, and
    # fstree fsyncs every file it writes (20 ms per vector on a disk, 2 ms on tmpfs)
    where = ctx.scratch
    if os.path.isdir("/dev/shm") and os.access("/dev/shm", os.W_OK):
        where = "/dev/shm"
    work = tempfile.mkdtemp(prefix="verif-c18-", dir=where)
    try:
        res = vlib.drive(ctx, binp, vectors, chunk=max(16, len(vectors) // (vlib.NCPU * 4)), timeout=900,
                         env={"C18_SANDBOXES": work})
    finally:
        shutil.rmtree(work, ignore_errors=True)
    events = []
    for i, r in enumerate(res):
        if r["crashed"]:
            v = vectors[i]
            ctx.violation("crash:%s:%s:%s" % (v["comp"], v["op"], v["cls"]),
                          "the process died on vector %s: %s" % (json.dumps(v), r["crashed"][:500]), {"vector": v})
            continue
        evs = [e for e in r["events"] if e.get("e") == "call"]
        if len(evs) != 1:
            raise vlib.Inconclusive("driver produced %d events for vector %s" % (len(evs), json.dumps(vectors[i])))
        e = evs[0]
        if "infra" in e:
            raise vlib.Inconclusive("sandbox setup failed for %s: %s" % (json.dumps(vectors[i]), e["infra"]))
        e.pop("h", None)
        events.append(e)
    return events


def judge(ctx, events):
    bad = validate(ctx, events)
    for ev, why in bad:
        v = {k: ev[k] for k in ("comp", "op", "depth", "pad", "abs", "segs", "roots", "base", "esc", "cls")}
        v["bare"] = bool(ev.get("bare"))
        ctx.violation("%s:%s:%s:%s" % (ev["comp"], ev["op"], why["cls"], label(why)),
                      "%s %s(%r) with root %s: %s; error returned: %s%s; outside the root: %s; all sandbox changes: %s; returned data from: %s"
                      % (ev["comp"], ev["op"], ev["name"], ev.get("rootpath"),
                         "the name resolves outside the root (%s)" % why["cls"] if why["escapes"] else "the name stays inside (%s)" % why["cls"],
                         ev["err"], " (%s)" % ev["errtext"][:160] if ev["errtext"] else "",
                         json.dumps(sorted("/".join(x) for x in why["where"])[:6]),
                         json.dumps([[c["k"], "/".join(c["p"])] for c in ev["changes"]][:8]),
                         json.dumps(["/".join(g) for g in ev["got"]][:6])),
                      {"vector": v, "event": ev, "why": why})
    return len(events) - len(bad)


def run(ctx):
    vectors, laws, nsim = generate(ctx)
    events = evaluate(ctx, vectors)
    ok = judge(ctx, events)
    # distinct concrete calls (different segment sequences can render to the same string) the model calls escaping
    esc = {(e["comp"], e["op"], e["depth"], e["name"]) for e in events if e["esc"]}
    names = {(e["depth"], e["abs"], tuple(e["segs"])) for e in events}
    by_cls = {}
    for e in events:
        by_cls[e["cls"]] = by_cls.get(e["cls"], 0) + 1
    samples = []
    for cls in ("sibling-prefix", "ancestor", "outside", "inside-via-dotdot", "root-itself"):
        for e in events:
            if e["cls"] == cls:
                samples.append({k: e[k] for k in ("comp", "op", "depth", "name", "rootpath", "cls", "esc", "err", "errtext", "changes", "got")})
                break
    maxlen, maxlen_abs = bounds(ctx)
    vlib.finish(ctx, LEVEL, {
        "evaluations": len(events), "distinct_nontrivial": len(esc),
        "rule": "one evaluation = one call of a real component (fstree Put/Get/Delete/Query, updater UnpackResources on a zip "
                "entry name as file/dir, DirStructure EnsureRelPath (top, child) / EnsureAbsPath (under the root, under its parent), "
                "updater ScanStorage (under the storage, under its parent)) in a fresh sandbox, judged by TLC against spec/PathScope.tla; "
                "names: ALL segment sequences of length <= %d (<= %d with a leading separator) over {.., ., empty, a, b, <root>, "
                "<root>-other} against 2 root depths%s; non-trivial = the model says the name resolves outside the root, "
                "distinct = by (operation, depth, concrete name string)" % (
                    maxlen, maxlen_abs, " plus %d vectors from seeded random names of length %d..8" % (nsim, maxlen + 1) if nsim else ""),
        "accepted": ok, "names": len(names), "by_class": by_cls,
        "states": laws.distinct, "transitions": laws.generated,
        "samples": samples, "exhaustive": True,
        "exhaustive_note": "exhaustive for the segment alphabet up to length %d (%d with a leading separator) x 2 depths x 12 component operations" % (maxlen, maxlen_abs),
    }, ["TLC + spec/PathScope.tla as the oracle; resolution is lexical (no symlinks inside the sandbox)",
        "reads outside the root are observed only through returned data (records, registered resources), "
        "effects through a before/after snapshot (type, mode, size, inode, content hash) of the whole sandbox; "
        "transient files that are gone after the call are not observed",
        "ScanStorage / EnsureAbsPath receive absolute paths (<root or its parent> + separator + name); names relative to the "
        "working directory are not exercised",
        "API bridge (api.callAPI, URL space) is not driven: unexported and needs the whole api module; its check compares against "
        "\"/api/v1/\" including the separator"])


def replay(ctx, path):
    with open(path) as fh:
        doc = json.load(fh)
    v = doc["replay"]["vector"]
    events = evaluate(ctx, [v])
    judge(ctx, events)
    vlib.finish(ctx, LEVEL, {"evaluations": max(1, len(events)), "distinct_nontrivial": 1, "rule": "replay of one vector",
                             "samples": [{k: e[k] for k in ("comp", "op", "name", "err", "errtext", "changes", "got")} for e in events[:1]]},
                ["replay"])
