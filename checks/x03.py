"""X03 (extension) — the runtime registry routes every key of the injected database to the one
responsible value provider.

spec/RuntimeReg.tla is the reference semantics (`Step`: registration table + abstract providers, the
statement R1..R8 is at its top), RuntimeRegGen checks the laws of that model breadth-first and
generates operation histories (register / inject / get / put / delete / query / subscribe / push /
provider-side changes, some behind racing registrations), harness/cmd/rtreg runs them against the real
package runtime through database.Interface, RuntimeRegTrace decides every recorded step.
"""
import json
import resource
import vlib

LEVEL = "model_checking"
DRIVER = "rtreg"

KEYCH = {1: "a", 2: "b", 3: "/"}


def ktext(k):
    return "".join(KEYCH.get(c, "?") for c in (k or []))


def op_sig(e):
    return (e.get("op") or {}).get("op", e.get("e", "?"))


def step_class(hist, ej):
    """Stable description of the failing step: operation, kind of provider situation, observed error."""
    ev = hist[ej]
    if ev.get("e") == "race":
        return "race:register"
    o = ev.get("op", {})
    res = ev.get("res", {})
    # registrations made so far in this history (as the driver saw them succeed)
    regs = []
    for e in hist[:ej]:
        if e.get("e") == "race":
            for k, er in zip(e.get("keys", []), e.get("errs", [])):
                if er == "ok":
                    regs.append((ktext(k), "rw"))
        if e.get("e") == "op" and e["op"]["op"] == "register" and e["res"]["err"] == "ok":
            regs.append((ktext(e["op"]["k"]), e["op"]["kind"]))
    key = ktext(o.get("k"))
    name = o.get("op", "?")
    if res.get("panic"):
        return "panic:%s" % name
    if name in ("get", "put", "delete"):
        resp = [kind for (rk, kind) in regs if rk == key or (rk.endswith("/") and key.startswith(rk))]
        where = "+".join(sorted(set(resp))) or "unmanaged"
    elif name == "query":
        plain_above = any((not rk.endswith("/")) and key.startswith(rk) for (rk, _) in regs)
        below = any(rk.startswith(key) for (rk, _) in regs)
        above = any(rk.endswith("/") and key.startswith(rk) for (rk, _) in regs)
        where = "+".join([t for t, on in (("below", below), ("above", above), ("plainkey-is-prefix", plain_above)) if on]) or "none"
    elif name == "register":
        where = "prefix" if key.endswith("/") else ("empty" if key == "" else "key")
    elif name in ("push", "poke"):
        p = o.get("p", 0)
        where = regs[p - 1][1] if 1 <= p <= len(regs) else "?"
    else:
        where = "-"
    return "%s:%s:err=%s" % (name, where, res.get("err", "?"))


def _conflict(a, b):
    """two registration keys exclude each other (descriptive statistics only)"""
    a, b = ktext(a), ktext(b)
    return a == b or (a.endswith("/") and b.startswith(a)) or (b.endswith("/") and a.startswith(b))


def generate(ctx, nsim):
    plans = [  # (MaxLen, MaxRegs, MaxSubs, RaceN)
        (8, 3, 2, 0), (14, 4, 3, 0), (14, 4, 3, 0), (22, 5, 3, 0), (10, 4, 2, 2), (12, 5, 2, 3), (12, 6, 2, 4), (14, 4, 3, 0)]
    per = max(1, nsim // len(plans))

    def gen(k):
        ln, mr, ms, rn = plans[k]
        r = ctx.tlc("RuntimeRegGen", cfg_text=vlib.cfg_text(
            constants={"MaxLen": ln, "MaxRegs": mr, "MaxSubs": ms, "Level": 2, "Emit": True, "RaceN": rn}),
            mode="simulate", num=per, depth=ln + 3, seed=ctx.seed * 11 + k, timeout=1500, count=False)
        return r.emitted()
    scripts = []
    for part in ctx.pmap(gen, range(len(plans))):
        scripts.extend(part)
    return scripts


def execute(ctx, scripts):
    binp = ctx.go_build(DRIVER)
    res = vlib.drive(ctx, binp, scripts, chunk=max(16, len(scripts) // 32), timeout=600)
    hists, owner = [], []
    for i, r in enumerate(res):
        evs = [e for e in r["events"] if e.get("e") != "try"]
        if r["crashed"]:
            tries = [e for e in r["events"] if e.get("e") == "try"]
            last = tries[-1] if tries else {}
            ctx.violation("crash:%s" % op_sig(last),
                          "the driver died or hung while executing %s: %s" % (json.dumps(last.get("op")), r["crashed"][:600]),
                          {"script": scripts[i], "died_in": last})
            continue
        if any(e.get("e") == "setup-failed" for e in evs):
            raise vlib.Inconclusive("driver could not set up a database: %s" % json.dumps(evs[:1]))
        hists.append(evs)
        owner.append(i)
    return hists, owner


def judge(ctx, scripts, hists, owner, sig_override=None):
    ok, rej, unex = vlib.validate(ctx, "RuntimeRegTrace", "RuntimeRegTrace.cfg", hists,
                                  max_reject=5 if ctx.tier == "quick" else 40)
    for hi, ej, ev in rej:
        sig = sig_override or step_class(hists[hi], ej)
        ctx.violation(sig,
                      "history %d step %d: what the registry did is not an outcome the model allows: %s" % (
                          owner[hi], ej, json.dumps({k: v for k, v in ev.items() if k != "h"})[:900]),
                      {"script": scripts[owner[hi]], "observed": hists[hi][:ej + 1]})
    return ok, unex


def nontrivial(s):
    """at least two registrations attempted and a routed operation after them"""
    regs = len([o for o in s["steps"] if o["op"] == "register"]) + len(s.get("race") or [])
    return regs >= 2 and any(o["op"] in ("get", "put", "query", "delete") for o in s["steps"])


def run(ctx):
    quick = ctx.tier == "quick"
    # 1. laws of the reference semantics on every reachable state (exhaustive to a small depth); runs
    #    beside the conformance pipeline
    def laws():
        out = [ctx.tlc("RuntimeRegGen", cfg_text=vlib.cfg_text(
            constants={"MaxLen": 4 if quick else 5, "MaxRegs": 3, "MaxSubs": 1, "Level": 1, "Emit": False, "RaceN": 0},
            invariants=["Laws"], view="View"), workers=max(2, vlib.NCPU // 2), timeout=3000)]
        if not quick:
            out.append(ctx.tlc("RuntimeRegGen", cfg_text=vlib.cfg_text(
                constants={"MaxLen": 2, "MaxRegs": 3, "MaxSubs": 1, "Level": 2, "Emit": False, "RaceN": 0},
                invariants=["Laws"], view="View"), workers=max(2, vlib.NCPU // 2), timeout=3000))
        return out
    from concurrent.futures import ThreadPoolExecutor
    pool = ThreadPoolExecutor(max_workers=1)
    laws_future = pool.submit(laws)
    # 2. histories from the specification
    nsim = 4000 if quick else 80000
    scripts = generate(ctx, nsim)
    if len(scripts) < nsim // 2:
        raise vlib.Inconclusive("history generation produced only %d scripts" % len(scripts))
    # 3. run them against the real package, 4. let TLC judge what was recorded; in batches, so that
    #    neither this process nor the validating JVMs hold more than a few thousand histories at a time
    import random
    random.Random(ctx.seed).shuffle(scripts)   # every batch gets its share of the long histories
    ok = unex = nevents = nraces = race_conflicts = race_reordered = 0
    ops = {}
    batch = 5000
    for b0 in range(0, len(scripts), batch):
        part = scripts[b0:b0 + batch]
        hists, owner = execute(ctx, part)
        k, u = judge(ctx, part, hists, owner)
        ok += k
        unex += u
        for h in hists:
            nevents += len(h)
            for e in h:
                if e.get("e") == "op":
                    key = "%s:%s" % (e["op"]["op"], e["res"]["err"])
                    ops[key] = ops.get(key, 0) + 1
                elif e.get("e") == "race":
                    nraces += 1
                    errs, keys = e["errs"], e["keys"]
                    if "taken" in errs:
                        race_conflicts += 1
                        # outcomes that differ from making the registrations in the order of the list
                        if any(_conflict(keys[i], keys[j]) for i in range(len(keys)) for j in range(i + 1, len(keys))
                               if errs[i] == "taken" and errs[j] == "ok"):
                            race_reordered += 1
        del hists
        if len(ctx.violations) >= 12:
            unex += len(scripts) - b0 - len(part)
            break
    mcs = laws_future.result()
    pool.shutdown()
    distinct = len({vlib.sha(s) for s in scripts if nontrivial(s)})
    vlib.finish(ctx, LEVEL, {
        "states": sum(m.distinct for m in mcs), "transitions": sum(m.generated for m in mcs),
        "traces_validated_against_impl": ok,
        "evaluations": len(scripts), "distinct_nontrivial": distinct,
        "rule": "operation histories generated by TLC -simulate from spec/RuntimeRegGen.tla (8 to 22 operations, 3/8 of them "
                "behind 2 to 4 racing registrations); non-trivial = at least two registrations attempted and a "
                "get/put/query/delete among the operations; distinct by content hash",
        "events_validated": nevents, "histories_unexamined_after_rejections": unex,
        "operations_by_outcome": dict(sorted(ops.items())),
        "racing_registrations": {"histories": nraces, "with_conflict": race_conflicts,
                                 "later_in_list_won": race_reordered},
        "samples": scripts[:2],
        "check_process_maxrss_mb": resource.getrusage(resource.RUSAGE_SELF).ru_maxrss // 1024,
        "exhaustive": False,
    }, ["trace validation judges per step: result and error class, records of a query, what every subscription received, "
        "the calls the providers saw, the contents of the providers and what Get shows for every key of the history",
        "providers are the seven abstract kinds of spec/RuntimeReg.tla (three of them the adapters of package runtime: "
        "SimpleValueGetterFunc, SimpleValueSetterFunc, ProvideRecord; one is runtime.ModulesIntegration); keys over the "
        "alphabet a b /; all records are public and valid (access filtering is C03); one full-privilege interface without cache",
        "racing registrations are free running: the interleaving is the Go scheduler's choice"])


def replay(ctx, path):
    with open(path) as fh:
        doc = json.load(fh)
    script = doc["replay"]["script"]
    reps = 200 if script.get("mode") == "race" else 1
    scripts = [script] * reps
    hists, owner = execute(ctx, scripts)
    judge(ctx, scripts, hists, owner, sig_override=doc["signature"])
    vlib.finish(ctx, LEVEL, {"states": 1, "transitions": 1, "traces_validated_against_impl": len(hists),
                             "samples": [script]}, ["replay of one recorded script"])
