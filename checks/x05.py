"""X05 (extension) — modules/subsystems: subsystems group modules behind one config toggle (Register, the manager's
toggle / handle-change / ManageModules loop, reflection of module state into the subsystem records, runtime:subsystems/).

spec/Subsys.tla       the statement (S1..S6, top of the file) and the reference semantics at quiet points: Step / Sync
spec/SubsysGen.tla    TLC checks the laws of the reference breadth-first (exactly the enabled subsystems and their
                      dependencies are online, module groups are a partition, ...) and generates the driver scripts
spec/SubsysImpl.tla   implementation-shaped model of registry.go (one action per critical section: debounce, SetEnabled
                      loop, management pass, change notification workers, refresh, push); TLC checks over all
                      interleavings that every quiet state is one the reference allows; the two fault variants (the code
                      as pinned: push before the record has a key, no refresh after a config change) must be rejected
spec/SubsysTrace.tla  TLC validates what harness/cmd/subsys recorded from the real package against the reference
"""
import json
import vlib

LEVEL = "model_checking"
DRIVER = "subsys"


# ------------------------------------------------------------------------------------------ model checking
def impl_cfg(consts, invariants):
    L = ["SPECIFICATION Spec", "CONSTANTS"]
    for k, v in consts.items():
        L.append("  %s = %s" % (k, vlib.tla_value(v)))
    for i in invariants:
        L.append("INVARIANT %s" % i)
    L.append("VIEW View")
    L.append("CHECK_DEADLOCK FALSE")
    return "\n".join(L) + "\n"


# (name, Shape, MaxSet, MaxFail, MaxSF)
IMPL_QUICK = [("chain", 1, 2, 0, 1), ("subdep", 3, 1, 1, 1)]
IMPL_THOROUGH = [("chain", 1, 3, 0, 1), ("shared", 2, 2, 1, 1), ("subdep", 3, 2, 1, 1)]
FAULTS = [("KeyBug", ("chain", 1, 1, 0, 0)), ("StaleBug", ("chain", 1, 2, 0, 1))]


def model_check(ctx, quick):
    """Laws of the reference (SubsysGen), refinement of the reference by the implementation-shaped model (SubsysImpl),
    and rejection of its fault variants."""
    jobs = [("gen", None, None)]
    jobs += [("impl", c, None) for c in (IMPL_QUICK if quick else IMPL_THOROUGH)]
    jobs += [("impl", c, f) for f, c in FAULTS]

    def one(j):
        kind, c, fault = j
        if kind == "gen":
            return ctx.tlc("SubsysGen", cfg_text=vlib.cfg_text(
                constants={"MaxLen": 6 if quick else 10, "Level": 1, "Emit": False}, invariants=["Laws"], view="View"),
                workers=max(2, vlib.NCPU // 4), timeout=3000)
        name, shape, ms, mf, msf = c
        return ctx.tlc("SubsysImpl", cfg_text=impl_cfg(
            {"ShapeNo": shape, "MaxSet": ms, "MaxFail": mf, "MaxSF": msf, "KeyBug": fault == "KeyBug", "StaleBug": fault == "StaleBug"},
            ["QuietOK", "TypeOK"]), workers=max(2, vlib.NCPU // 4), timeout=3000, want_ok=not fault, count=not fault)
    res = ctx.pmap(one, jobs, par=4)
    good = []
    for (kind, c, fault), r in zip(jobs, res):
        if fault:
            if r.violated != "QuietOK":
                raise vlib.Inconclusive("the fault variant %s of spec/SubsysImpl.tla is not rejected: the model lost its sensitivity\n%s"
                                        % (fault, "\n".join(r.out.splitlines()[-20:])))
        else:
            good.append(r)
    return good


# ------------------------------------------------------------------------------------------ conformance
def generate(ctx, nsim):
    plans = [10, 14, 14, 18, 18, 24]
    per = max(1, nsim // len(plans))

    def gen(k):
        r = ctx.tlc("SubsysGen", cfg_text=vlib.cfg_text(constants={"MaxLen": plans[k], "Level": 2, "Emit": True}),
                    mode="simulate", num=per, depth=plans[k] + 3, seed=ctx.seed * 13 + k, timeout=1500, count=False)
        return r.emitted()
    scripts = []
    for part in ctx.pmap(gen, range(len(plans))):
        scripts.extend(part)
    return scripts


def execute(ctx, scripts, patient=False):
    binp = ctx.go_build(DRIVER)
    todo = [dict(s, quiet_ms=2500) if patient else s for s in scripts]
    res = vlib.drive(ctx, binp, todo, chunk=1, timeout=240 if patient else 120, par=3 * vlib.NCPU)
    hists, owner, crashed = [], [], []
    for i, r in enumerate(res):
        evs = [e for e in r["events"] if e.get("e") != "try"]
        if r["crashed"]:
            tries = [e for e in r["events"] if e.get("e") == "try"]
            crashed.append((i, tries[-1]["op"] if tries else {}, r["crashed"], evs))
            continue
        if any(e.get("e") == "setup-failed" for e in evs):
            raise vlib.Inconclusive("driver could not start the module system: %s" % json.dumps(evs[-1]))
        for e in evs:
            e.pop("h", None)
            e.pop("seq", None)
        hists.append(evs)
        owner.append(i)
    return hists, owner, crashed


def sig_of(hist, ej):
    """Stable description of the rejected event: kind, the kinds of steps since the previous quiet point, whether it is the
    first observation after the start and whether a start routine is set to fail."""
    ev = hist[ej]
    if ev.get("e") == "op":
        return "op:%s:res=%s" % (ev["op"]["op"], ev.get("res"))
    if ev.get("e") != "sync":
        return "event:%s" % ev.get("e")
    since, first = [], True
    for e in hist[:ej]:
        if e.get("e") == "sync":
            since, first = [], False
        elif e.get("e") == "op":
            since.append(e["op"]["op"])
    sf = set()
    for e in hist[:ej]:
        if e.get("e") == "op" and e["op"]["op"] == "sfail":
            (sf.add if e["op"]["v"] == "T" else sf.discard)(e["op"]["m"])
    return "sync:%s:after=%s:startfail=%s" % ("first" if first else "later", "+".join(sorted(set(since))) or "none", "yes" if sf else "no")


STATS = {}


def describe(hist):
    def inc(k, n=1):
        STATS[k] = STATS.get(k, 0) + n
    burst = 0
    sf = False
    for e in hist:
        if e.get("e") == "op":
            inc("op:%s:%s" % (e["op"]["op"], e.get("res")))
            if e["op"]["op"] in ("set", "start"):
                burst += 1
            if e["op"]["op"] == "sfail":
                sf = True
        elif e.get("e") == "sync":
            inc("syncs")
            if burst > 1:
                inc("syncs_after_a_burst_of_config_changes")
            burst = 0
            inc("records_observed", len(e["recs"]))
            inc("pushes_received", len(e["pushed"]))
            if e.get("mg"):
                inc("syncs_with_modulemgmt_failed")
            if any(m["fid"] == 9 for m in e["mods"]):
                inc("syncs_with_a_failed_start")
            if any(m["dep"] and not m["en"] and i > 0 for i, m in enumerate(e["mods"])):
                inc("syncs_with_a_module_running_only_as_dependency")
    if sf:
        inc("histories_with_start_failures")


def judge(ctx, scripts, sig_override=None):
    """Execute, validate; what is rejected is executed once more with ten times the quiet interval before it counts."""
    hists, owner, crashed = execute(ctx, scripts)
    for i, op, why, evs in crashed:
        ctx.violation(sig_override or "crash:%s" % op.get("op", "?"), "driver process died in step %s: %s" % (json.dumps(op), why[:600]),
                      {"script": scripts[i], "observed": evs})
    ok, rej, unex = vlib.validate(ctx, "SubsysTrace", "SubsysTrace.cfg", hists, max_reject=5 if ctx.tier == "quick" else 40)
    nev = sum(len(h) for h in hists)
    for h in hists:
        describe(h)
    again = sorted({owner[hi] for hi, _, _ in rej})
    if again:
        sub = [scripts[i] for i in again]
        h2, o2, c2 = execute(ctx, sub, patient=True)
        ok2, rej2, unex2 = vlib.validate(ctx, "SubsysTrace", "SubsysTrace.cfg", h2)
        ok += ok2
        unex += unex2
        for hi, ej, ev in rej2:
            sc = sub[o2[hi]]
            prev = [e for e in h2[hi][:ej] if e.get("e") == "sync"][-1:]
            ctx.violation(sig_override or sig_of(h2[hi], ej),
                          "event %d is not an outcome spec/Subsys.tla allows: %s\nprevious observation: %s\nscript: %s" % (
                              ej, json.dumps(ev)[:1800], json.dumps(prev)[:1200], json.dumps(sc)[:1500]),
                          {"script": sc, "observed": h2[hi][:ej + 1]})
        for i, op, why, evs in c2:
            ctx.violation(sig_override or "crash:%s" % op.get("op", "?"), "driver process died: %s" % why[:600],
                          {"script": sub[i], "observed": evs})
    return ok, unex, nev, len(again)


def nontrivial(s):
    ops = [st["op"] for st in s["steps"]]
    return "start" in ops and "set" in ops and ops.count("register") >= 2


def run(ctx):
    quick = ctx.tier == "quick"
    from concurrent.futures import ThreadPoolExecutor
    pool = ThreadPoolExecutor(max_workers=1)
    mc_future = pool.submit(model_check, ctx, quick)
    nsim = 600 if quick else 9000
    scripts = generate(ctx, nsim)
    if len(scripts) < nsim // 2:
        raise vlib.Inconclusive("script generation produced only %d scripts" % len(scripts))
    import random
    random.Random(ctx.seed).shuffle(scripts)
    ok = unex = nev = retried = 0
    batch = 1500
    for b0 in range(0, len(scripts), batch):
        k, u, n, r = judge(ctx, scripts[b0:b0 + batch])
        ok += k
        unex += u
        nev += n
        retried += r
        if len(ctx.violations) >= 12:
            unex += len(scripts) - b0 - batch
            break
    mcs = mc_future.result()
    pool.shutdown()
    distinct = len({vlib.sha(s) for s in scripts if nontrivial(s)})
    vlib.finish(ctx, LEVEL, {
        "states": sum(m.distinct for m in mcs), "transitions": sum(m.generated for m in mcs),
        "traces_validated_against_impl": ok,
        "evaluations": len(scripts), "distinct_nontrivial": distinct,
        "rule": "driver scripts generated by TLC -simulate from spec/SubsysGen.tla (10 to 24 steps: registrations, start, config "
                "changes alone and in bursts, module failures, failing start routines, late registrations, observations at quiet "
                "points; 9 module graphs of 3 to 5 modules); non-trivial = at least two registrations, a start and a config "
                "change; distinct by content hash",
        "events_validated": nev, "scripts_retried_with_patience": retried, "histories_unexamined_after_rejections": unex,
        "exercised": dict(sorted(STATS.items())),
        "samples": scripts[:2],
        "exhaustive": False,
    }, ["one process per script (the module system is a process-wide singleton); the system counts as quiet when for 100 ms no "
        "worker of the subsystems module (config change handlers, also while they sleep through the debounce interval) or "
        "of a module (change notifications) has been running, no module state has changed, and two readings of the records "
        "agree; a rejected history is executed again with 2500 ms before it counts",
        "module level steps (Error/Warning/Hint/Resolve, failing start routines) are made in a quiet system only; config "
        "changes also in bursts without waiting (which of them are handled separately is the code's choice, the model allows "
        "every merge that ends with the last configuration)",
        "interleavings inside registry.go are explored exhaustively by TLC on spec/SubsysImpl.tla (small graphs), in the real "
        "code only as far as the Go scheduler produces them",
        "distinct subsystems have distinct modules; the toggle options are stable-release bool options; no shutdown races"])


def replay(ctx, path):
    with open(path) as fh:
        doc = json.load(fh)
    scripts = [doc["replay"]["script"]]
    ok, unex, nev, _ = judge(ctx, scripts, sig_override=doc["signature"])
    vlib.finish(ctx, LEVEL, {"states": 1, "transitions": 1, "traces_validated_against_impl": ok,
                             "samples": scripts}, ["replay of one script"])
