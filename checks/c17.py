"""C17 - files are published atomically: old content or new content, never a fragment.

spec/AtomicFile.tla      file-system model (cache view / disk view), effects of the file-system calls,
                         the views of the destination and the invariants DestOK / DurableOK / TempLocOK
spec/AtomicFileMC.tla    writer programs of the primitives + Crash + PowerLoss + Commit + reader,
                         model-checked exhaustively; five wrong writers must be refuted (sensitivity)
spec/AtomicFileTrace.tla replays the system calls of the real primitives on the model and judges
                         the observed directory tree after every run / kill / injected failure

Engine E3: the driver cmd/atomicw performs ONE write per run with the real primitive under strace.
  full   strace -f                                 -> the system-call trace of the whole operation
  kill   strace -e inject=<sys>:signal=KILL:when=k -> the writer is killed before its k-th <sys> call
  error  strace -e inject=<sys>:error=E..:when=k   -> that call fails: a failed operation
  readers  reader goroutines hammer the destination during N replacements
Every run is one history [new, sys..., obs] validated by TLC against AtomicFileTrace.
"""
import json
import os
import shutil

import vlib

LEVEL = "fault_enumeration"

FILE_PRIMS = ["fstree", "createatomic", "copyatomic", "replaceatomic", "writefile", "fetch"]
MUTATING = {"open", "write", "trunc", "fsync", "rename", "unlink", "mkdir", "chmod", "symlink"}
ERRNO = {"open": "ENOSPC", "write": "ENOSPC", "trunc": "EIO", "fsync": "EIO", "rename": "EIO", "unlink": "EIO",
         "mkdir": "EACCES", "chmod": "EPERM", "symlink": "EIO", "close": "EIO"}

MC_MUTANTS = [  # (kind, old, mutant, invariant that must be refuted)
    ("file", "old", "nofsync", "DurableOK"), ("file", "absent", "nofsync", "DurableOK"),
    ("file", "old", "latefsync", "DurableOK"),
    ("file", "old", "inplace", "DestOK"), ("file", "absent", "inplace", "DestOK"),
    ("file", "old", "inplace", "ReaderOK"),
    ("file", "old", "badloc", "TempLocOK"),
    ("file", "old", "unlinkfirst", "DestOK"), ("link", "old", "unlinkfirst", "DestOK"),
    ("dir", "absent", "inplace", "DestOK"),
]
MC_INVS = ["DestOK", "DurableOK", "TempLocOK", "ReaderOK", "DoneNew", "FailedOld"]


def mk(prim, dst, old, new, layout="tmpdir", fault="none", seed=1):
    return {"id": "%s/%s/%s-%s/%s/%s" % (prim, dst, old, new, layout, fault), "prim": prim, "dst": dst, "old": old,
            "new": new, "layout": layout, "fault": fault, "seed": seed}


def all_cases(ctx):
    """(quick, thorough) case lists. The seed rotates which old size is paired with which new size and
    which cases make up the quick subset; the content bytes depend on it too."""
    s = ctx.seed
    sizes = ["empty", "small", "big"]
    dsts = ["absent", "present", "mode"]
    thorough = []
    for pi, prim in enumerate(FILE_PRIMS):
        for di, dst in enumerate(dsts):
            for ni, new in enumerate(sizes):
                old = sizes[(ni + 1 + (s + pi + di) % 2) % 3]
                thorough.append(mk(prim, dst, old, new, seed=s))
    for dst in ("absent", "present"):
        thorough.append(mk("symlink", dst, "small", "small", seed=s))
        for new in sizes:
            thorough.append(mk("unpack", dst, "small", new, seed=s))
    extra = [
        mk("fstree", "nodir", "small", "small", seed=s),
        mk("fstree", "present", "small", "small", "xdev", seed=s),
        mk("writefile", "present", "big", "small", "xdev", seed=s),
        mk("createatomic", "present", "small", "big", "xdev", seed=s),
        mk("createatomic", "present", "big", "empty", "explicit", seed=s),
        mk("copyatomic", "absent", "small", "small", "explicit", seed=s),
        mk("replaceatomic", "mode", "small", "big", "explicit", seed=s),
        mk("createatomic", "present", "small", "big", "tmpdir", "srcerr", seed=s),
        mk("createatomic", "absent", "small", "small", "tmpdir", "srcerr", seed=s),
        mk("createatomic", "present", "small", "big", "tmpdir", "srceof", seed=s),
        mk("createatomic", "absent", "small", "small", "tmpdir", "srceof", seed=s),
        mk("fetch", "present", "small", "small", "tmpdir", "short", seed=s),
        mk("fetch", "present", "small", "big", "tmpdir", "shortstream", seed=s),
        mk("fetch", "absent", "small", "small", "tmpdir", "shortstream", seed=s),
        mk("fetch", "present", "small", "big", "tmpdir", "badsig", seed=s),
        mk("fetch", "absent", "small", "small", "tmpdir", "badsig", seed=s),
    ]
    for prim in ("fstree", "createatomic", "copyatomic", "replaceatomic", "writefile"):
        for dst in ("absent", "mode"):
            c = mk(prim, dst, "small", "small", "xdev", seed=s)
            if c["id"] not in {x["id"] for x in extra}:
                extra.append(c)
    for prim in ("createatomic", "copyatomic", "replaceatomic"):
        c = mk(prim, "present", "empty", "small", "explicit", seed=s)
        extra.append(c)
    # the explicitly given temp dir is on another file system: the rename fails, the operation fails
    extra.append(mk("createatomic", "present", "small", "small", "explicitx", seed=s))
    extra.append(mk("replaceatomic", "absent", "small", "big", "explicitx", seed=s))
    for prim in ("createatomic", "writefile", "copyatomic"):
        extra.append(mk(prim, "nodir", "small", "small", seed=s))     # the operation fails: nothing may appear
    if not os.access("/dev/shm", os.W_OK):
        extra = [c for c in extra if c["layout"] not in ("xdev", "explicitx")]
    thorough += extra
    # quick: every single-file primitive with every destination state, the size pair chosen by the seed (each
    # primitive meets each size class once), symlink and unpack with absent / present, three of the extras
    quick = []
    for pi, prim in enumerate(FILE_PRIMS):
        for di, dst in enumerate(dsts):
            ni = (s + pi + di) % 3
            quick.append(mk(prim, dst, sizes[(ni + 1 + (s + pi + di) % 2) % 3], sizes[ni], seed=s))
    quick.append(mk("symlink", "absent", "small", "small", seed=s))
    quick.append(mk("symlink", "present", "small", "small", seed=s))
    quick.append(mk("unpack", "absent", "small", sizes[s % 3], seed=s))
    quick.append(mk("unpack", "present", "small", "small", seed=s))
    if os.access("/dev/shm", os.W_OK):
        # the registry's tmp directory on another file system: unpacking fails at the final rename - nothing may appear
        quick.append(mk("unpack", "absent", "small", "small", "xdev", seed=s))
        thorough.append(mk("unpack", "absent", "small", "big", "xdev", seed=s))
    base = [c for c in extra if c["fault"] == "none"]
    quick.append(base[0])
    quick.append(base[1 + s % (len(base) - 1)])
    quick.append([c for c in extra if c["fault"] == "srcerr"][s % 2])
    quick.append([c for c in extra if c["fault"] == "srceof"][(s + 1) % 2])
    quick.append([c for c in extra if c["fault"] == "shortstream"][s % 2])
    quick.append([c for c in extra if c["fault"] == "badsig"][(s + 1) % 2])
    return quick, thorough


# ------------------------------------------------------------------------------------------------ TLC on the model
def model_check(ctx):
    quick = ctx.tier == "quick"
    n = 2 if quick else 4
    jobs = []
    for kind in ("file", "dir", "link"):
        for old in ("absent", "old"):
            for probe in ((True,) if kind != "file" else (True, False)):
                jobs.append((kind, old, probe, "none", None))
    for kind, old, mut, inv in MC_MUTANTS:
        jobs.append((kind, old, False, mut, inv))

    def one(j):
        kind, old, probe, mut, inv = j
        cfg = vlib.cfg_text(constants={"Kind": '"%s"' % kind, "OldState": '"%s"' % old, "N": n, "Probe": probe,
                                       "Mutant": '"%s"' % mut},
                            invariants=MC_INVS if inv is None else [inv])
        r = ctx.tlc("AtomicFileMC", cfg_text=cfg, workers=1, timeout=300, want_ok=(inv is None), count=(inv is None))
        return j, r
    good = 0
    refuted = 0
    states = trans = 0
    for j, r in ctx.pmap(one, jobs):
        kind, old, probe, mut, inv = j
        if inv is None:
            good += 1
            states += r.distinct
            trans += r.generated
        else:
            if r.violated != inv:
                raise vlib.Inconclusive("model sensitivity: the wrong writer %s (%s, %s) was not refuted on %s:\n%s" % (
                    mut, kind, old, inv, "\n".join(r.out.splitlines()[-15:])))
            refuted += 1
    return {"states": states, "transitions": trans, "model_configs_checked": good, "model_mutants_refuted": refuted}


# ------------------------------------------------------------------------------------------------ runs
def drive(ctx, binp, scripts):
    if not scripts:
        return []
    chunk = max(1, min(8, (len(scripts) + vlib.NCPU * 2 - 1) // (vlib.NCPU * 2)))
    res = vlib.drive(ctx, binp, scripts, chunk=chunk, timeout=600)
    out = []
    for i, r in enumerate(res):
        evs = [e for e in r["events"] if e.get("e") != "try"]
        infra = [e for e in evs if e.get("e") == "infra"]
        if r["crashed"] or infra or not evs:
            raise vlib.Inconclusive("run %s did not work: %s" % (json.dumps(scripts[i])[:300],
                                                                 r["crashed"] or json.dumps(infra)[:600]))
        out.append(evs)
    return out


KEEP = ("e", "op", "path", "loc", "path2", "loc2", "n", "ok", "creat", "trunc", "tgt", "kind", "size", "entries",
        "old", "osize", "dest", "strays", "lo", "hi", "seen")


def slim(ev):
    """what TLC needs of an event (full paths and bookkeeping stay in the replay file)"""
    return {k: v for k, v in ev.items() if k in KEEP}


def ordinals(hist):
    """gives every call of the writer thread its ordinal j among the calls of the same system call that touch the
    sandbox inside the primitive.  (sys, j) identifies a crash point independently of calls the Go runtime makes on
    the same thread (eventfd wake-ups, calls restarted after a signal), which shift strace's own counter k."""
    cnt = {}
    for e in hist:
        if e.get("e") == "sys" and e.get("main"):
            cnt[e["sys"]] = cnt.get(e["sys"], 0) + 1
            e["j"] = cnt[e["sys"]]


def fault_points(hist, ops):
    """calls of the writer thread of the given kinds, in program order"""
    return [{"sys": e["sys"], "j": e["j"], "k": e["k"], "op": e["op"]}
            for e in hist if e.get("e") == "sys" and e.get("main") and e["op"] in ops]


def fault_hit(sc, hist):
    """Did the injected fault hit the intended call?  Returns (hit, k to retry with or None)."""
    hd = hist[0]
    calls = [e for e in hist if e.get("e") == "sys" and e.get("main")]
    if sc["mode"] == "kill":
        if not hd.get("killed"):
            return False, sc["k"] - 1          # this execution had fewer calls
        last = calls[-1] if calls and calls[-1].get("killed") else None
    else:
        inj = [e for e in calls if e.get("injected")]
        if not inj:
            return False, (sc["k"] - 1 if hd.get("ended") and not hd.get("injected") else sc["k"] + 1)
        last = inj[0]
    if last is None or last["sys"] != sc["sys"]:
        return False, sc["k"] + 1              # the fault hit a call of the runtime outside the sandbox
    if last["j"] == sc["j"]:
        return True, None
    return False, sc["k"] + (sc["j"] - last["j"])


def signature(case, mode, why, ev):
    c = case
    if ev.get("e") == "obs":
        what = "dest=%s" % ev.get("dest") if ev.get("dest") not in ("old", "new", "absent") or why == "Observed" else "obs"
        if ev.get("strays", {}).get("other"):
            what += "+stray-elsewhere"
    elif ev.get("e") == "read":
        what = "read=%s" % ("absent" if ev.get("seen") == -1 else "fragment" if ev.get("seen") == -2 else "stale")
    else:
        what = "%s@%s" % (ev.get("op"), ev.get("loc2") or ev.get("loc"))
    return "%s:%s:%s:%s:%s:%s:%s" % (c["prim"], c["dst"], c["layout"], c["fault"], mode, why, what)


WHY = {"DestOK": "the destination is neither the complete old nor the complete new state at this point",
       "DurableOK": "the file reaches the destination name without its content having been flushed (or is changed afterwards)",
       "TempLocOK": "a file is created outside the temporary locations",
       "Observed": "the real directory tree after the run violates the property",
       "ReaderOK": "a concurrent reader saw something that is neither the old nor the new content"}


def judge(ctx, scripts, hists):
    """One TLC pass per chunk over all histories (spec/AtomicFileTrace.tla reports every rejected event and skips
    the rest of that run).  Returns (accepted histories, drift list)."""
    hs = [[e for e in h if e.get("e") != "readstat"] for h in hists]
    total = sum(len(h) for h in hs)
    nchunks = max(1, min(vlib.NCPU, (total + 2999) // 3000))
    parts = [[] for _ in range(nchunks)]
    load = [0] * nchunks
    for i in sorted(range(len(hs)), key=lambda i: -len(hs[i])):
        k = load.index(min(load))
        parts[k].append(i)
        load[k] += len(hs[i])

    def one(idx):
        lines, owner = [], []
        for i in sorted(idx):
            for j, e in enumerate(hs[i]):
                lines.append(json.dumps(slim(e)))
                owner.append((i, j))
        if not lines:
            return []
        r = ctx.tlc("AtomicFileTrace", cfg="AtomicFileTrace.cfg", workers=1, timeout=1200,
                    files={"trace.ndjson": "\n".join(lines) + "\n"}, want_ok=False, count=False)
        diags = [d for d in r.emitted() if isinstance(d, dict) and "line" in d]
        if r.depth != len(lines) + 1 or (not r.ok and ("Accepted" not in r.out or not diags)) or (r.ok and diags):
            raise vlib.Inconclusive("trace validation failed to run:\n" + "\n".join(r.out.splitlines()[-30:]))
        return [(owner[d["line"] - 1], d) for d in diags]
    found = [x for part in ctx.pmap(one, [p for p in parts if p]) for x in part]
    rejected = set()
    drift = []
    for (hi, ej), d in sorted(found, key=lambda x: x[0]):
        sc, h = scripts[hi], hs[hi]
        bad = h[ej]
        if d["kind"] == "drift":
            drift.append((sc, d, bad))
            continue
        rejected.add(hi)
        sig = signature(sc["case"], sc["mode"], d["why"], bad)
        tail = [("%s %s %s" % (e.get("sys"), e.get("op"), e.get("p2") or e.get("p"))) for e in h[max(1, ej - 6):ej + 1]
                if e.get("e") == "sys"]
        desc = "%s, %s%s: TLC rejects %s (%s: %s); the model's view of the destination: %s.  last calls: %s" % (
            sc["case"]["id"], sc["mode"], (" at %s #%d" % (sc.get("sys"), sc.get("k"))) if sc.get("sys") else "",
            json.dumps({k: v for k, v in bad.items() if k in ("e", "op", "p", "p2", "loc", "loc2", "dest", "detail",
                                                               "strays", "names", "lo", "hi", "seen", "count", "err")}),
            d["why"], WHY.get(d["why"], ""), json.dumps(d.get("model")), " | ".join(tail))
        ctx.violation(sig, desc, {"script": sc, "history": h[:ej + 1][-40:]})
    return len(hs) - len(rejected), drift


def run(ctx):
    quick = ctx.tier == "quick"
    if not shutil.which("strace"):
        raise vlib.Inconclusive("strace is not installed")
    import time
    t0 = time.time()

    def lap(what):
        vlib.log("c17: %-28s %6.1fs" % (what, time.time() - t0))
    mc = model_check(ctx)
    lap("model checked")
    binp = ctx.go_build("atomicw")
    lap("driver built")
    qc, tc = all_cases(ctx)
    cases = qc if quick else tc

    # (a) the system-call trace of every case
    full_scripts = [{"case": c, "mode": "full"} for c in cases]
    full = drive(ctx, binp, full_scripts)
    for sc, h in zip(full_scripts, full):
        hd = h[0]
        if not hd.get("ended") or hd.get("killed"):
            raise vlib.Inconclusive("the reference run of %s did not complete" % sc["case"]["id"])
        if hd.get("foreign"):
            raise vlib.Inconclusive("%s: %d file-system calls were issued by other threads than the writer's" % (
                sc["case"]["id"], hd["foreign"]))

    lap("%d complete traces" % len(full))
    # (b) crash points and failure points of every trace
    fault_scripts = []
    want = {}
    for sc, h in zip(full_scripts, full):
        c = sc["case"]
        ordinals(h)
        if c["fault"] in ("shortstream", "badsig"):
            # every attempt of this download fails by itself (and is retried after a back-off): the complete trace and
            # the final tree are judged, no further faults are injected
            want[c["id"]] = set()
            continue
        pts = fault_points(h, MUTATING)
        want[c["id"]] = {(p["sys"], p["j"]) for p in pts}
        for p in pts:
            fault_scripts.append({"case": c, "mode": "kill", "sys": p["sys"], "k": p["k"], "j": p["j"]})
        epts = fault_points(h, MUTATING | {"close"})
        if quick and c["prim"] not in ("unpack", "symlink"):
            # up to three failing calls of every kind per case; all of them for the short traces
            byop = {}
            for p in epts:
                byop.setdefault(p["op"], []).append(p)
            # the first and the last call of a kind always (e.g. the final rename), one more picked by the seed
            epts = []
            for v in byop.values():
                for q in (v[0], v[-1], v[ctx.seed % len(v)]):
                    if q not in epts:
                        epts.append(q)
        if c["prim"] == "fetch" and quick:
            epts = epts[:3]    # a failed download is retried after a one second back-off
        for p in epts:
            fault_scripts.append({"case": c, "mode": "error", "sys": p["sys"], "k": p["k"], "j": p["j"],
                                  "errno": ERRNO[p["op"]]})
    faults = drive(ctx, binp, fault_scripts)
    # a fault that missed its call (the thread's call counter was shifted by the runtime) is injected again
    hit_flags = [False] * len(fault_scripts)
    todo = list(range(len(fault_scripts)))
    for rnd in range(4):
        again = []
        for i in todo:
            ordinals(faults[i])
            ok_, k2 = fault_hit(fault_scripts[i], faults[i])
            hit_flags[i] = ok_
            if not ok_ and k2 is not None and k2 >= 1 and rnd < 3:
                sc2 = dict(fault_scripts[i])
                sc2["k"] = k2
                sc2["retry_of"] = i
                again.append(sc2)
        if not again:
            break
        res2 = drive(ctx, binp, again)
        todo = []
        for sc2, h2 in zip(again, res2):
            fault_scripts.append(sc2)
            faults.append(h2)
            hit_flags.append(False)
            todo.append(len(fault_scripts) - 1)

    lap("%d fault runs" % len(faults))
    # (b2) the write after a crash: an earlier writer of the same destination was killed right before its publishing
    # rename (what it had prepared is still lying around); the next, shorter write must publish exactly its own content
    then_scripts = []
    for sc, h in zip(full_scripts, full):
        c = sc["case"]
        # (primitives whose payload comes from memory: the copying ones read a prepared source file)
        if c["prim"] in ("fstree", "createatomic", "writefile") and c["dst"] in ("present", "mode") and c["new"] in ("big", "small") \
                and c["fault"] == "none":
            rn = [p for p in fault_points(h, MUTATING) if p["op"] == "rename"]
            if rn:
                then_scripts.append({"case": c, "mode": "killthen", "sys": rn[-1]["sys"], "k": rn[-1]["k"], "j": rn[-1]["j"]})
    thens = drive(ctx, binp, then_scripts)
    lap("%d writes after a crash" % len(thens))
    # (c) concurrent readers
    rprims = ["writefile", "createatomic", "fstree", "symlink"] if quick else \
        ["writefile", "createatomic", "copyatomic", "replaceatomic", "fstree", "symlink"]
    reader_scripts = []
    for i, p in enumerate(rprims):
        for dst in (["present", "absent"][(i + ctx.seed) % 2:][:1] if quick else ["present", "absent"]):
            c = mk(p, dst, "small", "small", seed=ctx.seed)
            c["reps"] = 200
            c["readers"] = 8
            reader_scripts.append({"case": c, "mode": "readers"})
    readers = drive(ctx, binp, reader_scripts)
    nreads = 0
    for sc, h in zip(reader_scripts, readers):
        st = [e for e in h if e.get("e") == "readstat"]
        if not st or st[0]["errors"]:
            raise vlib.Inconclusive("readers run of %s: %s" % (sc["case"]["id"], json.dumps(st)[:300]))
        nreads += st[0]["reads"]

    lap("%d reader runs" % len(readers))
    scripts = full_scripts + fault_scripts + reader_scripts + then_scripts
    hists = full + faults + readers + thens
    ok, drift = judge(ctx, scripts, hists)
    lap("%d histories judged" % len(hists))
    if drift and not ctx.violations:
        sc, why, ev = drift[0]
        raise vlib.Inconclusive("the file-system model does not predict what was observed (no property violation) in %d runs, "
                                "e.g. %s %s %s: model %s, observed %s" % (len(drift), sc["case"]["id"], sc["mode"],
                                                                          (sc.get("sys"), sc.get("k")), json.dumps(why),
                                                                          json.dumps(ev)[:400]))

    # coverage: which crash points of the reference traces were really used
    hit = {}
    kills = fails = 0
    distinct = set()
    for i, (sc, h) in enumerate(zip(fault_scripts, faults)):
        cid = sc["case"]["id"]
        calls = [e for e in h if e.get("e") == "sys"]
        prefix = vlib.sha([(e["op"], e["loc"], e["loc2"], e["ok"]) for e in calls])
        if not hit_flags[i]:
            continue
        if sc["mode"] == "kill":
            hit.setdefault(cid, set()).add((sc["sys"], sc["j"]))
            kills += 1
        else:
            fails += 1
        distinct.add((cid, sc["mode"], prefix))
    per_case = {}
    for cid, w in want.items():
        got = hit.get(cid, set())
        per_case[cid] = {"crash_points": len(w), "used": len(got & w), "exhaustive": got >= w}
    exhaustive = all(v["exhaustive"] for v in per_case.values())
    sample = []
    for sc, h in list(zip(fault_scripts, faults))[:1] + list(zip(fault_scripts, faults))[-1:]:
        sample.append({"script": {"case": sc["case"]["id"], "mode": sc["mode"], "sys": sc.get("sys"), "k": sc.get("k")},
                       "history": [{k: v for k, v in e.items() if k in ("e", "sys", "op", "loc", "loc2", "n", "ok", "dest",
                                                                         "strays", "names", "why", "kind", "size", "old")}
                                   for e in h]})
    vlib.finish(ctx, LEVEL, {
        "evaluations": len(hists),
        "distinct_nontrivial": len(distinct),
        "rule": "one evaluation = one run of a real primitive under strace, validated by TLC against spec/AtomicFileTrace.tla: "
                "%d complete traces, %d runs killed immediately before a mutating system call, %d runs with a failing system "
                "call, %d concurrent-reader runs; the crash points of a case are ALL open-for-write/write/copy_file_range/truncate/"
                "fsync/rename/unlink/mkdir/chmod/symlink calls its writer thread issued inside the primitive (from the complete "
                "trace). distinct_nontrivial = distinct (case, fault kind, sequence of calls before the fault) where the fault "
                "really hit inside the primitive" % (len(full), kills, fails, len(readers)),
        "states": mc["states"], "transitions": mc["transitions"],
        "model_configs_checked": mc["model_configs_checked"], "model_mutants_refuted": mc["model_mutants_refuted"],
        "traces_validated_against_impl": ok,
        "cases": len(cases), "crash_points_used": kills, "failure_points_used": fails,
        "reader_runs": len(readers), "reads_judged": nreads,
        "per_case": per_case,
        "exhaustive": exhaustive,
        "exhaustive_note": "per case: every mutating system call of the observed sequence was used as a crash point; cases: "
                           + ("a seed-chosen subset (2 per single-file primitive, symlink, unpack, 2 extras)" if quick else
                              "all primitives x destination absent/present/other mode x new size empty/small/4 MiB + layouts/faults"),
        "samples": sample,
    }, ["Linux rename(2)/symlink(2) semantics; a process kill leaves the page cache intact (what is observed after SIGKILL)",
        "power loss is not produced: the model's disk view (data durable only after fsync, namespace operations durable in "
        "order) judges the order of the system calls instead",
        "strace injects the kill at system-call entry: the call does not take effect (checked against the model by Strict conformance)",
        "file mode bits of the destination are recorded but not judged (the property speaks about content)"])


def replay(ctx, path):
    with open(path) as fh:
        doc = json.load(fh)
    sc = doc["replay"]["script"]
    binp = ctx.go_build("atomicw")
    hists = drive(ctx, binp, [sc])
    ok, drift = judge(ctx, [sc], hists)
    vlib.finish(ctx, LEVEL, {"evaluations": 1, "distinct_nontrivial": 2, "rule": "replay of one recorded run",
                             "samples": [sc], "traces_validated_against_impl": ok}, ["replay"])
