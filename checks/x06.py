"""X06 (extension) — database registry, controller life cycle, maintenance and migrations.

spec/DbReg.tla is the reference semantics (`Step`: registry descriptors + registry file + controllers +
migration runner; the statement G1..G7 is at its top), DbRegGen checks the laws of that model breadth-first
and generates operation histories (process start with or without registry persistence / through the module
system, Initialize, Register, first use, InjectDatabase, Withdraw, storage failures, Maintain*, Shutdown,
migration Add / Migrate with failing steps and unwritable version records, first uses / injections /
registrations racing a Shutdown, process restarts on the same data directory), harness/cmd/dbreg runs them against the real packages (one child process per process
lifetime), DbRegTrace decides every recorded step.
"""
import json
import resource
import vlib

LEVEL = "model_checking"
DRIVER = "dbreg"


def op_name(e):
    return (e.get("op") or {}).get("op", e.get("e", "?"))


def step_class(hist, ej):
    """Stable description of the failing step: operation, situation, observed result class."""
    ev = hist[ej]
    o = ev.get("op", {})
    res = ev.get("res", {})
    name = o.get("op", "?")
    # what the process looked like: initialized?, shut down?, failing storages?, persistent?
    per = shut = inited = False
    failing = set()
    for e in hist[:ej]:
        p = e.get("op", {})
        if p.get("op") == "proc":
            per, shut, inited, failing = p.get("per"), False, False, set()
        elif p.get("op") == "shutdown":
            shut = True
        elif p.get("op") == "init":
            inited = True
        elif p.get("op") == "fail":
            failing.add(p.get("w"))
    if res.get("err") in ("crash", "panic"):
        # the process died (possibly in a background goroutine, whatever the driver was doing): name the place
        import re
        m = re.search(r"portbase/([A-Za-z0-9_/]+\.[A-Za-z0-9_.()*]+)\(", res.get("panic") or "")
        if m:
            return "%s:in=%s" % (res.get("err"), m.group(1))
        return "%s:%s:%s%s%s" % (res.get("err"), name, "after-shutdown" if shut else "running",
                                 "" if inited else ":uninitialized", ":persistent" if per else "")
    where = "after-shutdown" if shut else "running"
    # the registry file
    odd = [f["n"].split(":")[0] for f in ev.get("file", []) if str(f.get("n", "")).startswith("?")]
    if odd:
        return "registry-file:%s:%s" % (odd[0].lstrip("?"), where)
    prev_file = next((e.get("file") for e in reversed(hist[:ej]) if e.get("e") == "op"), [])
    changes_registry = name == "register" or any(q.get("op") == "register" for q in o.get("par") or [])
    if not changes_registry and ev.get("file") != prev_file and \
            {f["n"] for f in ev.get("file", [])} != {f["n"] for f in prev_file or []}:
        return "registry-file:entries-changed-by-%s:%s" % (name, where)
    if name == "migrate":
        ids = [r["id"] for r in res.get("runs", [])]
        if len(set(ids)) < len(ids):
            return "migrate:%s:ran-twice" % where
        extra = []
        if o.get("vetoes"):
            extra.append("version-unwritable")
        if o.get("fails"):
            extra.append("failing-step")
        return "migrate:%s:%s:err=%s" % (where, "+".join(extra) or "plain", res.get("err"))
    if name in ("shutdown", "maintain"):
        kind = o.get("w") or "shutdown"
        return "%s:%s:%s:err=%s" % (name if name == "shutdown" else "maintain-" + kind, where,
                                    "failing-storage" if kind in failing else "healthy", res.get("err"))
    if name == "register":
        return "register:%s:%s:err=%s" % (where, "persistent" if per else "volatile", res.get("err"))
    if name == "race":
        return "race:%s:%s:errs=%s" % (where, "+".join(sorted(q["op"] for q in o.get("par", []))),
                                       ",".join(sorted(set(res.get("errs", [])))))
    return "%s:%s:err=%s" % (name, where, res.get("err"))


PLANS = [  # (Focus, MaxLen, MaxProcs)
    ("life", 12, 2), ("life", 18, 3), ("life", 24, 3), ("mig", 14, 2), ("mig", 20, 3), ("mig", 26, 4), ("mix", 18, 3), ("mix", 26, 4)]


def generate(ctx, nsim):
    per = max(1, nsim // len(PLANS))

    def gen(k):
        focus, ln, mp = PLANS[k]
        r = ctx.tlc("DbRegGen", cfg_text=vlib.cfg_text(
            constants={"MaxLen": ln, "MaxProcs": mp, "MaxVer": 6, "Focus": '"%s"' % focus, "Emit": True}),
            mode="simulate", num=per, depth=ln + 3, seed=ctx.seed * 13 + k, timeout=1500, count=False)
        return r.emitted()
    scripts = []
    for part in ctx.pmap(gen, range(len(PLANS))):
        scripts.extend(part)
    return scripts


def execute(ctx, scripts):
    binp = ctx.go_build(DRIVER)
    res = vlib.drive(ctx, binp, scripts, chunk=max(8, len(scripts) // 48), timeout=900)
    hists, owner = [], []
    for i, r in enumerate(res):
        evs = [e for e in r["events"] if e.get("e") != "try"]
        if r["crashed"]:
            raise vlib.Inconclusive("the driver (parent process) died: %s" % r["crashed"][:600])
        if any(e.get("e") == "setup-failed" for e in evs):
            raise vlib.Inconclusive("driver could not set up a history: %s" % json.dumps(evs[:2]))
        hists.append(evs)
        owner.append(i)
    return hists, owner


def judge(ctx, scripts, hists, owner, sig_override=None):
    ok, rej, unex = vlib.validate(ctx, "DbRegTrace", "DbRegTrace.cfg", hists,
                                  max_reject=6 if ctx.tier == "quick" else 40)
    for hi, ej, ev in rej:
        sig = sig_override or step_class(hists[hi], ej)
        ctx.violation(sig,
                      "history %d step %d: what the database package did is not an outcome the model allows: %s" % (
                          owner[hi], ej, json.dumps({k: v for k, v in ev.items() if k != "h"})[:1200]),
                      {"script": scripts[owner[hi]], "observed": hists[hi][:ej + 1]})
    return ok, unex


def nontrivial(s):
    """a database is registered and used or injected, or a migration is added and a run attempted"""
    ops = [o["op"] for o in s["steps"]]
    return ("register" in ops and ("use" in ops or "inject" in ops)) or ("madd" in ops and "migrate" in ops)


def run(ctx):
    quick = ctx.tier == "quick"

    # 1. laws of the reference semantics on every reachable state (exhaustive to a small depth); beside the pipeline
    def laws():
        return [ctx.tlc("DbRegGen", cfg_text=vlib.cfg_text(
            constants={"MaxLen": 5 if quick else 7, "MaxProcs": 2, "MaxVer": 2, "Focus": '"life"', "Emit": False},
            invariants=["Laws"], view="View"), workers=max(2, vlib.NCPU // 2), timeout=3000)]
    from concurrent.futures import ThreadPoolExecutor
    pool = ThreadPoolExecutor(max_workers=1)
    laws_future = pool.submit(laws)
    # 2. histories from the specification
    nsim = 1600 if quick else 20000
    scripts = generate(ctx, nsim)
    if len(scripts) < nsim // 2:
        raise vlib.Inconclusive("history generation produced only %d scripts" % len(scripts))
    import random
    random.Random(ctx.seed).shuffle(scripts)
    # 3. run them against the real packages, 4. let TLC judge what was recorded
    ok = unex = nevents = nprocs = 0
    ops = {}
    batch = 4000
    for b0 in range(0, len(scripts), batch):
        part = scripts[b0:b0 + batch]
        hists, owner = execute(ctx, part)
        k, u = judge(ctx, part, hists, owner)
        ok += k
        unex += u
        for h in hists:
            nevents += len(h)
            for e in h:
                if e.get("e") == "op":
                    name = e["op"]["op"]
                    if name == "proc":
                        nprocs += 1
                    key = "%s:%s" % (name, e["res"]["err"])
                    ops[key] = ops.get(key, 0) + 1
        del hists
        if len(ctx.violations) >= 12:
            unex += len(scripts) - b0 - len(part)
            break
    mcs = laws_future.result()
    pool.shutdown()
    distinct = len({vlib.sha(s) for s in scripts if nontrivial(s)})
    vlib.finish(ctx, LEVEL, {
        "states": sum(m.distinct for m in mcs), "transitions": sum(m.generated for m in mcs),
        "traces_validated_against_impl": ok,
        "evaluations": len(scripts), "distinct_nontrivial": distinct,
        "rule": "operation histories generated by TLC -simulate from spec/DbRegGen.tla (12 to 26 operations over 1 to 4 "
                "process lifetimes on one data directory; focus on the registry and life cycle, on migrations, or mixed; "
                "about a third of the life-cycle histories contain operations racing each other); "
                "non-trivial = a database is registered and then used or injected, or a migration is added and a run "
                "attempted; distinct by content hash",
        "events_validated": nevents, "process_lifetimes": nprocs, "histories_unexamined_after_rejections": unex,
        "operations_by_outcome": dict(sorted(ops.items())),
        "samples": scripts[:2],
        "check_process_maxrss_mb": resource.getrusage(resource.RUSAGE_SELF).ru_maxrss // 1024,
        "exhaustive": False,
    }, ["trace validation judges per step: the result class, the object Register returned, the life-cycle calls every "
        "storage saw (start with type and location, Maintain, MaintainThorough, MaintainRecordStates with its ShadowDelete "
        "flag, Shutdown), whether any read or write reached a storage, the migrations that ran with their from/to versions, "
        "the fields of the Diagnostics, the stored version, and the content of databases.json after the step",
        "storages are recording wrappers around the real hashmap (volatile) and fstree (persistent) storages; storage "
        "failures are injected by the wrappers; a version record that cannot be written is a failing Put of the wrapper",
        "sequential histories with free-running races in them (2 to 4 operations released at the same time, each from "
        "its own goroutine: the interleaving is the Go scheduler's choice, TLC accepts every interleaving of the critical "
        "sections); a process lifetime is a child process of the driver and ends without notice (what is not "
        "on disk is lost); the registry writer's write at shutdown is asynchronous, so LastLoaded flags in the file are only "
        "checked for soundness after a shutdown; the periodic tasks of dbmodule (10 min / 1 h) are not waited for: "
        "the functions they call are driven directly, dbmodule itself through modules.Start / modules.Shutdown",
        "names, storage types, descriptions and versions are those of spec/DbReg.tla (6 versions with 3 spellings each)"])


def replay(ctx, path):
    with open(path) as fh:
        doc = json.load(fh)
    script = doc["replay"]["script"]
    scripts = [script] * 8    # map iteration order decides which storage is visited first
    hists, owner = execute(ctx, scripts)
    judge(ctx, scripts, hists, owner, sig_override=doc["signature"])
    vlib.finish(ctx, LEVEL, {"states": 1, "transitions": 1, "traces_validated_against_impl": len(hists),
                             "samples": [script]}, ["replay of one recorded script (8 times)"])
