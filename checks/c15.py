"""C15 — microtasks respect the concurrency limit, run once, and are fully accounted.

MicroTasks.tla: scheduler (grant, then count, as separate steps), clearance queues, high-priority bypass,
max-delay expiry, two-step conclusion; TLC checks Limit, ExactlyOnce, Balanced and liveness for every
interleaving.  MicroTasksGen: behaviours as actor sequences = policies for harness/cmd/micro (yield points
micro.granted, micro.conclude; microtask functions are gates).  MicroTrace/MicroAbs: TLC validates the
recorded begin/end/return/done events, the accounting at quiescence and the admission probes.
"""
import json
import random
import vlib

LEVEL = "model_checking"
INV = ["Limit", "ExactlyOnce", "Balanced", "ModNonNeg"]


def consts(prios, threshold, expiry, qcap=10):
    p = list(prios) + ["med"] * 6
    c = {"NTasks": len(prios), "Threshold": threshold, "AllowTimeout": expiry, "QCap": qcap}
    for i in range(6):
        c["P%d" % (i + 1)] = '"%s"' % p[i]
    return c


def model_check(ctx, quick):
    # a one-slot clearance queue makes requests block (bounded channel of GOMAXPROCS*100 entries in the code)
    ctx.tlc("MicroTasks", cfg_text=vlib.cfg_text(constants=consts(("med", "med", "med", "low"), 2, False, qcap=1), invariants=INV,
                                                 properties=["AllDone"]), timeout=3000)
    # ... and with max-delay expiry a blocked request starts without clearance (SubmitTimeout)
    ctx.tlc("MicroTasks", cfg_text=vlib.cfg_text(constants=consts(("med", "med", "low"), 2, True, qcap=1), invariants=INV,
                                                 properties=["AllDone"]), timeout=3000)
    runs = [(("low", "med", "med", "med"), 2, False), (("high", "med", "low", "med"), 2, True)]
    if not quick:
        runs += [(("high", "med", "med", "low", "med"), 2, True), (("med", "med", "med", "low", "low", "high"), 3, False)]
    for prios, th, ex in runs:
        ctx.tlc("MicroTasks", cfg_text=vlib.cfg_text(constants=consts(prios, th, ex), invariants=INV,
                                                     properties=["AllDone"]), timeout=3000)


def gen_scripts(ctx, quick):
    rnd = random.Random(ctx.seed)
    cfgs = []
    for prios in [("med", "med", "med"), ("low", "med", "med", "med"), ("high", "med", "low", "med"),
                  ("med", "low", "low", "med", "high"), ("med", "med", "med", "med", "low", "low")]:
        for th in (2, 3):
            for ex in (False, True):
                cfgs.append((prios, th, ex))
    per = 12 if quick else 100

    def one(a):
        k, (prios, th, ex) = a
        r = ctx.tlc("MicroTasksGen", cfg_text=vlib.cfg_text(spec="GenSpec", constants=consts(prios, th, ex)),
                    mode="simulate", num=per, depth=200, seed=ctx.seed * 613 + k, timeout=900, count=False)
        return r.emitted()
    scripts = []
    for part in ctx.pmap(one, list(enumerate(cfgs))):
        for g in part:
            tasks = []
            for i, p in enumerate(g["prio"]):
                tasks.append({"id": "t%d" % (i + 1), "prio": p, "variant": rnd.choice(["run", "run", "start", "signal"]),
                              "out": rnd.choice(["ok", "ok", "err", "errc", "panic"]), "done": rnd.choice([1, 2, 3]),
                              # a high priority microtask may span the start of its module (submitted before Start)
                              "pre": p == "high" and rnd.random() < 0.5})
            pol = ["sched" if a == 0 else "t%d" % a for a in g["policy"]]
            scripts.append({"tasks": tasks, "threshold": g["threshold"], "expiry": g["expiry"], "policy": pol,
                            # every third history with panicking functions: nobody reads the (full) error report channel
                            "fullReports": len(scripts) % 3 == 0 and any(t["out"] == "panic" for t in tasks)})
    # burst scripts: more waiting microtasks than the clearance queue holds (the driver runs them with
    # GOMAXPROCS=2, i.e. a queue of 200 entries); the limit must still be respected, nothing may be lost
    for k in range(2 if quick else 8):
        nb = rnd.choice([260, 330])
        prio = rnd.choice(["med", "low"])
        tasks = [{"id": "t%d" % (i + 1), "prio": prio, "variant": rnd.choice(["run", "start"]), "out": "ok", "done": 1}
                 for i in range(nb)]
        scripts.append({"tasks": tasks, "threshold": rnd.choice([2, 3]), "expiry": False, "policy": [], "burst": True, "holdMs": 2})
    # storm scripts: signalled microtasks whose done function is called by four goroutines at the same instant
    for k in range(2 if quick else 6):
        scripts.append({"tasks": [], "threshold": rnd.choice([2, 3]), "expiry": False, "policy": [], "storm": 1500 if quick else 6000})
    return scripts


def sig_of(hist, ej):
    ev = hist[ej]
    init = hist[0]
    what = ev.get("e", "?")
    extra = ""
    if what in ("mbegin", "mend", "mret", "done"):
        try:
            extra = ":" + init["prios"][init["ids"].index(ev["i"])]
        except Exception:
            extra = ":?"
        if what == "mret":
            extra += ":" + str(ev.get("class"))
    if what == "final":
        extra = ":mod=%s" % ev.get("modCount")
    if what == "idleprobe":
        extra = ":%s:%s" % (ev.get("kind"), "late" if ev.get("ms", 0) > 1500 else "ok")
    if what == "probe":
        extra = ":late" if ev.get("ms", 0) > 1500 else ":ok"
    if what == "held":
        extra = ":%s" % str(ev.get("held")).lower()
    return "%s%s:expiry=%s" % (what, extra, str(init.get("expiry")).lower())


def execute(ctx, scripts):
    binp = ctx.go_build("micro")
    normal = [i for i, s in enumerate(scripts) if not s.get("burst")]
    burst = [i for i, s in enumerate(scripts) if s.get("burst")]
    res = [None] * len(scripts)
    for i, r in zip(normal, vlib.drive(ctx, binp, [scripts[i] for i in normal], chunk=1, timeout=120)):
        res[i] = r
    for i, r in zip(burst, vlib.drive(ctx, binp, [scripts[i] for i in burst], chunk=1, timeout=240, env={"GOMAXPROCS": "2"})):
        res[i] = r
    hists, owner = [], []
    for i, r in enumerate(res):
        evs = r["events"]
        if r["crashed"]:
            ctx.violation("crash", "driver process died: %s" % r["crashed"][:800], {"script": scripts[i], "observed": evs})
            continue
        for e in evs:
            e.pop("h", None)
            e.pop("seq", None)
        hists.append(evs)
        owner.append(i)
    return hists, owner


def judge(ctx, scripts, hists, owner):
    ok, rej, unex = vlib.validate(ctx, "MicroTrace", "MicroTrace.cfg", hists)
    for hi, ej, ev in rej:
        ctx.violation(sig_of(hists[hi], ej),
                      "event %d rejected by MicroAbs: %s\ntrace so far: %s" % (ej, json.dumps(ev), json.dumps(hists[hi][:ej + 1])[:2500]),
                      {"script": scripts[owner[hi]], "observed": hists[hi]})
    return ok, unex


def run(ctx):
    quick = ctx.tier == "quick"
    model_check(ctx, quick)
    scripts = gen_scripts(ctx, quick)
    if len(scripts) < 50:
        raise vlib.Inconclusive("only %d scripts generated" % len(scripts))
    hists, owner = execute(ctx, scripts)
    ok, unex = judge(ctx, scripts, hists, owner)
    nontriv = len({vlib.sha(s) for s in scripts if len(s["tasks"]) > s["threshold"]})
    vlib.finish(ctx, LEVEL, {
        "traces_validated_against_impl": ok,
        "evaluations": len(scripts), "distinct_nontrivial": nontriv,
        "rule": "scripts = behaviours of spec/MicroTasks.tla (TLC -simulate) projected to actor sequences; variants "
                "(Run*/Start*/Signal* with done called 1-3 times) and outcomes (ok/error/panic) concretised by seed; "
                "non-trivial = more microtasks than the concurrency limit; distinct by hash",
        "histories_unexamined_after_rejections": unex,
        "samples": scripts[:1] + ([hists[0]] if hists else []),
        "exhaustive": False,
    }, ["concurrency limits 2 and 3; max delay 10 s (never expires) or 60 ms (expiry scripts: only accounting is judged)",
        "admission probes after quiescence: single low/medium priority microtasks (Run/Start/Signal variants) on the idle "
        "scheduler and then `limit` probes together admitted within 1.5 s, one more held for 200 ms",
        "after quiescence limit+2 ordinary tasks run (they take time slots from the idle microtask scheduler) before the probes",
        "storm scripts: the done function of 1500 (thorough: 6000) signalled microtasks is called by 4 goroutines at once",
        "yield points compiled in with -tags verif"])


def replay(ctx, path):
    with open(path) as fh:
        doc = json.load(fh)
    scripts = [doc["replay"]["script"]]
    hists, owner = execute(ctx, scripts)
    judge(ctx, scripts, hists, owner)
    vlib.finish(ctx, LEVEL, {"states": 1, "transitions": 1, "traces_validated_against_impl": len(hists),
                             "samples": scripts}, ["replay of one script"])
