"""X02 (extension) — the small concurrency primitives of package utils keep their documented contracts.

OnceAgain / CallLimiter: spec/USyncBundle.tla is the contract monitor (B1..B6: executions never overlap, a
call returns only after an execution of its own busy period, non-concurrent calls are never bundled
(CallLimiter), the minimum pause, panics); USyncOnce.tla / USyncLimiter.tla are implementation-shaped
models (one action per atomic operation) that TLC checks against the monitor for every interleaving.
StablePool / BroadcastFlag: spec/USyncSeq.tla holds the sequential contracts (P1..P5, F1..F4),
USyncLin.tla the linearizability monitor; USyncPool.tla (the ring of slots, with the loops of the pinned
tree as fault variants whose counterexamples become directed scripts) and USyncFlag.tla are the
implementation-shaped models.  USyncGen.tla generates workloads; harness/cmd/usync runs them freely
against the real objects and records call/return histories; USyncTrace.tla validates every history
with the same monitors.
"""
import json
import vlib

LEVEL = "model_checking"
DRIVER = "usync"


def q(s):
    return '"%s"' % s


# --------------------------------------------------------------------------------------- model checking
def law_jobs(quick):
    """(name, module, cfg_text, expect, check deadlock) — expect None: must hold; otherwise the invariant that must fail."""
    J = []

    def once(np, calls, variant, panics, expect=None):
        J.append(("once:%s:%dx%d" % (variant, np, calls), "USyncOnce", vlib.cfg_text(
            constants={"NP": np, "Calls": calls, "Variant": q(variant), "Panics": panics},
            invariants=["Contract", "MutexOK"] + (["Reusable"] if variant == "real" else []),
            check_deadlock=True), expect, True))

    def lim(np, calls, variant, panics, pause, maxt, expect=None):
        J.append(("limiter:%s:%dx%d:pause=%d" % (variant, np, calls, pause), "USyncLimiter", vlib.cfg_text(
            constants={"NP": np, "Calls": calls, "Variant": q(variant), "Panics": panics, "Pause": pause, "MaxT": maxt},
            invariants=["Contract", "NoBadUnlock", "Idle"], check_deadlock=(pause == 0)), expect, pause == 0))

    def flag(nn, no, nc, oc, variant, expect=None):
        J.append(("flag:%s:%d+%d:%dx%d" % (variant, nn, no, nc, oc), "USyncFlag", vlib.cfg_text(
            constants={"NN": nn, "NO": no, "NCalls": nc, "OCalls": oc, "Variant": q(variant)},
            invariants=["Contract"], check_deadlock=True), expect, True))

    def pool(maxops, lean):
        J.append(("pool:fixed:%d%s" % (maxops, ":lean" if lean else ""), "USyncPool", vlib.cfg_text(
            constants={"MaxOps": maxops, "Loops": q("fixed"), "Emit": False, "Report": False, "Lean": lean},
            invariants=["Conforms", "RingOK"], view="View"), None, False))

    if quick:
        once(3, 2, "real", False)
        once(2, 2, "real", True)
        lim(3, 1, "real", True, 0, 0)
        lim(2, 2, "real", True, 0, 0)
        lim(2, 2, "real", False, 2, 5)
        flag(2, 1, 1, 3, "real")
        flag(1, 2, 1, 2, "real")
        pool(11, False)
        pool(16, True)
    else:
        once(3, 2, "real", True)
        once(4, 1, "real", True)
        once(4, 2, "real", False)
        lim(3, 2, "real", True, 0, 0)
        lim(4, 1, "real", True, 0, 0)
        lim(3, 1, "real", True, 2, 5)
        lim(2, 2, "real", True, 2, 6)
        lim(2, 3, "real", False, 1, 4)
        lim(4, 1, "real", False, 2, 5)
        flag(2, 1, 2, 3, "real")
        flag(1, 2, 2, 2, "real")
        flag(2, 2, 1, 1, "real")
        pool(15, False)
        pool(21, True)
    # fault variants: the monitors must reject them (the specification has teeth)
    once(2, 2, "cas", False, expect="Contract")
    lim(2, 2, "noretake", False, 0, 0, expect="Contract")
    lim(2, 2, "nosleep", False, 2, 5, expect="Contract")
    flag(1, 1, 1, 3, "noreset", expect="Contract")
    flag(1, 1, 1, 3, "nolock", expect="Contract")
    return J


def law_tasks(ctx, quick):
    def mk(j):
        def one():
            name, module, cfg, expect, dl = j
            r = ctx.tlc(module, cfg_text=cfg, workers=2 if quick else 4, timeout=600 if quick else 3000, deadlock=dl,
                        want_ok=(expect is None), count=(expect is None), java_opts=["-Xmx2g" if quick else "-Xmx6g"])
            if expect is not None and r.violated != expect:
                raise vlib.Inconclusive("fault variant %s was not rejected by %s:\n%s" % (
                    name, expect, "\n".join(r.out.splitlines()[-15:])))
            return ("law", (name, r.distinct, r.generated, round(r.wall, 1)))
        return one
    return [mk(j) for j in law_jobs(quick)]


# --------------------------------------------------------------------------------------------- scripts
def directed_tasks(ctx, quick):
    """Counterexamples of the fault variants of the ring (loops of the pinned tree) as directed scripts."""
    runs = [("pinned", 10 if quick else 13, False), ("getfixed", 18 if quick else 20, True)]

    def mk(a):
        def one():
            loops, maxops, lean = a
            r = ctx.tlc("USyncPool", cfg_text=vlib.cfg_text(
                constants={"MaxOps": maxops, "Loops": q(loops), "Emit": True, "Report": True, "Lean": lean},
                view="View"), workers=2 if quick else 4, timeout=900, count=False, java_opts=["-Xmx3g"])
            out = {}
            for s in r.emitted():
                out.setdefault((loops, s.get("why"), s.get("hasnew")), []).append(s)
            res = []
            for key in sorted(out, key=str):
                lst = out[key]
                lst.sort(key=lambda s: (len(s["procs"][0]), json.dumps(s, sort_keys=True)))
                for s in lst[:4 if quick else 12]:
                    s = dict(s)
                    s["origin"] = "counterexample of USyncPool Loops=%s: %s" % (loops, s.pop("why", "?"))
                    res.append(s)
            return ("directed", res)
        return one
    return [mk(a) for a in runs]


def gen_tasks(ctx, quick):
    f = 1 if quick else 8
    plan = []   # (module, constants, num, depth)
    for kind, maxp, maxops, timed, num in [
            ("once", 4, 8, False, 220), ("once", 3, 12, False, 120), ("once", 4, 8, True, 50),
            ("limiter", 4, 8, False, 220), ("limiter", 3, 12, False, 120), ("limiter", 4, 8, True, 60),
            ("flag", 4, 12, False, 260), ("flag", 3, 9, False, 140), ("flag", 4, 10, True, 30),
            ("pool", 4, 12, False, 220), ("pool", 2, 14, False, 120), ("pool", 3, 10, True, 20)]:
        plan.append(("USyncGen", {"Kind": q(kind), "MaxP": maxp, "MaxOps": maxops, "Timed": timed}, num * f, maxops + 4))
    for maxops, num in [(10, 120), (18, 160), (30, 160)]:
        plan.append(("USyncPool", {"MaxOps": maxops, "Loops": q("fixed"), "Emit": True, "Report": False, "Lean": False},
                     num * f, maxops + 3))

    def mk(k, a):
        def one():
            module, consts, num, depth = a
            r = ctx.tlc(module, cfg_text=vlib.cfg_text(constants=consts), mode="simulate", num=num, depth=depth,
                        seed=ctx.seed * 977 + k, timeout=900, count=False)
            return ("gen", (k, r.emitted()))
        return one
    return [mk(k, a) for k, a in enumerate(plan)]


# ------------------------------------------------------------------------------------------- execution
def execute(ctx, scripts):
    binp = ctx.go_build(DRIVER)
    res = vlib.drive(ctx, binp, scripts, chunk=max(16, len(scripts) // 48), timeout=600)
    hists, owner = [], []
    for i, r in enumerate(res):
        evs = [e for e in r["events"] if e.get("e") != "try"]
        if r["crashed"]:
            ctx.violation("crash:%s" % scripts[i].get("kind"),
                          "the driver process died while running the script: %s" % r["crashed"][:800],
                          {"script": scripts[i], "observed": evs})
            continue
        for e in evs:
            e.pop("h", None)
        hists.append(evs)
        owner.append(i)
    return hists, owner


def explain(ctx, hist):
    """TLC's reason for rejecting one history (the monitor's `bad` text)."""
    r = ctx.tlc("USyncTrace", cfg="USyncTrace.cfg", workers=1, timeout=600, want_ok=False, count=False,
                files={"trace.ndjson": "\n".join(json.dumps(e) for e in hist) + "\n"})
    why = [x.get("why") for x in r.emitted() if isinstance(x, dict) and x.get("why")]
    return why[-1] if why else "%s:rejected" % (hist[0].get("kind") if hist else "?")


def judge(ctx, scripts, hists, owner):
    ok, rej, unex = vlib.validate(ctx, "USyncTrace", "USyncTrace.cfg", hists, max_reject=12)
    whys = ctx.pmap(lambda r: explain(ctx, hists[r[0]]), rej)
    for (hi, ej, ev), why in zip(rej, whys):
        seq = len(scripts[owner[hi]].get("procs", [])) == 1
        ctx.violation(why + (":sequential" if seq else ""),
                      "history of script %d, event %d rejected (%s): %s\nhistory so far: %s" % (
                          owner[hi], ej, why, json.dumps(ev), json.dumps(hists[hi][:ej + 1])[:3000]),
                      {"script": scripts[owner[hi]], "observed": hists[hi]})
    return ok, unex


def overlapped(hist):
    """a history is non-trivial when two calls were in progress at the same time, or (sequential pool
    scripts) when an item was put and a later Get found the pool non-empty"""
    inprog = 0
    for e in hist:
        if e.get("e") == "call":
            inprog += 1
            if inprog > 1:
                return True
        elif e.get("e") == "ret":
            inprog -= 1
    return any(e.get("k") == "item" for e in hist)


def run(ctx):
    quick = ctx.tier == "quick"
    # model checking, script generation and the driver build run side by side
    tasks = law_tasks(ctx, quick) + directed_tasks(ctx, quick) + gen_tasks(ctx, quick)
    tasks.append(lambda: ("build", ctx.go_build(DRIVER)))
    laws, directed, gen = [], [], []
    for tag, val in ctx.pmap(lambda f: f(), tasks, par=vlib.NCPU if quick else max(4, vlib.NCPU // 2)):
        if tag == "law":
            laws.append(val)
        elif tag == "directed":
            directed.extend(val)
        elif tag == "gen":
            gen.append(val)
    if not directed:
        raise vlib.Inconclusive("the fault variants of USyncPool produced no counterexample")
    scripts = list(directed)
    for k, part in sorted(gen, key=lambda x: x[0]):
        scripts.extend(part)
    if len(scripts) < 500:
        raise vlib.Inconclusive("only %d scripts generated" % len(scripts))
    hists, owner = execute(ctx, scripts)
    ok, unex = judge(ctx, scripts, hists, owner)
    nontriv = len({vlib.sha(scripts[owner[k]]) for k, h in enumerate(hists) if overlapped(h)})
    kinds = {}
    for s in scripts:
        kinds[s.get("kind")] = kinds.get(s.get("kind"), 0) + 1
    sample_h = next((h for h in hists if h and h[0].get("kind") == "limiter" and overlapped(h)), hists[0] if hists else [])
    vlib.finish(ctx, LEVEL, {
        "traces_validated_against_impl": ok,
        "evaluations": len(scripts), "distinct_nontrivial": nontriv,
        "rule": "scripts = workloads generated by TLC -simulate from spec/USyncGen.tla (2-4 concurrent processes, free-running "
                "and timed) and spec/USyncPool.tla (sequential), plus the counterexamples TLC finds for the fault variants of "
                "the ring (directed); every script is run against the real object and its recorded history validated by TLC; "
                "non-trivial = the recorded history has two calls in progress at the same time, or (sequential) a Get that "
                "returned a pooled item; distinct by script hash",
        "scripts_by_kind": kinds, "directed_scripts": len(directed),
        "events_validated": sum(len(h) for h in hists),
        "histories_unexamined_after_rejections": unex,
        "model_checking_runs": [{"run": n, "distinct": d, "generated": g, "wall_s": w} for n, d, g, w in laws],
        "samples": [directed[0], scripts[len(directed)], sample_h[:40]],
        "exhaustive": False,
    }, ["contract statements derived from the doc comments of utils/onceagain.go, call_limiter.go, stablepool.go, "
        "broadcastflag.go (written out at the top of spec/USyncBundle.tla and spec/USyncSeq.tla); where they are silent "
        "every outcome is allowed (which caller runs f, number of executions of a busy period, FIFO order of the pool)",
        "recorded order = one global atomic counter; call recorded before the invocation, return after it",
        "CallLimiter pause: measured with the wall clock the limiter itself uses, 10% tolerance",
        "a Flag is used by one goroutine only (as documented); Signal() is observed by a non-blocking receive and by a "
        "receive with a 3 ms timeout",
        "interleavings of the real code are those the Go scheduler produces (no yield points inside package utils); "
        "all interleavings are covered on the implementation-shaped models only"])


def replay(ctx, path):
    with open(path) as fh:
        doc = json.load(fh)
    scripts = [doc["replay"]["script"]]
    hists, owner = execute(ctx, scripts)
    ok, _ = judge(ctx, scripts, hists, owner)
    vlib.finish(ctx, LEVEL, {"states": 1, "transitions": 1, "traces_validated_against_impl": ok,
                             "samples": scripts}, ["replay of one script"])
