"""X15 (extension) — package modules beyond C01/C05/C06/C07/C15/X01/X05: failure status API, status predicates and
export, module error reports, RunWorker / StartServiceWorker (back-off, single instance, no restart after
cancellation), the global Start / Shutdown flow (global prep/shutdown functions, command line operation, exit code,
repeated and concurrent Shutdown), module management toggles, sleepy ticker channel.

spec/ModMisc.tla       the statement (F1..T1, top of the file) and the reference semantics at quiet points: Step, ViewOK,
                       LogOK, SvcOK
spec/ModMiscGen.tla    TLC checks the laws of the reference breadth-first (LawsOK) and generates configurations + scripts
spec/ModMiscTrace.tla  TLC validates what harness/cmd/modmisc recorded from the real package (one process per script)
"""
import json
import vlib

LEVEL = "model_checking"
DRIVER = "modmisc"


def generate(ctx, nsim):
    plans = [8, 12, 12, 16, 16, 22]
    per = max(1, nsim // len(plans))

    def gen(k):
        r = ctx.tlc("ModMiscGen", cfg_text=vlib.cfg_text(constants={"MaxLen": plans[k], "Emit": True, "Level": 2}),
                    mode="simulate", num=per, depth=plans[k] + 4, seed=ctx.seed * 11 + k, timeout=1500, count=False)
        return r.emitted()
    scripts = []
    for part in ctx.pmap(gen, range(len(plans))):
        scripts.extend(part)
    return scripts


def directed(quick):
    """Independent modules, one start routine fails at once: whether its error report or the success report of another
    module reaches the start pass first is a race (a failed module is offline again and looks ready); a failure update
    function that takes a few milliseconds delays the error report."""
    out = []
    op = lambda name: {"op": name, "m": 0, "a": "", "k": 0, "n": 0, "sq": []}
    for i in range(24 if quick else 200):
        n = 3
        st = ["ok"] * n
        st[i % n] = "err" if i % 2 else "panic"
        out.append({"cfg": {"n": n, "deps": [[], [], []], "mgmt": False, "en": [False] * n, "prep": ["ok"] * n, "start": st,
                            "stop": ["ok"] * n, "gprep": "none", "gshut": i % 2 == 0, "cmd": "none", "help": False,
                            "notify": True, "unit": 12000, "slow": 2 + i % 4},
                    "steps": [op("start"), op("getexit"), op("shutdown" if i % 2 else "shutdown2"), op("getexit")], "directed": "failstart"})
    return out


def op_sig(ev):
    o = ev.get("op", {})
    s = o.get("op", "?")
    if s in ("fail", "resolve", "report", "runworker", "service"):
        s += ":" + str(o.get("a", ""))
    return s


def cfg_sig(c, o):
    """Class of the configuration as far as it matters for the operation."""
    bits = []
    if o in ("start", "shutdown", "shutdown2", "manage", "end"):
        for k in ("prep", "start", "stop"):
            bad = sorted({x for x in c.get(k, []) if x != "ok"})
            if bad:
                bits.append(k + "=" + "+".join(bad))
        for k in ("gprep", "cmd"):
            if c.get(k) not in (None, "none", "ok"):
                bits.append(k + "=" + c[k])
        if c.get("help"):
            bits.append("help")
    bits.append("mgmt" if c.get("mgmt") else "nomgmt")
    return ",".join(bits)


def execute(ctx, scripts):
    binp = ctx.go_build(DRIVER)
    res = vlib.drive(ctx, binp, scripts, chunk=max(1, min(16, len(scripts) // (vlib.NCPU * 2) or 1)), timeout=1200)
    hists, owner = [], []
    for i, r in enumerate(res):
        evs = [e for e in r["events"] if e.get("e") != "try"]
        if r["crashed"]:
            tries = [e for e in r["events"] if e.get("e") == "try"]
            last = tries[-1] if tries else {}
            ctx.violation("crash:%s:%s" % (op_sig(last), cfg_sig(scripts[i]["cfg"], last.get("op", {}).get("op"))),
                          "the process died while executing %s: %s" % (json.dumps(last.get("op")), r["crashed"][:800]),
                          {"script": scripts[i], "died_in": last})
            continue
        for e in evs:
            e.pop("seq", None)
        hists.append(evs)
        owner.append(i)
    return hists, owner


def judge(ctx, scripts, hists, owner):
    ok, rej, unex = vlib.validate(ctx, "ModMiscTrace", "ModMiscTrace.cfg", hists)
    for hi, ej, ev in rej:
        kind = ev.get("e")
        name = ev.get("op", {}).get("op") if kind == "op" else kind
        if ev.get("ret") == "hang":
            sig = "hang:%s" % name
        else:
            sig = "mismatch:%s:%s" % (op_sig(ev) if kind == "op" else kind, cfg_sig(scripts[owner[hi]]["cfg"], name))
        ctx.violation(sig, "history %d event %d: observed %s is not an outcome spec/ModMisc.tla allows" % (
            owner[hi], ej, json.dumps(ev)[:1500]), {"script": scripts[owner[hi]], "observed": hists[hi][:ej + 1]})
    return ok, unex


def laws(ctx, quick):
    """The reference semantics obeys its own laws (spec/ModMiscGen.tla, LawsOK) on every state reachable within MaxLen
    operations of the BFS configurations."""
    runs = [(3, 1)] if quick else [(4, 1), (3, 2)]
    return [ctx.tlc("ModMiscGen", cfg_text=vlib.cfg_text(constants={"MaxLen": ml, "Emit": False, "Level": lv},
                                                          invariants=["LawsOK"], view="View"),
                    workers=max(2, vlib.NCPU // 2), timeout=3000) for ml, lv in runs]


def run(ctx):
    quick = ctx.tier == "quick"
    from concurrent.futures import ThreadPoolExecutor
    with ThreadPoolExecutor(max_workers=1) as ex:
        fut = ex.submit(laws, ctx, quick)
        scripts = generate(ctx, 400 if quick else 6000)
        if len(scripts) < 100:
            raise vlib.Inconclusive("only %d scripts generated" % len(scripts))
        scripts += directed(quick)
        hists, owner = execute(ctx, scripts)
        ok, unex = judge(ctx, scripts, hists, owner)
        mcs = fut.result()
    nontriv = len({vlib.sha(s) for s in scripts if any(st["op"] in ("start", "shutdown", "shutdown2") for st in s["steps"])})
    nops = sum(len(s["steps"]) for s in scripts)
    vlib.finish(ctx, LEVEL, {
        "states": sum(m.distinct for m in mcs), "transitions": sum(m.generated for m in mcs),
        "traces_validated_against_impl": ok,
        "evaluations": len(scripts), "distinct_nontrivial": nontriv, "operations": nops,
        "rule": "configurations + operation scripts generated by TLC -simulate from spec/ModMiscGen.tla (8..22 operations), plus "
                "24 (thorough: 200) directed Start/Shutdown scripts with a failing start routine among independent modules; "
                "non-trivial = contains Start or Shutdown; distinct by content hash",
        "histories_unexamined_after_rejections": unex,
        "samples": scripts[:2],
        "exhaustive": False,
    }, ["observations are taken at quiet points (the driver waits until notification workers have run: 40 ms without activity)",
        "at most one failing lifecycle routine per configuration; 2-3 modules; dependency shapes of spec/ModMiscGen.tla",
        "service worker back-off unit 12 ms; upper bound on a restart delay 10x the documented delay + 10 s (loaded machine)",
        "sleepy ticker intervals 4 ms / 8 ms, a tick is awaited for 2.5 s",
        "one driver process per script (the module system is a process-wide singleton)"])


def replay(ctx, path):
    with open(path) as fh:
        doc = json.load(fh)
    scripts = [doc["replay"]["script"]]
    hists, owner = execute(ctx, scripts)
    judge(ctx, scripts, hists, owner)
    vlib.finish(ctx, LEVEL, {"states": 1, "transitions": 1, "traces_validated_against_impl": len(hists),
                             "samples": scripts}, ["replay of one script"])
