"""X14 (extension) — package log beyond C20: what a written line shows and how levels and tracers are handed out;
second subject: package rng (lengths, ranges, readiness).

spec/LogFmt.tla is the reference model (level names, level in force per call site, -log/-plog at Start, AddTracer /
Tracer / nil tracers, the Message of a written line, the fields of the default rendering, line counter, totals,
last unexpected lines).  LogFmtGen checks laws of that model exhaustively and generates scripts; harness/cmd/logfmt
runs one script per process against the real package (call sites with line directives, output through SetAdapter,
the rendering of log.StdoutAdapter.Format split into fields); LogFmtTrace validates every recorded event.
spec/Rng.tla + RngTrace do the same for package rng (stateless vectors and a short readiness history).
"""
import json
import random
import vlib

LEVEL = "model_checking"
DRIVER = "logfmt"


def O(k, a=0, b=0, c=0, s=0, l=(), m=0):
    return {"k": k, "a": a, "b": b, "c": c, "s": s, "l": list(l), "m": m}


def INI(flag=0, flagc=0, preset=0, plog=(), pre=()):
    return {"flag": flag, "flagc": flagc, "preset": preset, "plog": [{"p": p, "lv": lv} for p, lv in plog],
            "pre": [{"sev": sv, "site": st, "m": m} for sv, st, m in pre]}


def directed(ctx, quick):
    """Scripts the random generator reaches rarely: counter wrap, more than ten unexpected lines, long traces,
    every -plog shape, every severity from every site."""
    rnd = random.Random(ctx.seed * 31 + 7)
    S = []
    # the counter runs 001..999 and starts again at 001: spin it close to the end, then write a few lines
    for spin in ([990, 1995] if quick else [985, 990, 996, 1990, 1995, 2994]):
        ops = [O("log", rnd.randint(3, 6), rnd.randint(1, 3), 0, rnd.randint(1, 5), (), rnd.randint(0, 5)) for _ in range(14)]
        ops.insert(7, O("sync"))
        S.append({"ini": INI(), "ops": ops, "spin": spin + rnd.randint(0, 3)})
    # more than ten unexpected lines, read back in between
    for k in range(2 if quick else 6):
        ops = [O("setlevel", 1)]
        for i in range(16):
            ops.append(O("log", rnd.choice([3, 4, 5, 6, 4, 5]), rnd.choice([1, 1, 2]), rnd.randint(0, 1), rnd.randint(1, 5), (), rnd.randint(0, 5)))
            if i in (4, 9, 12):
                ops += [O("addtracer", 1, 1, 1, rnd.randint(1, 5))] + \
                       [O("tlog", 1, rnd.choice([1, 2, 3, 4, 6]), rnd.randint(0, 1), rnd.randint(1, 5), (), rnd.randint(0, 5)) for _ in range(rnd.randint(1, 4))] + \
                       [O("submit", 1)]
            if i in (5, 11, 15):
                ops += [O("sync"), O("unexp"), O("totals")]
        S.append({"ini": INI(), "ops": ops})
    # traces: every severity as main line and inside, tracer taken from the context, second AddTracer on the same context
    for k in range(3 if quick else 12):
        site = rnd.randint(1, 5)
        ops = [O("setlevel", 1), O("addtracer", 1, 1, 1, site), O("addtracer", 2, 2, 1, site), O("gettracer", 2)]
        for i in range(rnd.randint(1, 7)):
            ops.append(O("tlog", rnd.choice([1, 2]), rnd.randint(1, 6), rnd.randint(0, 1), rnd.randint(1, 5), (), rnd.randint(0, 5)))
        ops += [O("setlevel", rnd.randint(2, 6)), O("tlog", 1, rnd.randint(1, 6), 0, rnd.randint(1, 5), (), 0), O("totals"), O("submit", 1), O("sync"), O("unexp")]
        S.append({"ini": INI(), "ops": ops})
    # package levels in both directions for every site, tracers handed out by package
    for k in range(3 if quick else 10):
        g = rnd.randint(1, 6)
        lv = [rnd.choice([0, 1, 2, 3, 4, 5, 6]) for _ in range(5)]
        ops = [O("setlevel", g), O("setpkg", l=lv)]
        for site in range(1, 6):
            ops.append(O("addtracer", 1, 1, 1, site))
            for sv in range(1, 7):
                ops.append(O("log", sv, 1, 0, site, (), 0))
            ops.append(O("tlog", 1, rnd.randint(1, 6), 0, site, (), 1))
            ops.append(O("submit", 1))
        ops += [O("sync"), O("unsetpkg")] + [O("log", sv, 1, 0, rnd.randint(1, 5), (), 0) for sv in range(1, 7)] + [O("getlevel"), O("totals")]
        S.append({"ini": INI(), "ops": ops})
    # Start: every flag value and -plog shape, lines of every severity before Start
    shapes = [[(1, 1)], [(1, 2), (2, 7), (3, 1)], [(2, 8)], [(4, 1), (5, 1), (1, 9), (2, 1)], [(3, 6), (1, 5)], [(5, 7)], [(1, 4), (2, 3), (3, 2), (4, 1)]]
    for k, plog in enumerate(shapes[:3] if quick else shapes):
        pre = [(rnd.randint(1, 6), rnd.randint(1, 5), m) for m in rnd.sample(range(6), 3)]
        ops = []
        for site in range(1, 6):
            ops.append(O("addtracer", 1, 1, 1, site))
            ops += [O("log", sv, 1, 0, site, (), 0) for sv in (1, 2, 3, 6)]
        ops += [O("sync"), O("getlevel"), O("totals"), O("unexp")]
        S.append({"ini": INI(rnd.choice([0, 1, 2, 7, 4]), rnd.randint(0, 2), rnd.choice([0, 1, 5]), plog, pre), "ops": ops})
    # names: every level name in every letter case and decoration, every severity value
    ops = [O("parse", n, c, d) for n in range(7) for c in range(7 if n == 0 else 4) for d in (range(1) if n == 0 else range(6))]
    ops += [O("names", a) for a in range(9)]
    S.append({"ini": INI(), "ops": ops})
    return S


def gen_scripts(ctx, quick):
    per = 60 if quick else 2000
    cfgs = [(10, 1), (16, 2), (24, 3), (36, 4)]

    def one(a):
        k, (n, _) = a
        r = ctx.tlc("LogFmtGen", cfg_text=vlib.cfg_text(constants={"MaxOps": n, "Emit": True, "Small": False}),
                    mode="simulate", num=per, depth=n + 6, seed=ctx.seed * 613 + k, timeout=900, count=False)
        return r.emitted()
    scripts = []
    for part in ctx.pmap(one, list(enumerate(cfgs))):
        scripts.extend(part)
    return scripts


KNOWN_FILES = {"/w/alpha/server", "/w/alpha/a", "/w/beta/dbx", "b/x", "/w/gamma/deep/er/handler", "/w/sync/point"}


def sig_of(ev):
    e = ev.get("e", "?")
    if e == "op":
        k = ev.get("op", {}).get("k", "?")
        return ("panic:" if ev.get("panic") else "op:") + k
    if e == "out":
        if not ev.get("ok"):
            return "out:unparsable"
        if "".join(ev.get("file", [])) not in KNOWN_FILES:
            return "out:foreign-origin"
        return "out:" + ("dups" if ev.get("dups") else ("trace" if ev.get("r", {}).get("subs") else "plain"))
    if e == "end":
        return "end:line-still-missing"
    return e


def execute(ctx, scripts):
    binp = ctx.go_build(DRIVER)
    res = vlib.drive(ctx, binp, scripts, chunk=1, timeout=120)
    hists, owner, raws = [], [], []
    for i, r in enumerate(res):
        if r["crashed"]:
            ctx.violation("crash", "driver process died: %s" % r["crashed"][:800], {"script": scripts[i]})
            continue
        evs = r["events"]
        raw = {}
        for j, e in enumerate(evs):
            e.pop("h", None)
            e.pop("seq", None)
            if "raw" in e:
                raw[j] = e.pop("raw")
        hists.append(evs)
        owner.append(i)
        raws.append(raw)
    return hists, owner, raws


def judge(ctx, scripts, hists, owner, raws):
    ok, rej, unex = vlib.validate(ctx, "LogFmtTrace", "LogFmtTrace.cfg", hists, max_reject=4)
    for hi, ej, ev in rej:
        ctx.violation(sig_of(ev),
                      "event %d rejected by the LogFmt model: %s\nrendered text: %r\nstart: %s\nprevious events: %s" % (
                          ej, json.dumps(ev)[:1500], raws[hi].get(ej, ""), json.dumps(hists[hi][0])[:600],
                          json.dumps([{k: v for k, v in e.items() if k != "r"} for e in hists[hi][max(1, ej - 6):ej]])[:1800]),
                      {"script": scripts[owner[hi]], "observed_tail": hists[hi][max(0, ej - 40):ej + 1]})
    return ok, unex


# ------------------------------------------------------------------------------------------------ rng
def rng_scripts(ctx, quick):
    g = ctx.tlc("RngGen", cfg="RngGen.cfg", workers=1, timeout=600)
    em = g.emitted()
    if not em:
        raise vlib.Inconclusive("RngGen emitted nothing")
    vec = em[0]
    rnd = random.Random(ctx.seed * 17 + 3)
    n = 2 if quick else 8
    out = []
    for k in range(n):
        calls = list(vec["calls"])
        rnd.shuffle(calls)
        out.append({"rng": {"before": vec["before"], "calls": calls, "workers": rnd.choice([2, 4, 8]), "blocks": 200 if quick else 2000,
                            "seed": ctx.seed * 100 + k}})
    return out


def rng_run(ctx, scripts):
    binp = ctx.go_build(DRIVER)
    res = vlib.drive(ctx, binp, scripts, chunk=1, timeout=300)
    events = []
    for i, r in enumerate(res):
        if r["crashed"]:
            ctx.violation("rng:crash", "driver process died: %s" % r["crashed"][:800], {"script": scripts[i]})
            continue
        for e in r["events"]:
            if e.get("e") == "try":
                continue
            e.pop("h", None)
            e.pop("seq", None)
            events.append(e)
    bad = vlib.validate_stateless(ctx, "RngTrace", "RngTrace.cfg", events)
    for ev in bad:
        sig = "rng:%s:%s" % (ev.get("e"), ev.get("cls", "-")) + (":panic" if ev.get("panic") else "")
        ctx.violation(sig, "call rejected by the Rng model: %s" % json.dumps(ev)[:700], {"rng_event": ev})
    return len(events), len(bad)


def run(ctx):
    quick = ctx.tier == "quick"
    # 1. laws of the model on every reachable state (small domains)
    mc = ctx.tlc("LogFmtGen", cfg_text=vlib.cfg_text(constants={"MaxOps": 2 if quick else 4, "Emit": False, "Small": True},
                                                     invariants=["Laws"], view="View"), timeout=2400)
    # 2. scripts: behaviours of the generator + directed ones
    scripts = gen_scripts(ctx, quick) + directed(ctx, quick)
    if len(scripts) < 60:
        raise vlib.Inconclusive("only %d scripts generated" % len(scripts))
    # 3. run and judge
    hists, owner, raws = execute(ctx, scripts)
    ok, unex = judge(ctx, scripts, hists, owner, raws)
    # 4. package rng
    rs = rng_scripts(ctx, quick)
    rn, rbad = rng_run(ctx, rs)
    outs = [e for h in hists for e in h if e.get("e") == "out"]
    nout = len(outs)
    detail = {
        "traces_written": sum(1 for e in outs if e.get("r", {}).get("subs")),
        "collected_lines_rendered": sum(len(e.get("r", {}).get("subs", [])) for e in outs),
        "merged_duplicates_written": sum(1 for e in outs if e.get("dups")),
        "tracers_handed_out": sum(1 for h in hists for e in h if e.get("e") == "op" and e["op"]["k"] == "addtracer" and e["res"]["nn"]),
        "tracers_refused": sum(1 for h in hists for e in h if e.get("e") == "op" and e["op"]["k"] == "addtracer" and not e["res"]["nn"]),
        "unexpected_lines_read_back": sum(len(e.get("un", [])) for h in hists for e in h if e.get("e") == "unexp"),
        "lines_before_start_written": sum(1 for h in hists for e in h if e.get("e") == "out" and e.get("txt", "").find("900") >= 0 and h[0]["ini"]["pre"]),
        "starts_with_error": sum(1 for h in hists if h and h[0].get("err")),
        "counter_wraps": sum(1 for h in hists for a, b in zip([e for e in h if e.get("e") == "out"], [e for e in h if e.get("e") == "out"][1:])
                             if b["r"]["ctr"] < a["r"]["ctr"] and not any(x.get("e") == "spin" for x in h[h.index(a):h.index(b)])),
    }
    nontriv = len({vlib.sha(s) for s in scripts if sum(1 for o in s["ops"] if o["k"] in ("log", "tlog", "submit")) >= 3})
    vlib.finish(ctx, LEVEL, {
        "states": mc.distinct, "transitions": mc.generated,
        "traces_validated_against_impl": ok,
        "evaluations": len(scripts) + rn, "distinct_nontrivial": nontriv,
        "events_validated": sum(len(h) for h in hists), "written_lines_judged": nout, "rng_calls_judged": rn, "detail": detail,
        "rule": "one evaluation = one script (one process: flags, lines before Start, Start, 10-36 operations, Shutdown) generated by "
                "TLC -simulate from spec/LogFmtGen.tla or directed (counter wrap, > 10 unexpected lines, long traces, package levels "
                "for every site, -plog shapes, all level-name vectors), or one call of package rng; non-trivial = at least three "
                "logging operations; distinct by content hash",
        "histories_unexamined_after_rejections": unex,
        "samples": scripts[:1] + ([hists[0][:12]] if hists else []),
        "exhaustive": False,
    }, ["the driver splits the rendered text into fields (regular expression) and TLC judges the fields; messages contain no line breaks",
        "call sites get their file:line from line directives, as generated code does",
        "single logging goroutine after Start (ordering and concurrency are C20's subject); the writer is paced with TriggerWriter and "
        "every batch ends with a one-line trace as synchronisation line",
        "operations on a tracer that has been submitted are not generated (nothing is promised about them)",
        "rng: no statistical claims"])


def replay(ctx, path):
    with open(path) as fh:
        doc = json.load(fh)
    rp = doc["replay"]
    if "script" in rp:
        scripts = [rp["script"]]
        if "rng" in scripts[0]:
            rng_run(ctx, scripts)
            n = 1
        else:
            hists, owner, raws = execute(ctx, scripts)
            judge(ctx, scripts, hists, owner, raws)
            n = len(hists)
    else:
        # one call of package rng: run it again (a blocks event: the concurrent workload again)
        ev = rp["rng_event"]
        c = ev.get("c")
        sc = {"rng": {"before": [c] if c and c.get("phase") == "before" else [], "calls": [c] if c and c.get("phase") == "after" else [],
                      "workers": 1 if c else 8, "blocks": 1 if c else 2000}}
        rng_run(ctx, [sc])
        n = 1
    vlib.finish(ctx, LEVEL, {"states": 1, "transitions": 1, "traces_validated_against_impl": n,
                             "samples": [rp.get("script", rp.get("rng_event"))]}, ["replay of one script"])
