"""X08 (extension) — the update flows of package updater: indexes, downloads, GetFile with on-demand
download, the registry state and its change callback, the upgrade signal, restart on the same storage dir.

spec/UpdFlow.tla        reference model of a ResourceRegistry with two indexes, three identifiers and two
                        update servers (`Step(st, op)` = set of allowed outcomes; the statement F1..F7 is at
                        its top; version selection and the Blacklist rule are those of spec/Updater.tla, C19).
spec/UpdFlowGen.tla     TLC, breadth first over every state reachable with a small catalogue of server
                        behaviours: laws of the model (an available version is never requested, downloads
                        converge, a later index overrides an earlier one, nothing outside an index's
                        directory, signals are never withdrawn, the code's own choices are tolerated);
                        and -simulate generation of call histories.
spec/UpdFlowTrace.tla   judges what a real registry did (driver harness/cmd/updflow: temp storage dir, real
                        files, a loopback HTTP server with 404 / 500 / truncated / slow answers, the retry
                        backoff shortened by the hook updater.VerifBackoffUnit); tracks the set of model states
                        that explain the history so far and names the violated requirement of a rejected call.
"""
import json
import os
import threading
from concurrent.futures import ThreadPoolExecutor

import vlib

LEVEL = "model_checking"
DRIVER = "updflow"


def _threadsafe_scratch(ctx):
    """ctx.sub() hands out numbered scratch directories; this check calls ctx.tlc from nested thread pools."""
    lock = threading.Lock()
    state = {"n": 0}

    def sub(name):
        with lock:
            state["n"] += 1
            d = os.path.join(ctx.scratch, "%s-x08-%d" % (name, state["n"]))
        os.makedirs(d)
        return d
    ctx.sub = sub


# ------------------------------------------------------------------------------------------ model checking
def model_checking(ctx):
    quick = ctx.tier == "quick"
    full = ["ShapeOK", "LawsOK", "TotalOK"]
    jobs = [("laws-depth-%d" % (2 if quick else 3), dict(depth=2 if quick else 3, invs=full, workers=6)),
            ("shape-depth-%d" % (3 if quick else 4), dict(depth=3 if quick else 4, invs=["ShapeOK"], workers=6))]

    def one(j):
        name, p = j
        r = ctx.tlc("UpdFlowGen", cfg_text=vlib.cfg_text(
            constants={"MaxLen": p["depth"], "Emit": False}, invariants=p["invs"], view="View", constraint="Depth"),
            workers=p["workers"], timeout=3000)
        return name, {"states": r.distinct, "transitions": r.generated, "depth": r.depth, "invariants": p["invs"]}
    return dict(ctx.pmap(one, jobs, par=len(jobs)))


# ------------------------------------------------------------------------------------------ histories
def gen_histories(ctx):
    quick = ctx.tier == "quick"
    plan = [(10, 350), (16, 450), (16, 450), (24, 350)] if quick else \
           [(8, 3000), (12, 4000), (16, 5000), (16, 5000), (20, 4000), (24, 4000), (30, 3000), (40, 2000)]

    def gen(k):
        depth, num = plan[k]
        r = ctx.tlc("UpdFlowGen", cfg_text=vlib.cfg_text(constants={"MaxLen": depth, "Emit": True}),
                    mode="simulate", num=num, depth=depth + 4, seed=ctx.seed * 37 + k, timeout=1500, count=False)
        return r.emitted()
    scripts = []
    for part in ctx.pmap(gen, range(len(plan))):
        scripts.extend(part)
    want = sum(n for _, n in plan)
    if len(scripts) < want // 2:
        raise vlib.Inconclusive("history generation produced only %d of %d scripts" % (len(scripts), want))
    return scripts


def judge_histories(ctx, hists):
    """TLC (spec/UpdFlowTrace.tla) consumes every event; rejected calls come back as (history, event, why)."""
    n = len(hists)
    k = max(1, min(vlib.NCPU, (sum(len(h) for h in hists) + 2499) // 2500))
    parts = [p for p in (list(range(i, n, k)) for i in range(k)) if p]
    rejected = []

    def job(idx):
        lines, owner = [], []
        for i in idx:
            for j, e in enumerate(hists[i]):
                lines.append(json.dumps(e))
                owner.append((i, j))
        r = ctx.tlc("UpdFlowTrace", cfg="UpdFlowTrace.cfg", workers=1, timeout=1500,
                    files={"trace.ndjson": "\n".join(lines) + "\n"}, want_ok=False, count=False)
        if not r.ok or r.depth != len(lines) + 1:
            tail = "\n".join(r.out.splitlines()[-30:])
            raise vlib.Inconclusive("trace validation with UpdFlowTrace did not consume the trace:\n%s" % tail)
        seen = set()
        for d in r.emitted():
            if d["line"] in seen:
                continue
            seen.add(d["line"])
            i, j = owner[d["line"] - 1]
            rejected.append((i, j, sorted(d["why"])))
    ctx.pmap(job, parts)
    return sorted(rejected)


def short(ev):
    o = ev.get("op", {})
    arg = {k: v for k, v in o.items() if k != "op" and v not in (0, False, "") and not (k == "doc" and v.get("kind") == "none")}
    return "%s%s" % (o.get("op"), json.dumps(arg) if arg else "")


def run_histories(ctx, scripts, sig_override=None):
    binp = ctx.go_build(DRIVER)
    res = vlib.drive(ctx, binp, scripts, chunk=max(8, len(scripts) // 64), timeout=900)
    hists, owner, nevents = [], [], 0
    for i, r in enumerate(res):
        evs = [e for e in r["events"] if e.get("e") != "try"]
        if r["crashed"]:
            tries = [e for e in r["events"] if e.get("e") == "try"]
            last = tries[-1] if tries else {}
            ctx.violation(sig_override or "crash:%s" % last.get("op", {}).get("op", "?"),
                          "the driver process died while executing %s: %s" % (json.dumps(last.get("op")), r["crashed"][:600]),
                          {"script": scripts[i], "died_in": last})
            continue
        if not evs:
            raise vlib.Inconclusive("the driver recorded nothing for script %d" % i)
        hists.append(evs)
        owner.append(i)
        nevents += len(evs)
    rejected = judge_histories(ctx, hists)
    for hi, ej, why in rejected:
        ev = hists[hi][ej]
        op = ev.get("op", {}).get("op", ev.get("e"))
        before = [short(e) for e in hists[hi][1:ej]][-6:]
        obs = ev.get("obs", {})
        ctx.violation(sig_override or "%s:%s" % (op, "+".join(why)),
                      "history %d, call %d: %s is not allowed by spec/UpdFlow.tla (%s); result %s; requests %s; resources %s; "
                      "update state %s; notifications %s; upgrade signals %s; calls before: %s" % (
                          owner[hi], ej, short(ev), ", ".join(why), json.dumps(ev.get("res")),
                          json.dumps([[q["u"], q["k"], q["a"], q["v"]] for q in obs.get("reqs", [])]),
                          json.dumps(obs.get("res")), json.dumps(obs.get("upd")),
                          json.dumps([[q["id"], q["dn"], q["upto"]] for q in obs.get("notes", [])]),
                          json.dumps(obs.get("handles")), "; ".join(before)),
                      {"script": scripts[owner[hi]], "observed": hists[hi][:ej + 1], "why": why})
    return len(hists) - len({hi for hi, _, _ in rejected}), nevents, hists


def nontrivial(hist):
    """an index was accepted and stored, and an update server was asked for a resource file"""
    stored = any(any(t != 0 for t in e.get("obs", {}).get("idxdisk", [])) for e in hist if e.get("e") == "op")
    asked = any(q["k"] == "file" for e in hist if e.get("e") == "op" for q in e.get("obs", {}).get("reqs", []))
    return stored and asked


# ------------------------------------------------------------------------------------------ entry points
def run(ctx):
    _threadsafe_scratch(ctx)
    ctx.go_build(DRIVER)
    pool = ThreadPoolExecutor(max_workers=1)
    mc_future = pool.submit(model_checking, ctx)
    scripts = gen_histories(ctx)
    accepted, nevents, hists = run_histories(ctx, scripts)
    mc = mc_future.result()
    pool.shutdown()
    distinct = len({vlib.sha(h[0].get("cfg")) + vlib.sha([e.get("op") for e in h[1:]]) for h in hists if nontrivial(h)})
    calls = {}
    seen = {"retried_requests": 0, "fetches_saved_by_the_second_url": 0, "download_runs_with_failures": 0,
            "getfile_fetched": 0, "getfile_fetch_failed": 0, "getfile_local": 0, "index_rounds_all_failed": 0,
            "restarts_with_stored_index": 0, "upgrade_signals_raised": 0, "calls_with_cancelled_context": 0,
            "concurrent_pairs_both_fetching": 0, "blacklist_accepted": 0, "files_fetched_by_download_runs": 0}
    for h in hists:
        up = 0
        for e in h[1:]:
            o, r, ob = e["op"], e["res"], e["obs"]
            calls[o["op"]] = calls.get(o["op"], 0) + 1
            reqs = ob["reqs"]
            same = [(a["k"], a["a"], a["v"]) == (b["k"], b["a"], b["v"]) for a, b in zip(reqs, reqs[1:])]
            seen["retried_requests"] += sum(same)
            if o["op"] == "Download":
                seen["download_runs_with_failures"] += 1 if ob["upd"]["dlErr"] and ob["notes"] and ob["notes"][-1]["upd"]["dlAt"] != ob["notes"][0]["upd"]["dlAt"] else 0
                seen["files_fetched_by_download_runs"] += len({(q["a"], q["v"]) for q in reqs})
            if o["op"] == "GetFile":
                key = "getfile_fetch_failed" if r["err"] == "fetch" else "getfile_fetched" if (r["err"] == "" and reqs) else \
                      "getfile_local" if r["err"] == "" else None
                if key:
                    seen[key] += 1
                if r["err"] == "" and len(reqs) >= 2 and reqs[-1]["u"] != reqs[0]["u"]:
                    seen["fetches_saved_by_the_second_url"] += 1
            if o["op"] == "UpdateIndexes" and r["err"] == "failed":
                seen["index_rounds_all_failed"] += 1
            if o["op"] == "Restart":
                up = 0
                seen["restarts_with_stored_index"] += 1 if any(t > 0 for t in ob["idxdisk"]) else 0
            if o["op"] == "Blacklist" and r["err"] == "":
                seen["blacklist_accepted"] += 1
            if o.get("mode") == "cancelled":
                seen["calls_with_cancelled_context"] += 1
            if o["op"] == "Par" and len({q["k"] + str(q["a"]) + "." + str(q["v"]) for q in reqs}) >= 2 and len(ob["notes"]) > 5:
                seen["concurrent_pairs_both_fetching"] += 1
            n = sum(1 for x in ob["handles"] if x["up"])
            seen["upgrade_signals_raised"] += max(0, n - up)
            up = n
    vlib.finish(ctx, LEVEL, {
        "states": sum(m["states"] for m in mc.values()), "transitions": sum(m["transitions"] for m in mc.values()),
        "traces_validated_against_impl": accepted,
        "evaluations": len(scripts), "distinct_nontrivial": distinct,
        "rule": "call histories: TLC -simulate of spec/UpdFlowGen.tla (10..40 calls; server behaviour changes, UpdateIndexes, "
                "LoadIndexes, SelectVersions, DownloadUpdates, GetFile, Blacklist, online switch, restart), executed on a real "
                "ResourceRegistry with a loopback update server, every call and what is observable after it judged by TLC; "
                "non-trivial = an index was accepted and stored and a server was asked for a resource file; distinct by "
                "content hash of configuration and calls",
        "histories_run": len(hists), "events_validated": nevents, "calls": calls,
        "situations_seen": seen,
        "model_checking": mc,
        "samples": scripts[:2],
        "exhaustive": False,
        "exhaustive_note": "exhaustive: laws of the model over every state reachable within the stated depth from two "
                           "configurations with four index documents; sampled: histories",
    }, ["spec/UpdFlow.tla is the oracle; where the documentation of the package is silent the model allows every outcome "
        "(listed at the end of the statement in the spec)",
        "two indexes (pk/stable.json, pk/beta.json with PreRelease), three identifiers (one outside the indexes' directory), "
        "versions 1.0.0, 1.1.0, 1.2.0-beta, 2.0.0 and the unparsable 1.x, one or two update URLs; no signature verification",
        "calls of one history are made one after the other (no concurrent registry operations)",
        "the retry backoff of the package (tries*tries seconds) runs with a unit of one millisecond through the hook "
        "updater.VerifBackoffUnit (build tag verif)",
        "server failures are 404, 500 and an answer shorter than its Content-Length; 'slow' answers take 15 ms",
        "time stamps of the update state are compared by identity of their values only (fresh / same as / unchanged)"])


def replay(ctx, path):
    _threadsafe_scratch(ctx)
    with open(path) as fh:
        doc = json.load(fh)
    script = doc["replay"]["script"]
    accepted, _, _ = run_histories(ctx, [script], sig_override=doc["signature"])
    vlib.finish(ctx, LEVEL, {"states": 1, "transitions": 1, "traces_validated_against_impl": accepted,
                             "samples": [script]}, ["replay of one recorded case"])
