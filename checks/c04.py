"""C04 — config getters always return the layered, validated, current value.

Part 1 (sequential): spec/ConfigLayers.tla is the reference semantics of the three layers (user, default,
registered default), the release-level gate derived from the release-level option itself, value
validation per option (type, regex, allowed values, validation function; Go and JSON-decoded raw value
classes) and save -> load.  ConfigLayersGen: TLC checks the laws of the reference on a small exhaustive
domain (BFS) and generates random histories (-simulate); the driver harness/cmd/cfg executes them on the
real package, one worker process per history, a second process for every save -> load (the real
loadConfig of the config module start); after every step every option is read through GetAs*,
Concurrent.GetAs*, new getters, wrong-type and unknown-key getters, a Perspective, UserValue/IsSetByUser,
GetActiveConfigValues.  ConfigLayersTrace: TLC validates every recorded step.

Part 2 (concurrent): spec/ConfigFlag.tla is the validity-flag hand-over between setters and getter
closures step by step; TLC explores all interleavings for `Fresh` (a getter call that begins after a
setter returned returns that setter's value or a later one) and refutes the mutant order value-then-flag
(model sensitivity).  ConfigFlagGen projects behaviours to actor sequences = policies for the yield-point
driver harness/cmd/cfgflag (hooks config.set.beforeSignal, config.signal.swapped, config.get.afterFlag,
build tag verif); ConfigFlagTrace judges the recorded call/return order.
"""
import json
import os
import random
import vlib

LEVEL = "model_checking"


# ------------------------------------------------------------------------------------------ part 1
def kind_of(raw):
    return raw.split(":", 1)[0] if ":" in raw else raw


def layers_sig(ev, prefix):
    op = ev.get("op", {})
    if op.get("op") == "Set":
        return "layers:%s:Set:%s:%s:%s" % (prefix, op.get("L"), op.get("o"), kind_of(op.get("v", "?")))
    if op.get("op") == "Replace":
        m = op.get("m", {})
        kinds = sorted({("nil" if v == "nil" else "val") for v in m.values() if v != "-"})
        return "layers:%s:Replace:%s:%s" % (prefix, op.get("L"), "+".join(kinds) or "empty")
    inv = ",".join(ev.get("res", {}).get("inv", []))
    return "layers:%s:%s%s" % (prefix, op.get("op", "?"), (":inv=" + inv) if inv else "")


def brief_op(op):
    if op.get("op") == "Replace":
        return "Replace(%s, %s)" % (op.get("L"), json.dumps({k: v for k, v in sorted(op.get("m", {}).items()) if v != "-"}))
    if op.get("op") == "Set":
        return "Set(%s, %s, %s)" % (op.get("L"), op.get("o"), op.get("v"))
    return op.get("op", "?")


def brief(hist, ej):
    """Readable account of a rejected step: the operations so far, the result and what the getters showed."""
    lines = ["  %d. %s -> %s" % (k, brief_op(e.get("op", {})), json.dumps(e.get("res")))
             for k, e in enumerate(hist[1:ej + 1], 1)]
    obs = hist[ej].get("obs") or {}
    for k in ("g", "c", "n", "uv", "act", "p"):
        if k in obs and not (k in ("c", "n") and obs[k] == obs.get("g")):
            lines.append("  observed %-3s %s" % (k, json.dumps(obs[k], sort_keys=True)))
    return "\n".join(lines)


def layers_model_check(ctx, quick):
    return ctx.tlc("ConfigLayersGen", cfg_text=vlib.cfg_text(
        constants={"MaxLen": 2 if quick else 3, "Emit": False}, invariants=["Laws"], view="View"), timeout=2400)


def layers_generate(ctx, quick):
    n = 320 if quick else 6400
    parts = 4 if quick else 16
    per = n // parts

    def gen(k):
        depth = [6, 12, 12, 18][k % 4]
        r = ctx.tlc("ConfigLayersGen", cfg_text=vlib.cfg_text(constants={"MaxLen": depth, "Emit": True}),
                    mode="simulate", num=per, depth=depth + 3, seed=ctx.seed * 31 + k, timeout=1200, count=False)
        return r.emitted()
    scripts = []
    for part in ctx.pmap(gen, range(parts)):
        scripts.extend(part)
    if len(scripts) < n // 2:
        raise vlib.Inconclusive("history generation produced only %d scripts" % len(scripts))
    return scripts


def layers_execute(ctx, scripts):
    binp = ctx.go_build("cfg")
    res = vlib.drive(ctx, binp, scripts, chunk=max(4, len(scripts) // 32), timeout=600)
    hists, owner = [], []
    for i, r in enumerate(res):
        evs = [e for e in r["events"] if e.get("e") != "try"]
        if r["crashed"]:
            # the driver itself (not a worker) died or could not start a worker: infrastructure
            raise vlib.Inconclusive("cfg driver failed on script %d: %s" % (i, r["crashed"][:600]))
        for e in evs:
            e.pop("h", None)
        if evs:
            hists.append(evs)
            owner.append(i)
    return hists, owner


def layers_judge(ctx, scripts, hists, owner):
    ok, rej, unex = vlib.validate(ctx, "ConfigLayersTrace", "ConfigLayersTrace.cfg", hists)
    for hi, ej, ev in rej:
        res = ev.get("res", {})
        if res.get("panic", "").startswith("worker:"):
            raise vlib.Inconclusive("cfg worker could not be set up: %s" % res["panic"])
        prefix = "panic" if res.get("panic") else "mismatch"
        ctx.violation(layers_sig(ev, prefix),
                      "history %d: step %d is not an outcome spec/ConfigLayers.tla allows (g/c/n getters, uv UserValue, act "
                      "GetActiveConfigValues, p Perspective)\n%s" % (owner[hi], ej, brief(hists[hi], ej)[:1900]),
                      {"part": "layers", "script": scripts[owner[hi]], "observed": hists[hi][:ej + 1]})
    return ok, unex


# ------------------------------------------------------------------------------------------ part 2
def flag_consts(ns, nc, share, first=True):
    return {"NS": ns, "NC": nc, "Share": share, "FlagFirst": first}


def flag_model_check(ctx, quick):
    shapes = [(2, 3, 2)] if quick else [(2, 3, 2), (2, 4, 2), (3, 3, 2), (2, 4, 3)]
    for ns, nc, share in shapes:
        ctx.tlc("ConfigFlag", cfg_text=vlib.cfg_text(constants=flag_consts(ns, nc, share),
                                                     invariants=["TypeOK", "Fresh", "CachedFlagCovers"]), timeout=3000)
    # model sensitivity: the order value-then-flag must violate Fresh
    r = ctx.tlc("ConfigFlag", cfg_text=vlib.cfg_text(constants=flag_consts(2, 3, 2, first=False), invariants=["Fresh"]),
                timeout=1200, want_ok=False, count=False)
    if r.violated != "Fresh":
        raise vlib.Inconclusive("the mutant order value-then-flag was not refuted by TLC (model is insensitive):\n" +
                                "\n".join(r.out.splitlines()[-15:]))
    return r.depth


def flag_generate(ctx, quick):
    rnd = random.Random(ctx.seed * 13 + 5)
    shapes = [(2, 3, 2), (2, 2, 2), (2, 2, 1), (1, 3, 2), (3, 3, 2), (2, 4, 2), (3, 4, 3), (2, 3, 3)]
    per = 30 if quick else 350

    def one(a):
        k, (ns, nc, share) = a
        c = flag_consts(ns, nc, share)
        c["MaxCalls"] = 3
        r = ctx.tlc("ConfigFlagGen", cfg_text=vlib.cfg_text(spec="GenSpec", constants=c), mode="simulate", num=per,
                    depth=160, seed=ctx.seed * 541 + k, timeout=900, count=False)
        return r.emitted()
    scripts, seen = [], set()
    for part in ctx.pmap(one, list(enumerate(shapes))):
        for g in part:
            pol = ["%s%d" % (a, b) for a, b in g["policy"]]
            scripts.append(flag_script(g, pol, rnd))
            seen.add(vlib.sha([g["ns"], g["callers"], pol]))
    enum = flag_enumerate(ctx, quick, rnd)
    for s in enum:
        seen.add(vlib.sha([s["ns"], s["callers"], s["policy"]]))
    return scripts + enum, len(seen), len(enum)


def flag_enumerate(ctx, quick, rnd):
    """All policies of small shapes: BFS of ConfigFlagGen (the history is part of the state, so every distinct
    projected behaviour reaches its own terminal state and is printed there)."""
    shapes = [(1, 2, 2, 2)] if quick else [(1, 2, 2, 2), (1, 2, 1, 2), (2, 1, 1, 2), (2, 2, 2, 1)]

    def one(a):
        ns, nc, share, calls = a
        c = flag_consts(ns, nc, share)
        c["MaxCalls"] = calls
        r = ctx.tlc("ConfigFlagGen", cfg_text=vlib.cfg_text(spec="GenSpec", constants=c), workers=1, timeout=1500, count=False)
        return r.emitted()
    scripts, seen = [], set()
    for part in ctx.pmap(one, shapes):
        for g in part:
            pol = ["%s%d" % (a, b) for a, b in g["policy"]]
            key = vlib.sha([g["ns"], g["callers"], pol])
            if key in seen:
                continue
            seen.add(key)
            scripts.append(flag_script(g, pol, rnd))
    return scripts


def flag_script(g, pol, rnd):
    kinds = {}
    for c in sorted(set(g["callers"])):
        single = g["callers"].count(c) == 1
        kinds[str(c)] = rnd.choice(["safe", "plain"]) if single else "safe"   # plain closures are not shared
    return {"ns": g["ns"], "callers": g["callers"], "policy": pol,
            # one setter: every third script changes the release level instead (the observed option is a beta option with a
            # user value: raising the level is the write that makes it visible)
            "setter": rnd.choice(["level", "leveldef"]) if g["ns"] == 1 and rnd.random() < 0.34 else
                      rnd.choice(["user", "user", "def", "replace", "repldef"]),
            "otype": rnd.choice(["string", "int", "array"]), "kinds": kinds}


def flag_sig(hist, ej):
    ev = hist[ej]
    init = hist[0] if hist and hist[0].get("e") == "init" else {}
    what = ev.get("e", "?")
    extra = ""
    if what == "gret":
        try:
            c = init["callers"][ev["g"] - 1]
            extra = ":" + init["kinds"].get(str(c), "?")
        except Exception:
            extra = ":?"
    return "flag:%s%s:setter=%s:otype=%s" % (what, extra, init.get("setter"), init.get("otype"))


def flag_execute(ctx, scripts):
    binp = ctx.go_build("cfgflag")
    res = vlib.drive(ctx, binp, scripts, chunk=max(4, len(scripts) // 32), timeout=300)
    hists, owner = [], []
    for i, r in enumerate(res):
        evs = [e for e in r["events"] if e.get("e") != "try"]
        for e in evs:
            e.pop("h", None)
            e.pop("seq", None)
        if r["crashed"] and r["crashed"].startswith("driver timeout"):
            raise vlib.Inconclusive("cfgflag driver timed out on script %d" % i)
        if r["crashed"] and not any(e.get("e") == "hang" for e in evs):
            ctx.violation("flag:crash:setter=%s:otype=%s" % (scripts[i].get("setter"), scripts[i].get("otype")),
                          "cfgflag driver died: %s" % r["crashed"][:600],
                          {"part": "flag", "script": scripts[i], "observed": evs})
            continue
        if evs:
            hists.append(evs)
            owner.append(i)
    return hists, owner


def flag_judge(ctx, scripts, hists, owner):
    ok, rej, unex = vlib.validate(ctx, "ConfigFlagTrace", "ConfigFlagTrace.cfg", hists)
    for hi, ej, ev in rej:
        ctx.violation(flag_sig(hists[hi], ej),
                      "policy %d event %d rejected by the Fresh monitor: %s\nevents so far: %s" % (
                          owner[hi], ej, json.dumps(ev), json.dumps(hists[hi][:ej + 1])[:2500]),
                      {"part": "flag", "script": scripts[owner[hi]], "observed": hists[hi]})
    return ok, unex


def hooks_present():
    return os.path.exists(os.path.join(vlib.REPO, "config", "verif_on.go"))


# ------------------------------------------------------------------------------------------ run
def run(ctx):
    quick = ctx.tier == "quick"
    # models first: laws of the layering reference, all interleavings of the flag hand-over
    mc1 = layers_model_check(ctx, quick)
    mutant_depth = flag_model_check(ctx, quick)
    # part 1
    scripts = layers_generate(ctx, quick)
    hists, owner = layers_execute(ctx, scripts)
    ok1, unex1 = layers_judge(ctx, scripts, hists, owner)
    nsteps = sum(len(h) - 1 for h in hists)
    nontriv = len({vlib.sha(s) for s in scripts if any(
        st["op"]["op"] != "Set" or st["op"]["o"] in ("rl", "beta", "exp") for st in s["steps"])})
    saveloads = sum(1 for s in scripts for st in s["steps"] if st["op"]["op"] == "SaveLoad")
    # part 2
    ok2 = unex2 = npol = ndist = nenum = 0
    fscripts, fh = [], []
    if hooks_present():
        fscripts, ndist, nenum = flag_generate(ctx, quick)
        npol = len(fscripts)
        if npol < 50:
            raise vlib.Inconclusive("only %d flag policies generated" % npol)
        fh, fowner = flag_execute(ctx, fscripts)
        ok2, unex2 = flag_judge(ctx, fscripts, fh, fowner)
    elif not ctx.violations:
        raise vlib.Inconclusive("the config yield points (config/verif_on.go, commit 'verif hooks: ... config ...') are not in "
                                "%s: the interleaving replay of the flag hand-over cannot be built" % vlib.REPO)
    vlib.finish(ctx, LEVEL, {
        "traces_validated_against_impl": ok1 + ok2,
        "evaluations": len(scripts) + npol, "distinct_nontrivial": nontriv + ndist,
        "rule": "part 1: histories of Set/SetDefault/Replace/ReplaceDefault/SaveLoad over 13 options and 40 raw value classes + nil "
                "generated by TLC -simulate from spec/ConfigLayersGen.tla (depth 6/12/18), each executed in its own process "
                "(+1 process per SaveLoad); non-trivial = contains a replace, a save/load or touches the release level or a "
                "gated option; part 2: behaviours of spec/ConfigFlag.tla projected to actor sequences (8 shapes of setters x "
                "callers x shared closures, TLC -simulate) plus every projected behaviour of the smallest shapes (TLC BFS of "
                "ConfigFlagGen: 1 setter x 2 callers sharing a closure x 2 calls; thorough also 1x2 separate closures, 2 setters x 1 "
                "caller, 2x2 shared x 1 call), setter kind / option type / closure kind drawn by seed; distinct by content hash",
        "layer_histories": len(scripts), "layer_steps_validated": nsteps, "save_load_process_pairs": saveloads,
        "layer_model_states": mc1.distinct, "flag_policies": npol, "flag_policies_distinct": ndist,
        "flag_policies_enumerated_small_shapes": nenum,
        "flag_mutant_refuted_at_depth": mutant_depth, "part2_ran": bool(npol),
        "histories_unexamined_after_rejections": unex1 + unex2,
        "samples": scripts[:1] + fscripts[:1] + ([fh[0][:12]] if fh else []),
        "exhaustive": False,
    }, ["option fixture and raw value classes are those of spec/ConfigLayers.tla; the driver maps them to Go values and prints "
        "what it reads back in canonical form",
        "a new process has an empty default layer (SetDefault/ReplaceDefault values are runtime state)",
        "option keys are not path-prefixes of each other; no migrations",
        "integers within +-2^53 (what survives the JSON file)",
        "part 2: recorded call/return order is the real order (a call is logged before it starts, a return after it happened); "
        "write order of overlapping setters is taken from the final read only; yield points compiled in with -tags verif"])


def replay(ctx, path):
    with open(path) as fh:
        doc = json.load(fh)
    rp = doc["replay"]
    script = rp["script"]
    n = 0
    if rp.get("part") == "flag":
        for _ in range(5):      # the schedule is steered, not forced: repeat
            hists, owner = flag_execute(ctx, [script])
            ok, _ = flag_judge(ctx, [script], hists, owner)
            n += ok
            if ctx.violations:
                break
    else:
        hists, owner = layers_execute(ctx, [script])
        n, _ = layers_judge(ctx, [script], hists, owner)
    vlib.finish(ctx, LEVEL, {"states": 1, "transitions": 1, "traces_validated_against_impl": n,
                             "samples": [script]}, ["replay of one recorded script"])
