"""X04 — notifications: lifecycle of a Notification and the store a UI client sees (extension check).

spec/Notif.tla (statement N1-N8 and the reference model `Step`/`FullStep`), NotifGen (TLC checks the laws of
the model exhaustively and generates histories of API calls, UI-side database operations and cleaner passes),
NotifTrace (TLC judges what the real package did).  Driver: harness/cmd/notif (the notifications module is
started for real, with the database and config modules and its cleaner).
"""
import json
import vlib

LEVEL = "model_checking"
DRIVER = "notif"

# directed histories (not random): every database insert ends in the hang F-X04-2 when it is not repaired and
# takes the driver process with it, so inserts are kept out of the random histories
def _op(name, k=0, id="", sel="", exp="", flag=False, ks=()):
    return {"op": {"op": name, "k": k, "id": id, "sel": sel, "exp": exp, "flag": flag, "ks": list(ks)}}


DIRECTED = [
    {"steps": [_op("notify", id="a", exp="never", flag=True), _op("setfn", k=1), _op("dbinsert", id="a", sel="x"),
               _op("dbput", id="a", sel="y"), _op("delete", k=1)]},
    {"steps": [_op("notify", id="b", exp="future", flag=True), _op("listen", k=1), _op("dbinsert", id="b", sel="y"),
               _op("tick", ks=[1])]},
    {"steps": [_op("dbinsert", id="a", sel="x"), _op("notify", id="a", exp="never", flag=True),
               _op("dbput", id="a", sel="x"), _op("dbinsert", id="a", sel="y")]},
]


def op_sig(e):
    o = e.get("op", {})
    return o.get("op", "?")


def step_class(ev, prev_objs):
    """Stable description of the failing step: operation + state class of the object it worked on."""
    o = ev.get("op", {})
    name = o.get("op", "?")
    cls = ""
    k = o.get("k", 0)
    if k and prev_objs and 1 <= k <= len(prev_objs):
        po = prev_objs[k - 1]
        cls = ":" + (po.get("st") or "unsaved") + ("+deleted" if po.get("del") else "")
    if name == "dbput":
        cls = ":sel" if o.get("sel") else (":executed" if o.get("flag") else ":plain")
    return name + cls


def gen_scripts(ctx, nsim, maxlen, maxobj, seed, insert=False):
    r = ctx.tlc("NotifGen", cfg_text=vlib.cfg_text(
        constants={"MaxLen": maxlen, "MaxObj": maxobj, "Emit": True, "Background": False, "WithInsert": insert,
                   "GenIDs": '{"a", "b", "d"}', "GenKinds": '{"info", "warn", "prompt", "error"}'}),
        mode="simulate", num=nsim, depth=maxlen + 3, seed=seed, timeout=1200, count=False)
    return r.emitted()


def execute(ctx, scripts, par=None, chunk=None, base=0):
    binp = ctx.go_build(DRIVER)
    # the driver mostly waits (100 ms listener rounds of the package, 1 s cleaner period): run more processes than cores
    res = vlib.drive(ctx, binp, scripts, chunk=chunk or max(4, min(24, len(scripts) // (3 * vlib.NCPU) + 1)), timeout=900,
                     par=par or 3 * vlib.NCPU)
    hists, owner = [], []
    nevents = 0
    for i, r in enumerate(res):
        evs = [e for e in r["events"] if e.get("e") != "try"]
        for e in evs:
            e.pop("ms", None)
        ops = [e for e in evs if e.get("e") == "op"]
        hung = [e for e in ops if "hang" in e.get("bad", "") or e.get("bad", "").startswith("not quiet")]
        if hung:
            e = hung[-1]
            prev = ops[-2]["objs"] if len(ops) > 1 else []
            ctx.violation("hang:%s" % step_class(e, prev),
                          "history %d: the call %s did not return within 15 s (%s); calls before it: %s" % (
                              base + i, json.dumps(e["op"]), e["bad"][:300], ",".join(op_sig(x) for x in ops[:-1][-4:])),
                          {"script": scripts[i], "died_in": e["op"]})
            continue
        if r["crashed"]:
            tries = [e for e in r["events"] if e.get("e") == "try"]
            last = tries[-1] if tries else {}
            ctx.violation("crash:%s" % op_sig(last),
                          "the driver process died while executing %s: %s" % (json.dumps(last.get("op")), r["crashed"][:600]),
                          {"script": scripts[i], "died_in": last})
            continue
        if not evs:
            raise vlib.Inconclusive("the driver recorded nothing for script %d" % i)
        hists.append(evs)
        owner.append(i)
        nevents += len(evs)
    return hists, owner, nevents


VOID = [0]


def judge(ctx, scripts, hists, owner):
    # NotifTrace prints one line per history it stops judging (a call outside the model's assumptions): count them
    orig = ctx.tlc

    def tlc(module, *a, **k):
        r = orig(module, *a, **k)
        if module == "NotifTrace" and r.ok:
            VOID[0] += len(r.emitted())
        return r
    ctx.tlc = tlc
    try:
        ok, rej, unex = vlib.validate(ctx, "NotifTrace", "NotifTrace.cfg", hists)
    finally:
        ctx.tlc = orig
    for hi, ej, ev in rej:
        ops = [e for e in hists[hi][:ej] if e.get("e") == "op"]
        prev = ops[-1]["objs"] if ops else []
        kind = "mismatch"
        bad = ev.get("bad", "")
        if bad.startswith("panic"):
            kind = "panic"
        elif bad:
            kind = "stuck"
        ctx.violation("%s:%s" % (kind, step_class(ev, prev)),
                      "history %d step %d: observed %s is not an outcome the notification model allows (calls before: %s)" % (
                          owner[hi], ej, json.dumps(ev)[:900], ",".join(op_sig(x) for x in ops[-5:])),
                      {"script": scripts[owner[hi]], "observed": hists[hi][:ej + 1]})
    return ok, unex


def run(ctx):
    quick = ctx.tier == "quick"
    # 1. the laws of the model on every reachable state (exhaustive, bounded depth), cleaner in the background
    mc = ctx.tlc("NotifGen", cfg_text=vlib.cfg_text(
        constants={"MaxLen": 3 if quick else 4, "MaxObj": 3, "Emit": False, "Background": True, "WithInsert": True,
                   "GenIDs": '{"a", "d"}', "GenKinds": '{"warn"}'},
        invariants=["LawsOK"], view="View"), timeout=1500)
    # 2. histories from the specification
    nsim = 640 if quick else 14000
    parts = 4 if quick else 16
    shapes = [(8, 3), (12, 4), (16, 4), (12, 3)]
    scripts = []

    def gen(k):
        maxlen, maxobj = shapes[k % len(shapes)]
        return gen_scripts(ctx, nsim // parts, maxlen, maxobj, ctx.seed * 31 + k)
    for part in ctx.pmap(gen, range(parts)):
        scripts.extend(part)
    if len(scripts) < nsim // 2:
        raise vlib.Inconclusive("history generation produced only %d scripts" % len(scripts))
    # a smaller batch with database inserts (every one of them hangs, and takes the driver process with it, where
    # F-X04-2 is not repaired: they are kept apart from the other histories)
    nins = 48 if quick else 600
    with_insert = gen_scripts(ctx, nins, 10, 3, ctx.seed * 31 + 1000, insert=True) + DIRECTED
    nmain = len(scripts)
    scripts = scripts + with_insert
    import time
    t1 = time.time()
    vlib.log("x04: model checked (%d states) and %d scripts generated after %.1fs" % (mc.distinct, len(scripts), t1 - ctx.t0))
    # 3. run them against the real package, 4. TLC judges
    hists, owner, nevents = execute(ctx, scripts[:nmain])
    h2, o2, n2 = execute(ctx, scripts[nmain:], chunk=1, base=nmain)
    hists, owner, nevents = hists + h2, owner + [nmain + i for i in o2], nevents + n2
    t2 = time.time()
    vlib.log("x04: %d histories (%d events) executed in %.1fs" % (len(hists), nevents, t2 - t1))
    ok, unex = judge(ctx, scripts, hists, owner)
    vlib.log("x04: judged in %.1fs" % (time.time() - t2))
    distinct = len({vlib.sha(s) for s in scripts if any(
        st["op"]["op"] in ("dbput", "dbdelete", "dbinsert", "tick", "delete", "deleteid") for st in s["steps"])})
    vlib.finish(ctx, LEVEL, {
        "states": mc.distinct, "transitions": mc.generated,
        "traces_validated_against_impl": ok,
        "evaluations": len(scripts), "distinct_nontrivial": distinct,
        "rule": "operation histories generated by TLC -simulate from spec/NotifGen.tla (8/12/16 calls, 3-4 notification "
                "objects, 3 EventIDs one of them derived from the message), a batch with database inserts and %d directed histories; non-trivial = contains a UI "
                "operation, a deletion or a cleaner pass; distinct by content hash" % len(DIRECTED),
        "events_validated": nevents, "histories_unexamined_after_rejections": unex,
        "histories_not_judged_to_the_end": VOID[0],
        "samples": scripts[:2],
        "exhaustive": False,
    }, ["sequential histories: one call at a time (application calls, UI database operations, cleaner passes), except "
        "for two UI clients selecting concurrently; besides that only the package's own workers and the cleaner run concurrently",
        "time is played by moving Expires / the modification time of the notification, the clock itself is not touched",
        "histories are not judged after a call the model makes no statement about (Legal in spec/Notif.tla)"])


def replay(ctx, path):
    with open(path) as fh:
        doc = json.load(fh)
    script = doc["replay"]["script"]
    hists, owner, _ = execute(ctx, [script], par=1)
    if hists:
        judge(ctx, [script], hists, owner)
    for v in ctx.violations:
        v["sig"] = doc["signature"]
    vlib.finish(ctx, LEVEL, {"states": 1, "transitions": 1, "traces_validated_against_impl": len(hists),
                             "samples": [script]}, ["replay of one recorded script"])
