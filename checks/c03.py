"""C03 — secret and crown-jewel records never cross a non-privileged database interface.

spec/RecordAccess.tla       reference model of one database seen through its interfaces: `Step(st, op)` = set of allowed
                            outcomes; Permitted(r, i) = (~secret \\/ internal) /\\ (~crownjewel \\/ local); the property
                            said independently of Step (LeakRead / LeakFeed / LeakWrite).
spec/RecordAccessGen.tla    TLC: (a) breadth first over every reachable state of a small domain, the laws checked on every
                            transition; (b) exhaustive enumeration of the C03 table: record flags (4) x reader privileges
                            (4) x access path (24), every row printed as a script; (c) -simulate: random histories.
spec/RecordAccessTrace.tla  judges what the real database package did (driver harness/cmd/dbacc: every backend, cached and
                            uncached interfaces, injected runtime database, database API); names what is wrong with a
                            rejected call (leak-read, leak-feed, leak-write, result, store, feed, hooks).

The same machinery is used by checks/c14.py (subscriptions and hooks) with another generation flavour.
"""
import json

import vlib

LEVEL = "model_checking"
DRIVER = "dbacc"
ALL_FAMS = ["put", "mut", "read", "bulk", "sub", "unsub", "hook", "unhook", "push", "api", "burst"]


def tla_set(xs):
    return "{" + ", ".join('"%s"' % x if isinstance(x, str) else str(x) for x in xs) + "}"


def gen_consts(mode, flavour, maxlen=0, emit=False, keys=(1, 2, 3, 4), ns=(1, 2, 3), ifs=(1, 2, 3, 4), subs=(1, 2, 3),
               hooks=(1, 2), burst=0, qs=(1, 2, 3), fams=ALL_FAMS, phases=(1, 2, 3, 4, 5, 6), track=True):
    return {"Mode": '"%s"' % mode, "MaxLen": maxlen, "Emit": emit, "GKeys": tla_set(keys), "GNs": tla_set(ns),
            "GIfs": tla_set(ifs), "GSubs": tla_set(subs), "GHooks": tla_set(hooks), "BurstN": burst, "GQs": tla_set(qs),
            "GFams": tla_set(fams), "GPhases": tla_set(phases), "Track": track, "Flavour": '"%s"' % flavour}


# ------------------------------------------------------------------------------------------ model checking
def bfs_laws(ctx, flavour, **kw):
    """Every reachable state of a small domain; the laws are evaluated on every transition."""
    workers = kw.pop("workers", 6)
    return ctx.tlc("RecordAccessGen", cfg_text=vlib.cfg_text(
        constants=gen_consts("bfs", flavour, track=False, **kw), invariants=["LawsOK", "TotalOK"],
        constraint="Depth", view="GenView"), workers=workers, timeout=3000)


def model_check_c03(ctx):
    quick = ctx.tier == "quick"
    fams = ["put", "mut", "read", "bulk", "sub", "unsub", "push"]
    jobs = [lambda: bfs_laws(ctx, "c03", keys=(1,), ns=(1, 2), subs=(1,), hooks=(), qs=(1, 2), fams=fams, phases=())]
    if not quick:
        jobs.append(lambda: bfs_laws(ctx, "c03", keys=(1, 3), ns=(1,), subs=(1,), hooks=(), qs=(1, 2), fams=fams, phases=()))
    return ctx.pmap(lambda f: f(), jobs, par=len(jobs))


def table_scripts(ctx):
    """The C03 table, enumerated exhaustively by TLC; the laws are checked along every row."""
    r = ctx.tlc("RecordAccessGen", cfg_text=vlib.cfg_text(
        constants=gen_consts("table", "c03", emit=True), invariants=["LawsOK", "FeedsOK", "TotalOK"], view="GenView"),
        workers=4, timeout=1500)
    rows = {}
    for s in r.emitted():
        rows[tuple(s["row"])] = s
    if len(rows) != 18 * 16 + 4 * 8 + 3 * 4:
        raise vlib.Inconclusive("the C03 table has %d rows, expected %d" % (len(rows), 18 * 16 + 4 * 8 + 3 * 4))
    return [rows[k] for k in sorted(rows)], r


def sim_scripts(ctx, flavour, plan, burst=0, fams=None):
    """plan: list of (depth, num); one TLC -simulate process per entry."""
    fams = fams or [f for f in ALL_FAMS if f != "burst" or burst]

    def gen(k):
        depth, num = plan[k]
        r = ctx.tlc("RecordAccessGen", cfg_text=vlib.cfg_text(
            constants=gen_consts("sim", flavour, maxlen=depth, emit=True, burst=burst, fams=fams),
            invariants=["LawsOK", "FeedsOK"]), mode="simulate", num=num, depth=depth + 4,
            seed=ctx.seed * 131 + k + (7000 if flavour == "c14" else 0) + burst, timeout=1500, count=False)
        return r.emitted()
    scripts = []
    for part in ctx.pmap(gen, range(len(plan))):
        scripts.extend(part)
    want = sum(n for _, n in plan)
    if len(scripts) < want // 2:
        raise vlib.Inconclusive("history generation produced only %d of %d scripts" % (len(scripts), want))
    return scripts


# ------------------------------------------------------------------------------------------ configurations
def backends(ctx):
    return ["hashmap", "bbolt"] + ([] if ctx.tier == "quick" else ["fstree", "badger"])


def expand(ctx, scripts, every_backend, salt=0):
    """Concrete executions of symbolic scripts: backend, record representation (typed struct / wrapped JSON),
    shadow delete.  every_backend: run each script on all backends (the table), else rotate."""
    out = []
    bs = backends(ctx)
    for n, sc in enumerate(scripts):
        if sc["kind"] == "runtime":
            todo = ["runtime"]
        elif sc["kind"] == "store":
            todo = bs if every_backend else [bs[(n + ctx.seed + salt) % len(bs)]]
        else:
            allb = bs + ["runtime"]
            todo = allb if every_backend else [allb[(n + ctx.seed + salt) % len(allb)]]
        for j, b in enumerate(todo):
            hooks = any(st["op"] == "RegisterHook" for st in sc["steps"])
            variants = [False]
            if b != "runtime" and not hooks:
                # shadow delete keeps deleted records physically: post-get hooks would see them (not judged)
                variants = [False, True] if every_backend and b in ("hashmap", "bbolt") else [(n + j + ctx.seed) % 3 == 0]
            for sh in variants:
                d = dict(sc)
                d.update({"mode": "hist", "backend": b, "typed": (n + j + ctx.seed + int(sh)) % 2 == 0, "shadow": sh})
                out.append(d)
    return out


# ------------------------------------------------------------------------------------------ execution and verdicts
def judge(ctx, hists):
    """TLC (spec/RecordAccessTrace.tla) consumes every event; rejected calls come back as (hist, event, why)."""
    n = len(hists)
    if n == 0:
        return []
    k = max(1, min(vlib.NCPU, (sum(len(h) for h in hists) + 2499) // 2500))
    parts = [p for p in (list(range(i, n, k)) for i in range(k)) if p]
    rejected = []

    def job(idx):
        lines, owner = [], []
        for i in idx:
            for j, e in enumerate(hists[i]):
                lines.append(json.dumps(e))
                owner.append((i, j))
        r = ctx.tlc("RecordAccessTrace", cfg="RecordAccessTrace.cfg", workers=1, timeout=1500,
                    files={"trace.ndjson": "\n".join(lines) + "\n"}, want_ok=False, count=False)
        if not r.ok or r.depth != len(lines) + 1:
            tail = "\n".join(r.out.splitlines()[-30:])
            raise vlib.Inconclusive("trace validation with RecordAccessTrace did not consume the trace:\n%s" % tail)
        seen = set()
        for d in r.emitted():
            if d["line"] in seen:
                continue
            seen.add(d["line"])
            i, j = owner[d["line"] - 1]
            rejected.append((i, j, sorted(d["why"])))
    ctx.pmap(job, parts)
    return sorted(rejected)


def op_name(o):
    return "%s%s" % ("api-" if o.get("via") == "api" else "", o.get("op", "?"))


def signature(hist, ej, why):
    ev = hist[ej]
    new = hist[0]
    prev = [op_name(e["op"]) for e in hist[1:ej]][-1:]
    extra = ""
    if "hooks" in why or "panic" in why or "feed" in why:
        extra = ":after=" + ",".join(prev)
    return "%s:%s:%s:err=%s%s" % (op_name(ev["op"]), "+".join(why), new.get("backend", "?"), ev["res"].get("err"), extra)


def run_hist(ctx, scripts, chunk=None):
    """Execute scripts with the driver, judge the recorded events.  Returns statistics."""
    binp = ctx.go_build(DRIVER)
    res = vlib.drive(ctx, binp, scripts, chunk=chunk or max(8, len(scripts) // 48), timeout=180,
                     env={"TMPDIR": ctx.scratch})
    hists, owner, nevents, other = [], [], 0, 0
    for i, r in enumerate(res):
        evs = [e for e in r["events"] if e.get("e") != "try"]
        if r["crashed"]:
            tries = [e for e in r["events"] if e.get("e") == "try"]
            last = tries[-1] if tries else {}
            prev = [op_name(e["op"]) for e in evs if e.get("e") == "op"][-1:]
            ctx.violation("crash:%s:%s:after=%s" % (op_name(last.get("op", {})), scripts[i].get("backend"), ",".join(prev)),
                          "the driver process died while executing %s: %s" % (json.dumps(last.get("op")), r["crashed"][:700]),
                          {"script": scripts[i], "died_in": last})
            continue
        if not evs or evs[0].get("e") != "new":
            raise vlib.Inconclusive("the driver recorded no history for script %d: %s" % (i, json.dumps(evs[:1])[:300]))
        for e in evs:
            e.pop("h", None)
        hists.append(evs)
        owner.append(i)
        nevents += len(evs)
        other += sum(1 for e in evs if e.get("e") == "op" and e["res"]["err"] == "other")
    nops = sum(len(h) - 1 for h in hists)
    if nops and other * 4 > nops:
        raise vlib.Inconclusive("%d of %d calls failed with an error outside the model: the driver or its setup is broken" % (other, nops))
    rejected = judge(ctx, hists)
    for hi, ej, why in rejected:
        ev = hists[hi][ej]
        ctx.violation(signature(hists[hi], ej, why),
                      "history %d (%s, row %s), call %d: %s is not allowed by spec/RecordAccess.tla (%s); call %s, result %s, "
                      "feeds %s, hook calls %s, records afterwards %s" % (
                          owner[hi], hists[hi][0].get("backend"), "/".join(hists[hi][0].get("row") or []) or "-", ej,
                          op_name(ev["op"]), ", ".join(why), json.dumps(ev["op"]), json.dumps(ev["res"]),
                          json.dumps(ev["feeds"])[:600], json.dumps(ev["calls"]), json.dumps(ev["store"])),
                      {"script": scripts[owner[hi]], "observed": hists[hi][:ej + 1], "why": why})
    bad = {hi for hi, _, _ in rejected}
    return {"accepted": len(hists) - len(bad), "run": len(hists), "events": nevents, "calls": nops, "other_errors": other}


def nontrivial_c03(s):
    """A history is non-trivial for C03 if a flagged record is written and an interface without full privileges calls."""
    flagged = any((st.get("sec") or st.get("crown")) and st["op"] in ("Put", "PutNew", "Push", "Burst") or
                  st["op"] in ("MakeSecret", "MakeCrownJewel") or
                  any(b["sec"] or b["crown"] for b in st.get("batch") or []) for st in s["steps"])
    lowpriv = any(st.get("via") == "api" or (st.get("via") == "if" and st.get("i") in (1, 2, 3)) for st in s["steps"])
    return flagged and lowpriv


def run(ctx):
    quick = ctx.tier == "quick"
    ctx.go_build(DRIVER)

    def part_mc(c):
        return model_check_c03(c)

    def part_table(c):
        rows, r = table_scripts(c)
        scripts = expand(c, rows, every_backend=True)
        return rows, scripts, run_hist(c, scripts)

    def part_sim(c):
        plan = [(10, 40)] * 4 + [(16, 30)] * 4 if quick else [(10, 300)] * 6 + [(16, 250)] * 6 + [(24, 150)] * 4
        sc = sim_scripts(c, "c03", plan, fams=[f for f in ALL_FAMS if f not in ("burst", "hook", "unhook")])   # hooks: C14
        scripts = expand(c, sc, every_backend=False)
        return sc, scripts, run_hist(c, scripts)
    mc, (rows, tscripts, tstat), (sims, sscripts, sstat) = ctx.pmap(lambda f: f(ctx), [part_mc, part_table, part_sim], par=3)
    allscripts = tscripts + sscripts
    distinct = len({vlib.sha({k: s[k] for k in ("steps", "backend", "typed", "shadow", "cachei", "queries")})
                    for s in allscripts if nontrivial_c03(s)})
    vlib.finish(ctx, LEVEL, {
        "traces_validated_against_impl": tstat["accepted"] + sstat["accepted"],
        "evaluations": len(allscripts), "distinct_nontrivial": distinct,
        "rule": "table: every row of flags (4) x reader privileges (4) x access path (18 interface paths, 8 database-API paths "
                "for the API's fixed privileges), enumerated by TLC from spec/RecordAccessGen.tla (Mode table) and executed on "
                "every backend of the tier (+ injected runtime database), shadow delete on/off, typed and wrapped records; "
                "histories: TLC -simulate (Mode sim, flavour c03), one backend each.  non-trivial = a secret or crown-jewel "
                "record is written and an interface without full privileges (or the API) calls; distinct by content hash of "
                "steps + configuration",
        "table_rows": len(rows), "table_executions": tstat["run"], "table_accepted": tstat["accepted"],
        "histories": len(sims), "history_executions": sstat["run"], "history_accepted": sstat["accepted"],
        "calls_judged": tstat["calls"] + sstat["calls"], "calls_failing_outside_model": tstat["other_errors"] + sstat["other_errors"],
        "backends": backends(ctx) + ["runtime"],
        "samples": [rows[37], tscripts[5], sscripts[0]],
        "exhaustive": False,
        "exhaustive_note": "exhaustive: the C03 table (320 rows) and the reachable states of the breadth-first domains; sampled: histories",
    }, ["spec/RecordAccess.tla is the oracle; every call may fail with an error of class 'other' if it changes nothing "
        "(optional capabilities: Purge, PutMany, Delete on injected databases); the share of such calls is reported",
        "a cached interface is used exclusively (documented caveat of Options.CacheSize): nobody else writes what it has "
        "touched, it does not delete; cache coherence itself belongs to C02",
        "fstree: which keys a prefix query returns is not judged here (C02), only that every returned record is permitted and matches",
        "API subscription replies are produced by another goroutine: judged as a subsequence of the permitted matching "
        "writes (hashmap hands out live record objects: keys only); the protocol itself belongs to C13",
        "side channels (timing, error texts) are not judged"])


def replay(ctx, path):
    with open(path) as fh:
        doc = json.load(fh)
    script = doc["replay"]["script"]
    st = run_hist(ctx, [script], chunk=1)
    vlib.finish(ctx, LEVEL, {"states": 1, "transitions": 1, "traces_validated_against_impl": st["accepted"],
                             "samples": [script]}, ["replay of one recorded script"])
