"""C01 — modules start after their dependencies, stop before them, and all get stopped.

Lifecycle.tla: the manager loops as implemented (all DAGs, every completion order, failure placement,
Enable/Disable + ManageModules) checked exhaustively by TLC.  LifecycleGen: its behaviours projected to
scheduling scripts.  harness/cmd/life: gate driver on the real module manager, one process per script.
LifecycleTrace/LifecycleAbs: TLC validates what the code did against the property-level state machine.
"""
import json
import random
import vlib

LEVEL = "model_checking"
INV = ["PrepOnce", "NoStartBeforeAllPrepped", "AfterOK", "AfterShutdown"]
PROPS = ["StartOrder", "StopOrder", "PrepOrder"]


def consts(n, mgmt, fails, ops):
    return {"N": n, "Mgmt": mgmt, "MaxFail": fails, "MaxOps": ops, "Fixed": True}


def gen_scripts(ctx, quick):
    cfgs = []
    for n in (2, 3, 4) if quick else (2, 3, 4, 5):
        for mgmt in (False, True):
            for fails in (0, 1, 2):
                cfgs.append((n, mgmt, fails, 3 if mgmt else 0))
    per = 50 if quick else 400

    def one(a):
        k, (n, mgmt, fails, ops) = a
        cc = consts(n, mgmt, fails, ops)
        cc["Slow"] = "{%d}" % n if k % 3 == 1 else "{}"     # every third configuration: the last module is the slowest
        cc["Target"] = '"none"'
        r = ctx.tlc("LifecycleGen", cfg_text=vlib.cfg_text(spec="GenSpec", constants=cc),
                    mode="simulate", num=per, depth=120, seed=ctx.seed * 131 + k, timeout=900, count=False)
        return r.emitted()
    scripts = []
    for part in ctx.pmap(one, list(enumerate(cfgs))):
        scripts.extend(part)
    # directed scripts: behaviours that reach "two start routines failed while a third is still running"; the script
    # then asks for Shutdown at once (taken only if Start has really returned) and lets the slow routine finish
    def directed(k):
        n = 3 + k % 2
        cc = consts(n, False, 2, 0)
        cc["Slow"] = "{%d}" % n
        cc["Target"] = '"twofails"'
        r = ctx.tlc("LifecycleGen", cfg_text=vlib.cfg_text(spec="GenSpec", constants=cc), mode="simulate", num=40 if quick else 200,
                    depth=120, seed=ctx.seed * 17 + k, timeout=900, count=False)
        out = []
        for g in r.emitted():
            g["steps"] = g["steps"] + [{"op": "shutdown", "m": 0, "ok": True}] + \
                [{"op": "finish", "m": m, "ok": True} for m in range(1, g["n"] + 1)] * 2
            g["directed"] = "twofails"
            out.append(g)
        return out
    for part in ctx.pmap(directed, range(2)):
        scripts.extend(part[:20 if quick else 150])
    # directed: a start routine that outlasts the (shortened) start timeout - Start fails, Shutdown must still stop
    # every module that did start, and the routine returns (with an error) only afterwards
    F = lambda m, ok=True: {"op": "finish", "m": m, "ok": ok}
    for deps, hung, order in [([[], [1]], 2, [1, 2]), ([[], [1], [1]], 3, [1, 2, 3]), ([[], [], [1, 2]], 3, [1, 2, 3]),
                              ([[], [1], [2]], 3, [1, 2, 3])]:
        n = len(deps)
        steps = [{"op": "start", "m": 0, "ok": True}] + [F(m) for m in order] + [F(m) for m in order if m != hung] + \
                [{"op": "expire", "m": hung, "ok": True}, {"op": "shutdown", "m": 0, "ok": True}] + \
                [F(m) for m in reversed(order) if m != hung] * 2 + [F(hung, False)]
        scripts.append({"n": n, "mgmt": False, "deps": deps, "enabled": [False] * n, "startTimeoutMs": 300, "steps": steps,
                        "directed": "starttimeout"})
    # directed: a chain that is only running as a dependency of one enabled module is dropped as a whole when that
    # module is disabled (every marker of the previous pass is stale), while an independent module is switched on
    T = lambda m, on: {"op": "toggle", "m": m, "ok": on}
    for deps in ([[], [1], [2]], [[], [1], [2], []], [[], [1], [2], [3]]):
        n = len(deps)
        top = 3 if n < 4 or deps[3] == [] else 4
        chain = list(range(1, top + 1))
        en = [m == top for m in range(1, n + 1)]
        steps = [{"op": "start", "m": 0, "ok": True}] + [F(m) for m in range(1, n + 1)] + [F(m) for m in chain] + [T(top, False)]
        if n == 4 and deps[3] == []:
            steps.append(T(4, True))
        steps += [{"op": "manage", "m": 0, "ok": True}] + [F(m) for m in reversed(chain)] * 2 + [F(4)] * (1 if n == 4 else 0) + \
                 [{"op": "manage", "m": 0, "ok": True}, {"op": "shutdown", "m": 0, "ok": True}] + [F(m) for m in range(n, 0, -1)] * 2
        scripts.append({"n": n, "mgmt": True, "deps": deps, "enabled": en, "steps": steps, "directed": "chaindrop"})
    # directed: a management pass in which the start of a wanted module fails is followed by another pass without any
    # change of the enabled set: the second pass has to try again (and may only return nil with the module online)
    A = lambda op: {"op": op, "m": 0, "ok": True}
    for deps in ([[], [1]], [[], []], [[], [1], [2]]):
        n = len(deps)
        steps = [A("start")] + [F(m) for m in range(1, n + 1)] + [F(m) for m in range(1, n)] + [T(n, True), A("manage"), F(n, False),
                 A("manage"), F(n), A("manage"), A("shutdown")] + [F(m) for m in range(n, 0, -1)] * 2
        scripts.append({"n": n, "mgmt": True, "deps": deps, "enabled": [m < n for m in range(1, n + 1)], "steps": steps,
                        "directed": "remanage"})
    # directed: a module is stopped and started again by module management, then stopped a second time together with the
    # module it depends on: the second stop has to wait for its stop routine like the first did
    for deps in ([[], [1]], [[], [1], [2]]):
        n = len(deps)
        steps = [A("start")] + [F(m) for m in range(1, n + 1)] * 2 + [T(n, False), A("manage"), F(n), T(n, True), A("manage"), F(n)]
        for last in ("shutdown", "manage"):
            tail = ([A("shutdown")] if last == "shutdown" else [T(m, False) for m in range(1, n + 1)] + [A("manage")]) + \
                   [F(n - 1), F(n)] + [F(m) for m in range(n - 1, 0, -1)] * 2
            scripts.append({"n": n, "mgmt": True, "deps": deps, "enabled": [True] * n, "steps": steps + tail, "directed": "restop"})
    # directed: the goroutine that ran a module's start routine is slow to signal the end of that routine - it does so only when
    # the stop routine of the module has begun; the modules the module depends on must still wait for that stop routine to return
    for deps, late in (([[], [1]], 2), ([[], [1], [], [2]], 4), ([[], [1], [2]], 3)):
        n = len(deps)
        order = list(range(1, n + 1))
        steps = [A("start")] + [F(m) for m in order] * 2 + [A("shutdown")] + [F(m) for m in reversed(order) if m != late] + \
                [F(late)] + [F(m) for m in reversed(order)] * 2
        scripts.append({"n": n, "mgmt": False, "deps": deps, "enabled": [False] * n, "steps": steps, "lateCtrl": late,
                        "directed": "latectrl"})
    rnd = random.Random(ctx.seed)
    for i, s in enumerate(scripts):
        s["eager"] = (i % 2 == 0 or bool(s.get("directed"))) and s.get("directed") not in ("starttimeout", "chaindrop", "remanage", "restop", "latectrl")   # an adversarial environment: the next API call follows a return at once
        for st in s["steps"]:
            if st["op"] == "finish" and not st["ok"]:
                st["how"] = rnd.choice(["error", "panic", "canceled"])
    return scripts


def sig_of(hist, ej):
    ev = hist[ej]
    reg = hist[0]
    fails = [e for e in hist[:ej + 1] if e.get("e") == "end" and not e.get("ok")]
    f = ",".join(sorted({"%s-fail" % e["cb"] for e in fails})) or "nofail"
    what = ev.get("e")
    if what in ("begin", "end"):
        what += ":" + ev.get("cb", "?")
    elif what in ("call", "ret"):
        what += ":" + ev.get("op", "?") + (":ok" if ev.get("ok") else ":err" if what == "ret" else "")
    return "%s:%s:mgmt=%s" % (what, f, str(reg.get("mgmt")).lower())


def execute(ctx, scripts):
    binp = ctx.go_build("life")
    res = vlib.drive(ctx, binp, scripts, chunk=1, timeout=120)
    hists, owner = [], []
    for i, r in enumerate(res):
        evs = r["events"]
        if r["crashed"]:
            ctx.violation("crash", "driver process died: %s" % r["crashed"][:600], {"script": scripts[i], "observed": evs})
            continue
        for e in evs:
            e.pop("h", None)
            e.pop("seq", None)
        hists.append(evs)
        owner.append(i)
    return hists, owner


def judge(ctx, scripts, hists, owner):
    ok, rej, unex = vlib.validate(ctx, "LifecycleTrace", "LifecycleTrace.cfg", hists)
    for hi, ej, ev in rej:
        ctx.violation(sig_of(hists[hi], ej),
                      "event %d rejected by LifecycleAbs: %s\ntrace so far: %s" % (
                          ej, json.dumps(ev), json.dumps(hists[hi][:ej + 1])[:1500]),
                      {"script": scripts[owner[hi]], "observed": hists[hi]})
    return ok, unex


def run(ctx):
    quick = ctx.tier == "quick"
    runs = [consts(3, False, 2, 0), consts(3, True, 1, 3)] if quick else \
           [consts(3, False, 2, 0), consts(3, True, 2, 3), consts(4, False, 2, 0), consts(4, True, 1, 2)]
    for c in runs:
        ctx.tlc("Lifecycle", cfg_text=vlib.cfg_text(constants=c, invariants=INV, properties=PROPS), timeout=2400)
    scripts = gen_scripts(ctx, quick)
    if len(scripts) < 100:
        raise vlib.Inconclusive("only %d scripts generated" % len(scripts))
    hists, owner = execute(ctx, scripts)
    ok, unex = judge(ctx, scripts, hists, owner)
    nontriv = len({vlib.sha(s) for s in scripts if any(st["op"] == "finish" and not st["ok"] for st in s["steps"])
                   or any(st["op"] in ("toggle", "manage") for st in s["steps"])})
    vlib.finish(ctx, LEVEL, {
        "traces_validated_against_impl": ok,
        "evaluations": len(scripts), "distinct_nontrivial": nontriv,
        "rule": "scripts = behaviours of spec/Lifecycle.tla (TLC -simulate) projected to API calls and callback completions; "
                "non-trivial = contains a failing/panicking callback or an Enable/Disable/ManageModules step; distinct by hash",
        "histories_unexamined_after_rejections": unex,
        "samples": scripts[:2] + [hists[0]] if hists else scripts[:2],
        "exhaustive": False,
    }, ["callbacks return when the script releases them (well within the 2 min / 1 min module timeouts)",
        "Enable/Disable are issued while no manager call is running",
        "driver harness/cmd/life, one process per script; TLC model bounds: all DAGs on 3 (thorough: 4) modules"])


def replay(ctx, path):
    with open(path) as fh:
        doc = json.load(fh)
    scripts = [doc["replay"]["script"]]
    hists, owner = execute(ctx, scripts)
    judge(ctx, scripts, hists, owner)
    vlib.finish(ctx, LEVEL, {"states": 1, "transitions": 1, "traces_validated_against_impl": len(hists),
                             "samples": scripts}, ["replay of one script"])
