"""X11 (extension) — package metrics: registration, labeled ids, export by permission / expertise level, counters,
persistence across process lives.

spec/Metrics.tla is the reference semantics (`Step`: namespace and global labels, registry, values, the persistence
switch and the stored values of the data directory; the statement M1..M7 is at its top; strings are sequences of
ASCII codes so that the format check, quoting and the order of the export are those of the real strings),
MetricsGen checks the laws of that model breadth-first and generates operation histories (SetNamespace,
AddGlobalLabel, module start with an instance name, New<Kind> with ids / labels / options from a universe with
malformed members, concurrent increments, WriteMetrics / ExportMetrics / ExportValues / the /metrics handler with
different permissions and levels, EnableMetricPersistence, module stop, process restarts on the same data directory
with the same metrics declared again), harness/cmd/metricsx runs them against the real package (one child process
per process life), MetricsTrace decides every recorded step.
"""
import json
import os
import random
import vlib

LEVEL = "model_checking"
DRIVER = "metricsx"
HTTP = True


def txt(a):
    return "".join(chr(c) for c in a)


def step_class(hist, ej):
    """Stable description of the failing step: operation, situation, observed result class."""
    ev = hist[ej]
    o, r = ev.get("op", {}), ev.get("res", {})
    name = o.get("op", "?")
    started = enabled = early = False
    lives = 1
    for e in hist[:ej]:
        p, q = e.get("op", {}), e.get("res", {})
        if p.get("op") == "proc":
            started = enabled = early = False
            lives += 1
        elif p.get("op") == "start" and q.get("err") == "ok":
            started = True
        elif p.get("op") == "enable":
            enabled = True
        elif p.get("op") == "new" and q.get("err") == "early":
            early = True
    where = ("started" if started else "before-start") + (":persistence-on" if enabled else "") + \
        (":life>1" if lives > 1 else "")
    err = r.get("err", "?")
    if err.startswith("error:"):
        err = "error"
    if err in ("panic", "crash"):
        return "%s:%s:%s" % (err, name, "before-start" if not started else "started")
    if name == "new":
        return "new:%s:%s:err=%s" % (o.get("kind"), where, err)
    if name in ("write", "list", "values", "http"):
        return "%s:%s%s:err=%s" % (name, where, ":after-refused-early-registration" if early else "", err)
    if name == "inc":
        return "inc:%s:goroutines=%s:err=%s" % (where, "1" if o.get("g") == 1 else "n", err)
    return "%s:%s:err=%s" % (name, where, err)


def describe(ev):
    o, r = ev.get("op", {}), ev.get("res", {})
    d = {"op": o.get("op"), "kind": o.get("kind"), "id": txt(o.get("id", [])),
         "labels": {txt(x["n"]): txt(x["v"]) for x in o.get("labels", [])}, "perm": o.get("perm"),
         "level": o.get("level"), "persist": o.get("persist"), "iid": txt(o.get("iid", [])), "h": o.get("h"),
         "n": o.get("n"), "g": o.get("g"), "key": o.get("key"), "flag": o.get("flag"),
         "answer": {"err": r.get("err"), "lid": txt(r.get("lid", [])), "v": r.get("v"),
                    "lines": [[txt(x["lid"]), x["v"]] for x in r.get("lines", [])],
                    "note": r.get("note"), "panic": r.get("panic")}}
    return json.dumps(d)


PLANS = [(16, 2), (24, 3), (32, 3), (40, 4)]   # (MaxLen, MaxLives)


def generate(ctx, nsim):
    per = max(1, nsim // len(PLANS))

    def gen(k):
        ln, lives = PLANS[k]
        r = ctx.tlc("MetricsGen", cfg_text=vlib.cfg_text(
            constants={"MaxLen": ln, "MaxLives": lives, "Small": False, "Http": HTTP, "Emit": True}),
            mode="simulate", num=per, depth=ln + 3, seed=ctx.seed * 17 + k, timeout=1500, count=False)
        return r.emitted()
    scripts = []
    for part in ctx.pmap(gen, range(len(PLANS))):
        scripts.extend(part)
    return scripts


def execute(ctx, scripts):
    binp = ctx.go_build(DRIVER)
    res = vlib.drive(ctx, binp, scripts, chunk=max(4, len(scripts) // 64), timeout=900,
                     env={"METRICSX_HTTP": "1" if HTTP else "0"})
    hists, owner, infra = [], [], 0
    for i, r in enumerate(res):
        evs = r["events"]
        if r["crashed"]:
            raise vlib.Inconclusive("the driver (parent process) died: %s" % r["crashed"][:600])
        if any(e.get("e") == "setup-failed" for e in evs) or any(e.get("res", {}).get("err") == "infra" for e in evs):
            infra += 1       # no loopback port, no temporary directory ...: says nothing about the package
            continue
        hists.append([{k: v for k, v in e.items() if k != "h"} for e in evs])
        owner.append(i)
    if infra > max(3, len(scripts) // 20):
        raise vlib.Inconclusive("%d of %d histories could not be set up" % (infra, len(scripts)))
    return hists, owner, infra


def judge(ctx, scripts, hists, owner, sig_override=None):
    ok, rej, unex = vlib.validate(ctx, "MetricsTrace", "MetricsTrace.cfg", hists,
                                  max_reject=8 if ctx.tier == "quick" else 40)
    for hi, ej, ev in rej:
        sig = sig_override or step_class(hists[hi], ej)
        ctx.violation(sig, "history %d step %d: what package metrics did is not an outcome the model allows: %s" % (
            owner[hi], ej, describe(ev)[:1500]), {"script": scripts[owner[hi]], "observed": hists[hi][:ej + 1]})
    return ok, unex


def nontrivial(s):
    """the module is started, a metric is registered and exported or counted"""
    ops = [o["op"] for o in s["steps"]]
    return "start" in ops and "new" in ops and any(x in ops for x in ("write", "list", "values", "http", "inc"))


def run(ctx):
    quick = ctx.tier == "quick"

    # 1. laws of the reference semantics on every reachable state of a small universe; beside the pipeline
    def laws():
        return [ctx.tlc("MetricsGen", cfg_text=vlib.cfg_text(
            constants={"MaxLen": 6 if quick else 8, "MaxLives": 2, "Small": True, "Http": False, "Emit": False},
            invariants=["Laws"], properties=["Monotone", "DiskOK"], view="View"),
            workers=max(2, vlib.NCPU // 4), timeout=3000)]
    from concurrent.futures import ThreadPoolExecutor
    pool = ThreadPoolExecutor(max_workers=1)
    laws_future = pool.submit(laws)
    # 2. histories from the specification
    nsim = 1200 if quick else 16000
    scripts = generate(ctx, nsim)
    if len(scripts) < nsim // 2:
        raise vlib.Inconclusive("history generation produced only %d scripts" % len(scripts))
    random.Random(ctx.seed).shuffle(scripts)
    # 3. run them against the real package, 4. let TLC judge what was recorded
    ok = unex = nevents = nprocs = infra = 0
    ops = {}
    batch = 4000
    for b0 in range(0, len(scripts), batch):
        part = scripts[b0:b0 + batch]
        hists, owner, inf = execute(ctx, part)
        infra += inf
        k, u = judge(ctx, part, hists, owner)
        ok += k
        unex += u
        for h in hists:
            nevents += len(h)
            nprocs += 1
            for e in h:
                if e.get("e") == "op":
                    name = e["op"]["op"]
                    if name == "proc":
                        nprocs += 1
                    err = e["res"]["err"]
                    key = "%s:%s" % (name, "error" if err.startswith("error:") else err)
                    ops[key] = ops.get(key, 0) + 1
        del hists
        if len(ctx.violations) >= 12:
            unex += len(scripts) - b0 - len(part)
            break
    mcs = laws_future.result()
    pool.shutdown()
    distinct = len({vlib.sha(s) for s in scripts if nontrivial(s)})
    vlib.finish(ctx, LEVEL, {
        "states": sum(m.distinct for m in mcs), "transitions": sum(m.generated for m in mcs),
        "traces_validated_against_impl": ok,
        "evaluations": len(scripts), "distinct_nontrivial": distinct,
        "rule": "operation histories generated by TLC -simulate from spec/MetricsGen.tla (16 to 40 operations over 1 to 4 "
                "process lives on one data directory; ids, label names, namespaces and instance names from a universe "
                "with malformed members; metrics of an earlier life declared again); non-trivial = the module is "
                "started, a metric is registered and then exported or counted; distinct by content hash",
        "events_validated": nevents, "process_lifetimes": nprocs, "histories_unexamined_after_rejections": unex,
        "histories_dropped_for_infrastructure": infra,
        "operations_by_outcome": dict(sorted(ops.items())),
        "samples": scripts[:2],
        "exhaustive": False,
    }, ["trace validation judges per step: the result class of the call, the labeled id of a registered metric, the value "
        "read back (the initial value of a metric, a counter after concurrent increments), and for every export the "
        "complete list of (labeled id or key, value) in the order written, without the metrics the module registers itself "
        "(info, runtime, host, logs: recognised by name and left out by the driver)",
        "every process life is a child process of the driver with the real module system (config, database, api, metrics "
        "started through modules.Start; database 'core' on an fstree storage in the data directory of the history); a life "
        "ends by a module stop followed by the end of the process, or by the end of the process alone",
        "the /metrics handler is reached over a loopback socket with an authenticator that grants the permission named in "
        "a request header; the push loop (one-minute ticker) and histograms with observations are not exercised",
        "values are small integers (gauge and fetching-counter functions return integers)"])


def replay(ctx, path):
    with open(path) as fh:
        data = json.load(fh)
    sc = data["replay"]["script"]
    hists, owner, infra = execute(ctx, [sc])
    if not hists:
        raise vlib.Inconclusive("the history could not be set up")
    judge(ctx, [sc], hists, owner, sig_override=data.get("signature"))
    vlib.finish(ctx, LEVEL, {"traces_validated_against_impl": 1 - len(ctx.violations), "samples": [sc]}, ["replay of one history"])
