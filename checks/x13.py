"""X13 (extension) — the websocket client of the database API (api/client).

spec/ApiClient.tla (statement S1-S8 and reference model: operation table, connection state, what may be
observed after every step), ApiClientGen (script generation + TLC check of the laws of the model),
ApiClientImpl (implementation-shaped model of reader / dispatcher / connector / Cancel: TLC checks that
every interleaving stays inside what ApiClient.tla allows), ApiClientTrace (validation of what the real
client did).  harness/cmd/apicl plays the scripts: a fake websocket API server per script, driven by the
script (frames for open operations, unknown ids, malformed frames, connection losses, refused reconnects).
"""
import json
import vlib

LEVEL = "model_checking"
DRIVER = "apicl"


def step_sig(ev):
    o = ev.get("op", {})
    s = o.get("op", "?")
    if s == "start":
        s += ":" + o.get("kind", "?")
    elif s == "srv":
        p = o.get("parts") or []
        to = o.get("to", 0)
        s += ":%s/%d:%s" % (p[0] if p else "-", len(p), "op" if to > 0 else ("unknown" if to == 0 else "noid"))
    elif s == "flood":
        s += ":" + o.get("how", "?")
    elif s == "many":
        s += ":%d" % (o.get("g", 0) * o.get("m", 0))
    return s


def context_sig(steps_before, step=None):
    """connection state; for a reconnect also what is special about the open operations (stable signatures)"""
    conn, flags = context(steps_before)
    if step in ("await",):
        flags = flags & {"big", "norequest+resus"}
        return conn + ("+" + "+".join(sorted(flags)) if flags else "")
    return conn


def context(steps_before):
    """coarse state the failing step ran in: connection state and what kinds of operations were open"""
    conn = "online"
    flags = set()
    for e in steps_before:
        o = e.get("op", {})
        k = o.get("op")
        if k in ("drop",) or (k == "flood" and o.get("how") == "drop"):
            conn = "offline"
        elif k == "await":
            conn = "online"
        elif k == "shutdown":
            conn = "down"
        if k == "start" and o.get("kind") == "none":
            flags.add("norequest" + ("+resus" if o.get("resus") else ""))
        if k in ("start", "many") and o.get("resus"):
            flags.add("resus")
        if k == "many" and o.get("g", 0) * o.get("m", 0) > 100:
            flags.add("big")
        if k in ("cancel",) or (k == "flood" and o.get("how") == "cancel"):
            flags.add("cancelled")
    return conn, flags


def gen_scripts(ctx, n, maxlen, maxdrops, big, k):
    r = ctx.tlc("ApiClientGen", cfg_text=vlib.cfg_text(
        spec="Spec", constants={"MaxLen": maxlen, "MaxDrops": maxdrops, "MaxOps": 180, "Big": big, "Emit": True}),
        mode="simulate", num=n, depth=maxlen + 2, seed=ctx.seed * 11 + k, timeout=900, count=False)
    return r.emitted()


def judge(ctx, scripts, res):
    hists, owner, nevents = [], [], 0
    for i, r in enumerate(res):
        evs = [e for e in r["events"] if e.get("e") != "try"]
        if r["crashed"]:
            tries = [e for e in r["events"] if e.get("e") == "try"]
            last = tries[-1] if tries else {}
            k = last.get("k", 0)
            st = scripts[i]["steps"][k - 1] if 1 <= k <= len(scripts[i]["steps"]) else {"op": "connect"}
            ctx.violation("crash:%s:%s" % (step_sig({"op": st}), context_sig(evs[1:], st.get("op"))),
                          "the process died while executing step %d %s: %s" % (k, json.dumps(st), r["crashed"][:900]),
                          {"script": scripts[i], "died_in": last})
            continue
        hists.append(evs)
        owner.append(i)
        nevents += len(evs)
    ok, rej, unex = vlib.validate(ctx, "ApiClientTrace", "ApiClientTrace.cfg", hists, timeout=1200)
    for hi, ej, ev in rej:
        b = ev.get("obs", {})
        kind = "panic" if b.get("panic") else ("blocked" if b.get("returned") is False or b.get("sync") == "timeout" else "mismatch")
        slim = dict(ev)
        if len(json.dumps(ev)) > 3000:
            slim = {"op": ev.get("op"), "obs": {k: v for k, v in b.items() if k not in ("got", "wire", "ids")},
                    "got_nonempty": {str(i + 1): g for i, g in enumerate(b.get("got", [])) if g},
                    "wire_len": len(b.get("wire", []))}
        ctx.violation("%s:%s:%s" % (kind, step_sig(ev), context_sig(hists[hi][1:ej], ev.get("op", {}).get("op"))),
                      "script %d step %d: what the client did is not allowed by spec/ApiClient.tla: %s" % (
                          owner[hi], ej, json.dumps(slim)[:1500]),
                      {"script": scripts[owner[hi]], "observed_step": slim})
    return ok, unex, nevents


def run(ctx):
    quick = ctx.tier == "quick"
    # 1. laws of the reference model on every reachable state (exhaustive, bounded depth)
    mc = ctx.tlc("ApiClientGen", cfg_text=vlib.cfg_text(
        spec="Spec", constants={"MaxLen": 2 if quick else 3, "MaxDrops": 1, "MaxOps": 12, "Big": 8, "Emit": False},
        invariants=["Laws", "Total"], view="View"), timeout=1500)
    # 2. every interleaving of the implementation-shaped model stays inside the reference model
    impl = ctx.tlc("ApiClientImpl", cfg_text=vlib.cfg_text(
        spec="Spec", constants={"NFrames": 3 if quick else 4, "Guarded": True},
        invariants=["TypeOK", "Refines", "NoCrash"]), timeout=1500)
    # ... and the model is not vacuous: without the guard between dispatcher and Cancel TLC finds the panic
    fault = ctx.tlc("ApiClientImpl", cfg_text=vlib.cfg_text(
        spec="Spec", constants={"NFrames": 2, "Guarded": False},
        invariants=["NoCrash"]), timeout=600, want_ok=False, count=False)
    if fault.violated != "NoCrash":
        raise vlib.Inconclusive("the fault variant of ApiClientImpl did not produce the expected counterexample")
    # 3. scripts from the specification
    nsim = 560 if quick else 6000
    plan = [(10, 1, 120), (14, 2, 120), (8, 1, 16), (12, 1, 16)]
    per = nsim // len(plan)

    def gen(k):
        ml, md, big = plan[k]
        return gen_scripts(ctx, per, ml, md, big, k)
    scripts = []
    for part in ctx.pmap(gen, range(len(plan))):
        scripts.extend(part)
    if len(scripts) < nsim // 2:
        raise vlib.Inconclusive("script generation produced only %d scripts" % len(scripts))
    # 4. play them against the real client (the drivers mostly wait for the client's back-off: many at once)
    binp = ctx.go_build(DRIVER)
    res = vlib.drive(ctx, binp, scripts, chunk=max(4, len(scripts) // 96), timeout=600, par=3 * vlib.NCPU)
    ok, unex, nevents = judge(ctx, scripts, res)
    nontrivial = len({vlib.sha(s) for s in scripts if any(
        st["op"] in ("drop", "flood", "storm", "many") for st in s["steps"])})
    vlib.finish(ctx, LEVEL, {
        "states": mc.distinct + impl.distinct, "transitions": mc.generated + impl.generated,
        "traces_validated_against_impl": ok,
        "evaluations": len(scripts), "distinct_nontrivial": nontrivial,
        "rule": "scripts generated by TLC -simulate from spec/ApiClientGen.tla (8-14 steps, up to 2 connection losses); "
                "non-trivial = contains a connection loss, a flood, a cancel storm or concurrent starts; distinct by content hash",
        "events_validated": nevents, "histories_unexamined_after_rejections": unex,
        "samples": [{"steps": [{k: v for k, v in st.items() if v not in ("", 0, False, [])} for st in s["steps"]]}
                    for s in scripts[:2]],
        "exhaustive": False,
    }, ["the server is a scripted fake websocket endpoint inside the driver (gorilla/websocket, loopback TCP)",
        "steps are separated by a barrier through the client's own send and receive queues, except inside "
        "flood/storm/many steps, where the model only demands what holds for every interleaving",
        "time bounds: reconnect not before the back-off of 1s (exact lower bound), within 10s after the server "
        "accepts again (10x margin)",
        "the race between Cancel and the dispatcher is driven free-running (storm/flood steps), not by yield points"])


def replay(ctx, path):
    with open(path) as fh:
        doc = json.load(fh)
    script = doc["replay"]["script"]
    binp = ctx.go_build(DRIVER)
    n = 0
    # steps with a free-running race are repeated a few times
    racy = any(st["op"] in ("storm", "flood") for st in script["steps"])
    scripts = [script] * (12 if racy else 1)
    res = vlib.drive(ctx, binp, scripts, chunk=1, timeout=600)
    before = len(ctx.violations)
    judge(ctx, scripts, res)
    if len(ctx.violations) > before:
        descs = [v["desc"] for v in ctx.violations[before:]]
        del ctx.violations[before:]
        ctx.violation(doc["signature"], "replay: " + descs[0][:1500], doc["replay"])
        n = 1
    vlib.finish(ctx, LEVEL, {"states": 1, "transitions": 1, "traces_validated_against_impl": len(scripts) - n,
                             "samples": [script]}, ["replay of one recorded script"])
