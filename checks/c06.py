"""C06 — a panic in managed code is contained, reported and leaves accounting intact.

Uses the same models and drivers as C05 (StopProtocol/StopAbs, harness/cmd/stopwork) and C01
(Lifecycle/LifecycleAbs, harness/cmd/life) with panicking outcomes:
 * every kind of managed work item x panic value class (nil, error, string, runtime error, struct) x position
   among healthy concurrent items, scheduled by StopProtocol behaviours in which the stop follows the work;
   StopAbs demands: process alive (exit status), panic error returned by the blocking variants with value and
   stack, a panic report on the error channel, counters back to zero, failed service workers restarted and
   the panicked task runnable again, module stops promptly;
 * panicking prep/start/stop routines: LifecycleAbs demands an error from Start/ManageModules/Shutdown and the
   C01 ordering/accounting rules;
 * panicking HTTP API handlers (harness/cmd/apipanic): HTTP 500, server alive.
"""
import json
import random
import vlib
from checks import c05, c01, c12

LEVEL = "model_checking"
PANICS = ["panic_nil", "panic_err", "panic_str", "panic_rt", "panic_struct",
          # an error value wrapping context.Canceled; a value of an uncomparable type; the same item panicking twice in a row
          "panic_cancel", "panic_slice", "panic_twice",
          # an error value whose Error method panics (nil pointer receiver): added after seeded change C06-AA
          "panic_nilerr"]


def run(ctx):
    quick = ctx.tier == "quick"
    # models (exhaustive): stop protocol with the stop after the work, lifecycle with failing callbacks
    for n, kinds, fn in [(2, ("worker", "task"), True), (3, ("worker", "task", "micro"), False)]:
        ctx.tlc("StopProtocol", cfg_text=vlib.cfg_text(constants=c05.consts(n, kinds, fn, True), invariants=c05.INV,
                                                       properties=["StopCompletes"]), timeout=3000)
    ctx.tlc("Lifecycle", cfg_text=vlib.cfg_text(constants=c01.consts(3, False, 2, 0), invariants=c01.INV,
                                                properties=c01.PROPS), timeout=2400)
    # work item scripts
    scripts = c05.gen_scripts(ctx, quick, after=True, outs=PANICS + ["ok", "err"], per=8 if quick else 60)
    # systematic part: every concrete kind x every panic class once, alone and next to a healthy item
    rnd = random.Random(ctx.seed)
    kinds = [k for ks in c05.CONCRETE.values() for k in ks if k != "signal"]
    for k in kinds:
        for pv in PANICS:
            for with_healthy in (False, True):
                items = [{"id": "i1", "kind": k, "out": pv, "done": 2}]
                pol = ["i1", "i1", "i1", "i1"]
                if with_healthy:
                    items.append({"id": "i2", "kind": rnd.choice(kinds), "out": "ok", "done": 1})
                    pol = ["i2", "i1", "i1", "i2", "i1", "i2", "i1", "i2"]
                scripts.append({"items": items, "hasStopFn": rnd.choice([True, False]), "dep": True,
                                "mode": rnd.choice(["shutdown", "manage"]), "probes": False, "waitAgain": True,
                                "policy": pol + ["stopper", "stopper", "fn", "stopper", "fn", "stopper", "fn", "stopper"]})
    # panics while the module is being stopped: the items are still running when the stop begins and panic afterwards
    # (reports must not be skipped "because the module is going down anyway")
    during = c05.gen_scripts(ctx, quick, after=False, outs=PANICS + ["ok"], per=3 if quick else 25)
    for sc in during:
        sc["stopErr"] = False
        sc["probes"] = False
    scripts += [sc for sc in during if not sc.get("directed")]
    hists, owner = c05.execute(ctx, scripts)
    ok1, unex1 = c05.judge(ctx, scripts, hists, owner)
    # lifecycle scripts with panicking routines only
    lscripts = [s for s in c01.gen_scripts(ctx, quick) if any(st.get("how") for st in s["steps"])]
    for s in lscripts:
        for st in s["steps"]:
            if st.get("how"):
                st["how"] = "panic"
    # directed: the stop routine panics AND the stop of the same module runs into the (shortened) stop timeout because a
    # worker overstays - Shutdown / the management pass must still return an error
    F = lambda m, ok=True, how="": dict({"op": "finish", "m": m, "ok": ok}, **({"how": how} if how else {}))
    for mgmt in (False, True):
        steps = [{"op": "start", "m": 0, "ok": True}, F(1), F(2), F(1), F(2)]
        if mgmt:
            steps += [{"op": "toggle", "m": 2, "ok": False}, {"op": "manage", "m": 0, "ok": True}, F(2, False, "panic"),
                      {"op": "shutdown", "m": 0, "ok": True}, F(1, False, "panic")]
        else:
            steps += [{"op": "shutdown", "m": 0, "ok": True}, F(2, False, "panic"), F(1, False, "panic")]
        # (the stop routine panics at once, well within the stop timeout of 250 ms; only the worker overstays)
        lscripts.append({"n": 2, "mgmt": mgmt, "deps": [[], [1]], "enabled": [True, True] if mgmt else [False, False],
                         "steps": steps, "stopTimeoutMs": 250, "overstay": [2], "directed": "stoppanic-timeout", "eager": False})
    lh, lo = c01.execute(ctx, lscripts)
    ok2, unex2 = c01.judge(ctx, lscripts, lh, lo)
    # HTTP API handlers: the panic cells of the ApiAuth table (every endpoint function type, handlers that panic
    # before and after writing their status line, 5 panic value classes, GET/POST, dev mode on/off) on the real server
    _tr, groups = c12.table(ctx, False)
    pgroups = [g for g in groups if g["name"] == "panic"]
    ascripts = c12.build_scripts(ctx, pgroups, [], 250)
    ah, ao, _infra = c12.execute(ctx, ascripts)
    ok3, unex3 = c12.judge(ctx, ascripts, ah, ao)
    napi = sum(1 for h in ah for e in h if e.get("e") == "apipanic")
    npan = len({vlib.sha(s) for s in scripts if any(it["out"].startswith("panic") for it in s["items"])}) + \
        len({vlib.sha(s) for s in lscripts}) + napi
    vlib.finish(ctx, LEVEL, {
        "traces_validated_against_impl": ok1 + ok2 + ok3,
        "evaluations": len(scripts) + len(lscripts) + napi, "distinct_nontrivial": npan,
        "api_panic_probes": napi,
        "rule": "work-item scripts: StopProtocol behaviours (stop after work) with outcomes drawn from 8 panic classes/ok/err "
                "plus the full table kind x panic class x {alone, next to a healthy item}; lifecycle scripts: Lifecycle "
                "behaviours whose failing callbacks panic; non-trivial = contains a panicking item/routine; distinct by hash",
        "work_item_scripts": len(scripts), "lifecycle_scripts": len(lscripts),
        "histories_unexamined_after_rejections": unex1 + unex2 + unex3,
        "samples": scripts[-1:] + lscripts[:1] + ([hists[-1]] if hists else []),
        "exhaustive": False,
    }, ["one driver process per script; a dead process is a violation (crash signature)",
        "service worker back-off 10 ms, restart awaited 300 ms",
        "API handler panics: harness/cmd/apiauth (real server on loopback), judged by ApiAuthTrace: 500 unless the status line was "
        "already written, panic reported on the module error channel, server answers a probe afterwards"])


def replay(ctx, path):
    with open(path) as fh:
        doc = json.load(fh)
    s = doc["replay"]["script"]
    if "steps" in s:
        h, o = c01.execute(ctx, [s])
        c01.judge(ctx, [s], h, o)
    else:
        h, o = c05.execute(ctx, [s])
        c05.judge(ctx, [s], h, o)
    vlib.finish(ctx, LEVEL, {"states": 1, "transitions": 1, "traces_validated_against_impl": len(h), "samples": [s]}, ["replay"])
