"""C07 — tasks: no self-overlap, no early or cancelled runs, queue order, nothing lost.

TasksImpl.tla: the three lists with stale element pointers, per-task flags, queue slot, queue handler and
schedule handler step by step, discrete clock; TLC checks the variants (repaired due re-check, atomic or
split handler decisions) and reproduces the recorded findings.  TasksImplGen: behaviours as scripts (API
calls, clock ticks, handler steps, task ends) for harness/cmd/tasks (yield points queue.popped,
sched.fired, sched.decided, task.checked; task functions are gates; one module per task identifies it).
TasksTrace/TasksAbs: TLC validates the recorded sub/checked/begin/end/cancel events against the monitor.
"""
import json
import random
import vlib

LEVEL = "model_checking"


def consts(n, maxt, md, calls, due=True, atomic=True, fault="none", reset=True, rep=0, elem=True, qelem=True, keep=True):
    return {"NTasks": n, "MaxT": maxt, "MD": md, "MaxCalls": calls, "DueCheck": due, "AtomicHandlers": atomic,
            "Fault": '"%s"' % fault, "ResetUnderLock": reset, "RepIv": rep, "SchedElemCheck": elem, "QueueElemCheck": qelem, "KeepQueued": keep}


def cex_steps(r):
    """The action labels of a TLC counterexample (variable `last`) as script steps."""
    import re
    steps = []
    for m in re.finditer(r'/\\ last = \[([^\]]*)\]', r.out):
        f = dict(re.findall(r'(\w+) \|-> ("[^"]*"|-?\d+)', m.group(1)))
        a = f.get("a", '""').strip('"')
        if a == "init":
            steps = []
            continue
        steps.append({"a": a, "t": int(f.get("t", 0)), "k": f.get("k", '"-"').strip('"'), "at": int(f.get("at", 0))})
    return steps


CEX = {}


def model_check(ctx, quick):
    inv = ["NoSelfOverlap", "NoEarlyStart", "NothingLost", "NoStartAfterCancel", "NoEarlyOvertime", "NoExtraRun", "NoDirectSched",
           "NoQueueDropWhileRunning", "NoLostSubmission"]
    runs = [consts(2, 3, 10, 3), consts(2, 3, 10, 3, rep=1), consts(2, 3, 2, 3)] if quick else \
        [consts(2, 3, 10, 4), consts(2, 3, 2, 3), consts(3, 2, 10, 3), consts(2, 4, 10, 3, rep=2), consts(2, 3, 2, 4, rep=1)]
    # (key, constants, invariants, must hold)
    jobs = [("hold%d" % i, c, inv, True) for i, c in enumerate(runs)]
    # model-level reproduction of the recorded findings (informational: never a verdict)
    jobs += [("cex-nodue", consts(2, 3, 10, 3, due=False, atomic=False, qelem=False, elem=False), ["NoEarlyStart"], False),
             ("cex-lost", consts(2, 3, 2, 3, keep=False), ["NoLostSubmission"], False),
             ("cex-stale", consts(2, 3, 10, 3, atomic=False, qelem=False, elem=False), ["NoEarlyStart"], False),
             ("cex-reset", consts(2, 3, 10, 3, reset=False), ["NoEarlyStart"], False),
             # F-C07-5 (repaired): the schedule handler's stale decision runs a task a second time
             ("cex-stalerun", consts(2, 3, 2, 3, atomic=False, elem=False), ["NoExtraRun"], False)]
    # plausible regressions modelled as fault variants: their counterexamples are adversarial scripts that the
    # unchanged code passes and a tree with that regression fails
    faults = (("cancelctx", "NoStartAfterCancel", 10), ("overtimenodue", "NoEarlyOvertime", 10), ("lateexecuting", "NoSelfOverlap", 2),
              ("staleovertime", "NoDirectSched", 10), ("noslot", "NoQueueDropWhileRunning", 2))
    for fault, invariant, md in faults:
        jobs.append(("cex-" + fault, consts(2, 3, md, 3, atomic=(fault != "lateexecuting"), fault=fault), [invariant], False))

    def job(j):
        key, c, invs, must = j
        if must:
            return key, ctx.tlc("TasksImpl", cfg_text=vlib.cfg_text(constants=c, invariants=invs, view="View"), timeout=3000, workers=4)
        return key, ctx.tlc("TasksImpl", cfg_text=vlib.cfg_text(constants=c, invariants=invs, view="View"), timeout=1500,
                            want_ok=False, count=False, workers=1)   # one worker: the same shortest counterexample every run
    res = dict(ctx.pmap(job, jobs, par=4))
    names = {"cex-nodue": "pinned_tree_schedule_handler_without_due_check", "cex-lost": "requeue_while_running_past_max_delay",
             "cex-stale": "stale_handler_decision_windows", "cex-reset": "executeAt_cleared_without_lock",
             "cex-stalerun": "stale_schedule_decision_runs_a_task_twice"}
    mds = {"cex-lost": 2, "cex-lateexecuting": 2, "cex-stalerun": 2, "cex-noslot": 2}
    info = {}
    for key, r in res.items():
        if key.startswith("cex-"):
            info[names.get(key, "fault_variant_" + key[4:])] = r.violated or "holds"
            CEX[key] = (cex_steps(r), mds.get(key, 10))
    return info


def gen_scripts(ctx, quick):
    rnd = random.Random(ctx.seed)
    cfgs = [consts(2, 3, 10, 3, atomic=False), consts(2, 3, 10, 5, atomic=False), consts(3, 3, 10, 5, atomic=False),
            consts(2, 3, 2, 4, atomic=False), consts(3, 2, 10, 6, atomic=True),
            # Task.Repeat (interval 1 or 2 clock units, through the verif accessor)
            consts(2, 4, 10, 4, atomic=False, rep=1), consts(2, 5, 10, 5, atomic=False, rep=2), consts(2, 4, 3, 5, atomic=False, rep=1)]
    per = 14 if quick else 120

    def one(a):
        k, c = a
        r = ctx.tlc("TasksImplGen", cfg_text=vlib.cfg_text(spec="GenSpec", constants=c), mode="simulate", num=per,
                    depth=120, seed=ctx.seed * 271 + k, timeout=900, count=False)
        return r.emitted()
    scripts = []
    for part in ctx.pmap(one, list(enumerate(cfgs))):
        for g in part:
            scripts.append({"n": g["n"], "md": g["md"], "unit": 100, "ordered": False, "auto": False, "holdMs": 25,
                            "steps": g["steps"], "family": "race"})
    # order scripts: a blocker holds the queue slot while a batch of submissions is made, then everything runs
    no = 25 if quick else 200
    for _ in range(no):
        n = rnd.choice([3, 4, 5, 6])
        steps = [{"a": "api", "t": 1, "k": "queue", "at": 0}, {"a": "await", "t": 1, "k": "-", "at": 0}]
        for _ in range(rnd.randrange(3, 10)):
            t = rnd.randrange(2, n + 1)
            k = rnd.choice(["queue", "queue", "prio", "prio", "asap", "cancel"])
            steps.append({"a": "api", "t": t, "k": k, "at": 0})
        steps.append({"a": "end", "t": 1, "k": "-", "at": 0})
        scripts.append({"n": n, "md": 100, "unit": 100, "ordered": True, "auto": True, "holdMs": rnd.choice([5, 25]),
                        "steps": steps, "family": "order", "freeHandlers": True})
    # two-round order scripts: in the first round some tasks sit in the normal AND the prioritized queue when they are
    # started; in the second round they are submitted again (every list-element pointer must have been cleared)
    A = lambda t, k: {"a": "api", "t": t, "k": k, "at": 0}
    tick = {"a": "tick", "t": 0, "k": "-", "at": 0}
    for _ in range(8 if quick else 60):
        n = rnd.choice([3, 4, 5])
        steps = [A(1, "queue"), {"a": "await", "t": 1, "k": "-", "at": 0}]
        both = [t for t in range(2, n + 1) if rnd.random() < 0.7] or [2]
        for t in range(2, n + 1):
            ks = ["queue", "prio"] if t in both else [rnd.choice(["queue", "prio", "asap"])]
            rnd.shuffle(ks)
            steps += [A(t, k) for k in ks]
        steps += [{"a": "end", "t": 1, "k": "-", "at": 0}] + [tick] * 4
        steps += [A(1, "queue"), {"a": "await", "t": 1, "k": "-", "at": 0}]
        for _ in range(rnd.randrange(3, 8)):
            steps.append(A(rnd.randrange(2, n + 1), rnd.choice(["queue", "prio", "prio", "asap", "asap"])))
        steps += [{"a": "end", "t": 1, "k": "-", "at": 0}]
        scripts.append({"n": n, "md": 100, "unit": 100, "ordered": True, "auto": True, "holdMs": rnd.choice([5, 25]),
                        "steps": steps, "family": "order2", "freeHandlers": True})
    # a task that is submitted again while it runs and whose function then panics: the second run must still happen
    for kind in ["queue", "prio", "asap"] * (1 if quick else 4):
        scripts.append({"n": 2, "md": 100, "unit": 100, "ordered": False, "auto": False, "holdMs": 25, "freeHandlers": True,
                        "panics": [1], "family": "panic-requeue",
                        "steps": [A(1, "queue"), {"a": "await", "t": 1, "k": "-", "at": 0}, A(1, kind),
                                  {"a": "end", "t": 1, "k": "-", "at": 0}, tick, tick, tick]})
    # adversarial schedules: TLC's counterexamples on the model variants, replayed against the real code
    for fam, (steps0, md) in CEX.items():
        # the model's launch makes the function run: the replay waits until the function has really begun
        steps = []
        for st in steps0:
            steps.append(st)
            if st["k"] == "launch":
                steps.append({"a": "await", "t": st["t"], "k": "-", "at": 0})
        if steps:
            tail = [{"a": "free", "t": 0, "k": "-", "at": 0}] + [{"a": "tick", "t": 0, "k": "-", "at": 0}] * 3
            for rep in range(3):   # the replay depends on real timers: three attempts per counterexample
                scripts.append({"n": 2, "md": md, "unit": 100, "ordered": False, "auto": False, "holdMs": 25,
                                "steps": steps + tail, "family": fam, "rep": rep})
    # directed: a task queued again while it runs, the run outlasting its max delay (recorded finding F-C07-2)
    scripts.append({"n": 2, "md": 2, "unit": 100, "ordered": False, "auto": False, "holdMs": 25, "family": "requeue-overtime", "freeHandlers": True,
                    "steps": [{"a": "api", "t": 1, "k": "queue", "at": 0}, {"a": "await", "t": 1, "k": "-", "at": 0},
                              {"a": "api", "t": 1, "k": "queue", "at": 0}, {"a": "tick", "t": 0, "k": "-", "at": 0},
                              {"a": "tick", "t": 0, "k": "-", "at": 0}, {"a": "tick", "t": 0, "k": "-", "at": 0},
                              {"a": "tick", "t": 0, "k": "-", "at": 0}, {"a": "end", "t": 1, "k": "-", "at": 0}]})
    return scripts


def sig_of(script, hist, ej):
    ev = hist[ej]
    what = ev.get("e", "?")
    extra = ""
    if what == "checked":
        extra = ":by=%s" % ev.get("by")
        k = ev.get("task")
        subs = [e for e in hist[:ej] if e.get("e") == "sub" and e.get("task") == k]
        if any(e.get("e") == "cancelret" and e.get("task") == k for e in hist[:ej]):
            extra += ":after-cancel"
        elif subs and subs[-1]["kind"] == "schedule" and ev.get("t", 0) < subs[-1]["at"] - 20:
            extra += ":early"
    if what == "final":
        kinds, tag = [], "lost"
        for k in range(1, hist[0]["n"] + 1):
            ev_k = [e for e in hist[:ej] if e.get("task") == k and e.get("e") in ("sub", "begin", "checked", "cancelret", "end")]
            core = [e for e in ev_k if e["e"] != "end"]
            if core and core[-1]["e"] == "sub":
                kinds.append(core[-1]["kind"])
                ts = core[-1]["t"]
                begins = [e for e in ev_k if e["e"] == "begin" and e["t"] <= ts]
                ends = [e for e in ev_k if e["e"] == "end" and e["t"] >= ts]
                if begins and ends and not [e for e in ev_k if e["e"] == "end" and begins[-1]["t"] <= e["t"] < ts]:
                    # submitted while the function was running; did the schedule handler visit the task meanwhile?
                    # a decision of the schedule handler about this task that was taken during the run (the decision that
                    # started the run itself does not count)
                    bi = max(i for i, e in enumerate(hist[:ej]) if e is begins[-1])
                    visits = [e for e in hist[bi + 1:ej] if e.get("e") == "note" and e.get("point") == "sched.decided"
                              and e.get("task") == k and e["t"] <= ends[0]["t"] + 5]
                    tag = "dropped-by-schedule-handler-while-running" if visits else "lost-while-running"
        extra = ":pending=" + ",".join(sorted(set(kinds))) + ":" + tag
    return "%s%s:%s" % (what, extra, script.get("family"))


def execute(ctx, scripts):
    binp = ctx.go_build("tasks")
    res = vlib.drive(ctx, binp, scripts, chunk=1, timeout=120)
    hists, owner = [], []
    for i, r in enumerate(res):
        evs = r["events"]
        if r["crashed"]:
            ctx.violation("crash:" + scripts[i].get("family", ""), "driver process died: %s" % r["crashed"][:800],
                          {"script": scripts[i], "observed": evs})
            continue
        for e in evs:
            e.pop("h", None)
            e.pop("seq", None)
        hists.append(evs)
        owner.append(i)
    return hists, owner


def judge(ctx, scripts, hists, owner):
    ok, rej, unex = vlib.validate(ctx, "TasksTrace", "TasksTrace.cfg", hists)
    for hi, ej, ev in rej:
        sc = scripts[owner[hi]]
        ctx.violation(sig_of(sc, hists[hi], ej),
                      "event %d rejected by TasksAbs: %s\ntrace so far: %s" % (ej, json.dumps(ev), json.dumps(hists[hi][:ej + 1])[:3000]),
                      {"script": sc, "observed": hists[hi]})
    return ok, unex


def run(ctx):
    quick = ctx.tier == "quick"
    info = model_check(ctx, quick)
    scripts = gen_scripts(ctx, quick)
    if len(scripts) < 40:
        raise vlib.Inconclusive("only %d scripts generated" % len(scripts))
    hists, owner = execute(ctx, scripts)
    ok, unex = judge(ctx, scripts, hists, owner)
    nontriv = len({vlib.sha(s) for s in scripts if sum(1 for st in s["steps"] if st["a"] == "api") >= 3})
    vlib.finish(ctx, LEVEL, {
        "traces_validated_against_impl": ok,
        "evaluations": len(scripts), "distinct_nontrivial": nontriv,
        "rule": "race scripts = behaviours of spec/TasksImpl.tla (TLC -simulate; split handler decisions) with API calls, clock "
                "ticks (100 ms), handler steps and task ends; order scripts = a blocker holds the queue slot while 3-9 "
                "Queue/QueuePrioritized/StartASAP/Cancel calls are made; one directed script for finding F-C07-2; "
                "non-trivial = at least 3 API calls; distinct by hash",
        "model_findings": info,
        "histories_unexamined_after_rejections": unex,
        "samples": scripts[:1] + ([hists[0]] if hists else []),
        "exhaustive": False,
    }, ["clock unit 100 ms; an early start is a start decision more than 20 ms before the scheduled time",
        "task functions run at least 20 ms (a function returning within microseconds can stall the queue for the documented "
        "execution-wait limit of one minute, which the property allows)",
        "Task.Repeat is driven through the accessor modules.VerifRepeat (the API enforces a minimum interval of one minute); "
        "Repeat(0) through the API", "yield points compiled in with -tags verif"])


def replay(ctx, path):
    with open(path) as fh:
        doc = json.load(fh)
    scripts = [doc["replay"]["script"]]
    hists, owner = execute(ctx, scripts)
    judge(ctx, scripts, hists, owner)
    vlib.finish(ctx, LEVEL, {"states": 1, "transitions": 1, "traces_validated_against_impl": len(hists),
                             "samples": scripts}, ["replay of one script"])
