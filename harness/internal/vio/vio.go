// Package vio holds the small I/O helpers shared by the conformance drivers:
// reading scripts (one JSON document per line) and writing ndjson traces.
package vio

import (
	"bufio"
	"encoding/json"
	"fmt"
	"os"
	"sync"
)

// ReadLines calls fn for every non-empty line of the file.
func ReadLines(path string, fn func(line []byte) error) error {
	f, err := os.Open(path)
	if err != nil {
		return err
	}
	defer f.Close()
	sc := bufio.NewScanner(f)
	sc.Buffer(make([]byte, 1<<20), 1<<28)
	for sc.Scan() {
		b := sc.Bytes()
		if len(b) == 0 {
			continue
		}
		cp := make([]byte, len(b))
		copy(cp, b)
		if err := fn(cp); err != nil {
			return err
		}
	}
	return sc.Err()
}

// Trace is an ndjson event writer, safe for concurrent use. Every event gets a sequence number
// taken under the writer's lock.
type Trace struct {
	mu  sync.Mutex
	w   *bufio.Writer
	f   *os.File
	seq int
}

// NewTrace creates the trace file.
func NewTrace(path string) (*Trace, error) {
	f, err := os.Create(path)
	if err != nil {
		return nil, err
	}
	return &Trace{w: bufio.NewWriterSize(f, 1<<16), f: f}, nil
}

// Emit writes one event.
func (t *Trace) Emit(ev map[string]any) {
	t.mu.Lock()
	defer t.mu.Unlock()
	t.seq++
	ev["seq"] = t.seq
	b, err := json.Marshal(ev)
	if err != nil {
		fmt.Fprintf(os.Stderr, "trace marshal: %v\n", err)
		return
	}
	t.w.Write(b)
	t.w.WriteByte('\n')
}

// EmitRaw writes one event without adding a sequence number.
func (t *Trace) EmitRaw(ev any) {
	t.mu.Lock()
	defer t.mu.Unlock()
	b, err := json.Marshal(ev)
	if err != nil {
		fmt.Fprintf(os.Stderr, "trace marshal: %v\n", err)
		return
	}
	t.w.Write(b)
	t.w.WriteByte('\n')
}

// Flush flushes buffered events to the file (call before a step that may kill the process).
func (t *Trace) Flush() {
	t.mu.Lock()
	defer t.mu.Unlock()
	t.w.Flush()
}

// Close flushes and closes.
func (t *Trace) Close() {
	t.mu.Lock()
	defer t.mu.Unlock()
	t.w.Flush()
	t.f.Close()
}

// Ints converts bytes to a JSON friendly int slice (never nil, so that it prints as []).
func Ints(b []byte) []int {
	r := make([]int, len(b))
	for i, x := range b {
		r[i] = int(x)
	}
	return r
}

// Bytes converts an int slice to bytes.
func Bytes(a []int) []byte {
	r := make([]byte, len(a))
	for i, x := range a {
		r[i] = byte(x)
	}
	return r
}

// Digits returns the base-128 digits (least significant first) of n; zero is [0].
func Digits(n uint64) []int {
	if n == 0 {
		return []int{0}
	}
	var r []int
	for n > 0 {
		r = append(r, int(n&0x7f))
		n >>= 7
	}
	return r
}

// FromDigits is the inverse of Digits (caller guarantees the value fits 64 bits).
func FromDigits(d []int) uint64 {
	var n uint64
	for i := len(d) - 1; i >= 0; i-- {
		n = n<<7 | uint64(d[i])
	}
	return n
}
