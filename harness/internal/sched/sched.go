// Package sched is a cooperative scheduler for interleaving replay (engine E2).
//
// Goroutines of the system under test arrive at named points: gates inside harness-supplied
// callbacks and `verifPoint` yield points compiled into portbase with the "verif" build tag.
// At a point the goroutine parks until the driver releases its *actor*.  A policy (a sequence of
// actor names projected from a TLC behaviour of the implementation-shaped model) is walked by
// Run: the named actor is released if it is parked, awaited for a bounded time if it is still
// running, and skipped if it does not exist; afterwards everything runs freely.  The run never
// depends on the code having exactly the steps of the model; what is judged is the recorded trace.
package sched

import (
	"bytes"
	"runtime"
	"strconv"
	"sync"
	"time"
)

type waiter struct {
	actor string
	point string
	ch    chan struct{}
}

// Sched is the scheduler.
type Sched struct {
	mu     sync.Mutex
	bound  map[int64]string // goroutine id -> actor
	parked []*waiter        // in arrival order
	live   map[string]int   // actor -> number of live bound goroutines
	free   bool
	// OnPark is called (with the lock held) whenever a goroutine parks.
	OnPark func(actor, point string)
	// Naming maps a point reached by an unbound goroutine to an actor name.
	Naming func(point string, tag string) string
	start  time.Time
}

// New creates a scheduler.
func New() *Sched {
	return &Sched{bound: map[int64]string{}, live: map[string]int{}, start: time.Now()}
}

// Ms returns milliseconds since the scheduler was created.
func (s *Sched) Ms() int { return int(time.Since(s.start) / time.Millisecond) }

func gid() int64 {
	var buf [64]byte
	b := buf[:runtime.Stack(buf[:], false)]
	b = bytes.TrimPrefix(b, []byte("goroutine "))
	i := bytes.IndexByte(b, ' ')
	if i < 0 {
		return -1
	}
	n, _ := strconv.ParseInt(string(b[:i]), 10, 64)
	return n
}

// Bind names the calling goroutine; Unbind must be called when it is done.
func (s *Sched) Bind(actor string) {
	g := gid()
	s.mu.Lock()
	s.bound[g] = actor
	s.live[actor]++
	s.mu.Unlock()
}

// Unbind removes the calling goroutine's name.
func (s *Sched) Unbind() {
	g := gid()
	s.mu.Lock()
	if a, ok := s.bound[g]; ok {
		delete(s.bound, g)
		s.live[a]--
	}
	s.mu.Unlock()
}

// Actor returns the name of the calling goroutine ("" if unbound).
func (s *Sched) Actor() string {
	g := gid()
	s.mu.Lock()
	defer s.mu.Unlock()
	return s.bound[g]
}

// Yield parks the calling goroutine at the point until its actor is released.
func (s *Sched) Yield(point, tag string) {
	g := gid()
	s.mu.Lock()
	if s.free {
		s.mu.Unlock()
		return
	}
	actor, ok := s.bound[g]
	if !ok {
		if s.Naming != nil {
			actor = s.Naming(point, tag)
		}
		if actor == "" {
			s.mu.Unlock()
			return
		}
	}
	w := &waiter{actor: actor, point: point, ch: make(chan struct{})}
	s.parked = append(s.parked, w)
	if s.OnPark != nil {
		s.OnPark(actor, point)
	}
	s.mu.Unlock()
	<-w.ch
}

func (s *Sched) takeLocked(actor string) *waiter {
	for i, w := range s.parked {
		if actor == "" || w.actor == actor {
			s.parked = append(s.parked[:i], s.parked[i+1:]...)
			return w
		}
	}
	return nil
}

// IsParked reports whether the actor is parked, and where.
func (s *Sched) IsParked(actor string) (bool, string) {
	s.mu.Lock()
	defer s.mu.Unlock()
	for _, w := range s.parked {
		if w.actor == actor {
			return true, w.point
		}
	}
	return false, ""
}

// Live reports whether a goroutine bound to the actor exists.
func (s *Sched) Live(actor string) bool {
	s.mu.Lock()
	defer s.mu.Unlock()
	return s.live[actor] > 0
}

// Release lets the actor's parked goroutine continue. It returns the point it was parked at.
func (s *Sched) Release(actor string) (string, bool) {
	s.mu.Lock()
	w := s.takeLocked(actor)
	s.mu.Unlock()
	if w == nil {
		return "", false
	}
	close(w.ch)
	return w.point, true
}

// Await waits until the actor is parked (true) or the patience is exhausted (false). If gone
// returns true (the actor cannot arrive any more) it gives up immediately.
func (s *Sched) Await(actor string, patience time.Duration, gone func() bool) bool {
	deadline := time.Now().Add(patience)
	for {
		if ok, _ := s.IsParked(actor); ok {
			return true
		}
		if gone != nil && gone() {
			// one more look: it may have parked in between
			ok, _ := s.IsParked(actor)
			return ok
		}
		if time.Now().After(deadline) {
			return false
		}
		time.Sleep(100 * time.Microsecond)
	}
}

// Settle gives a released goroutine time to reach its next point: it returns as soon as the actor is
// parked again or is not live any more, at the latest after d.
func (s *Sched) Settle(actor string, d time.Duration) {
	deadline := time.Now().Add(d)
	for time.Now().Before(deadline) {
		if ok, _ := s.IsParked(actor); ok {
			return
		}
		time.Sleep(50 * time.Microsecond)
	}
}

// Free releases everything that is parked and lets all later arrivals pass.
func (s *Sched) Free() {
	s.mu.Lock()
	s.free = true
	ws := s.parked
	s.parked = nil
	s.mu.Unlock()
	for _, w := range ws {
		close(w.ch)
	}
}

// ParkedActors lists the parked actors in arrival order.
func (s *Sched) ParkedActors() []string {
	s.mu.Lock()
	defer s.mu.Unlock()
	r := make([]string, len(s.parked))
	for i, w := range s.parked {
		r[i] = w.actor + "@" + w.point
	}
	return r
}
