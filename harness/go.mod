module verifharness

go 1.21.1

require github.com/safing/portbase v0.18.6

require (
	github.com/aead/ecdh v0.2.0 // indirect
	github.com/fxamacker/cbor/v2 v2.5.0 // indirect
	github.com/ghodss/yaml v1.0.0 // indirect
	github.com/gofrs/uuid v4.4.0+incompatible // indirect
	github.com/hashicorp/errwrap v1.1.0 // indirect
	github.com/hashicorp/go-multierror v1.1.1 // indirect
	github.com/hashicorp/go-version v1.6.0 // indirect
	github.com/klauspost/cpuid/v2 v2.2.6 // indirect
	github.com/mr-tron/base58 v1.2.0 // indirect
	github.com/safing/jess v0.3.3 // indirect
	github.com/satori/go.uuid v1.2.0 // indirect
	github.com/tevino/abool v1.2.0 // indirect
	github.com/tidwall/gjson v1.17.0 // indirect
	github.com/tidwall/match v1.1.1 // indirect
	github.com/tidwall/pretty v1.2.1 // indirect
	github.com/tidwall/sjson v1.2.5 // indirect
	github.com/vmihailenco/msgpack/v5 v5.4.1 // indirect
	github.com/vmihailenco/tagparser/v2 v2.0.0 // indirect
	github.com/x448/float16 v0.8.4 // indirect
	github.com/zeebo/blake3 v0.2.3 // indirect
	golang.org/x/crypto v0.17.0 // indirect
	golang.org/x/exp v0.0.0-20231219180239-dc181d75b848 // indirect
	golang.org/x/sys v0.15.0 // indirect
	gopkg.in/yaml.v2 v2.4.0 // indirect
)

replace github.com/safing/portbase => /repo
