module verifharness

go 1.21.1

require github.com/safing/portbase v0.0.0

replace github.com/safing/portbase => /repo
