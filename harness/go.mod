module verifharness

go 1.21.1

require github.com/safing/portbase v0.0.0

require (
	github.com/fxamacker/cbor/v2 v2.5.0 // indirect
	github.com/ghodss/yaml v1.0.0 // indirect
	github.com/gofrs/uuid v4.4.0+incompatible // indirect
	github.com/tevino/abool v1.2.0 // indirect
	github.com/tidwall/gjson v1.17.0 // indirect
	github.com/tidwall/match v1.1.1 // indirect
	github.com/tidwall/pretty v1.2.1 // indirect
	github.com/tidwall/sjson v1.2.5 // indirect
	github.com/vmihailenco/msgpack/v5 v5.4.1 // indirect
	github.com/vmihailenco/tagparser/v2 v2.0.0 // indirect
	github.com/x448/float16 v0.8.4 // indirect
	gopkg.in/yaml.v2 v2.4.0 // indirect
)

replace github.com/safing/portbase => /repo
