// Command rtreg executes operation histories generated from spec/RuntimeRegGen.tla against the real
// runtime registry (package runtime) injected as a database, and records what the code did
// (extension check X03: routing and registration).
//
// usage: rtreg <scripts.ndjson> <trace.ndjson> [skip]
//
// Keys are sequences over 1..3 in the scripts and traces (1 = "a", 2 = "b", 3 = "/").
package main

import (
	"encoding/json"
	"errors"
	"fmt"
	"os"
	"sort"
	"strconv"
	"strings"
	"sync"
	"sync/atomic"
	"time"

	"github.com/safing/portbase/database"
	"github.com/safing/portbase/database/query"
	"github.com/safing/portbase/database/record"
	"github.com/safing/portbase/database/storage"
	"github.com/safing/portbase/log"
	"github.com/safing/portbase/runtime"

	"verifharness/internal/vio"
)

// ------------------------------------------------------------------ scripts and observations

type op struct {
	Op   string `json:"op"`
	K    []int  `json:"k"`
	V    int    `json:"v"`
	P    int    `json:"p"`
	Kind string `json:"kind"`
	K2   []int  `json:"k2"`
	V2   int    `json:"v2"`
}

type script struct {
	Steps []op `json:"steps"`
	// racing registrations (mode "race"): all keys are registered at the same time
	Mode string  `json:"mode,omitempty"`
	Race [][]int `json:"race,omitempty"`
}

type kv struct {
	K []int `json:"k"`
	V int   `json:"v"`
}

type call struct {
	P int    `json:"p"`
	M string `json:"m"`
	K []int  `json:"k"`
}

type stored struct {
	P int   `json:"p"`
	K []int `json:"k"`
	V int   `json:"v"`
}

type res struct {
	Err   string `json:"err"`
	V     int    `json:"v"`
	RK    []int  `json:"rk"`
	Recs  []kv   `json:"recs"`
	Feeds [][]kv `json:"feeds"`
	Text  string `json:"text,omitempty"`
	Panic string `json:"panic,omitempty"`
}

const alphabet = " ab/"

func keyText(k []int) string {
	var b strings.Builder
	for _, c := range k {
		if c >= 1 && c <= 3 {
			b.WriteByte(alphabet[c])
		} else {
			b.WriteByte('?')
		}
	}
	return b.String()
}

func keySym(s string) []int {
	r := make([]int, 0, len(s))
	for i := 0; i < len(s); i++ {
		switch s[i] {
		case 'a':
			r = append(r, 1)
		case 'b':
			r = append(r, 2)
		case '/':
			r = append(r, 3)
		default:
			r = append(r, 9) // never a symbol of the model: the step is rejected
		}
	}
	return r
}

// ------------------------------------------------------------------ records

// Rec is the record type of all runtime values of a history.
type Rec struct {
	record.Base
	sync.Mutex
	V int
}

func newRec(db, key string, v int) *Rec {
	r := &Rec{V: v}
	r.SetKey(db + ":" + key)
	r.UpdateMeta()
	return r
}

func valueOf(r record.Record) int {
	if t, ok := r.(*Rec); ok {
		return t.V
	}
	return -1
}

// ------------------------------------------------------------------ providers

var errBoom = errors.New("provider failure")

type world struct {
	db      string
	reg     *runtime.Registry
	iface   *database.Interface
	provs   []*prov // successful registrations, index+1 = provider id
	subs    []*database.Subscription
	mu      sync.Mutex
	logging bool
	calls   []call
}

// prov is one abstract value provider; it holds copies and hands out copies (runtime values are computed).
type prov struct {
	w    *world
	id   int
	key  string
	kind string
	mu   sync.Mutex
	m    map[string]int
	live *Rec // kind single
	push runtime.PushFunc
}

func (p *prov) get(arg string) ([]record.Record, error) {
	p.mu.Lock()
	defer p.mu.Unlock()
	keys := make([]string, 0, len(p.m))
	for k := range p.m {
		if p.kind == "sloppy" || strings.HasPrefix(k, arg) {
			keys = append(keys, k)
		}
	}
	sort.Strings(keys)
	out := make([]record.Record, 0, len(keys))
	for _, k := range keys {
		out = append(out, newRec(p.w.db, k, p.m[k]))
	}
	return out, nil
}

func (p *prov) set(r record.Record) (record.Record, error) {
	// r is locked by the caller
	p.mu.Lock()
	p.m[r.DatabaseKey()] = valueOf(r)
	p.mu.Unlock()
	return r, nil
}

type failing struct{}

func (failing) Get(string) ([]record.Record, error)      { return nil, errBoom }
func (failing) Set(record.Record) (record.Record, error) { return nil, errBoom }

type both struct{ p *prov }

func (b both) Get(arg string) ([]record.Record, error)    { return b.p.get(arg) }
func (b both) Set(r record.Record) (record.Record, error) { return b.p.set(r) }

// logged records the calls a provider sees.
type logged struct {
	w     *world
	p     *prov
	inner runtime.ValueProvider
}

func (l *logged) note(m, k string) {
	l.w.mu.Lock()
	if l.w.logging {
		l.w.calls = append(l.w.calls, call{P: l.p.id, M: m, K: keySym(k)})
	}
	l.w.mu.Unlock()
}

func (l *logged) Get(arg string) ([]record.Record, error) {
	l.note("get", arg)
	return l.inner.Get(arg)
}

func (l *logged) Set(r record.Record) (record.Record, error) {
	l.note("set", r.DatabaseKey())
	return l.inner.Set(r)
}

func (w *world) newProvider(key, kind string, v int) (*prov, runtime.ValueProvider) {
	p := &prov{w: w, key: key, kind: kind, m: map[string]int{}}
	var inner runtime.ValueProvider
	switch kind {
	case "rw", "sloppy":
		inner = both{p}
	case "ro":
		inner = runtime.SimpleValueGetterFunc(p.get)
	case "wo":
		inner = runtime.SimpleValueSetterFunc(p.set)
	case "single":
		p.live = newRec(w.db, key, v)
		inner = runtime.ProvideRecord(p.live)
	case "fail":
		inner = failing{}
	case "modint":
		inner = &runtime.ModulesIntegration{}
	default:
		inner = failing{}
	}
	return p, &logged{w: w, p: p, inner: inner}
}

// ------------------------------------------------------------------ classification of errors

func classify(err error) string {
	switch {
	case err == nil:
		return "ok"
	case errors.Is(err, runtime.ErrKeyTaken):
		return "taken"
	case errors.Is(err, runtime.ErrInjected):
		return "injected"
	case errors.Is(err, runtime.ErrKeyUnmanaged):
		return "unmanaged"
	case errors.Is(err, runtime.ErrReadOnly):
		return "readonly"
	case errors.Is(err, runtime.ErrWriteOnly):
		return "writeonly"
	case errors.Is(err, errBoom):
		return "boom"
	case errors.Is(err, database.ErrNotFound), errors.Is(err, storage.ErrNotFound):
		return "notfound"
	case errors.Is(err, storage.ErrNotImplemented):
		return "notimpl"
	case errors.Is(err, database.ErrReadOnly):
		return "dbreadonly"
	case errors.Is(err, database.ErrPermissionDenied):
		return "denied"
	}
	return "other"
}

func plain(err error) res {
	r := res{Err: classify(err), RK: []int{}, Recs: []kv{}}
	if err != nil {
		r.Text = err.Error()
	}
	return r
}

// ------------------------------------------------------------------ operations

func (w *world) full(k []int) string { return w.db + ":" + keyText(k) }

func (w *world) exec(o op) (r res) {
	defer func() {
		if p := recover(); p != nil {
			r = res{Err: "panic", RK: []int{}, Recs: []kv{}, Panic: fmt.Sprint(p)}
		}
	}()
	switch o.Op {
	case "register":
		p, vp := w.newProvider(keyText(o.K), o.Kind, o.V)
		p.id = len(w.provs) + 1
		push, err := w.reg.Register(keyText(o.K), vp)
		if err == nil {
			p.push = push
			w.provs = append(w.provs, p)
		} else {
			p.id = 0 // a provider that was refused must never be called
		}
		return plain(err)
	case "inject":
		return plain(w.reg.InjectAsDatabase(w.db))
	case "get":
		rec, err := w.iface.Get(w.full(o.K))
		r = plain(err)
		if err == nil {
			r.V = valueOf(rec)
			r.RK = keySym(rec.DatabaseKey())
			if rec.DatabaseName() != w.db {
				r.RK = []int{9}
			}
		}
		return r
	case "put":
		return plain(w.iface.Put(newRec(w.db, keyText(o.K), o.V)))
	case "delete":
		return plain(w.iface.Delete(w.full(o.K)))
	case "query":
		it, err := w.iface.Query(query.New(w.full(o.K)))
		if err != nil {
			return plain(err)
		}
		recs := []kv{}
		for rec := range it.Next {
			k := keySym(rec.DatabaseKey())
			if rec.DatabaseName() != w.db {
				k = []int{9}
			}
			recs = append(recs, kv{K: k, V: valueOf(rec)})
		}
		r = plain(it.Err())
		r.Recs = recs
		return r
	case "subscribe":
		sub, err := w.iface.Subscribe(query.New(w.full(o.K)))
		if err == nil {
			w.subs = append(w.subs, sub)
		}
		return plain(err)
	case "poke":
		if o.P < 1 || o.P > len(w.provs) {
			return res{Err: "noprovider", RK: []int{}, Recs: []kv{}}
		}
		p := w.provs[o.P-1]
		if p.kind == "single" {
			p.live.Lock()
			p.live.V = o.V
			p.live.Unlock()
			return plain(nil)
		}
		p.mu.Lock()
		if o.V == 0 {
			delete(p.m, keyText(o.K))
		} else {
			p.m[keyText(o.K)] = o.V
		}
		p.mu.Unlock()
		return plain(nil)
	case "push":
		if o.P < 1 || o.P > len(w.provs) {
			return res{Err: "noprovider", RK: []int{}, Recs: []kv{}}
		}
		p := w.provs[o.P-1]
		if p.kind == "single" {
			// the example in the documentation of ProvideRecord
			p.live.Lock()
			p.live.V = o.V
			p.push(p.live)
			p.live.Unlock()
			return plain(nil)
		}
		recs := []record.Record{newRec(w.db, keyText(o.K), o.V)}
		if o.V2 != 0 {
			recs = append(recs, newRec(w.db, keyText(o.K2), o.V2))
		}
		for _, x := range recs {
			x.Lock()
		}
		p.push(recs...)
		for _, x := range recs {
			x.Unlock()
		}
		return plain(nil)
	}
	return res{Err: "unknown-op", RK: []int{}, Recs: []kv{}}
}

// applicable: poke and push name a provider that exists and keys it is responsible for.
func (w *world) applicable(o op) bool {
	if o.Op != "poke" && o.Op != "push" {
		return true
	}
	if o.P < 1 || o.P > len(w.provs) {
		return false
	}
	p := w.provs[o.P-1]
	covers := func(k []int) bool {
		s := keyText(k)
		return s == p.key || (strings.HasSuffix(p.key, "/") && strings.HasPrefix(s, p.key))
	}
	if !covers(o.K) {
		return false
	}
	if o.Op == "push" {
		return o.V2 == 0 || (p.kind != "single" && covers(o.K2))
	}
	// a provider-side change of a value: the provider has a store of its own; the live record of a
	// ProvideRecord provider always has a value
	switch p.kind {
	case "rw", "sloppy", "ro":
		return true
	case "single":
		return o.V != 0
	}
	return false
}

// drain takes what every subscription received (notification is synchronous: when the operation
// has returned, everything it sent is in the feeds).
func (w *world) drain() [][]kv {
	out := make([][]kv, len(w.subs))
	for i, s := range w.subs {
		out[i] = []kv{}
		for more := true; more; {
			select {
			case rec, ok := <-s.Feed:
				if !ok {
					out[i] = append(out[i], kv{K: []int{9}, V: -2}) // closed feed
					more = false
					break
				}
				k := keySym(rec.DatabaseKey())
				if rec.DatabaseName() != w.db {
					k = []int{9}
				}
				out[i] = append(out[i], kv{K: k, V: valueOf(rec)})
			default:
				more = false
			}
		}
	}
	return out
}

func (w *world) stores() []stored {
	out := []stored{}
	for _, p := range w.provs {
		if p.kind == "single" {
			p.live.Lock()
			out = append(out, stored{P: p.id, K: keySym(p.key), V: p.live.V})
			p.live.Unlock()
			continue
		}
		p.mu.Lock()
		for k, v := range p.m {
			out = append(out, stored{P: p.id, K: keySym(k), V: v})
		}
		p.mu.Unlock()
	}
	return out
}

// visible reads every key of the history through the database (call log off).
func (w *world) visible(keys []string, injected bool) []kv {
	out := []kv{}
	if !injected {
		return out
	}
	for _, k := range keys {
		rec, err := w.iface.Get(w.db + ":" + k)
		if err != nil {
			continue
		}
		out = append(out, kv{K: keySym(rec.DatabaseKey()), V: valueOf(rec)})
	}
	return out
}

// regKeys is GetRegistrationKeys() in symbols.
func (w *world) regKeys() [][]int {
	got := w.reg.GetRegistrationKeys()
	regs := make([][]int, 0, len(got))
	for _, k := range got {
		regs = append(regs, keySym(k))
	}
	return regs
}

// dbNamed is DatabaseName(): 0 = empty, 1 = the name of this history's database, 2 = anything else.
func (w *world) dbNamed() int {
	switch w.reg.DatabaseName() {
	case "":
		return 0
	case w.db:
		return 1
	}
	return 2
}

var serial int

func newWorld(idx int) (*world, error) {
	serial++
	w := &world{db: fmt.Sprintf("x03h%dn%d", idx, serial), reg: runtime.NewRegistry()}
	if _, err := database.Register(&database.Database{Name: w.db, Description: "verif", StorageType: database.StorageTypeInjected}); err != nil {
		return nil, err
	}
	w.iface = database.NewInterface(&database.Options{Local: true, Internal: true})
	return w, nil
}

func universe(sc *script) []string {
	seen := map[string]bool{}
	keys := []string{}
	add := func(k []int) {
		s := keyText(k)
		if !seen[s] {
			seen[s] = true
			keys = append(keys, s)
		}
	}
	for _, o := range sc.Steps {
		add(o.K)
		add(o.K2)
	}
	for _, k := range sc.Race {
		add(k)
	}
	sort.Strings(keys)
	return keys
}

func runHist(sc *script, idx int, tr *vio.Trace) {
	w, err := newWorld(idx)
	if err != nil {
		tr.EmitRaw(map[string]any{"e": "setup-failed", "h": idx, "err": err.Error()})
		return
	}
	keys := universe(sc)
	tr.EmitRaw(map[string]any{"e": "new", "h": idx, "db": w.db, "keys": keys})
	injected := false
	if sc.Mode == "race" {
		w.race(sc, idx, tr)
	}
	for _, o := range sc.Steps {
		tr.EmitRaw(map[string]any{"e": "try", "op": o, "h": idx})
		tr.Flush()
		if o.K == nil {
			o.K = []int{}
		}
		if o.K2 == nil {
			o.K2 = []int{}
		}
		// a history generated behind racing registrations assumes one of their possible outcomes; a
		// provider-side step that does not apply to the outcome observed is left out
		if !w.applicable(o) {
			continue
		}
		w.mu.Lock()
		w.logging = true
		w.calls = []call{}
		w.mu.Unlock()
		r := w.exec(o)
		w.mu.Lock()
		w.logging = false
		calls := w.calls
		w.mu.Unlock()
		if o.Op == "inject" && r.Err == "ok" {
			injected = true
		}
		r.Feeds = w.drain()
		tr.EmitRaw(map[string]any{"e": "op", "h": idx, "op": o, "res": r, "calls": calls,
			"stores": w.stores(), "vis": w.visible(keys, injected), "regkeys": w.regKeys(), "dbn": w.dbNamed()})
		if r.Panic != "" {
			break
		}
	}
	for _, s := range w.subs {
		_ = s.Cancel()
	}
}

// race registers all keys of sc.Race at the same time, each from its own goroutine, and reports
// the outcome of every attempt as one observation: the registrations that succeeded become
// providers 1.. in the order of the list.
func (w *world) race(sc *script, idx int, tr *vio.Trace) {
	n := len(sc.Race)
	errs := make([]error, n)
	ps := make([]*prov, n)
	vps := make([]runtime.ValueProvider, n)
	for i, k := range sc.Race {
		ps[i], vps[i] = w.newProvider(keyText(k), "rw", 0)
	}
	// the attempts leave a spinning barrier together, so that they really meet inside Register
	var arrived atomic.Int32
	var wg sync.WaitGroup
	for i := range sc.Race {
		wg.Add(1)
		go func(i int) {
			defer wg.Done()
			arrived.Add(1)
			for spins := 0; int(arrived.Load()) < n && spins < 50_000_000; spins++ {
			}
			ps[i].push, errs[i] = w.reg.Register(ps[i].key, vps[i])
		}(i)
	}
	wg.Wait()
	out := make([]string, n)
	for i := range errs {
		out[i] = classify(errs[i])
		if errs[i] == nil {
			ps[i].id = len(w.provs) + 1
			w.provs = append(w.provs, ps[i])
		}
	}
	race := sc.Race
	for i := range race {
		if race[i] == nil {
			race[i] = []int{}
		}
	}
	tr.EmitRaw(map[string]any{"e": "race", "h": idx, "keys": race, "errs": out, "regs": w.regKeys()})
}

func main() {
	if len(os.Args) < 3 {
		fmt.Fprintln(os.Stderr, "usage: rtreg <scripts.ndjson> <trace.ndjson> [skip]")
		os.Exit(2)
	}
	skip := 0
	if len(os.Args) > 3 {
		skip, _ = strconv.Atoi(os.Args[3])
	}
	tr, err := vio.NewTrace(os.Args[2])
	if err != nil {
		fmt.Fprintln(os.Stderr, err)
		os.Exit(2)
	}
	log.SetLogLevel(log.CriticalLevel)
	root, err := os.MkdirTemp("", "verif-rtreg-")
	if err != nil {
		fmt.Fprintln(os.Stderr, err)
		os.Exit(2)
	}
	if err := database.InitializeWithPath(root); err != nil {
		fmt.Fprintln(os.Stderr, err)
		os.Exit(2)
	}
	// a history that hangs (an iterator that never finishes) must not hang the run for ever
	watchdog := time.AfterFunc(10*time.Minute, func() {
		fmt.Fprintln(os.Stderr, "watchdog: driver stuck")
		os.Exit(3)
	})
	defer watchdog.Stop()
	idx := -1
	err = vio.ReadLines(os.Args[1], func(line []byte) error {
		idx++
		if idx < skip {
			return nil
		}
		var sc script
		if err := json.Unmarshal(line, &sc); err != nil {
			return err
		}
		runHist(&sc, idx, tr)
		return nil
	})
	tr.Close()
	_ = database.Shutdown()
	_ = os.RemoveAll(root)
	if err != nil {
		fmt.Fprintln(os.Stderr, err)
		os.Exit(2)
	}
	os.Exit(0)
}
