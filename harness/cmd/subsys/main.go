// Command subsys executes one driver script generated from spec/SubsysGen.tla against the real
// subsystem layer of portbase (modules/subsystems, DefaultManager) on top of the real module manager,
// config system and runtime database, and records what the code did (extension check X05).
//
// Script: {"n":N,"deps":[[..],..],"steps":[{op,id,m,k,def,v,lvl,fid}..],"quiet_ms":..}
//   modules 1..N: module 1 is "base" (required by the subsystems module), module i > 1 is "m<i>";
//   deps[i-1] = numbers of the modules module i depends on.
//   steps:  register  DefaultManager.Register("sub-<id>", .., module m, "config:sub<id>/", option) - k = 0: nil option,
//                     k = 1: bool option "sub<id>/enable" with default `def`
//           start     modules.Start()
//           set       config.SetConfigOption("sub<id>/enable", v)   v = "T" | "F" | "N" (nil: back to the default)
//           fail      module m: Hint/Warning/Error (lvl 1..3) with failure id "f<fid>"
//           resolve   module m: Resolve("f<fid>")  (fid 0: Resolve(""))
//           sfail     the start routine of module m fails from now on (v = "T") / works again (v = "F")
//           wait      pause for k milliseconds (between config changes)
//           sync      wait until the system is quiet, then observe (see observe())
// The module system is a process-wide singleton, so one process executes exactly one script.
// Nothing is judged here: the trace is validated by TLC against spec/Subsys.tla (spec/SubsysTrace.tla).
//
// usage: subsys <scripts.ndjson> <trace.ndjson> [skip]
package main

import (
	"encoding/json"
	"errors"
	"fmt"
	"os"
	"strconv"
	"strings"
	"sync"
	"time"

	"github.com/safing/portbase/config"
	"github.com/safing/portbase/database"
	_ "github.com/safing/portbase/database/dbmodule"
	"github.com/safing/portbase/database/query"
	"github.com/safing/portbase/database/record"
	"github.com/safing/portbase/dataroot"
	"github.com/safing/portbase/log"
	"github.com/safing/portbase/modules"
	"github.com/safing/portbase/modules/subsystems"

	"verifharness/internal/vio"
)

type step struct {
	Op  string `json:"op"`
	ID  int    `json:"id"`
	M   int    `json:"m"`
	K   int    `json:"k"`
	Def bool   `json:"def"`
	V   string `json:"v"`
	Lvl int    `json:"lvl"`
	Fid int    `json:"fid"`
}

type script struct {
	N       int     `json:"n"`
	Deps    [][]int `json:"deps"`
	Steps   []step  `json:"steps"`
	Slow    []int   `json:"slow"`     // modules whose start routine takes 130 ms (longer than the manager's debounce interval)
	QuietMs int     `json:"quiet_ms"` // the system counts as quiet when it has shown no activity and no change for this long (default 100)
}

const maxSubs = 3

var (
	tr   *vio.Trace
	h    int
	sc   script
	mods []*modules.Module // index 0 = module 1

	mu      sync.Mutex
	sf      = map[int]bool{} // start routine of module i fails
	pushed  []int            // subsystem ids pushed to the subscriber since the last sync
	badPush int              // pushes that are not a subsystem record under its own key
	subErr  string

	started     bool
	pendingCfg  bool // a config change (or the start) has not been followed by a sync yet
	nreg        int
	db          = database.NewInterface(&database.Options{Local: true, Internal: true})
	preAnnotate = "preset"
)

func emit(ev map[string]any) {
	ev["h"] = h
	tr.Emit(ev)
}

func modName(i int) string {
	if i == 1 {
		return "base"
	}
	return "m" + strconv.Itoa(i)
}

func modNum(name string) int {
	if name == "base" {
		return 1
	}
	if strings.HasPrefix(name, "m") {
		if n, err := strconv.Atoi(name[1:]); err == nil {
			return n
		}
	}
	return 0
}

func subID(i int) string     { return "sub-" + strconv.Itoa(i) }
func optKey(i int) string    { return "sub" + strconv.Itoa(i) + "/enable" }
func keySpace(i int) string  { return "config:sub" + strconv.Itoa(i) + "/" }
func subNum(id string) int {
	if strings.HasPrefix(id, "sub-") {
		if n, err := strconv.Atoi(id[4:]); err == nil {
			return n
		}
	}
	return 0
}

// failure ids: "" = 0, "f<n>" = n, "<module>:start-failed" = 9, "<module>:stop-failed" = 8, anything else 99
func fidNum(id string) int {
	switch {
	case id == "":
		return 0
	case strings.HasSuffix(id, ":start-failed"):
		return 9
	case strings.HasSuffix(id, ":stop-failed"):
		return 8
	case strings.HasPrefix(id, "f"):
		if n, err := strconv.Atoi(id[1:]); err == nil {
			return n
		}
	}
	return 99
}

// failure messages: "" = 0, "msg-<n>" = n (n = 10 + failure id), "Failed to start module..." = 9
func msgNum(msg string) int {
	switch {
	case msg == "":
		return 0
	case strings.HasPrefix(msg, "Failed to start module"):
		return 9
	case strings.HasPrefix(msg, "Failed to stop module"):
		return 8
	case strings.HasPrefix(msg, "msg-"):
		if n, err := strconv.Atoi(msg[4:]); err == nil {
			return n
		}
	}
	return 99
}

func startFn(i int) func() error {
	return func() error {
		mu.Lock()
		fail := sf[i]
		mu.Unlock()
		for _, m := range sc.Slow {
			if m == i {
				time.Sleep(130 * time.Millisecond)
			}
		}
		if fail {
			return errors.New("injected start failure")
		}
		return nil
	}
}

// subscriber: created by the start routine of the driver's own module "probe" (depends on "runtime"; enabled by hand
// like the subsystems module itself), i.e. before the subsystem manager handles anything, and before anybody has
// read a subsystem record.
func probeStart() error {
	sub, err := db.Subscribe(query.New("runtime:subsystems/"))
	if err != nil {
		mu.Lock()
		subErr = err.Error()
		mu.Unlock()
		return nil
	}
	go func() {
		for r := range sub.Feed {
			id, ok := 0, false
			if s, isSub := r.(*subsystems.Subsystem); isSub {
				s.Lock()
				id = subNum(s.ID)
				ok = id > 0 && s.Key() == "runtime:subsystems/"+s.ID
				s.Unlock()
			}
			mu.Lock()
			if ok {
				pushed = append(pushed, id)
			} else {
				badPush++
			}
			mu.Unlock()
		}
	}()
	return nil
}

type modObs struct {
	En  bool `json:"en"`
	Dep bool `json:"dep"`
	St  int  `json:"st"`
	Fs  int  `json:"fs"`
	Fid int  `json:"fid"`
	Msg int  `json:"msg"`
}

type recMod struct {
	M   int  `json:"m"`
	En  bool `json:"en"`
	St  int  `json:"st"`
	Fs  int  `json:"fs"`
	Fid int  `json:"fid"`
	Msg int  `json:"msg"`
}

type recObs struct {
	ID  int      `json:"id"`
	Ord int      `json:"ord"` // ordinal of the register step that created it (from the Name it carries)
	Key bool     `json:"key"` // the record's key is runtime:subsystems/<ID>
	Tk  int      `json:"tk"`  // toggle option key: 0 none, 1 the option of that subsystem, 9 anything else
	Ks  bool     `json:"ks"`  // ConfigKeySpace as registered
	Fs  int      `json:"fs"`
	M   []recMod `json:"m"`
}

func observeMods() []modObs {
	out := make([]modObs, len(mods))
	for i, m := range mods {
		fs, fid, msg := m.FailureStatus()
		out[i] = modObs{En: m.Enabled(), Dep: m.EnabledAsDependency(), St: int(m.Status()), Fs: int(fs), Fid: fidNum(fid), Msg: msgNum(msg)}
	}
	return out
}

// busy reports whether the module system shows activity: a config change handler (a worker of the subsystems module, also
// while it sleeps through its debounce interval), a change notification worker of a module, a running control function.
func busy() bool {
	st := modules.GetStatus()
	if st == nil {
		return false
	}
	for name, ms := range st.Modules {
		if name != "subsystems" && modNum(name) == 0 {
			continue
		}
		if ms.Workers > 0 || ms.CtrlFuncRunning {
			return true
		}
	}
	return false
}

func mgmtFailed() bool {
	st := modules.GetStatus()
	if st == nil {
		return false
	}
	ms, ok := st.Modules["subsystems"]
	return ok && ms.FailureID == "modulemgmt-failed"
}

func readRec(r record.Record) recObs {
	s, ok := r.(*subsystems.Subsystem)
	if !ok {
		return recObs{ID: 0, M: []recMod{}}
	}
	s.Lock()
	defer s.Unlock()
	o := recObs{ID: subNum(s.ID), Fs: int(s.FailureStatus), M: []recMod{}}
	o.Key = s.Key() == "runtime:subsystems/"+s.ID
	if strings.HasPrefix(s.Name, "Name-") {
		o.Ord, _ = strconv.Atoi(s.Name[5:])
	}
	switch s.ToggleOptionKey {
	case "":
		o.Tk = 0
	case optKey(o.ID):
		o.Tk = 1
	default:
		o.Tk = 9
	}
	o.Ks = s.ConfigKeySpace == keySpace(o.ID)
	for _, ms := range s.Modules {
		o.M = append(o.M, recMod{M: modNum(ms.Name), En: ms.Enabled, St: int(ms.Status), Fs: int(ms.FailureStatus),
			Fid: fidNum(ms.FailureID), Msg: msgNum(ms.FailureMsg)})
	}
	return o
}

func observeDB() (recs []recObs, gets []bool, qerr string) {
	recs = []recObs{}
	it, err := db.Query(query.New("runtime:subsystems/"))
	if err != nil {
		qerr = err.Error()
	} else {
		for r := range it.Next {
			recs = append(recs, readRec(r))
		}
		if it.Err() != nil {
			qerr = it.Err().Error()
		}
	}
	gets = make([]bool, maxSubs)
	for i := 1; i <= maxSubs; i++ {
		r, err := db.Get("runtime:subsystems/" + subID(i))
		if err == nil {
			o := readRec(r)
			gets[i-1] = o.ID == i
		}
	}
	return
}

// annotation of the extra options: 0 none, i = subsystem i, 9 the pre-set value, 99 anything else
func annNum(key string) int {
	opt, err := config.GetOption(key)
	if err != nil {
		return 99
	}
	v, _ := opt.GetAnnotation(config.SubsystemAnnotation)
	switch s := v.(type) {
	case nil:
		return 0
	case string:
		if s == preAnnotate {
			return 9
		}
		if n := subNum(s); n > 0 {
			return n
		}
	}
	return 99
}

func js(v any) string {
	b, _ := json.Marshal(v)
	return string(b)
}

// sync waits until the module system has shown no activity (busy) and no change of a module state for the quiet interval,
// then observes everything once, looks again a moment later (a difference means: not quiet yet) and writes the observation.
func doSync() {
	quiet := time.Duration(sc.QuietMs) * time.Millisecond
	deadline := time.Now().Add(60 * time.Second)
	for {
		last := js(observeMods()) + fmt.Sprint(mgmtFailed())
		since := time.Now()
		for time.Since(since) < quiet && time.Now().Before(deadline) {
			time.Sleep(4 * time.Millisecond)
			cur := js(observeMods()) + fmt.Sprint(mgmtFailed())
			if cur != last || busy() {
				last = cur
				since = time.Now()
			}
		}
		recs, gets, qerr := observeDB()
		time.Sleep(quiet / 8)
		recs2, gets2, _ := observeDB()
		mo := observeMods()
		mg := mgmtFailed()
		if time.Now().Before(deadline) && (busy() || js(mo)+fmt.Sprint(mg) != last || js(recs) != js(recs2) || js(gets) != js(gets2)) {
			continue
		}
		mu.Lock()
		p := append([]int{}, pushed...)
		pushed = pushed[:0]
		bp := badPush
		badPush = 0
		se := subErr
		mu.Unlock()
		in := make([]int, maxSubs)
		pre := make([]int, maxSubs)
		tog := make([]int, maxSubs)
		for i := 1; i <= maxSubs; i++ {
			in[i-1] = annNum("sub" + strconv.Itoa(i) + "/x")
			pre[i-1] = annNum("sub" + strconv.Itoa(i) + "/y")
			if _, err := config.GetOption(optKey(i)); err == nil {
				tog[i-1] = annNum(optKey(i))
			}
		}
		ev := map[string]any{"e": "sync", "mods": mo, "recs": recs2, "gets": gets2, "pushed": p, "badpush": bp, "mg": mg,
			"ann": map[string]any{"in": in, "pre": pre, "tog": tog, "out": annNum("other/x")}}
		if qerr != "" {
			ev["qerr"] = qerr
		}
		if se != "" {
			ev["suberr"] = se
		}
		emit(ev)
		pendingCfg = false
		return
	}
}

func newOption(id int, def bool) *config.Option {
	return &config.Option{
		Name:         "Enable subsystem " + strconv.Itoa(id),
		Key:          optKey(id),
		Description:  "toggle of subsystem " + strconv.Itoa(id),
		OptType:      config.OptTypeBool,
		DefaultValue: def,
	}
}

func plainOption(key string, ann string) {
	o := &config.Option{Name: key, Key: key, Description: "extra option " + key, OptType: config.OptTypeBool, DefaultValue: false}
	if ann != "" {
		o.Annotations = config.Annotations{config.SubsystemAnnotation: ann}
	}
	if err := config.Register(o); err != nil {
		fmt.Fprintln(os.Stderr, "config.Register:", err)
		os.Exit(3)
	}
}

func main() {
	if len(os.Args) < 3 {
		fmt.Fprintln(os.Stderr, "usage: subsys <scripts> <trace> [skip]")
		os.Exit(2)
	}
	skip := 0
	if len(os.Args) > 3 {
		skip, _ = strconv.Atoi(os.Args[3])
	}
	h = skip
	n := 0
	found := false
	err := vio.ReadLines(os.Args[1], func(line []byte) error {
		if n == skip {
			found = true
			if err := json.Unmarshal(line, &sc); err != nil {
				return err
			}
		}
		n++
		return nil
	})
	if err != nil || !found {
		fmt.Fprintln(os.Stderr, "cannot read script:", err)
		os.Exit(2)
	}
	tr, err = vio.NewTrace(os.Args[2])
	if err != nil {
		fmt.Fprintln(os.Stderr, err)
		os.Exit(2)
	}
	if sc.QuietMs <= 0 {
		sc.QuietMs = 100
	}
	dir, err := os.MkdirTemp("", "verif-subsys-")
	if err != nil {
		fmt.Fprintln(os.Stderr, err)
		os.Exit(2)
	}
	finish := func(code int) {
		tr.Close()
		os.RemoveAll(dir)
		os.Exit(code)
	}
	os.Args = os.Args[:1] // modules.Start parses the command line
	log.SetLogLevel(log.CriticalLevel)
	modules.SetStdErrReporting(false)
	if err := dataroot.Initialize(dir, 0o755); err != nil {
		fmt.Fprintln(os.Stderr, "dataroot:", err)
		finish(2)
	}

	deps := make([][]int, sc.N)
	for i := range deps {
		deps[i] = []int{}
		if i < len(sc.Deps) && sc.Deps[i] != nil {
			deps[i] = sc.Deps[i]
		}
	}
	emit(map[string]any{"e": "init", "n": sc.N, "deps": deps})
	for i := 1; i <= sc.N; i++ {
		var dn []string
		for _, d := range deps[i-1] {
			dn = append(dn, modName(d))
		}
		mods = append(mods, modules.Register(modName(i), nil, startFn(i), nil, dn...))
	}
	probe := modules.Register("probe", nil, probeStart, nil, "runtime")
	probe.Enable()
	// extra options inside and outside of the subsystems' config key spaces (annotation by Manager.Start)
	for i := 1; i <= maxSubs; i++ {
		plainOption("sub"+strconv.Itoa(i)+"/x", "")
		plainOption("sub"+strconv.Itoa(i)+"/y", preAnnotate)
	}
	plainOption("other/x", "")

	died := false
	for _, st := range sc.Steps {
		if died {
			break
		}
		if st.Op != "sync" && st.Op != "set" && st.Op != "wait" && pendingCfg {
			// module level steps are made in a quiet system only
			doSync()
		}
		switch st.Op {
		case "register":
			nreg++
			var opt *config.Option
			if st.K != 0 {
				opt = newOption(st.ID, st.Def)
			}
			res := "ok"
			if st.M < 1 || st.M > sc.N {
				res = "skipped"
			} else {
				emit(map[string]any{"e": "try", "op": st})
				tr.Flush()
				err := subsystems.DefaultManager.Register(subID(st.ID), "Name-"+strconv.Itoa(nreg), "subsystem "+strconv.Itoa(st.ID),
					mods[st.M-1], keySpace(st.ID), opt)
				switch {
				case err == nil:
				case errors.Is(err, subsystems.ErrManagerStarted):
					res = "started"
				case errors.Is(err, subsystems.ErrDuplicateSubsystem):
					res = "dup"
				default:
					res = "err"
				}
			}
			emit(map[string]any{"e": "op", "op": st, "res": res, "ord": nreg})
		case "start":
			if started {
				continue
			}
			emit(map[string]any{"e": "try", "op": st})
			tr.Flush()
			if err := modules.Start(); err != nil {
				emit(map[string]any{"e": "setup-failed", "what": "modules.Start: " + err.Error()})
				died = true
				break
			}
			started = true
			pendingCfg = true
			emit(map[string]any{"e": "op", "op": st, "res": "ok", "ord": 0})
		case "set":
			if !started {
				continue
			}
			var v any
			switch st.V {
			case "T":
				v = true
			case "F":
				v = false
			}
			res := "ok"
			if err := config.SetConfigOption(optKey(st.ID), v); err != nil {
				res = "err"
			}
			pendingCfg = true
			emit(map[string]any{"e": "op", "op": st, "res": res, "ord": 0})
		case "fail":
			if st.M < 1 || st.M > sc.N {
				continue
			}
			// a failure id stands for one title and message (doc of Module.Error)
			code := 10 + st.Fid
			id, msg := "f"+strconv.Itoa(st.Fid), "msg-"+strconv.Itoa(code)
			switch st.Lvl {
			case 1:
				mods[st.M-1].Hint(id, "title", msg)
			case 2:
				mods[st.M-1].Warning(id, "title", msg)
			default:
				mods[st.M-1].Error(id, "title", msg)
			}
			emit(map[string]any{"e": "op", "op": st, "res": "ok", "ord": code})
		case "resolve":
			if st.M < 1 || st.M > sc.N {
				continue
			}
			id := ""
			if st.Fid != 0 {
				id = "f" + strconv.Itoa(st.Fid)
			}
			mods[st.M-1].Resolve(id)
			emit(map[string]any{"e": "op", "op": st, "res": "ok", "ord": 0})
		case "sfail":
			mu.Lock()
			sf[st.M] = st.V == "T"
			mu.Unlock()
			emit(map[string]any{"e": "op", "op": st, "res": "ok", "ord": 0})
		case "wait":
			if !started {
				continue
			}
			time.Sleep(time.Duration(st.K) * time.Millisecond)
			emit(map[string]any{"e": "op", "op": st, "res": "ok", "ord": 0})
		case "sync":
			if started {
				doSync()
			}
		}
		tr.Flush()
	}
	if started && !died {
		doSync() // every script ends with an observation
	}
	tr.Flush()
	if started {
		done := make(chan struct{})
		go func() {
			_ = modules.Shutdown()
			close(done)
		}()
		select {
		case <-done:
		case <-time.After(20 * time.Second):
			emit(map[string]any{"e": "hang", "what": "shutdown"})
		}
	}
	finish(0)
}
