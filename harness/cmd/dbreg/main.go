// Command dbreg executes operation histories generated from spec/DbRegGen.tla against the real database
// registry, controller life cycle, maintenance entry points and migration runner (packages database,
// database/dbmodule, database/migration) and records what the code did (extension check X06).
//
// usage: dbreg <scripts.ndjson> <trace.ndjson> [skip]
//
// Package database keeps its state in package variables, so every process lifetime of a history (operation
// "proc") is a child process of this driver (dbreg -child <dir> <persist> <module>) working on the data
// directory of the history; the parent sends one operation per line and reads one observation per line.
// The storages behind the databases are recording wrappers around the real hashmap (volatile) and fstree
// (persistent) storages, registered under the storage types of the model.
package main

import (
	"bufio"
	"bytes"
	"context"
	"encoding/json"
	"errors"
	"fmt"
	"io"
	"os"
	"os/exec"
	"path/filepath"
	"sort"
	"strconv"
	"strings"
	"sync"
	"sync/atomic"
	"time"

	"github.com/hashicorp/go-version"

	"github.com/safing/portbase/database"
	_ "github.com/safing/portbase/database/dbmodule"
	"github.com/safing/portbase/database/iterator"
	"github.com/safing/portbase/database/migration"
	"github.com/safing/portbase/database/query"
	"github.com/safing/portbase/database/record"
	"github.com/safing/portbase/database/storage"
	"github.com/safing/portbase/database/storage/fstree"
	"github.com/safing/portbase/database/storage/hashmap"
	"github.com/safing/portbase/dataroot"
	"github.com/safing/portbase/log"
	"github.com/safing/portbase/modules"
	"github.com/safing/portbase/utils"

	"verifharness/internal/vio"
)

// ------------------------------------------------------------------ scripts and observations

type mig struct {
	ID  int `json:"id"`
	Ver int `json:"ver"`
	Sp  int `json:"sp"`
}

type op struct {
	Op     string   `json:"op"`
	N      string   `json:"n"`
	T      string   `json:"t"`
	D      int      `json:"d"`
	S      bool     `json:"s"`
	Cap    bool     `json:"cap"`
	Per    bool     `json:"per"`
	Mod    bool     `json:"mod"`
	W      string   `json:"w"`
	Batch  []mig    `json:"batch"`
	Fails  []int    `json:"fails"`
	Vetoes []int    `json:"vetoes"`
	Fll    []string `json:"fll"`
	Tie    []int    `json:"tie"`
	Par    []sub    `json:"par"`
}

// sub is one of the operations of a race.
type sub struct {
	Op  string `json:"op"`
	N   string `json:"n"`
	T   string `json:"t"`
	D   int    `json:"d"`
	S   bool   `json:"s"`
	Cap bool   `json:"cap"`
}

type script struct {
	Focus string `json:"focus,omitempty"`
	Steps []op   `json:"steps"`
}

type robj struct {
	Some bool   `json:"some"`
	T    string `json:"t"`
	D    int    `json:"d"`
	S    bool   `json:"s"`
	LL   bool   `json:"ll"`
}

type callEv struct {
	N  string `json:"n"`
	Ev string `json:"ev"`
	X  string `json:"x"`
}

type run struct {
	ID   int `json:"id"`
	From int `json:"from"`
	To   int `json:"to"`
}

type diag struct {
	Failed int   `json:"failed"`
	Wid    int   `json:"wid"`
	Start  int   `json:"start"`
	Lastok int   `json:"lastok"`
	Target int   `json:"target"`
	Plan   []int `json:"plan"`
}

type res struct {
	Err   string   `json:"err"`
	Robj  robj     `json:"robj"`
	Calls []callEv `json:"calls"`
	IO    int      `json:"io"`
	Runs  []run    `json:"runs"`
	Diag  diag     `json:"diag"`
	SV    int      `json:"sv"`
	Errs  []string `json:"errs"`
	Text  string   `json:"text,omitempty"`
	Panic string   `json:"panic,omitempty"`
}

func emptyRes() res {
	return res{Calls: []callEv{}, Runs: []run{}, Diag: diag{Plan: []int{}}, SV: -1, Errs: []string{}}
}

type fileEntry struct {
	N  string `json:"n"`
	T  string `json:"t"`
	D  int    `json:"d"`
	S  bool   `json:"s"`
	LL bool   `json:"ll"`
}

// ------------------------------------------------------------------ symbolic <-> concrete

// versions 1..6 in semver order; every version has three spellings (index sp)
var canon = []string{"", "0.2.0-rc.1", "0.2.0", "0.9.0", "0.10.0-beta", "0.10.0", "1.0.0"}

var spellings = [][]string{
	{"", "not-a-version", "1.2.x"}, // 0: not a semantic version
	{"0.2.0-rc.1", "v0.2.0-rc.1", "0.2.0-rc.1+build.5"},
	{"0.2.0", "v0.2.0", "0.2"},
	{"0.9.0", "v0.9.0", "0.9"},
	{"0.10.0-beta", "v0.10.0-beta", "0.10-beta+exp.sha.5114f85"},
	{"0.10.0", "v0.10.0", "0.10"},
	{"1.0.0", "v1.0.0", "1"},
}

func verText(v, sp int) string {
	if v < 0 || v >= len(spellings) {
		return "999.0.0"
	}
	return spellings[v][((sp%3)+3)%3]
}

// verSym maps a version string of the library back to the model (0: none, 99: not a version of the table).
func verSym(s string) int {
	if s == "" {
		return 0
	}
	v, err := version.NewSemver(s)
	if err != nil {
		return 99
	}
	for i := 1; i < len(canon); i++ {
		c, _ := version.NewSemver(canon[i])
		if c.Equal(v) {
			return i
		}
	}
	return 99
}

func descText(d int) string { return "desc" + strconv.Itoa(d) }

func descSym(s string) int {
	if strings.HasPrefix(s, "desc") {
		if n, err := strconv.Atoi(s[4:]); err == nil {
			return n
		}
	}
	return 99
}

// readRegistryFile returns the content of databases.json as the model sees it (nil: unreadable).
func readRegistryFile(dir string) []fileEntry {
	p := filepath.Join(dir, "databases.json")
	var last []fileEntry
	// the file is rewritten in place by the library: a torn read is retried
	for try := 0; try < 40; try++ {
		data, err := os.ReadFile(p)
		if err != nil {
			if errors.Is(err, os.ErrNotExist) {
				return []fileEntry{}
			}
			time.Sleep(2 * time.Millisecond)
			continue
		}
		var m map[string]*database.Database
		if err := json.Unmarshal(data, &m); err != nil {
			last = []fileEntry{{N: "?unparsable", T: err.Error()}}
			time.Sleep(2 * time.Millisecond)
			continue
		}
		out := make([]fileEntry, 0, len(m))
		for k, d := range m {
			if d == nil {
				out = append(out, fileEntry{N: k, T: "?null"})
				continue
			}
			n := d.Name
			if n != k {
				n = "?key-differs:" + k + "/" + d.Name
			}
			out = append(out, fileEntry{N: n, T: d.StorageType, D: descSym(d.Description), S: d.ShadowDelete, LL: !d.LastLoaded.IsZero()})
		}
		sort.Slice(out, func(i, j int) bool { return out[i].N < out[j].N })
		return out
	}
	if last == nil {
		last = []fileEntry{{N: "?unreadable"}}
	}
	return last
}

// ================================================================== parent

type child struct {
	cmd    *exec.Cmd
	in     io.WriteCloser
	out    *bufio.Reader
	outF   *os.File
	stderr *bytes.Buffer
	dead   bool
}

func spawn(dir string, per, mod bool) (*child, error) {
	self, err := os.Executable()
	if err != nil {
		return nil, err
	}
	pr, pw, err := os.Pipe()
	if err != nil {
		return nil, err
	}
	cmd := exec.Command(self, "-child", dir, strconv.FormatBool(per), strconv.FormatBool(mod))
	cmd.ExtraFiles = []*os.File{pw}
	eb := &bytes.Buffer{}
	cmd.Stderr = &capWriter{buf: eb, max: 8000}
	in, err := cmd.StdinPipe()
	if err != nil {
		return nil, err
	}
	if err := cmd.Start(); err != nil {
		return nil, err
	}
	pw.Close()
	return &child{cmd: cmd, in: in, out: bufio.NewReaderSize(pr, 1<<16), outF: pr, stderr: eb}, nil
}

type capWriter struct {
	mu  sync.Mutex
	buf *bytes.Buffer
	max int
}

func (c *capWriter) Write(p []byte) (int, error) {
	c.mu.Lock()
	defer c.mu.Unlock()
	if c.buf.Len() < c.max {
		c.buf.Write(p)
	}
	return len(p), nil
}

func (c *child) call(o op) (res, error) {
	b, _ := json.Marshal(o)
	if _, err := c.in.Write(append(b, '\n')); err != nil {
		return res{}, fmt.Errorf("child gone: %w", err)
	}
	type answer struct {
		line []byte
		err  error
	}
	ch := make(chan answer, 1)
	go func() {
		line, err := c.out.ReadBytes('\n')
		ch <- answer{line, err}
	}()
	select {
	case a := <-ch:
		if a.err != nil {
			return res{}, fmt.Errorf("child died: %w", a.err)
		}
		var r res
		if err := json.Unmarshal(a.line, &r); err != nil {
			return res{}, fmt.Errorf("bad answer: %w", err)
		}
		return r, nil
	case <-time.After(30 * time.Second):
		_ = c.cmd.Process.Kill()
		return res{}, errors.New("child does not answer (30s)")
	}
}

func (c *child) close() {
	if c == nil {
		return
	}
	c.in.Close()
	done := make(chan struct{})
	go func() { _ = c.cmd.Wait(); close(done) }()
	select {
	case <-done:
	case <-time.After(10 * time.Second):
		_ = c.cmd.Process.Kill()
		<-done
	}
	c.outF.Close()
}

func runScript(tr *vio.Trace, h int, sc script) {
	dir, err := os.MkdirTemp("", "dbreg-")
	if err != nil {
		tr.EmitRaw(map[string]any{"e": "setup-failed", "h": h, "why": err.Error()})
		return
	}
	defer os.RemoveAll(dir)
	tr.EmitRaw(map[string]any{"e": "new", "h": h, "versions": canon})
	var ch *child
	defer func() { ch.close() }()
	persist := false
	for _, o := range sc.Steps {
		if o.Batch == nil {
			o.Batch = []mig{}
		}
		if o.Fails == nil {
			o.Fails = []int{}
		}
		if o.Vetoes == nil {
			o.Vetoes = []int{}
		}
		o.Fll = []string{}
		o.Tie = []int{}
		if o.Par == nil {
			o.Par = []sub{}
		}
		var r res
		switch {
		case o.Op == "proc":
			ch.close()
			ch = nil
			c, err := spawn(dir, o.Per, o.Mod)
			if err != nil {
				tr.EmitRaw(map[string]any{"e": "setup-failed", "h": h, "why": err.Error()})
				return
			}
			ch = c
			persist = o.Per
			r = emptyRes()
			r.Err = "ok"
		case ch == nil:
			r = emptyRes()
			r.Err = "noproc"
		default:
			if o.Op == "init" && persist {
				// the LastLoaded flags of the registry file the process is about to load
				for _, e := range readRegistryFile(dir) {
					if e.LL {
						o.Fll = append(o.Fll, e.N)
					}
				}
			}
			tr.EmitRaw(map[string]any{"e": "try", "h": h, "op": o})
			tr.Flush()
			var err error
			r, err = ch.call(o)
			if err != nil {
				ch.close()
				r = emptyRes()
				r.Err = "crash"
				r.Panic = err.Error() + ": " + firstLines(ch.stderr.String(), 14)
				ch = nil
				tr.EmitRaw(map[string]any{"e": "op", "h": h, "op": o, "res": r, "file": readRegistryFile(dir)})
				return
			}
		}
		tr.EmitRaw(map[string]any{"e": "op", "h": h, "op": o, "res": r, "file": readRegistryFile(dir)})
	}
}

func firstLines(s string, n int) string {
	l := strings.Split(s, "\n")
	if len(l) > n {
		l = l[:n]
	}
	return strings.Join(l, " | ")
}

func main() {
	if len(os.Args) >= 2 && os.Args[1] == "-child" {
		childMain()
		return
	}
	if len(os.Args) < 3 {
		fmt.Fprintln(os.Stderr, "usage: dbreg <scripts.ndjson> <trace.ndjson> [skip]")
		os.Exit(2)
	}
	skip := 0
	if len(os.Args) > 3 {
		skip, _ = strconv.Atoi(os.Args[3])
	}
	var scripts []script
	err := vio.ReadLines(os.Args[1], func(line []byte) error {
		var s script
		if err := json.Unmarshal(line, &s); err != nil {
			return err
		}
		scripts = append(scripts, s)
		return nil
	})
	if err != nil {
		fmt.Fprintln(os.Stderr, err)
		os.Exit(2)
	}
	tr, err := vio.NewTrace(os.Args[2])
	if err != nil {
		fmt.Fprintln(os.Stderr, err)
		os.Exit(2)
	}
	for i := skip; i < len(scripts); i++ {
		runScript(tr, i, scripts[i])
		tr.Flush()
	}
	tr.Close()
}

// ================================================================== child: one process lifetime

var errBoom = errors.New("storage failure")
var errVeto = errors.New("storage refuses the write")

type world struct {
	mu      sync.Mutex
	dir     string
	mod     bool
	calls   []callEv
	io      int
	failing map[string]bool              // name/kind
	failPut map[string]bool              // name
	inner   map[string]storage.Interface // volatile data of injected storages, by name
	insts   map[string]*mock             // latest storage instance by name
	handles map[string]*database.Controller
	iface   *database.Interface
	reg     *migration.Registry
	stepErr map[int]error
	fails   map[int]bool
	vetoes  map[int]bool
	runs    []run
	droot   bool
}

var w *world

func (w *world) note(n, ev, x string) {
	w.mu.Lock()
	w.calls = append(w.calls, callEv{N: n, Ev: ev, X: x})
	w.mu.Unlock()
}

func (w *world) touched() {
	w.mu.Lock()
	w.io++
	w.mu.Unlock()
}

func (w *world) fails_(n, kind string) bool {
	w.mu.Lock()
	defer w.mu.Unlock()
	return w.failing[n+"/"+kind]
}

// mock is a recording wrapper around a real storage.
type mock struct {
	name     string
	injected bool
	inner    storage.Interface
}

func (m *mock) Get(key string) (record.Record, error) {
	w.touched()
	return m.inner.Get(key)
}

func (m *mock) Put(r record.Record) (record.Record, error) {
	w.touched()
	w.mu.Lock()
	veto := w.failPut[m.name]
	w.mu.Unlock()
	if veto {
		return nil, errVeto
	}
	return m.inner.Put(r)
}

func (m *mock) Delete(key string) error {
	w.touched()
	return m.inner.Delete(key)
}

func (m *mock) Query(q *query.Query, local, internal bool) (*iterator.Iterator, error) {
	w.touched()
	return m.inner.Query(q, local, internal)
}

func (m *mock) ReadOnly() bool { return false }
func (m *mock) Injected() bool { return m.injected }

func (m *mock) Shutdown() error {
	w.note(m.name, "shutdown", "")
	if w.fails_(m.name, "shutdown") {
		return errBoom
	}
	return m.inner.Shutdown()
}

func (m *mock) MaintainRecordStates(ctx context.Context, purgeDeletedBefore time.Time, shadowDelete bool) error {
	x := "sd0"
	if shadowDelete {
		x = "sd1"
	}
	w.note(m.name, "records", x)
	if w.fails_(m.name, "records") {
		return errBoom
	}
	return m.inner.MaintainRecordStates(ctx, purgeDeletedBefore, shadowDelete)
}

// mockM additionally implements storage.Maintainer.
type mockM struct{ *mock }

func (m *mockM) Maintain(ctx context.Context) error {
	w.note(m.name, "maintain", "")
	if w.fails_(m.name, "maintain") {
		return errBoom
	}
	return nil
}

func (m *mockM) MaintainThorough(ctx context.Context) error {
	w.note(m.name, "thorough", "")
	if w.fails_(m.name, "thorough") {
		return errBoom
	}
	return nil
}

func factory(typ string, capable, persistent bool) storage.Factory {
	return func(name, location string) (storage.Interface, error) {
		x := typ
		if location != filepath.Join(w.dir, "databases", name, typ) {
			x = "badloc:" + location
		}
		w.note(name, "start", x)
		if typ == "nostart" {
			return nil, errors.New("this storage cannot be started")
		}
		var inner storage.Interface
		var err error
		if persistent {
			inner, err = fstree.NewFSTree(name, location)
		} else {
			inner, err = hashmap.NewHashMap(name, location)
		}
		if err != nil {
			return nil, err
		}
		m := &mock{name: name, inner: inner}
		w.mu.Lock()
		w.insts[name] = m
		w.mu.Unlock()
		if capable {
			return &mockM{m}, nil
		}
		return m, nil
	}
}

func classify(err error) string {
	var d *migration.Diagnostics
	switch {
	case err == nil:
		return "ok"
	case errors.As(err, &d):
		return "diag"
	case errors.Is(err, database.ErrShuttingDown):
		return "shutdown"
	case errors.Is(err, errBoom):
		return "boom"
	default:
		return "err"
	}
}

func (w *world) migrateFunc(id int) migration.MigrateFunc {
	return func(ctx context.Context, from, to *version.Version, db *database.Interface) error {
		w.mu.Lock()
		defer w.mu.Unlock()
		w.failPut["core"] = false
		r := run{ID: id}
		if from != nil {
			r.From = verSym(from.String())
		}
		if to != nil {
			r.To = verSym(to.String())
		}
		w.runs = append(w.runs, r)
		if w.fails[id] {
			if id%2 == 0 {
				return fmt.Errorf("migration step %d: %w", id, w.stepErr[id])
			}
			return w.stepErr[id]
		}
		if w.vetoes[id] {
			w.failPut["core"] = true
		}
		return nil
	}
}

// storedVersion reads the version record straight from the storage of database core (-1: no storage).
func (w *world) storedVersion() int {
	w.mu.Lock()
	m := w.insts["core"]
	w.mu.Unlock()
	if m == nil {
		return -1
	}
	r, err := m.inner.Get("migration/ver")
	if err != nil {
		if errors.Is(err, storage.ErrNotFound) {
			return 0
		}
		return 98
	}
	wr, ok := r.(*record.Wrapper)
	if !ok {
		return 97
	}
	return verSym(string(wr.Data))
}

func (w *world) exec(o op) (r res) {
	r = emptyRes()
	w.mu.Lock()
	w.calls = nil
	w.io = 0
	w.runs = nil
	w.mu.Unlock()
	defer func() {
		if p := recover(); p != nil {
			r.Err = "panic"
			r.Panic = fmt.Sprint(p)
		}
		w.mu.Lock()
		r.Calls = append([]callEv{}, w.calls...)
		r.IO = w.io
		w.mu.Unlock()
	}()
	var err error
	switch o.Op {
	case "init":
		if w.mod {
			if !w.droot {
				w.droot = true
				if err = dataroot.Initialize(w.dir, 0o755); err != nil {
					break
				}
			}
			err = modules.Start()
		} else {
			err = database.Initialize(utils.NewDirStructure(w.dir, 0o755))
		}
	case "register":
		var got *database.Database
		got, err = database.Register(&database.Database{Name: o.N, Description: descText(o.D), StorageType: o.T, ShadowDelete: o.S})
		if got != nil {
			r.Robj = robj{Some: true, T: got.StorageType, D: descSym(got.Description), S: got.ShadowDelete, LL: !got.LastLoaded.IsZero()}
			if got.Name != o.N {
				r.Robj.T = "?other-name:" + got.Name
			}
		}
	case "use":
		_, err = w.iface.Get(o.N + ":some/key")
		if errors.Is(err, database.ErrNotFound) {
			err = nil
		}
	case "inject":
		err = w.inject(o.N, o.Cap)
	case "race":
		// all operations at the same time, each from its own goroutine; gated (w = "gate"): the first uses and
		// injections run up to the yield point in front of the controllers lock, then the registrations and the
		// shutdown run to completion, then the parked operations go on
		errs := make([]error, len(o.Par))
		panics := make([]string, len(o.Par))
		gated := o.W == "gate"
		var ready, done, early sync.WaitGroup
		start := make(chan struct{})
		var finished int32
		nEarly := 0
		runSub := func(i int, q sub) {
			defer func() {
				if p := recover(); p != nil {
					panics[i] = fmt.Sprint(p)
				}
			}()
			switch q.Op {
			case "use":
				_, e := w.iface.Get(q.N + ":some/key")
				if errors.Is(e, database.ErrNotFound) {
					e = nil
				}
				errs[i] = e
			case "inject":
				errs[i] = w.inject(q.N, q.Cap)
			case "register":
				_, errs[i] = database.Register(&database.Database{Name: q.N, Description: descText(q.D), StorageType: q.T, ShadowDelete: q.S})
			case "shutdown":
				if w.mod {
					errs[i] = modules.Shutdown()
				} else {
					errs[i] = database.Shutdown()
				}
			default:
				errs[i] = errors.New("unknown operation in a race")
			}
		}
		isEarly := func(q sub) bool { return gated && (q.Op == "use" || q.Op == "inject") }
		if gated {
			gate.arm()
		}
		for i := range o.Par {
			if isEarly(o.Par[i]) {
				nEarly++
				early.Add(1)
				go func(i int, q sub) {
					defer early.Done()
					defer atomic.AddInt32(&finished, 1)
					runSub(i, q)
				}(i, o.Par[i])
				continue
			}
			ready.Add(1)
			done.Add(1)
			go func(i int, q sub) {
				defer done.Done()
				ready.Done()
				<-start
				runSub(i, q)
			}(i, o.Par[i])
		}
		if gated {
			// every early operation is parked at the yield point or has returned
			deadline := time.Now().Add(2 * time.Second)
			for int(atomic.LoadInt32(&finished))+gate.parkedNow() < nEarly && time.Now().Before(deadline) {
				time.Sleep(20 * time.Microsecond)
			}
		}
		ready.Wait()
		close(start)
		done.Wait()
		if gated {
			gate.open()
		}
		early.Wait()
		for i := range o.Par {
			c := classify(errs[i])
			if panics[i] != "" {
				c = "panic"
				r.Panic += panics[i] + "; "
			}
			r.Errs = append(r.Errs, c)
		}
	case "withdraw":
		w.mu.Lock()
		c := w.handles[o.N]
		w.mu.Unlock()
		c.Withdraw() // a nil controller is a no-op
	case "fail":
		w.mu.Lock()
		w.failing[o.N+"/"+o.W] = true
		w.mu.Unlock()
	case "maintain":
		switch o.W {
		case "maintain":
			err = database.Maintain(context.Background())
		case "thorough":
			err = database.MaintainThorough(context.Background())
		default:
			err = database.MaintainRecordStates(context.Background())
		}
	case "shutdown":
		if w.mod {
			err = modules.Shutdown()
		} else {
			err = database.Shutdown()
		}
	case "madd":
		ms := make([]migration.Migration, 0, len(o.Batch))
		for _, b := range o.Batch {
			w.stepErr[b.ID] = fmt.Errorf("migration %d says no", b.ID)
			ms = append(ms, migration.Migration{Description: "m" + strconv.Itoa(b.ID), Version: verText(b.Ver, b.Sp), MigrateFunc: w.migrateFunc(b.ID)})
		}
		err = w.reg.Add(ms...)
	case "migrate":
		w.mu.Lock()
		w.fails = map[int]bool{}
		w.vetoes = map[int]bool{}
		for _, id := range o.Fails {
			w.fails[id] = true
		}
		for _, id := range o.Vetoes {
			w.vetoes[id] = true
		}
		w.mu.Unlock()
		err = w.reg.Migrate(context.Background())
		w.mu.Lock()
		w.failPut["core"] = false
		r.Runs = append([]run{}, w.runs...)
		w.mu.Unlock()
		var d *migration.Diagnostics
		if errors.As(err, &d) {
			r.Diag.Failed = descID(d.FailedMigration)
			r.Diag.Start = verSym(d.StartOfMigration)
			r.Diag.Lastok = verSym(d.LastSuccessfulMigration)
			r.Diag.Target = verSym(d.TargetVersion)
			for _, s := range d.ExecutionPlan {
				r.Diag.Plan = append(r.Diag.Plan, verSym(s.Version))
			}
			ids := make([]int, 0, len(w.stepErr))
			for id := range w.stepErr {
				ids = append(ids, id)
			}
			sort.Ints(ids)
			for _, id := range ids {
				if errors.Is(err, w.stepErr[id]) {
					r.Diag.Wid = id
					break
				}
			}
			if d.Wrapped != nil {
				_ = d.Error()
			}
		}
		r.SV = w.storedVersion()
	default:
		r.Err = "unknown-op"
		return r
	}
	r.Err = classify(err)
	if err != nil {
		r.Text = err.Error()
		if len(r.Text) > 300 {
			r.Text = r.Text[:300]
		}
	}
	return r
}

// gates parks goroutines at the yield points in front of the controllers lock (build tag verif).
type gates struct {
	mu      sync.Mutex
	on      bool
	parked  int
	release chan struct{}
}

var gate gates

func (g *gates) arm() {
	g.mu.Lock()
	g.on = true
	g.parked = 0
	g.release = make(chan struct{})
	g.mu.Unlock()
}

func (g *gates) open() {
	g.mu.Lock()
	g.on = false
	close(g.release)
	g.mu.Unlock()
}

func (g *gates) parkedNow() int {
	g.mu.Lock()
	defer g.mu.Unlock()
	return g.parked
}

func (g *gates) hook(point string) {
	if point != "getctl.beforeLock" && point != "inject.beforeLock" {
		return
	}
	g.mu.Lock()
	if !g.on {
		g.mu.Unlock()
		return
	}
	g.parked++
	rel := g.release
	g.mu.Unlock()
	<-rel
}

func (w *world) inject(name string, capable bool) error {
	w.mu.Lock()
	in := w.inner[name]
	if in == nil {
		in, _ = hashmap.NewHashMap(name, "")
		w.inner[name] = in
	}
	w.mu.Unlock()
	m := &mock{name: name, injected: true, inner: in}
	var st storage.Interface = m
	if capable {
		st = &mockM{m}
	}
	c, err := database.InjectDatabase(name, st)
	if err == nil {
		w.mu.Lock()
		w.handles[name] = c
		w.insts[name] = m
		w.mu.Unlock()
	}
	return err
}

func descID(s string) int {
	if s == "" {
		return 0
	}
	if strings.HasPrefix(s, "m") {
		if n, err := strconv.Atoi(s[1:]); err == nil {
			return n
		}
	}
	return 99
}

func childMain() {
	if len(os.Args) < 5 {
		os.Exit(2)
	}
	dir := os.Args[2]
	per, _ := strconv.ParseBool(os.Args[3])
	mod, _ := strconv.ParseBool(os.Args[4])
	os.Args = os.Args[:1] // the module system parses the command line
	out := os.NewFile(3, "answers")
	if out == nil {
		os.Exit(2)
	}
	w = &world{
		dir: dir, mod: mod,
		failing: map[string]bool{}, failPut: map[string]bool{}, inner: map[string]storage.Interface{},
		insts: map[string]*mock{}, handles: map[string]*database.Controller{},
		stepErr: map[int]error{}, fails: map[int]bool{}, vetoes: map[int]bool{},
	}
	log.SetLogLevel(log.CriticalLevel)
	modules.SetStdErrReporting(false)
	repCh := make(chan *modules.ModuleError, 1000)
	modules.SetErrorReportingChannel(repCh)
	go func() {
		for range repCh {
		}
	}()
	for _, f := range []struct {
		t       string
		cap, ps bool
	}{{"plain", false, false}, {"maint", true, false}, {"disk", true, true}, {"nostart", false, false}} {
		if err := storage.Register(f.t, factory(f.t, f.cap, f.ps)); err != nil {
			fmt.Fprintln(os.Stderr, "storage.Register:", err)
			os.Exit(2)
		}
	}
	database.VerifHook = gate.hook
	if per {
		database.EnableRegistryPersistence()
	}
	w.iface = database.NewInterface(&database.Options{Local: true, Internal: true})
	w.reg = migration.New("core:migration/ver")

	in := bufio.NewReaderSize(os.Stdin, 1<<16)
	bw := bufio.NewWriter(out)
	for {
		line, err := in.ReadBytes('\n')
		if len(bytes.TrimSpace(line)) > 0 {
			var o op
			var r res
			if jerr := json.Unmarshal(line, &o); jerr != nil {
				r = emptyRes()
				r.Err = "bad-op"
			} else {
				r = w.exec(o)
			}
			b, _ := json.Marshal(r)
			bw.Write(b)
			bw.WriteByte('\n')
			bw.Flush()
		}
		if err != nil {
			break
		}
	}
	// the process ends without any farewell: what is not on disk by now is lost
	os.Exit(0)
}
