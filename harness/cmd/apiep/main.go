// Command apiep executes endpoint histories generated from spec/ApiEpGen.tla against the real api
// package (extension check X07: RegisterEndpoint validation, the endpoint pipeline per function type,
// method rules, body handling, error mapping, BelongsTo, the listing, path parameters) and records what
// the package and the live HTTP server on loopback answered.  The judgement is made by TLC with
// spec/ApiEpTrace.tla.
//
// The process starts the real module system (api, config, database) on a temporary data root with
// module management switched on, so that the module the endpoints may belong to ("x07mod") can be taken
// online and offline.  One process serves many scripts; the endpoint registry of package api is global and
// has no unregister, therefore every history registers below its own path prefix "x07h<N>/".
//
// usage: apiep <scripts.ndjson> <trace.ndjson> [skip]
//
// Symbolic -> concrete mapping (the spec works on symbols):
//
//	path ids 1..8 are the templates of pathTpl below (index order = byte order of the strings), 0 is the
//	empty path, -1 a blank path, 9 a template with unbalanced braces; path segments 1..8 are segText;
//	parameter names 1..3 are x, y, rest; content types, Accept values, bodies and behaviours are the tables
//	below.  Behaviour, code and the header switches of a request travel in the query string and are read
//	by the endpoint function from ar.URL.
package main

import (
	"bufio"
	"bytes"
	"encoding/json"
	"errors"
	"fmt"
	"io"
	"mime"
	"net"
	"net/http"
	"net/url"
	"os"
	"reflect"
	"runtime"
	"sort"
	"strconv"
	"strings"
	"sync"
	"sync/atomic"
	"syscall"
	"time"

	"github.com/safing/portbase/api"
	_ "github.com/safing/portbase/database/dbmodule"
	"github.com/safing/portbase/database/record"
	"github.com/safing/portbase/dataroot"
	"github.com/safing/portbase/formats/dsd"
	"github.com/safing/portbase/modules"

	"verifharness/internal/vio"
)

// ------------------------------------------------------------------------------------------ script

type decl struct {
	P    int      `json:"p"`
	Fns  []string `json:"fns"`
	Rd   int      `json:"rd"`
	Wr   int      `json:"wr"`
	Rm   string   `json:"rm"`
	Wm   string   `json:"wm"`
	Mime string   `json:"mime"`
	Mod  int      `json:"mod"`
}

type reqT struct {
	M      string `json:"m"`
	Acrm   string `json:"acrm"`
	Segs   []int  `json:"segs"`
	Accept string `json:"accept"`
	Body   string `json:"body"`
	Beh    string `json:"beh"`
	Code   int    `json:"code"`
	Hdr    bool   `json:"hdr"`
	Ct     bool   `json:"ct"`
	Tp     int    `json:"tp"`
}

type op struct {
	Op  string `json:"op"`
	D   decl   `json:"d"`
	Q   reqT   `json:"q"`
	On  bool   `json:"on"`
	Via string `json:"via"`
	P   int    `json:"p"`
	Ds  []decl `json:"ds"`
}

type script struct {
	Steps []op `json:"steps"`
}

// ------------------------------------------------------------------------------------------ tables

var pathTpl = []string{"", "a", "a/b", "a/{x}", "b", "c/{x}", "c/{x}/d/{y}", "d/{x}/{y}", "e/{rest:.+}"}

var segText = []string{"", "a", "b", "c", "d", "e", "v1", "w-2", "x y"}

var varName = map[string]int{"x": 1, "y": 2, "rest": 3}

const (
	mimeDecl = "application/x-verif-decl"
	mimeFn   = "application/x-verif-fn"

	msgText   = "x07 message"
	errText   = "x07 failure"
	wrapText  = "x07 context: x07 failure"
	hbodyText = "x07 handler body"
	recKey    = "x07:records/one"

	bodyLimit = 20000000
)

var dataBytes = []byte("x07-data\x00\x01\xfe\xff end")

type structVal struct {
	A string
	B int
	C []string
}

var theStruct = structVal{A: "x07 struct", B: 7, C: []string{"p", "q"}}

var acceptText = map[string]string{
	"":        "",
	"json":    "application/json",
	"cbor":    "application/cbor",
	"msgpack": "application/msgpack",
	"yaml":    "application/yaml",
	"wild":    "*/*",
	"multi":   "text/html, application/cbor;q=0.9, */*;q=0.1",
	"bad":     "text/html",
}

func ctSym(h http.Header) string {
	v := h.Get("Content-Type")
	if v == "" {
		return "none"
	}
	mt, _, err := mime.ParseMediaType(v)
	if err != nil {
		return "other"
	}
	switch mt {
	case "text/plain":
		return "text"
	case "application/json":
		return "json"
	case "application/cbor":
		return "cbor"
	case "application/msgpack":
		return "msgpack"
	case "application/yaml":
		return "yaml"
	case mimeDecl:
		return "decl"
	case mimeFn:
		return "fn"
	}
	return "other"
}

func mimeSym(m string) string {
	switch m {
	case "":
		return "none"
	case "text/plain":
		return "text"
	case "application/json":
		return "json"
	case mimeDecl:
		return "decl"
	}
	return "other"
}

// ------------------------------------------------------------------------------------------ records

// x07Rec is the record returned by RecordFunc endpoints; it notes whether its lock is held while it is
// serialised.
type x07Rec struct {
	record.Base
	mu   sync.Mutex
	held int32
	seen int32 // 0 not marshalled, 1 marshalled with the lock held, 2 marshalled without the lock
	Msg  string
}

func (r *x07Rec) Lock()   { r.mu.Lock(); atomic.StoreInt32(&r.held, 1) }
func (r *x07Rec) Unlock() { atomic.StoreInt32(&r.held, 0); r.mu.Unlock() }

func (r *x07Rec) MarshalJSON() ([]byte, error) {
	if atomic.LoadInt32(&r.held) == 1 {
		atomic.CompareAndSwapInt32(&r.seen, 0, 1)
	} else {
		atomic.StoreInt32(&r.seen, 2)
	}
	return json.Marshal(struct{ Msg string }{r.Msg})
}

// ------------------------------------------------------------------------------------------ shared state

type varB struct {
	N int   `json:"n"`
	V []int `json:"v"`
}

type slotT struct {
	sync.Mutex
	inv     []int
	input   string
	rbody   string
	vars    []varB
	rec     *x07Rec
	created int64
}

var (
	slot     slotT
	sentBody []byte // body of the request in flight (requests are sequential)

	port    int
	baseURL string
	client  *http.Client
	x07mod  *modules.Module

	curPrefix string

	// the start routine of x07mod waits for releaseCh while holdStart is set
	holdStart int32
	releaseCh chan struct{}

	underBody []byte // a body just below the limit (built once)
)

func resetSlot() {
	slot.Lock()
	slot.inv, slot.input, slot.rbody, slot.vars, slot.rec, slot.created = []int{}, "na", "na", []varB{}, nil, 0
	slot.Unlock()
}

func inputSym(b []byte) string {
	switch {
	case len(b) == 0:
		return "empty"
	case bytes.Equal(b, sentBody):
		return "same"
	}
	return "other"
}

func segSym(s string) int {
	for i := 1; i < len(segText); i++ {
		if segText[i] == s {
			return i
		}
	}
	return 99
}

// enter is called first by every endpoint function: it notes the invocation and what the function sees.
func enter(ar *api.Request, p int) (beh string, code int) {
	q := ar.URL.Query()
	beh = q.Get("beh")
	code, _ = strconv.Atoi(q.Get("code"))
	vars := []varB{}
	for k, v := range ar.URLVars {
		if k == "endpointPath" { // variable of the route of the endpoint handler itself
			continue
		}
		n, ok := varName[k]
		if !ok {
			n = 9
		}
		segs := []int{}
		for _, s := range strings.Split(v, "/") {
			segs = append(segs, segSym(s))
		}
		vars = append(vars, varB{N: n, V: segs})
	}
	sort.Slice(vars, func(i, j int) bool { return vars[i].N < vars[j].N })
	slot.Lock()
	slot.inv = append(slot.inv, p)
	slot.input = inputSym(ar.InputData)
	slot.vars = vars
	slot.Unlock()
	if ar.ResponseHeader != nil {
		if q.Get("hdr") == "1" {
			ar.ResponseHeader.Set("X-Verif", "x07")
		}
		if q.Get("ct") == "1" {
			ar.ResponseHeader.Set("Content-Type", mimeFn)
		}
	}
	return beh, code
}

func behErr(beh string, code int) error {
	switch beh {
	case "err":
		return errors.New(errText)
	case "status":
		return api.ErrorWithStatus(errors.New(errText), code)
	case "wrap":
		return fmt.Errorf("x07 context: %w", api.ErrorWithStatus(errors.New(errText), code))
	}
	return nil
}

func actionFn(p int) api.ActionFunc {
	return func(ar *api.Request) (string, error) {
		beh, code := enter(ar, p)
		if err := behErr(beh, code); err != nil {
			return "", err
		}
		switch beh {
		case "nl":
			return msgText + "\n", nil
		case "empty", "nil":
			return "", nil
		}
		return msgText, nil
	}
}

func dataFn(p int) api.DataFunc {
	return func(ar *api.Request) ([]byte, error) {
		beh, code := enter(ar, p)
		if err := behErr(beh, code); err != nil {
			return nil, err
		}
		switch beh {
		case "empty":
			return []byte{}, nil
		case "nil":
			return nil, nil
		}
		return append([]byte{}, dataBytes...), nil
	}
}

func structFn(p int) api.StructFunc {
	return func(ar *api.Request) (interface{}, error) {
		beh, code := enter(ar, p)
		if err := behErr(beh, code); err != nil {
			return nil, err
		}
		if beh == "nil" {
			return nil, nil
		}
		v := theStruct
		return &v, nil
	}
}

func recordFn(p int) api.RecordFunc {
	return func(ar *api.Request) (record.Record, error) {
		beh, code := enter(ar, p)
		if err := behErr(beh, code); err != nil {
			return nil, err
		}
		if beh == "nil" {
			return nil, nil
		}
		r := &x07Rec{Msg: msgText}
		r.SetKey(recKey)
		r.UpdateMeta()
		slot.Lock()
		slot.rec = r
		slot.created = r.Meta().Created
		slot.Unlock()
		return r, nil
	}
}

func handlerFn(p int) http.HandlerFunc {
	return func(w http.ResponseWriter, r *http.Request) {
		ar := api.GetAPIRequest(r)
		if ar == nil {
			slot.Lock()
			slot.inv = append(slot.inv, p)
			slot.input = "other"
			slot.Unlock()
			return
		}
		beh, code := enter(ar, p)
		rb, err := io.ReadAll(r.Body)
		slot.Lock()
		if err != nil {
			slot.rbody = "other"
		} else {
			slot.rbody = inputSym(rb)
		}
		slot.Unlock()
		switch beh {
		case "empty", "nil":
			return
		case "nl":
			api.TextResponse(w, r, msgText)
			return
		case "err", "status", "wrap":
			w.WriteHeader(code)
		}
		_, _ = w.Write([]byte(hbodyText))
	}
}

// ------------------------------------------------------------------------------------------ setup

var portLock *os.File

func freePort() (int, error) {
	for try := 0; try < 200; try++ {
		// a port below the range the kernel hands out to ":0" listeners and outgoing connections, so that no other process
		// can be given it between this probe and the moment the api module binds it
		probe := 20000 + int((time.Now().UnixNano()/1000+int64(os.Getpid())*7919+int64(try)*104729)%10000)
		l, err := net.Listen("tcp", fmt.Sprintf("127.0.0.1:%d", probe))
		if err != nil {
			continue
		}
		p := l.Addr().(*net.TCPAddr).Port
		_ = l.Close()
		// the lock files are shared with cmd/apiauth: no two api drivers on one port
		f, err := os.OpenFile(fmt.Sprintf("%s/verif-apiauth-port-%d.lock", os.TempDir(), p), os.O_CREATE|os.O_RDWR, 0o600)
		if err != nil {
			return 0, err
		}
		if syscall.Flock(int(f.Fd()), syscall.LOCK_EX|syscall.LOCK_NB) != nil {
			_ = f.Close()
			continue
		}
		portLock = f
		return p, nil
	}
	return 0, errors.New("no free loopback port")
}

var cleanupDir string

func setup() error {
	// the tables must be in the byte order the model assumes for the listing
	for i := 2; i < len(pathTpl); i++ {
		if !(pathTpl[i-1] < pathTpl[i]) {
			return fmt.Errorf("path table is not sorted at %d", i)
		}
	}
	dir, err := os.MkdirTemp("", "verif-apiep-")
	if err != nil {
		return err
	}
	cleanupDir = dir
	if err := dataroot.Initialize(dir, 0o755); err != nil {
		return err
	}
	port, err = freePort()
	if err != nil {
		return err
	}
	api.SetDefaultAPIListenAddress(fmt.Sprintf("127.0.0.1:%d", port))
	baseURL = fmt.Sprintf("http://127.0.0.1:%d", port)
	probed := int32(0)
	if err := api.RegisterEndpoint(api.Endpoint{
		Path: "x07/selfcheck", Read: api.PermitAnyone,
		ActionFunc: func(*api.Request) (string, error) { atomic.StoreInt32(&probed, 1); return "mine", nil },
	}); err != nil {
		return err
	}
	modules.EnableModuleManagement(func(*modules.Module) {})
	keep := modules.Register("x07keep", nil, nil, nil, "api")
	keep.Enable()
	x07mod = modules.Register("x07mod", nil, func() error {
		if atomic.LoadInt32(&holdStart) == 1 {
			<-releaseCh
		}
		return nil
	}, nil)
	os.Args = []string{os.Args[0], "--log", "critical"}
	modules.SetStdErrReporting(false)
	if err := modules.Start(); err != nil {
		return err
	}
	client = &http.Client{
		Timeout: 30 * time.Second,
		Transport: &http.Transport{
			MaxIdleConns: 4, MaxIdleConnsPerHost: 4, IdleConnTimeout: 60 * time.Second, DisableCompression: true,
		},
		CheckRedirect: func(*http.Request, []*http.Request) error { return http.ErrUseLastResponse },
	}
	deadline := time.Now().Add(10 * time.Second)
	for {
		c, err := net.DialTimeout("tcp", fmt.Sprintf("127.0.0.1:%d", port), time.Second)
		if err == nil {
			_ = c.Close()
			break
		}
		if time.Now().After(deadline) {
			return fmt.Errorf("api server does not listen: %w", err)
		}
		time.Sleep(2 * time.Millisecond)
	}
	resp, err := client.Get(baseURL + "/api/v1/x07/selfcheck")
	if err != nil {
		return fmt.Errorf("self check: %w", err)
	}
	_ = resp.Body.Close()
	if atomic.LoadInt32(&probed) != 1 || resp.StatusCode != http.StatusOK {
		return fmt.Errorf("self check: port %d is served by another process (status %d)", port, resp.StatusCode)
	}
	if x07mod.Online() {
		return errors.New("x07mod is online although it is disabled")
	}
	return nil
}

func setModule(on bool) error {
	x07mod.SetEnabled(on)
	if err := modules.ManageModules(); err != nil {
		return err
	}
	deadline := time.Now().Add(5 * time.Second)
	for x07mod.Online() != on {
		if time.Now().After(deadline) {
			return fmt.Errorf("x07mod did not reach online=%v", on)
		}
		time.Sleep(200 * time.Microsecond)
	}
	return nil
}

// ------------------------------------------------------------------------------------------ operations

func pathOf(p int) string {
	switch {
	case p == 0:
		return ""
	case p == -1:
		return "   "
	case p == 9:
		return curPrefix + "f/{x"
	case p >= 1 && p < len(pathTpl):
		return curPrefix + pathTpl[p]
	}
	return curPrefix + "unknown"
}

func pathID(s string) int {
	if !strings.HasPrefix(s, curPrefix) {
		return 99
	}
	s = strings.TrimPrefix(s, curPrefix)
	for i := 1; i < len(pathTpl); i++ {
		if pathTpl[i] == s {
			return i
		}
	}
	if s == "f/{x" {
		return 9
	}
	return 99
}

func has(fns []string, k string) bool {
	for _, f := range fns {
		if f == k {
			return true
		}
	}
	return false
}

func endpointOf(d *decl) api.Endpoint {
	e := api.Endpoint{
		Name:        fmt.Sprintf("n%d", d.P),
		Description: "x07 endpoint",
		Path:        pathOf(d.P),
		Read:        api.Permission(d.Rd),
		Write:       api.Permission(d.Wr),
		ReadMethod:  d.Rm,
		WriteMethod: d.Wm,
	}
	if d.Mime == "decl" {
		e.MimeType = mimeDecl
	}
	if d.Mod == 1 {
		e.BelongsTo = x07mod
	}
	if has(d.Fns, "action") {
		e.ActionFunc = actionFn(d.P)
	}
	if has(d.Fns, "data") {
		e.DataFunc = dataFn(d.P)
	}
	if has(d.Fns, "struct") {
		e.StructFunc = structFn(d.P)
	}
	if has(d.Fns, "record") {
		e.RecordFunc = recordFn(d.P)
	}
	if has(d.Fns, "handler") {
		e.HandlerFunc = handlerFn(d.P)
	}
	return e
}

func regRes(err error) string {
	switch {
	case err == nil:
		return "ok"
	case errors.Is(err, api.ErrAlreadyRegistered):
		return "dup"
	case errors.Is(err, api.ErrInvalidEndpoint):
		return "invalid"
	}
	return "othererr"
}

func safeRegister(d *decl) (res string, pv string) {
	defer func() {
		if r := recover(); r != nil {
			res, pv = "panic", fmt.Sprint(r)
		}
	}()
	return regRes(api.RegisterEndpoint(endpointOf(d))), ""
}

type entry struct {
	P    int    `json:"p"`
	Rd   int    `json:"rd"`
	Wr   int    `json:"wr"`
	Rm   string `json:"rm"`
	Wm   string `json:"wm"`
	Mime string `json:"mime"`
	Nm   int    `json:"nm"`
}

// wire form of an exported endpoint (the JSON of the listing endpoint)
type wireEndpoint struct {
	Name        string
	Path        string
	MimeType    string
	Read        int
	ReadMethod  string
	Write       int
	WriteMethod string
}

func entryOf(path, name, mimeType string, rd, wr int, rm, wm string) entry {
	nm := 99
	if strings.HasPrefix(name, "n") {
		if v, err := strconv.Atoi(name[1:]); err == nil {
			nm = v
		}
	}
	return entry{P: pathID(path), Rd: rd, Wr: wr, Rm: rm, Wm: wm, Mime: mimeSym(mimeType), Nm: nm}
}

func nullEntry() entry { return entry{P: 0, Mime: "none"} }

type reqObs struct {
	St    int    `json:"st"`
	Ct    string `json:"ct"`
	Body  string `json:"body"`
	Inv   []int  `json:"inv"`
	Input string `json:"input"`
	Rbody string `json:"rbody"`
	Vars  []varB `json:"vars"`
	Xh    bool   `json:"xh"`
	Rl    string `json:"rl"`
	Err   string `json:"err"`
	Blen  int    `json:"blen"`
	URL   string `json:"url"`
	// diagnostics of a repeated round trip
	Retried string `json:"retried,omitempty"`
	Stacks  string `json:"stacks,omitempty"`
}

func midBody() []byte {
	b := make([]byte, 70000)
	for i := range b {
		b[i] = byte('a' + i%23)
	}
	return b
}

// overBody yields bodyLimit+1 bytes without holding them in memory.
type overBody struct{ left int }

func (o *overBody) Read(p []byte) (int, error) {
	if o.left == 0 {
		return 0, io.EOF
	}
	n := len(p)
	if n > o.left {
		n = o.left
	}
	for i := 0; i < n; i++ {
		p[i] = 'z'
	}
	o.left -= n
	return n, nil
}

func bodySym(q *reqT, ct string, b []byte) string {
	switch {
	case len(b) == 0:
		return "empty"
	case string(b) == msgText+"\n":
		return "msgnl"
	case string(b) == "\n":
		return "nlonly"
	case bytes.Equal(b, dataBytes):
		return "data"
	case string(b) == errText+"\n" && q.Beh != "wrap":
		return "errtext"
	case string(b) == wrapText+"\n" && q.Beh == "wrap":
		return "errtext"
	case string(b) == hbodyText:
		return "hbody"
	}
	// serialised values: decoded by the format the response names
	var format uint8
	switch ct {
	case "json", "decl", "fn":
		format = dsd.JSON
	case "cbor":
		format = dsd.CBOR
	case "msgpack":
		format = dsd.MsgPack
	case "yaml":
		format = dsd.YAML
	default:
		return "other"
	}
	if format == dsd.JSON {
		var rec struct {
			Msg  string
			Meta *struct {
				Key     string
				Created int64
			} `json:"_meta"`
		}
		if json.Unmarshal(b, &rec) == nil && rec.Msg == msgText {
			slot.Lock()
			created := slot.created
			slot.Unlock()
			if rec.Meta != nil && rec.Meta.Key == recKey && rec.Meta.Created == created && created != 0 {
				return "record"
			}
			return "recnometa"
		}
		var sv structVal
		if json.Unmarshal(b, &sv) == nil && reflect.DeepEqual(sv, theStruct) {
			return "struct"
		}
		return "other"
	}
	var sv structVal
	if err := dsd.LoadAsFormat(b, format, &sv); err == nil && reflect.DeepEqual(sv, theStruct) {
		return "struct"
	}
	return "other"
}

func requestURL(q *reqT) string {
	parts := make([]string, len(q.Segs))
	for i, s := range q.Segs {
		t := "zz"
		if s >= 1 && s < len(segText) {
			t = segText[s]
		}
		parts[i] = url.PathEscape(t)
	}
	v := url.Values{}
	v.Set("beh", q.Beh)
	v.Set("code", strconv.Itoa(q.Code))
	if q.Hdr {
		v.Set("hdr", "1")
	}
	if q.Ct {
		v.Set("ct", "1")
	}
	return "/api/v1/" + curPrefix + strings.Join(parts, "/") + "?" + v.Encode()
}

// rawDeclared sends a request that announces a body of n bytes and sends none of it: the server must
// answer from the headers alone.
func rawDeclared(q *reqT, target string, n int, o *reqObs) (http.Header, []byte) {
	c, err := net.DialTimeout("tcp", fmt.Sprintf("127.0.0.1:%d", port), 10*time.Second)
	if err != nil {
		o.Err = "dial: " + err.Error()
		return nil, nil
	}
	defer c.Close()
	_ = c.SetDeadline(time.Now().Add(30 * time.Second))
	var b strings.Builder
	fmt.Fprintf(&b, "%s %s HTTP/1.1\r\nHost: 127.0.0.1:%d\r\nContent-Length: %d\r\nContent-Type: application/octet-stream\r\nConnection: close\r\n", q.M, target, port, n)
	if a := acceptText[q.Accept]; a != "" {
		fmt.Fprintf(&b, "Accept: %s\r\n", a)
	}
	b.WriteString("\r\n")
	if _, err := c.Write([]byte(b.String())); err != nil {
		o.Err = "write: " + err.Error()
		return nil, nil
	}
	resp, err := http.ReadResponse(bufio.NewReader(c), &http.Request{Method: q.M})
	if err != nil {
		o.Err = "transport: no answer to the announced body: " + err.Error()
		return nil, nil
	}
	body, _ := io.ReadAll(io.LimitReader(resp.Body, 1<<20))
	_ = resp.Body.Close()
	o.St = resp.StatusCode
	return resp.Header, body
}

func doReqOnce(q *reqT) reqObs {
	o := reqObs{Inv: []int{}, Vars: []varB{}, Input: "na", Rbody: "na", Rl: "na", Ct: "none", Body: "empty"}
	resetSlot()
	target := requestURL(q)
	o.URL = target
	var hdr http.Header
	var body []byte
	sentBody = nil
	if q.Body == "overdecl" {
		hdr, body = rawDeclared(q, target, bodyLimit+1, &o)
	} else {
		var rd io.Reader
		chunked := false
		switch q.Body {
		case "small":
			sentBody = []byte("x07 request body")
			rd = bytes.NewReader(sentBody)
		case "mid":
			sentBody = midBody()
			rd = bytes.NewReader(sentBody)
		case "under":
			if underBody == nil {
				underBody = make([]byte, bodyLimit-1000000)
				for i := range underBody {
					underBody[i] = byte('A' + i%53)
				}
			}
			sentBody = underBody
			rd = bytes.NewReader(sentBody)
		case "chunksmall":
			sentBody = []byte("x07 chunked request body")
			rd = io.MultiReader(bytes.NewReader(sentBody)) // unknown length: sent chunked
			chunked = true
		case "overchunk":
			sentBody = []byte("-") // never equal to what a function could see of bodyLimit+1 bytes
			rd = &overBody{left: bodyLimit + 1}
			chunked = true
		}
		req, err := http.NewRequest(q.M, baseURL+target, rd)
		if err != nil {
			o.Err = "build: " + err.Error()
			return o
		}
		if chunked {
			req.ContentLength = -1
		}
		if rd != nil {
			req.Header.Set("Content-Type", "application/octet-stream")
		}
		if a := acceptText[q.Accept]; a != "" {
			req.Header.Set("Accept", a)
		}
		if q.Acrm != "" {
			req.Header.Set("Access-Control-Request-Method", q.Acrm)
		}
		resp, err := client.Do(req)
		if err != nil {
			o.Err = "transport: " + err.Error()
			return o
		}
		body, _ = io.ReadAll(io.LimitReader(resp.Body, 1<<22))
		_ = resp.Body.Close()
		o.St = resp.StatusCode
		hdr = resp.Header
	}
	if hdr == nil {
		return o
	}
	o.Ct = ctSym(hdr)
	o.Xh = hdr.Get("X-Verif") == "x07"
	o.Blen = len(body)
	slot.Lock()
	o.Inv, o.Input, o.Rbody, o.Vars = slot.inv, slot.input, slot.rbody, slot.vars
	rec := slot.rec
	slot.Unlock()
	o.Body = bodySym(q, o.Ct, body)
	if rec != nil {
		switch {
		case atomic.LoadInt32(&rec.held) == 1:
			o.Rl = "leaked"
		case atomic.LoadInt32(&rec.seen) == 1:
			o.Rl = "held"
		case atomic.LoadInt32(&rec.seen) == 2:
			o.Rl = "unheld"
		default:
			o.Rl = "unmarshalled"
		}
	}
	return o
}

// doReq makes the round trip.  A round trip that ends in a transport error (no answer within the client
// timeout, connection refused ...) is made a second time after the server has answered a probe: when the
// whole process was not scheduled for seconds (overloaded machine) the second attempt is answered, a
// request the server really does not answer fails again and is recorded with its error.
func doReq(q *reqT) reqObs {
	t0 := time.Now()
	o := doReqOnce(q)
	if o.Err == "" {
		return o
	}
	first := o.Err
	took := time.Since(t0)
	stacks := goroutineDump()
	probeOK := false
	if resp, err := client.Get(baseURL + "/api/v1/x07/selfcheck"); err == nil {
		_ = resp.Body.Close()
		probeOK = resp.StatusCode == http.StatusOK
	}
	o = doReqOnce(q)
	o.Retried = fmt.Sprintf("first attempt failed after %s: %s; probe ok=%v", took.Round(time.Millisecond), first, probeOK)
	o.Stacks = stacks
	return o
}

func goroutineDump() string {
	buf := make([]byte, 1<<20)
	n := runtime.Stack(buf, true)
	s := string(buf[:n])
	if len(s) > 20000 {
		s = s[:20000]
	}
	return s
}

type listObs struct {
	St      int     `json:"st"`
	Ct      string  `json:"ct"`
	Entries []entry `json:"entries"`
	Err     string  `json:"err"`
	Total   int     `json:"total"`
}

func doList(via string) listObs {
	o := listObs{Entries: []entry{}, Ct: "none"}
	if via == "export" {
		o.St, o.Ct = 200, "json"
		eps := api.ExportEndpoints()
		o.Total = len(eps)
		for _, e := range eps {
			if strings.HasPrefix(e.Path, curPrefix) {
				o.Entries = append(o.Entries, entryOf(e.Path, e.Name, e.MimeType, int(e.Read), int(e.Write), e.ReadMethod, e.WriteMethod))
			}
		}
		return o
	}
	resp, err := client.Get(baseURL + "/api/v1/endpoints")
	if err != nil {
		o.Err = "transport: " + err.Error()
		return o
	}
	body, _ := io.ReadAll(resp.Body)
	_ = resp.Body.Close()
	o.St, o.Ct = resp.StatusCode, ctSym(resp.Header)
	var eps []wireEndpoint
	if err := json.Unmarshal(body, &eps); err != nil {
		o.Err = "listing is not a JSON list of endpoints: " + err.Error()
		return o
	}
	o.Total = len(eps)
	for _, e := range eps {
		if strings.HasPrefix(e.Path, curPrefix) {
			o.Entries = append(o.Entries, entryOf(e.Path, e.Name, e.MimeType, e.Read, e.Write, e.ReadMethod, e.WriteMethod))
		}
	}
	return o
}

// ------------------------------------------------------------------------------------------ main

func run(tr *vio.Trace, n int, s *script) error {
	curPrefix = fmt.Sprintf("x07h%d/", n)
	if err := setModule(false); err != nil {
		return err
	}
	tr.EmitRaw(map[string]any{"e": "new", "h": n, "prefix": curPrefix})
	for _, st := range s.Steps {
		st := st
		switch st.Op {
		case "reg":
			tr.EmitRaw(map[string]any{"e": "try", "h": n, "op": st})
			tr.Flush()
			res, pv := safeRegister(&st.D)
			tr.EmitRaw(map[string]any{"e": "reg", "h": n, "d": st.D, "res": res, "panic": pv, "path": pathOf(st.D.P)})
		case "race":
			tr.EmitRaw(map[string]any{"e": "try", "h": n, "op": st})
			tr.Flush()
			errs := make([]string, len(st.Ds))
			var wg sync.WaitGroup
			var ready int32
			for i := range st.Ds {
				wg.Add(1)
				go func(i int) {
					defer wg.Done()
					atomic.AddInt32(&ready, 1)
					for atomic.LoadInt32(&ready) < int32(len(st.Ds)) {
					}
					errs[i], _ = safeRegister(&st.Ds[i])
				}(i)
			}
			wg.Wait()
			tr.EmitRaw(map[string]any{"e": "race", "h": n, "ds": st.Ds, "errs": errs})
		case "mod":
			if err := setModule(st.On); err != nil {
				return err
			}
			tr.EmitRaw(map[string]any{"e": "mod", "h": n, "on": st.On})
		case "req":
			tr.EmitRaw(map[string]any{"e": "try", "h": n, "op": st})
			tr.Flush()
			o := doReq(&st.Q)
			tr.EmitRaw(map[string]any{"e": "req", "h": n, "q": st.Q, "ob": o})
		case "reqstart":
			// the request arrives while the module is starting; the start routine returns 30 ms later
			tr.EmitRaw(map[string]any{"e": "try", "h": n, "op": st})
			tr.Flush()
			if !x07mod.Online() {
				releaseCh = make(chan struct{})
				atomic.StoreInt32(&holdStart, 1)
				x07mod.Enable()
				mgDone := make(chan error, 1)
				go func() { mgDone <- modules.ManageModules() }()
				deadline := time.Now().Add(5 * time.Second)
				for x07mod.Status() != modules.StatusStarting {
					if time.Now().After(deadline) {
						atomic.StoreInt32(&holdStart, 0)
						close(releaseCh)
						return errors.New("x07mod did not reach the starting state")
					}
					time.Sleep(100 * time.Microsecond)
				}
				go func(ch chan struct{}) {
					time.Sleep(30 * time.Millisecond)
					atomic.StoreInt32(&holdStart, 0)
					close(ch)
				}(releaseCh)
				o := doReq(&st.Q)
				select {
				case <-mgDone:
				case <-time.After(20 * time.Second):
					return errors.New("ManageModules did not return after the start was released")
				}
				if err := setModule(true); err != nil {
					return err
				}
				tr.EmitRaw(map[string]any{"e": "reqstart", "h": n, "q": st.Q, "ob": o})
			} else {
				o := doReq(&st.Q)
				tr.EmitRaw(map[string]any{"e": "reqstart", "h": n, "q": st.Q, "ob": o})
			}
		case "list":
			o := doList(st.Via)
			tr.EmitRaw(map[string]any{"e": "list", "h": n, "via": st.Via, "ob": o})
		case "bypath":
			e, err := api.GetEndpointByPath(pathOf(st.P))
			ent := nullEntry()
			if err == nil && e != nil {
				ent = entryOf(e.Path, e.Name, e.MimeType, int(e.Read), int(e.Write), e.ReadMethod, e.WriteMethod)
			}
			tr.EmitRaw(map[string]any{"e": "bypath", "h": n, "p": st.P, "found": err == nil && e != nil, "entry": ent})
		default:
			return fmt.Errorf("unknown op %q", st.Op)
		}
	}
	return nil
}

func main() {
	if len(os.Args) < 3 {
		fmt.Fprintln(os.Stderr, "usage: apiep <scripts> <trace> [skip]")
		os.Exit(2)
	}
	scripts, trace := os.Args[1], os.Args[2]
	skip := 0
	if len(os.Args) > 3 {
		skip, _ = strconv.Atoi(os.Args[3])
	}
	tr, err := vio.NewTrace(trace)
	if err != nil {
		fmt.Fprintln(os.Stderr, err)
		os.Exit(2)
	}
	origArgs := append([]string{}, os.Args...)
	if err := setup(); err != nil {
		fmt.Fprintln(os.Stderr, "setup:", err)
		// a port that another process took between probing and listening, a stalled start: try again in
		// a fresh process image (the module system cannot be set up twice in one process)
		if n, _ := strconv.Atoi(os.Getenv("X07_SETUP_TRY")); n < 3 {
			tr.Close()
			if cleanupDir != "" {
				_ = os.RemoveAll(cleanupDir)
			}
			_ = os.Setenv("X07_SETUP_TRY", strconv.Itoa(n+1))
			_ = syscall.Exec("/proc/self/exe", origArgs, os.Environ())
		}
		tr.EmitRaw(map[string]any{"e": "setup-failed", "h": skip, "what": err.Error()})
		tr.Close()
		os.Exit(0)
	}
	n := 0
	err = vio.ReadLines(scripts, func(line []byte) error {
		if n < skip {
			n++
			return nil
		}
		var s script
		if err := json.Unmarshal(line, &s); err != nil {
			return err
		}
		if err := run(tr, n, &s); err != nil {
			tr.EmitRaw(map[string]any{"e": "setup-failed", "h": n, "what": err.Error()})
			return err
		}
		n++
		return nil
	})
	tr.Close()
	done := make(chan struct{})
	go func() { _ = modules.Shutdown(); close(done) }()
	select {
	case <-done:
	case <-time.After(10 * time.Second):
	}
	if cleanupDir != "" {
		_ = os.RemoveAll(cleanupDir)
	}
	if portLock != nil {
		_ = os.Remove(portLock.Name())
	}
	if err != nil {
		fmt.Fprintln(os.Stderr, "harness:", err)
		os.Exit(0)
	}
	fmt.Printf("histories=%d\n", n)
}
