// Command updflow executes call histories generated from spec/UpdFlowGen.tla against a real
// updater.ResourceRegistry whose update servers are two URL prefixes of a loopback HTTP server inside this
// process (extension check X08: index loading and updating, DownloadUpdates, GetFile with on-demand
// download, the registry state and its change callback, the upgrade signal of handed-out files, restart on
// the same storage dir).  It records what the code did and what is observable afterwards; the verdict is
// TLC's (spec/UpdFlowTrace.tla).
//
// usage: updflow <scripts.ndjson> <trace.ndjson> [skip]
//
// A script line is {"cfg":{"online":..,"usepre":..,"nurls":1|2,"auto":[b,b],"mand":[b,b,b]},"steps":[op,...]} with
// op = {"op":name,"r":resource,"v":version,"u":server,"i":index|handle,"flag":bool,"mode":..,"doc":{tag,kind,chan,pub,rel}}.
// The symbolic ids are those of spec/UpdFlow.tla; the tables below are written into every trace ("new"
// event) and compared with the specification's own tables there.
package main

import (
	"context"
	"encoding/json"
	"errors"
	"fmt"
	"io/fs"
	"net/http"
	"net/http/httptest"
	"os"
	"path/filepath"
	"sort"
	"strconv"
	"strings"
	"sync"
	"time"

	"github.com/safing/portbase/log"
	"github.com/safing/portbase/updater"
	"github.com/safing/portbase/utils"

	"verifharness/internal/vio"
)

var (
	idents  = []string{"pk/a.bin", "pk/b.tar.gz", "pkx/c.bin"}
	verStr  = []string{"0.0.0", "1.0.0", "1.1.0", "1.2.0-beta", "2.0.0-rc", "2.0.0", "1.x"}
	idxPath = []string{"pk/stable.json", "pk/beta.json"}
	idxChan = []string{"stable", "beta"}
	idxPre  = []bool{false, true}
	// documented file-name format, written out by hand: fileOf[r-1][v-1]
	fileOf = [][]string{
		{"pk/a_v0-0-0.bin", "pk/a_v1-0-0.bin", "pk/a_v1-1-0.bin", "pk/a_v1-2-0-beta.bin", "pk/a_v2-0-0-rc.bin", "pk/a_v2-0-0.bin"},
		{"pk/b_v0-0-0.tar.gz", "pk/b_v1-0-0.tar.gz", "pk/b_v1-1-0.tar.gz", "pk/b_v1-2-0-beta.tar.gz", "pk/b_v2-0-0-rc.tar.gz", "pk/b_v2-0-0.tar.gz"},
		{"pkx/c_v0-0-0.bin", "pkx/c_v1-0-0.bin", "pkx/c_v1-1-0.bin", "pkx/c_v1-2-0-beta.bin", "pkx/c_v2-0-0-rc.bin", "pkx/c_v2-0-0.bin"},
	}
	pubStr = map[int]string{1: "2020-01-01T00:00:00Z", 2: "2020-01-02T00:00:00Z", 3: "2020-01-03T00:00:00Z", 9: "2999-01-01T00:00:00Z"}
)

const (
	stepTimeout = 30 * time.Second
	userAgent   = "verif-x08/1"
)

type doc struct {
	Tag  int    `json:"tag"`
	Kind string `json:"kind"`
	Chan string `json:"chan"`
	Pub  int    `json:"pub"`
	Rel  []int  `json:"rel"`
}

type op struct {
	Op   string `json:"op"`
	R    int    `json:"r"`
	V    int    `json:"v"`
	U    int    `json:"u"`
	I    int    `json:"i"`
	Flag bool   `json:"flag"`
	Mode string `json:"mode"`
	Doc  doc    `json:"doc"`
}

type cfg struct {
	Online bool   `json:"online"`
	UsePre bool   `json:"usepre"`
	NUrls  int    `json:"nurls"`
	Auto   []bool `json:"auto"`
	Mand   []bool `json:"mand"`
}

type script struct {
	Cfg   cfg  `json:"cfg"`
	Steps []op `json:"steps"`
}

type res struct {
	Err   string `json:"err"`
	V     int    `json:"v"`
	Err2  string `json:"err2"` // second call of a concurrent pair ("Par")
	V2    int    `json:"v2"`
	Pok   bool   `json:"pok"`
	Panic string `json:"panic"`
}

type req struct {
	U int    `json:"u"`
	K string `json:"k"`
	A int    `json:"a"`
	V int    `json:"v"`
}

type updSum struct {
	ChkAt  int     `json:"chkAt"`
	ChkErr bool    `json:"chkErr"`
	Pend   [][]int `json:"pend"`
	DlAt   int     `json:"dlAt"`
	DlErr  bool    `json:"dlErr"`
	LastDl [][]int `json:"lastdl"`
	SuccAt int     `json:"succAt"`
}

type note struct {
	ID   string  `json:"id"`
	Dn   int     `json:"dn"`
	Upto int     `json:"upto"`
	Dres [][]int `json:"dres"`
	Upd  updSum  `json:"upd"`
}

type resObs struct {
	Known bool  `json:"known"`
	L     []int `json:"l"`
	Av    []int `json:"av"`
	Cur   []int `json:"cur"`
	Pre   []int `json:"pre"`
	Bl    []int `json:"bl"`
	Sel   int   `json:"sel"`
	Act   int   `json:"act"`
}

type handleObs struct {
	Up     bool `json:"up"`
	Closed bool `json:"closed"`
}

type stateObs struct {
	ID string `json:"id"`
	Dn int    `json:"dn"`
}

type obs struct {
	Res     []resObs    `json:"res"`
	Files   [][]int     `json:"files"`
	Odd     int         `json:"odd"`
	IdxDisk []int       `json:"idxdisk"`
	State   stateObs    `json:"state"`
	Upd     updSum      `json:"upd"`
	Notes   []note      `json:"notes"`
	Reqs    []req       `json:"reqs"`
	Handles []handleObs `json:"handles"`
}

func emptyRes() resObs { return resObs{L: []int{}, Av: []int{}, Cur: []int{}, Pre: []int{}, Bl: []int{}} }
func emptyUpd() updSum { return updSum{Pend: [][]int{}, LastDl: [][]int{}} }
func emptyObs() obs {
	return obs{Res: []resObs{emptyRes(), emptyRes(), emptyRes()}, Files: [][]int{}, IdxDisk: []int{0, 0},
		State: stateObs{ID: "ready", Dn: -1}, Upd: emptyUpd(), Notes: []note{}, Reqs: []req{}, Handles: []handleObs{}}
}

// world is one history: a registry on its own storage dir and the behaviour of its two update servers.
type world struct {
	h      int
	dir    string
	cfg    cfg
	urls   []string
	reg    *updater.ResourceRegistry
	files  []*updater.File
	served map[string]int // index documents handed to the servers -> tag

	mu       sync.Mutex
	parSlow  bool // during a concurrent pair every complete answer takes a few milliseconds, so that the calls overlap
	idxMode  [2][2]string
	idxBody  [2][2][]byte
	fileMode [2][3][6]string
	reqs     []req
	notes    []note
	odd      int           // things seen in callbacks that have no place in the model
	stamps   map[int64]int // time stamps of the update state -> ordinal
}

var worlds sync.Map // history number -> *world

func fileBody(r, v int) []byte {
	return []byte("content of " + fileOf[r][v] + " " + strings.Repeat("0123456789abcdef", 40))
}

// docBytes renders an index document for index i. The tag is carried by the number of trailing spaces
// (insignificant white space), so that every format can be recognized again in the storage dir.
func docBytes(d doc, i int) []byte {
	rel := map[string]string{}
	for r, v := range d.Rel {
		if v >= 1 && v <= len(verStr) && r < len(idents) {
			rel[idents[r]] = verStr[v-1]
		}
	}
	var body []byte
	switch d.Kind {
	case "v2":
		m := map[string]any{"Releases": rel}
		switch d.Chan {
		case "right":
			m["Channel"] = idxChan[i]
		case "wrong":
			m["Channel"] = "other"
		}
		if p, ok := pubStr[d.Pub]; ok {
			m["Published"] = p
		}
		body, _ = json.Marshal(m)
	case "old":
		body, _ = json.Marshal(rel)
	default:
		body = []byte(`{"Releases": [1, 2`)
	}
	return append(append(body, '\n'), []byte(strings.Repeat(" ", d.Tag))...)
}

func classify(p string) (string, int, int) {
	for i, ip := range idxPath {
		if p == ip {
			return "idx", i + 1, 0
		}
	}
	for r := range fileOf {
		for v, n := range fileOf[r] {
			if p == n {
				return "file", r + 1, v + 1
			}
		}
	}
	return "other", 0, 0
}

// serve answers /h<history>/u<server>/<path>.
func serve(rw http.ResponseWriter, rq *http.Request) {
	parts := strings.SplitN(strings.TrimPrefix(rq.URL.Path, "/"), "/", 3)
	if len(parts) < 3 || len(parts[0]) < 2 || len(parts[1]) < 2 {
		http.Error(rw, "bad path", http.StatusBadRequest)
		return
	}
	h, _ := strconv.Atoi(parts[0][1:])
	u, _ := strconv.Atoi(parts[1][1:])
	wv, ok := worlds.Load(h)
	if !ok || u < 1 || u > 2 {
		http.Error(rw, "no such world", http.StatusBadRequest)
		return
	}
	w := wv.(*world)
	k, a, v := classify(parts[2])
	w.mu.Lock()
	if rq.UserAgent() != userAgent {
		w.odd++ // "set user agent"
	}
	w.reqs = append(w.reqs, req{U: u, K: k, A: a, V: v})
	mode := "404"
	var body []byte
	switch k {
	case "idx":
		mode = w.idxMode[u-1][a-1]
		body = w.idxBody[u-1][a-1]
	case "file":
		mode = w.fileMode[u-1][a-1][v-1]
		body = fileBody(a-1, v-1)
	}
	parSlow := w.parSlow
	w.mu.Unlock()
	if parSlow && mode == "ok" {
		time.Sleep(8 * time.Millisecond)
	}
	switch mode {
	case "slow":
		time.Sleep(15 * time.Millisecond)
		fallthrough
	case "ok":
		rw.Header().Set("Content-Length", strconv.Itoa(len(body)))
		_, _ = rw.Write(body)
	case "500":
		http.Error(rw, "internal error", http.StatusInternalServerError)
	case "trunc":
		// announce everything, send half, drop the connection
		rw.Header().Set("Content-Length", strconv.Itoa(len(body)))
		_, _ = rw.Write(body[:len(body)/2])
		if f, ok := rw.(http.Flusher); ok {
			f.Flush()
		}
		panic(http.ErrAbortHandler)
	default:
		http.Error(rw, "not found", http.StatusNotFound)
	}
}

func (w *world) newRegistry() error {
	var mand []string
	for r, m := range w.cfg.Mand {
		if m && r < len(idents) {
			mand = append(mand, idents[r])
		}
	}
	reg := &updater.ResourceRegistry{
		Name:             "verif",
		Online:           w.cfg.Online,
		UsePreReleases:   w.cfg.UsePre,
		UpdateURLs:       w.urls[:w.cfg.NUrls],
		UserAgent:        userAgent,
		MandatoryUpdates: mand,
	}
	reg.StateNotifyFunc = func(s *updater.RegistryState) {
		// "The specified function may lock the state"
		s.Lock()
		id, det, upd := s.ID, s.Details, s.Updates
		s.Unlock()
		w.mu.Lock()
		defer w.mu.Unlock()
		w.notes = append(w.notes, w.noteOf(id, det, upd))
	}
	if err := reg.Initialize(utils.NewDirStructure(w.dir, 0o0755)); err != nil {
		return err
	}
	for i := range idxPath {
		reg.AddIndex(updater.Index{Path: idxPath[i], PreRelease: idxPre[i], AutoDownload: w.cfg.Auto[i]})
	}
	w.reg = reg
	w.files = nil
	return nil
}

// pairOf maps "identifier vVERSION" to [r, v].
func (w *world) pairOf(s string) []int {
	k := strings.LastIndex(s, " v")
	if k < 0 {
		w.odd++
		return []int{0, 0}
	}
	r, v := 0, 0
	for i, id := range idents {
		if id == s[:k] {
			r = i + 1
		}
	}
	for i, vs := range verStr[:6] {
		if vs == s[k+2:] {
			v = i + 1
		}
	}
	if r == 0 || v == 0 {
		w.odd++
		return []int{0, 0}
	}
	return []int{r, v}
}

func (w *world) pairs(ss []string) [][]int {
	out := make([][]int, 0, len(ss))
	for _, s := range ss {
		out = append(out, w.pairOf(s))
	}
	return out
}

func (w *world) stamp(t *time.Time) int {
	if t == nil {
		return 0
	}
	k := t.UnixNano()
	if n, ok := w.stamps[k]; ok {
		return n
	}
	w.stamps[k] = len(w.stamps) + 1
	return w.stamps[k]
}

// (callers hold w.mu)
func (w *world) updOf(u updater.UpdateState) updSum {
	// ordinals in the order check, download, success, so that a fresh stamp shared by two fields gets one number
	return updSum{
		ChkAt: w.stamp(u.LastCheckAt), ChkErr: u.LastCheckError != nil, Pend: w.pairs(u.PendingDownload),
		DlAt: w.stamp(u.LastDownloadAt), DlErr: u.LastDownloadError != nil, LastDl: w.pairs(u.LastDownload),
		SuccAt: w.stamp(u.LastSuccessAt),
	}
}

func (w *world) noteOf(id string, det any, upd updater.UpdateState) note {
	n := note{ID: id, Dn: -1, Dres: [][]int{}, Upd: w.updOf(upd)}
	switch d := det.(type) {
	case nil:
	case *updater.StateDownloadingDetails:
		if d == nil {
			break
		}
		n.Dn = len(d.Resources)
		n.Upto = d.FinishedUpTo
		n.Dres = w.pairs(d.Resources)
	default:
		n.Dn = -2
		w.odd++
	}
	return n
}

func idOf(version string) int {
	for i, s := range verStr {
		if s == version {
			return i + 1
		}
	}
	return -1
}

func (w *world) exec(o op) (r res) {
	defer func() {
		if p := recover(); p != nil {
			r = res{Err: "panic", Panic: fmt.Sprint(p)}
		}
	}()
	ctx := context.Background()
	if o.Mode == "cancelled" {
		c, cancel := context.WithCancel(ctx)
		cancel()
		ctx = c
	}
	switch o.Op {
	case "SetIndex":
		if o.U < 1 || o.U > 2 || o.I < 1 || o.I > 2 {
			return res{Err: "badscript"}
		}
		b := docBytes(o.Doc, o.I-1)
		w.mu.Lock()
		w.idxMode[o.U-1][o.I-1] = o.Mode
		w.idxBody[o.U-1][o.I-1] = b
		w.mu.Unlock()
		if o.Doc.Tag > 0 {
			w.served[string(b)] = o.Doc.Tag
		}
		return res{}
	case "SetFile":
		if o.U < 1 || o.U > 2 || o.R < 1 || o.R > 3 || o.V < 1 || o.V > 6 {
			return res{Err: "badscript"}
		}
		w.mu.Lock()
		w.fileMode[o.U-1][o.R-1][o.V-1] = o.Mode
		w.mu.Unlock()
		return res{}
	case "SetOnline":
		w.reg.Lock()
		w.reg.Online = o.Flag
		w.reg.Unlock()
		w.cfg.Online = o.Flag // a restarted registry keeps the setting
		return res{}
	case "UpdateIndexes":
		if err := w.reg.UpdateIndexes(ctx); err != nil {
			return res{Err: "failed"}
		}
		return res{}
	case "LoadIndexes":
		if err := w.reg.LoadIndexes(ctx); err != nil {
			return res{Err: "failed"}
		}
		return res{}
	case "Select":
		w.reg.SelectVersions()
		return res{}
	case "Download":
		if err := w.reg.DownloadUpdates(ctx, o.Flag); err != nil {
			return res{Err: "failed"}
		}
		return res{}
	case "GetFile":
		if o.R < 1 || o.R > 3 {
			return res{Err: "badscript"}
		}
		f, err := w.reg.GetFile(idents[o.R-1])
		switch {
		case err == nil:
			v := idOf(f.Version())
			pok := v >= 1 && v <= 6 && f.Path() == filepath.Join(w.dir, filepath.FromSlash(fileOf[o.R-1][v-1])) &&
				f.Identifier() == idents[o.R-1]
			w.files = append(w.files, f)
			return res{V: v, Pok: pok}
		case errors.Is(err, updater.ErrNotFound):
			return res{Err: "notfound"}
		case errors.Is(err, updater.ErrNotAvailableLocally):
			return res{Err: "notlocal"}
		default:
			return res{Err: "fetch"}
		}
	case "Par":
		// DownloadUpdates(includeManual) and GetFile(identifier) at the same time
		if o.R < 1 || o.R > 3 {
			return res{Err: "badscript"}
		}
		w.mu.Lock()
		w.parSlow = true
		w.mu.Unlock()
		defer func() {
			w.mu.Lock()
			w.parSlow = false
			w.mu.Unlock()
		}()
		start := make(chan struct{})
		out := make(chan res, 2)
		go func() {
			defer func() {
				if p := recover(); p != nil {
					out <- res{Err: "panic", Panic: "DownloadUpdates: " + fmt.Sprint(p)}
				}
			}()
			<-start
			out <- w.exec(op{Op: "Download", Flag: o.Flag})
		}()
		var g res
		func() {
			defer func() {
				if p := recover(); p != nil {
					g = res{Err: "panic", Panic: "GetFile: " + fmt.Sprint(p)}
				}
			}()
			close(start)
			g = w.exec(op{Op: "GetFile", R: o.R})
		}()
		d := <-out
		if d.Panic != "" {
			return d
		}
		if g.Panic != "" {
			return g
		}
		return res{Err: d.Err, Err2: g.Err, V2: g.V, Pok: g.Pok}
	case "Blacklist":
		if o.I < 1 || o.I > len(w.files) {
			return res{Err: "nohandle"}
		}
		if err := w.files[o.I-1].Blacklist(); err != nil {
			return res{Err: "refused"}
		}
		return res{}
	case "Restart":
		// the documented start-up of a registry on an existing storage dir
		if err := w.newRegistry(); err != nil {
			return res{Err: "io", Panic: err.Error()}
		}
		if err := w.reg.ScanStorage(""); err != nil {
			return res{Err: "io", Panic: "scan: " + err.Error()}
		}
		err := w.reg.LoadIndexes(ctx)
		w.reg.SelectVersions()
		if err != nil {
			return res{Err: "failed"}
		}
		return res{}
	}
	return res{Err: "badscript"}
}

func (w *world) observe() (o obs) {
	o = emptyObs()
	defer func() {
		if recover() != nil {
			o.Odd += 1000
		}
	}()
	exp := w.reg.Export()
	for r, id := range idents {
		e := exp[id]
		if e == nil {
			continue
		}
		ro := emptyRes()
		ro.Known = true
		seen := map[int]bool{}
		for _, rv := range e.Versions {
			v := idOf(rv.VersionNumber)
			if v < 1 || v > 6 || seen[v] {
				o.Odd++
				continue
			}
			seen[v] = true
			ro.L = append(ro.L, v)
			if rv.Available {
				ro.Av = append(ro.Av, v)
			}
			if rv.CurrentRelease {
				ro.Cur = append(ro.Cur, v)
			}
			if rv.PreRelease {
				ro.Pre = append(ro.Pre, v)
			}
			if rv.Blacklisted {
				ro.Bl = append(ro.Bl, v)
			}
		}
		if e.SelectedVersion != nil {
			ro.Sel = idOf(e.SelectedVersion.VersionNumber)
		}
		if e.ActiveVersion != nil {
			ro.Act = idOf(e.ActiveVersion.VersionNumber)
		}
		for _, s := range [][]int{ro.L, ro.Av, ro.Cur, ro.Pre, ro.Bl} {
			sort.Ints(s)
		}
		o.Res[r] = ro
	}
	for id := range exp {
		known := false
		for _, k := range idents {
			known = known || k == id
		}
		if !known {
			o.Odd++
		}
	}
	// storage dir
	tmp := filepath.Join(w.dir, "tmp")
	_ = filepath.WalkDir(w.dir, func(p string, d fs.DirEntry, err error) error {
		if err != nil {
			o.Odd++
			return nil
		}
		if d.IsDir() {
			if p == tmp {
				return filepath.SkipDir
			}
			return nil
		}
		rel, _ := filepath.Rel(w.dir, p)
		k, a, v := classify(filepath.ToSlash(rel))
		b, rerr := os.ReadFile(p)
		switch {
		case rerr != nil:
			o.Odd++
		case k == "file" && string(b) == string(fileBody(a-1, v-1)):
			o.Files = append(o.Files, []int{a, v})
		case k == "idx":
			if tag, ok := w.served[string(b)]; ok {
				o.IdxDisk[a-1] = tag
			} else {
				o.IdxDisk[a-1] = -1
			}
		default:
			o.Odd++
		}
		return nil
	})
	sort.Slice(o.Files, func(i, j int) bool {
		if o.Files[i][0] != o.Files[j][0] {
			return o.Files[i][0] < o.Files[j][0]
		}
		return o.Files[i][1] < o.Files[j][1]
	})
	// registry state and what the callback saw
	st := w.reg.GetState()
	w.mu.Lock()
	n := w.noteOf(st.ID, st.Details, st.Updates)
	o.State = stateObs{ID: n.ID, Dn: n.Dn}
	o.Upd = n.Upd
	o.Notes = append(o.Notes, w.notes...)
	o.Reqs = append(o.Reqs, w.reqs...)
	o.Odd += w.odd
	w.notes, w.reqs, w.odd = nil, nil, 0
	w.mu.Unlock()
	for _, f := range w.files {
		closed := false
		select {
		case <-f.WaitForAvailableUpgrade():
			closed = true
		default:
		}
		o.Handles = append(o.Handles, handleObs{Up: f.UpgradeAvailable(), Closed: closed})
	}
	return o
}

type stepOut struct {
	r res
	o obs
}

// step runs one call and the observation after it; a call that does not return within stepTimeout (each
// takes milliseconds: the servers are on the loopback interface, the retry backoff unit is a millisecond) is
// recorded as a hang.
func (w *world) step(o op) (res, obs, bool) {
	ch := make(chan stepOut, 1)
	go func() {
		r := w.exec(o)
		if r.Panic != "" {
			// a panic may have left locks behind: no observation, the history ends here
			ch <- stepOut{r, emptyObs()}
			return
		}
		ch <- stepOut{r, w.observe()}
	}()
	select {
	case s := <-ch:
		return s.r, s.o, s.r.Panic == ""
	case <-time.After(stepTimeout):
		return res{Err: "hang", Panic: "call did not return within " + stepTimeout.String()}, emptyObs(), false
	}
}

func main() {
	if len(os.Args) < 3 {
		fmt.Fprintln(os.Stderr, "usage: updflow <scripts> <trace> [skip]")
		os.Exit(2)
	}
	skip := 0
	if len(os.Args) > 3 {
		skip, _ = strconv.Atoi(os.Args[3])
	}
	log.SetLogLevel(log.CriticalLevel)
	updater.VerifBackoffUnit = time.Millisecond
	tr, err := vio.NewTrace(os.Args[2])
	if err != nil {
		fmt.Fprintln(os.Stderr, err)
		os.Exit(2)
	}
	base, err := os.MkdirTemp(filepath.Dir(os.Args[2]), "store-")
	if err != nil {
		fmt.Fprintln(os.Stderr, err)
		os.Exit(2)
	}
	defer os.RemoveAll(base)
	srv := httptest.NewUnstartedServer(http.HandlerFunc(serve))
	srv.Config.ErrorLog = nil
	srv.Start()
	defer srv.Close()

	n := 0
	err = vio.ReadLines(os.Args[1], func(line []byte) error {
		if n < skip {
			n++
			return nil
		}
		var s script
		if err := json.Unmarshal(line, &s); err != nil {
			return err
		}
		if s.Cfg.NUrls < 1 || s.Cfg.NUrls > 2 || len(s.Cfg.Auto) != 2 || len(s.Cfg.Mand) != 3 {
			return fmt.Errorf("script %d: bad configuration", n)
		}
		w := &world{h: n, dir: filepath.Join(base, "h"+strconv.Itoa(n)), cfg: s.Cfg, served: map[string]int{}, stamps: map[int64]int{}}
		w.urls = []string{fmt.Sprintf("%s/h%d/u1", srv.URL, n), fmt.Sprintf("%s/h%d/u2", srv.URL, n)}
		for u := 0; u < 2; u++ {
			for i := 0; i < 2; i++ {
				w.idxMode[u][i] = "404"
			}
			for r := 0; r < 3; r++ {
				for v := 0; v < 6; v++ {
					w.fileMode[u][r][v] = "ok"
				}
			}
		}
		worlds.Store(n, w)
		if err := w.newRegistry(); err != nil {
			return err
		}
		w.mu.Lock()
		w.notes, w.reqs, w.odd = nil, nil, 0
		w.mu.Unlock()
		tr.EmitRaw(map[string]any{"e": "new", "h": n, "cfg": s.Cfg, "ident": idents, "vers": verStr, "names": fileOf, "idx": idxPath})
		for _, o := range s.Steps {
			if o.Doc.Rel == nil {
				o.Doc.Rel = []int{0, 0, 0}
			}
			tr.EmitRaw(map[string]any{"e": "try", "op": o, "h": n})
			tr.Flush()
			r, ob, ok := w.step(o)
			tr.EmitRaw(map[string]any{"e": "op", "h": n, "op": o, "res": r, "obs": ob})
			if !ok {
				break
			}
		}
		worlds.Delete(n)
		_ = os.RemoveAll(w.dir)
		n++
		return nil
	})
	tr.Close()
	if err != nil {
		fmt.Fprintln(os.Stderr, err)
		os.RemoveAll(base)
		os.Exit(2)
	}
	fmt.Printf("scripts=%d\n", n)
}
