// Command dbx executes operation histories generated from spec/RecordStoreGen.tla through real
// database interfaces of portbase and records what the code answered (property C02).
//
// usage: dbx <scripts.ndjson> <trace.ndjson> [skip]
//
// One process initialises the database system once (database.InitializeWithPath on a temporary
// directory) and registers one database per storage backend x delete mode.  Every script is one
// history; it is executed once per configuration listed in its "cfgs" field (backend, shadow delete,
// cache mode none / read / write, cache size) on an emptied database through a fresh interface with
// all privileges.  Every call is logged as one ndjson event (see spec/RecordStoreTrace.tla) with the
// clock before and after the call; nothing is judged here.
//
// Symbolic -> concrete mapping: key codes 1..10 are the characters a b c d / x y z q r; string codes
// 1..4 are X Y É 7; integer rank r is intAnchors[r], float rank r is floatAnchors[r] (2147483647 is NaN);
// field names <<1>>..<<7>> are I1 I2 F B S1 S2 M.  Times are seconds relative to `base` (process
// start - 1000); expiry offsets of a script become absolute times when the call is made and are
// written into the event.  Records are written as typed structs (form "struct") or as wrapped JSON
// (form "json") and every returned record is read both ways.
//
// Scripts with "kind":"iter" drive iterator.Iterator.Finish against a draining consumer under a
// schedule (yield point iterator.finish.mid, harness/internal/sched); see spec/Iterator.tla.
package main

import (
	"bytes"
	"context"
	"encoding/json"
	"errors"
	"fmt"
	"math"
	"os"
	"path/filepath"
	"strconv"
	"strings"
	"sync"
	"time"

	"github.com/safing/portbase/database"
	"github.com/safing/portbase/database/iterator"
	"github.com/safing/portbase/database/query"
	"github.com/safing/portbase/database/record"
	"github.com/safing/portbase/database/storage"
	_ "github.com/safing/portbase/database/storage/badger"
	_ "github.com/safing/portbase/database/storage/bbolt"
	_ "github.com/safing/portbase/database/storage/fstree"
	_ "github.com/safing/portbase/database/storage/hashmap"
	"github.com/safing/portbase/formats/dsd"

	"verifharness/internal/sched"
	"verifharness/internal/vio"
)

// ---------------------------------------------------------------- symbolic domain

type val struct {
	T string  `json:"t"`
	I int     `json:"i"`
	B bool    `json:"b"`
	S []int   `json:"s"`
	L [][]int `json:"l"`
}

type field struct {
	Key []int `json:"key"`
	Val val   `json:"val"`
}

type node struct {
	K   string `json:"k"`
	Key []int  `json:"key"`
	Op  string `json:"op"`
	Val val    `json:"val"`
	Sub []node `json:"sub"`
}

type metaIn struct {
	Cr  int  `json:"cr"`
	Exp int  `json:"exp"`
	Del bool `json:"del"`
	Rel int  `json:"rel"`
	Sec bool `json:"sec"`
	Cj  bool `json:"cj"`
}

type batchEl struct {
	K    []int   `json:"k"`
	Data []field `json:"data"`
	M    metaIn  `json:"m"`
	Form string  `json:"form"`
}

type opT struct {
	Op    string    `json:"op"`
	K     []int     `json:"k"`
	Data  []field   `json:"data"`
	M     metaIn    `json:"m"`
	Form  string    `json:"form"`
	Pfx   []int     `json:"pfx"`
	Cond  node      `json:"cond"`
	X     int       `json:"x"`
	Batch []batchEl `json:"batch"`
	Ok    string    `json:"ok"` // Always... option of the interface the call went through (set by the driver)
	Ox    int       `json:"ox"`
	Late  int       `json:"late"` // Query: the records are taken off the iterator at once but read only after the next Late calls
}

// optT is the Always... option of a history's interface: none | sec | cj | abs (x = seconds from now) | rel (x = seconds).
type optT struct {
	K string `json:"k"`
	X int    `json:"x"`
}

type cfgT struct {
	B  string `json:"b"`  // hashmap | bbolt | fstree | badger
	Sd bool   `json:"sd"` // shadow delete
	C  string `json:"c"`  // none | read | write
	Cs int    `json:"cs"` // cache size
}

type script struct {
	Kind  string  `json:"kind"`
	Keys  [][]int `json:"keys"`
	Fs    bool    `json:"fs"`
	Timed bool    `json:"timed"`
	Opt   optT    `json:"opt"`
	Steps []opT   `json:"steps"`
	Cfgs  []cfgT  `json:"cfgs"`
	// kind "iter"
	Policy []string `json:"policy"`
	Items  int      `json:"items"`
	Err    bool     `json:"err"`
	// kind "slowq"
	Backend string `json:"backend"`
	Sd      bool   `json:"sd"` // kind bulk: shadow delete
	Total   int    `json:"total"`
	WaitMs  int    `json:"waitms"`
}

type item struct {
	Key []int   `json:"key"`
	D   []field `json:"d"`
	J   []field `json:"j"`
	Cr  int     `json:"cr"`
	Mo  int     `json:"mo"`
	Exp int     `json:"exp"`
	Rel int     `json:"rel"`
	Sec bool    `json:"sec"`
	Cj  bool    `json:"cj"`
	W   bool    `json:"w"` // informational: the record came back wrapped
}

type resT struct {
	Err   string  `json:"err"`
	Flag  bool    `json:"flag"`
	N     int     `json:"n"`
	Items []item  `json:"items"`
	Iterr string  `json:"iterr"`
	Pb    [][]int `json:"pb"`
	Pa    [][]int `json:"pa"`
	Panic string  `json:"panic"`
	Info  string  `json:"info,omitempty"`
}

const nanCode = 2147483647

var (
	intAnchors   = []int64{-(1 << 53) - 1, -1, 0, 7, (1 << 53) + 1}
	floatAnchors = []float64{-1.5, 0, 0.25, 1e300}
	keyChars     = []rune{0, 'a', 'b', 'c', 'd', '/', 'x', 'y', 'z', 'q', 'r'}
	strChars     = []rune{0, 'X', 'Y', 'É', '7'}
	fieldNames   = []string{"", "I1", "I2", "F", "B", "S1", "S2", "M"}
	universe     = [][]int{{1}, {1, 5, 2}, {1, 5, 2, 3}, {1, 5, 4}, {1, 2}, {6, 5, 7, 5, 8}}

	opIDs = map[string]uint8{
		"eq": query.Equals, "gt": query.GreaterThan, "ge": query.GreaterThanOrEqual, "lt": query.LessThan, "le": query.LessThanOrEqual,
		"feq": query.FloatEquals, "fgt": query.FloatGreaterThan, "fge": query.FloatGreaterThanOrEqual,
		"flt": query.FloatLessThan, "fle": query.FloatLessThanOrEqual,
		"sameas": query.SameAs, "contains": query.Contains, "startswith": query.StartsWith, "endswith": query.EndsWith,
		"in": query.In, "matches": query.Matches, "is": query.Is, "exists": query.Exists,
	}

	base int64 // unix seconds; all logged times are relative to it
	root string
)

func enc(codes []int, m []rune) string {
	var b strings.Builder
	for _, c := range codes {
		if c >= 1 && c < len(m) {
			b.WriteRune(m[c])
		} else {
			b.WriteRune('?')
		}
	}
	return b.String()
}

func dec(s string, m []rune) []int {
	out := []int{}
	for _, r := range s {
		code := 0
		for c := 1; c < len(m); c++ {
			if m[c] == r {
				code = c
				break
			}
		}
		out = append(out, code)
	}
	return out
}

func keyStr(codes []int) string { return enc(codes, keyChars) }
func str(codes []int) string    { return enc(codes, strChars) }

func floatOf(rank int) float64 {
	if rank == nanCode {
		return math.NaN()
	}
	return floatAnchors[rank]
}

func fieldName(key []int) string {
	if len(key) == 1 && key[0] >= 1 && key[0] < len(fieldNames) {
		return fieldNames[key[0]]
	}
	return "Q" + fmt.Sprint(key)
}

func rel(unix int64) int {
	d := unix - base
	if d < -1000000 || d > 1000000000 {
		return -7
	}
	return int(d)
}

// ---------------------------------------------------------------- records

// Rec is the typed record of the harness schema.
type Rec struct {
	record.Base
	sync.Mutex
	I1 int64
	I2 int64
	F  float64
	B  bool
	S1 string
	S2 string
	// Pad is ballast of varying length that no query looks at: it makes the stored size of a record change from
	// write to write, so that storage pages are split, moved and reused as in a real database
	Pad string
}

var padSizes = []int{0, 0, 37, 400, 1500, 90, 2600, 12}
var padCounter int

func nextPad() string {
	padCounter++
	return strings.Repeat("p", padSizes[padCounter%len(padSizes)])
}

func buildMeta(m metaIn) *record.Meta {
	if m == (metaIn{}) {
		return nil // the interface has to create the metadata
	}
	meta := &record.Meta{}
	if m.Cr != 0 {
		meta.Created = int64(m.Cr)
	}
	if m.Exp != 0 {
		meta.Expires = base + int64(m.Exp)
	}
	if m.Del {
		meta.Deleted = time.Now().Unix() - 5
	}
	if m.Rel > 0 {
		meta.Deleted = -int64(m.Rel)
	}
	if m.Sec {
		meta.MakeSecret()
	}
	if m.Cj {
		meta.MakeCrownJewel()
	}
	return meta
}

func makeRecord(db string, key []int, data []field, m metaIn, form string) record.Record {
	full := db + ":" + keyStr(key)
	meta := buildMeta(m)
	if form == "json" {
		obj := map[string]any{}
		for _, f := range data {
			switch f.Val.T {
			case "int":
				obj[fieldName(f.Key)] = intAnchors[f.Val.I]
			case "float":
				obj[fieldName(f.Key)] = floatOf(f.Val.I)
			case "str":
				obj[fieldName(f.Key)] = str(f.Val.S)
			case "bool":
				obj[fieldName(f.Key)] = f.Val.B
			}
		}
		obj["Pad"] = nextPad()
		raw, err := json.Marshal(obj)
		if err != nil {
			panic(err)
		}
		w, err := record.NewWrapper(full, meta, dsd.JSON, raw)
		if err != nil {
			panic(err)
		}
		return w
	}
	r := &Rec{Pad: nextPad()}
	for _, f := range data {
		switch fieldName(f.Key) {
		case "I1":
			r.I1 = intAnchors[f.Val.I]
		case "I2":
			r.I2 = intAnchors[f.Val.I]
		case "F":
			r.F = floatOf(f.Val.I)
		case "B":
			r.B = f.Val.B
		case "S1":
			r.S1 = str(f.Val.S)
		case "S2":
			r.S2 = str(f.Val.S)
		}
	}
	r.SetKey(full)
	if meta != nil {
		r.SetMeta(meta)
	}
	return r
}

func intV(x int64) val {
	for i, a := range intAnchors {
		if a == x {
			return val{T: "int", I: i, S: []int{}, L: [][]int{}}
		}
	}
	return val{T: "int", I: -1, S: []int{}, L: [][]int{}}
}

func floatV(x float64) val {
	for i, a := range floatAnchors {
		if a == x {
			return val{T: "float", I: i, S: []int{}, L: [][]int{}}
		}
	}
	return val{T: "float", I: -1, S: []int{}, L: [][]int{}}
}

func strV(s string) val  { return val{T: "str", S: dec(s, strChars), L: [][]int{}} }
func boolV(b bool) val   { return val{T: "bool", B: b, S: []int{}, L: [][]int{}} }
func fld(i int, v val) field { return field{Key: []int{i}, Val: v} }

func fieldsOfStruct(r *Rec) []field {
	return []field{fld(1, intV(r.I1)), fld(2, intV(r.I2)), fld(3, floatV(r.F)), fld(4, boolV(r.B)), fld(5, strV(r.S1)), fld(6, strV(r.S2))}
}

// fieldsOfJSON reads the serialized form: exactly the fields that are there, in schema order, others as field 0.
func fieldsOfJSON(raw []byte) []field {
	out := []field{}
	d := json.NewDecoder(bytes.NewReader(raw))
	d.UseNumber()
	var obj map[string]any
	if err := d.Decode(&obj); err != nil {
		return []field{{Key: []int{0}, Val: strV("")}}
	}
	for i := 1; i < len(fieldNames); i++ {
		v, ok := obj[fieldNames[i]]
		if !ok {
			continue
		}
		delete(obj, fieldNames[i])
		switch x := v.(type) {
		case json.Number:
			if i == 3 {
				f, err := x.Float64()
				if err != nil {
					out = append(out, fld(i, floatV(math.NaN())))
				} else {
					out = append(out, fld(i, floatV(f)))
				}
			} else {
				n, err := x.Int64()
				if err != nil {
					out = append(out, fld(i, intV(12345)))
				} else {
					out = append(out, fld(i, intV(n)))
				}
			}
		case string:
			out = append(out, fld(i, strV(x)))
		case bool:
			out = append(out, fld(i, boolV(x)))
		default:
			out = append(out, fld(i, val{T: "none", S: []int{}, L: [][]int{}}))
		}
	}
	delete(obj, "Pad") // the ballast field is not part of the model
	for range obj {
		out = append(out, field{Key: []int{0}, Val: strV("")})
	}
	return out
}

func readItem(r record.Record) item {
	r.Lock()
	defer r.Unlock()
	it := item{Key: dec(r.DatabaseKey(), keyChars), W: r.IsWrapped(), D: []field{}, J: []field{}}
	m := r.Meta()
	if m == nil {
		it.Cr = -1
		return it
	}
	if m.Created < 1000 {
		it.Cr = int(m.Created)
	} else {
		it.Cr = rel(m.Created)
	}
	it.Mo = rel(m.Modified)
	if m.Expires != 0 {
		it.Exp = rel(m.Expires)
	}
	switch {
	case m.Deleted < 0:
		it.Rel = int(-m.Deleted)
	case m.Deleted > 0:
		it.Rel = -1 // a record marked as deleted was handed out
	}
	it.Sec = !m.CheckPermission(true, false)
	it.Cj = !m.CheckPermission(false, true)
	if w, ok := r.(*record.Wrapper); ok {
		nr := &Rec{}
		if err := dsd.LoadAsFormat(w.Data, w.Format, nr); err == nil {
			it.D = fieldsOfStruct(nr)
		}
		if w.Format == dsd.JSON {
			it.J = fieldsOfJSON(w.Data)
		}
	} else if sr, ok := r.(*Rec); ok {
		it.D = fieldsOfStruct(sr)
		cp := struct {
			I1 int64
			I2 int64
			F  float64
			B  bool
			S1 string
			S2 string
		}{sr.I1, sr.I2, sr.F, sr.B, sr.S1, sr.S2}
		// what a storage backend would serialize (dsd JSON of the record itself)
		if raw, err := dsd.Dump(sr, dsd.JSON); err == nil && len(raw) > 1 {
			it.J = fieldsOfJSON(raw[1:])
		} else if raw, err := json.Marshal(cp); err == nil {
			it.J = fieldsOfJSON(raw)
		}
	}
	return it
}

// ---------------------------------------------------------------- queries

func cond(nd node) query.Condition {
	switch nd.K {
	case "and", "or":
		subs := make([]query.Condition, len(nd.Sub))
		for i := range nd.Sub {
			subs[i] = cond(nd.Sub[i])
		}
		if nd.K == "and" {
			return query.And(subs...)
		}
		return query.Or(subs...)
	case "not":
		return query.Not(cond(nd.Sub[0]))
	}
	key := fieldName(nd.Key)
	op := opIDs[nd.Op]
	v := nd.Val
	switch v.T {
	case "int":
		return query.Where(key, op, intAnchors[v.I])
	case "float":
		return query.Where(key, op, floatOf(v.I))
	case "str":
		return query.Where(key, op, str(v.S))
	case "list":
		l := make([]string, len(v.L))
		for i := range v.L {
			l[i] = str(v.L[i])
		}
		return query.Where(key, op, l)
	case "re":
		src := str(v.S)
		if v.I == 1 || v.I == 3 {
			src = "^" + src
		}
		if v.I == 2 || v.I == 3 {
			src += "$"
		}
		return query.Where(key, op, src)
	case "bool":
		return query.Where(key, op, v.B)
	}
	return query.Where(key, op, nil)
}

func buildQuery(db string, pfx []int, nd node) *query.Query {
	q := query.New(db + ":" + keyStr(pfx))
	if !(nd.K == "and" && len(nd.Sub) == 0) {
		q = q.Where(cond(nd))
	}
	return q
}

// ---------------------------------------------------------------- databases

func errClass(err error) string {
	switch {
	case err == nil:
		return "nil"
	case errors.Is(err, database.ErrNotFound):
		return "notfound"
	case errors.Is(err, database.ErrPermissionDenied):
		return "perm"
	case errors.Is(err, database.ErrNotImplemented):
		return "notimpl"
	default:
		return "other"
	}
}

type dbT struct {
	name string
	cfg  cfgT
	raw  storage.Interface
}

var dbs = map[string]*dbT{}

func getDB(c cfgT) (*dbT, error) {
	name := fmt.Sprintf("dbx-%s-%v", c.B, c.Sd)
	if d, ok := dbs[name]; ok {
		d.cfg = c
		return d, nil
	}
	if _, err := database.Register(&database.Database{Name: name, Description: "C02 " + c.B, StorageType: c.B, ShadowDelete: c.Sd}); err != nil {
		return nil, err
	}
	raw, err := database.VerifStorage(name)
	if err != nil {
		return nil, err
	}
	d := &dbT{name: name, cfg: c, raw: raw}
	dbs[name] = d
	return d, nil
}

// empty removes everything that is physically stored.
func (d *dbT) empty() {
	for _, k := range universe {
		_ = d.raw.Delete(keyStr(k))
	}
	if d.cfg.B == "fstree" {
		dir := filepath.Join(root, "databases", d.name, "fstree")
		if ents, err := os.ReadDir(dir); err == nil {
			for _, e := range ents {
				_ = os.RemoveAll(filepath.Join(dir, e.Name()))
			}
		}
	}
}

func (d *dbT) physical() [][]int {
	out := [][]int{}
	for _, k := range universe {
		if _, err := d.raw.Get(keyStr(k)); err == nil {
			out = append(out, k)
		}
	}
	return out
}

// ---------------------------------------------------------------- one history on one configuration

func nowRel() int { return rel(time.Now().Unix()) }

// settle keeps a call away from the end of a second, so that the clock rarely moves during a call.
func settle() {
	n := time.Now()
	if n.Nanosecond() > 960_000_000 {
		time.Sleep(time.Duration(1_000_000_000-n.Nanosecond()) + 3*time.Millisecond)
	}
}

func absExp(d int, t int) int {
	if d == 0 {
		return 0
	}
	return t + d
}

type runner struct {
	d       *dbT
	iface   *database.Interface
	between func() // Query: runs between taking the records off the iterator and reading them
	stop    func()
	ok    string // the interface's Always... option as the operations are logged with it
	ox    int
}

func newRunner(d *dbT, opt optT) (*runner, error) {
	r := &runner{d: d, stop: func() {}, ok: "none"}
	opts := &database.Options{Local: true, Internal: true}
	switch opt.K {
	case "sec":
		opts.AlwaysMakeSecret = true
		r.ok = "sec"
	case "cj":
		opts.AlwaysMakeCrownjewel = true
		r.ok = "cj"
	case "abs":
		at := time.Now().Unix() + int64(opt.X)
		opts.AlwaysSetAbsoluteExpiry = at
		r.ok, r.ox = "abs", rel(at)
	case "rel":
		opts.AlwaysSetRelativateExpiry = int64(opt.X)
		r.ok, r.ox = "rel", opt.X
	}
	switch d.cfg.C {
	case "read":
		opts.CacheSize = d.cfg.Cs
	case "write":
		opts.CacheSize = d.cfg.Cs
		opts.DelayCachedWrites = d.name
	}
	r.iface = database.NewInterface(opts)
	if d.cfg.C == "write" {
		ctx, cancel := context.WithCancel(context.Background())
		done := make(chan error, 1)
		go func() { done <- r.iface.DelayedCacheWriter(ctx) }()
		select {
		case err := <-done:
			cancel()
			return nil, fmt.Errorf("delayed cache writer: %w", err)
		case <-time.After(20 * time.Millisecond):
		}
		r.stop = func() {
			cancel()
			select {
			case <-done:
			case <-time.After(10 * time.Second):
			}
		}
	}
	return r, nil
}

func emptyRes() resT {
	return resT{Err: "nil", Items: []item{}, Iterr: "nil", Pb: [][]int{}, Pa: [][]int{}}
}

// exec runs one operation; o carries absolute expiry times already.
func (r *runner) exec(o opT) (res resT) {
	res = emptyRes()
	defer func() {
		if p := recover(); p != nil {
			res = emptyRes()
			res.Err = "other"
			res.Panic = fmt.Sprint(p)
		}
	}()
	db := r.d.name
	i := r.iface
	cached := r.d.cfg.C != "none"
	setErr := func(err error) {
		res.Err = errClass(err)
		if err != nil {
			res.Info = err.Error()
		}
	}
	switch o.Op {
	case "Put":
		setErr(i.Put(makeRecord(db, o.K, o.Data, o.M, o.Form)))
	case "PutNew":
		setErr(i.PutNew(makeRecord(db, o.K, o.Data, o.M, o.Form)))
	case "Get":
		rec, err := i.Get(db + ":" + keyStr(o.K))
		setErr(err)
		if err == nil {
			res.Flag = true
			res.Items = []item{readItem(rec)}
		}
	case "Exists":
		ok, err := i.Exists(db + ":" + keyStr(o.K))
		setErr(err)
		res.Flag = ok
	case "Delete":
		setErr(i.Delete(db + ":" + keyStr(o.K)))
	case "SetAbsoluteExpiry":
		x := int64(0)
		if o.X != 0 {
			x = base + int64(o.X)
		}
		setErr(i.SetAbsoluteExpiry(db+":"+keyStr(o.K), x))
	case "SetRelativeExpiry":
		setErr(i.SetRelativateExpiry(db+":"+keyStr(o.K), int64(o.X)))
	case "MakeSecret":
		setErr(i.MakeSecret(db + ":" + keyStr(o.K)))
	case "MakeCrownJewel":
		setErr(i.MakeCrownJewel(db + ":" + keyStr(o.K)))
	case "PutMany":
		// PutMany is documented to bypass the cache: delayed writes are flushed before it and the read cache is
		// cleared after it, as a user of a cached interface has to do
		if cached {
			i.FlushCache()
		}
		put := i.PutMany(db)
		var first error
		for _, b := range o.Batch {
			if err := put(makeRecord(db, b.K, b.Data, b.M, b.Form)); err != nil && first == nil {
				first = err
			}
		}
		if err := put(nil); err != nil && first == nil {
			first = err
		}
		setErr(first)
		if cached {
			i.ClearCache()
		}
	case "Purge":
		ctx, cancel := context.WithTimeout(context.Background(), 20*time.Second)
		n, err := i.Purge(ctx, buildQuery(db, o.Pfx, o.Cond))
		cancel()
		setErr(err)
		res.N = n
	case "Query":
		if r.d.cfg.C == "write" {
			i.FlushCache() // queries on a write-cached interface are documented to need a flush
		}
		it, err := i.Query(buildQuery(db, o.Pfx, o.Cond))
		setErr(err)
		if err == nil {
			res.Flag = true
			var got []record.Record
			timeout := time.After(15 * time.Second)
		drain:
			for {
				select {
				case rec, ok := <-it.Next:
					if !ok {
						break drain
					}
					got = append(got, rec)
				case <-timeout:
					it.Cancel()
					res.Panic = "query result stream did not end within 15 s"
					break drain
				}
			}
			res.Iterr = errClass(it.Err())
			if it.Err() != nil {
				res.Info = it.Err().Error()
			}
			// a slow consumer: the result stream has ended, other calls go by, only then are the records looked at
			if r.between != nil {
				r.between()
			}
			for _, rec := range got {
				res.Items = append(res.Items, readItem(rec))
			}
		}
	case "Maintain", "MaintainThorough", "MaintainRecordStates":
		if r.d.cfg.C == "write" {
			i.FlushCache()
		}
		res.Pb = r.d.physical()
		ctx, cancel := context.WithTimeout(context.Background(), 20*time.Second)
		var err error
		switch o.Op {
		case "Maintain":
			err = database.Maintain(ctx)
		case "MaintainThorough":
			err = database.MaintainThorough(ctx)
		default:
			err = database.MaintainRecordStates(ctx)
		}
		cancel()
		setErr(err)
		res.Pa = r.d.physical()
	case "FlushCache":
		i.FlushCache()
	case "Tick":
		until := time.Now().Unix() + int64(o.X)
		for time.Now().Unix() < until || time.Now().Nanosecond() < 30_000_000 {
			time.Sleep(5 * time.Millisecond)
		}
	default:
		res.Err = "other"
		res.Panic = "unknown operation " + o.Op
	}
	return res
}

// execGuarded reports a call that does not return (patience: 12 s, Tick excluded) as a panic text.
func (r *runner) execGuarded(o opT) (resT, bool) {
	if o.Op == "Tick" {
		return r.exec(o), false
	}
	ch := make(chan resT, 1)
	go func() { ch <- r.exec(o) }()
	select {
	case res := <-ch:
		return res, false
	case <-time.After(12 * time.Second):
		res := emptyRes()
		res.Err = "other"
		res.Panic = "hang: the call did not return within 12 s"
		return res, true
	}
}

func runHistory(tr *vio.Trace, h int, ci int, sc *script, c cfgT) {
	d, err := getDB(c)
	if err != nil {
		tr.EmitRaw(map[string]any{"e": "skip", "h": h, "c": ci, "why": err.Error()})
		return
	}
	d.empty()
	r, err := newRunner(d, sc.Opt)
	if err != nil {
		tr.EmitRaw(map[string]any{"e": "skip", "h": h, "c": ci, "why": err.Error()})
		return
	}
	tr.EmitRaw(map[string]any{"e": "reset", "h": h, "c": ci, "cfg": c, "keys": sc.Keys, "opt": sc.Opt})
	// one executes one call and returns its event
	one := func(o opT) (map[string]any, bool) {
		settle()
		t := nowRel()
		o.Ok, o.Ox = r.ok, r.ox
		o.M.Exp = absExp(o.M.Exp, t)
		if o.Op == "SetAbsoluteExpiry" {
			o.X = absExp(o.X, t)
		}
		if len(o.Batch) > 0 {
			nb := make([]batchEl, len(o.Batch))
			copy(nb, o.Batch)
			for j := range nb {
				nb[j].M.Exp = absExp(nb[j].M.Exp, t)
			}
			o.Batch = nb
		}
		tr.EmitRaw(map[string]any{"e": "try", "h": h, "c": ci, "op": o.Op})
		tr.Flush()
		t0 := nowRel()
		res, hung := r.execGuarded(o)
		t1 := nowRel()
		if t0 > t {
			t0 = t
		}
		return map[string]any{"e": "op", "h": h, "c": ci, "op": o, "t0": t0, "t1": t1, "res": res}, hung
	}
	for idx := 0; idx < len(sc.Steps); idx++ {
		o := sc.Steps[idx]
		var later []map[string]any
		hungLater := false
		skip := 0
		if o.Op == "Query" && o.Late > 0 && c.C != "write" {
			// the following calls are made while the records of this query wait to be read; the model sees the query
			// first (its answer is that of the moment it ran) and the other calls after it
			n := o.Late
			if idx+n >= len(sc.Steps) {
				n = len(sc.Steps) - 1 - idx
			}
			skip = n
			r.between = func() {
				for j := 1; j <= n; j++ {
					ev, hung := one(sc.Steps[idx+j])
					later = append(later, ev)
					hungLater = hungLater || hung
				}
			}
		}
		ev, hung := one(o)
		r.between = nil
		if skip > 0 && len(later) == 0 {
			// the query failed before its records were taken: the other calls are made now
			for j := 1; j <= skip; j++ {
				e2, h2 := one(sc.Steps[idx+j])
				later = append(later, e2)
				hungLater = hungLater || h2
			}
		} else if skip > 0 {
			// the clock of the query is the moment it ran, not the moment its records were read
			if len(later) > 0 {
				if t1, ok := later[0]["t0"].(int); ok {
					ev["t1"] = t1
				}
			}
		}
		tr.EmitRaw(ev)
		for _, e2 := range later {
			tr.EmitRaw(e2)
		}
		idx += skip
		if hung || hungLater {
			// the stuck goroutine may hold locks of the database: this process cannot go on
			tr.Close()
			os.RemoveAll(root)
			os.Exit(3)
		}
	}
	r.stop()
	d.empty()
	tr.Flush()
}

// ---------------------------------------------------------------- iterator hand-over

func runIter(tr *vio.Trace, h int, sc *script) {
	s := sched.New()
	iterator.VerifHook = func(point string, _ *iterator.Iterator) { s.Yield(point, "") }
	defer func() { iterator.VerifHook = nil }()
	it := iterator.New()
	var finErr error
	if sc.Err {
		finErr = errors.New("storage failure")
	}
	tr.EmitRaw(map[string]any{"e": "reset", "h": h, "items": sc.Items, "err": errClass(finErr)})
	var wg sync.WaitGroup
	var pLive, cLive sync.WaitGroup
	_ = pLive
	_ = cLive
	pDone := make(chan struct{})
	cDone := make(chan struct{})
	wg.Add(2)
	go func() { // producer: a storage backend that ends its query
		defer wg.Done()
		defer close(pDone)
		s.Bind("p")
		defer s.Unbind()
		for k := 0; k < sc.Items; k++ {
			r := &Rec{I1: int64(k)}
			r.SetKey("dbx-iter:k" + strconv.Itoa(k))
			it.Next <- r
		}
		s.Yield("p.finish", "")
		tr.EmitRaw(map[string]any{"e": "fin", "h": h, "err": errClass(finErr)})
		it.Finish(finErr)
		tr.EmitRaw(map[string]any{"e": "finret", "h": h})
	}()
	go func() { // consumer: drains the stream, then asks for the error
		defer wg.Done()
		defer close(cDone)
		s.Bind("c")
		defer s.Unbind()
		s.Yield("c.start", "")
		n := 0
		for range it.Next {
			n++
		}
		tr.EmitRaw(map[string]any{"e": "end", "h": h, "n": n})
		s.Yield("c.drained", "")
		tr.EmitRaw(map[string]any{"e": "err", "h": h, "v": errClass(it.Err())})
	}()
	gone := func(a string) func() bool {
		ch := pDone
		if a == "c" {
			ch = cDone
		}
		return func() bool {
			select {
			case <-ch:
				return true
			default:
				return false
			}
		}
	}
	for _, a := range sc.Policy {
		// a consumer that is draining cannot be scheduled until the producer closes the stream: bounded patience
		if s.Await(a, 60*time.Millisecond, gone(a)) {
			s.Release(a)
			time.Sleep(300 * time.Microsecond)
			s.Settle(a, 30*time.Millisecond)
		}
	}
	s.Free()
	wg.Wait()
	tr.Flush()
}

// ---------------------------------------------------------------- a storage error in a real query

// runSlowQuery lets a real backend run into its result-stream timeout: more matching records than the
// stream buffers and a consumer that starts late. What the consumer got and what Err() said afterwards
// is logged; spec/IteratorTrace.tla holds the rule (fewer records than stored only with an error).
func runSlowQuery(tr *vio.Trace, h int, sc *script) {
	name := "dbx-slow-" + sc.Backend
	if _, err := database.Register(&database.Database{Name: name, Description: "C02 slow consumer", StorageType: sc.Backend}); err != nil {
		tr.EmitRaw(map[string]any{"e": "skip", "h": h, "why": err.Error()})
		return
	}
	i := database.NewInterface(&database.Options{Local: true, Internal: true})
	for k := 0; k < sc.Total; k++ {
		r := &Rec{I1: int64(k)}
		r.SetKey(fmt.Sprintf("%s:s%02d", name, k))
		if err := i.Put(r); err != nil {
			tr.EmitRaw(map[string]any{"e": "skip", "h": h, "why": err.Error()})
			return
		}
	}
	ev := map[string]any{"e": "slowq", "h": h, "b": sc.Backend, "total": sc.Total, "n": 0, "v": "nil", "panic": ""}
	it, err := i.Query(query.New(name + ":s"))
	if err != nil {
		ev["v"] = errClass(err)
		ev["panic"] = "query refused: " + err.Error()
		tr.EmitRaw(ev)
		return
	}
	time.Sleep(time.Duration(sc.WaitMs) * time.Millisecond)
	n := 0
	timeout := time.After(20 * time.Second)
drain:
	for {
		select {
		case _, ok := <-it.Next:
			if !ok {
				break drain
			}
			n++
		case <-timeout:
			it.Cancel()
			ev["panic"] = "query result stream did not end within 20 s"
			break drain
		}
	}
	ev["n"] = n
	ev["v"] = errClass(it.Err())
	if it.Err() != nil {
		ev["info"] = it.Err().Error()
	}
	tr.EmitRaw(ev)
	tr.Flush()
}

// runBulkPurge: sc.Total records below one prefix (more than a storage handles in one batch) and three outside
// it, then Purge of the prefix: a plain map has lost exactly the records below the prefix afterwards.
func runBulkPurge(tr *vio.Trace, h int, sc *script) {
	name := fmt.Sprintf("dbx-bulk-%s-%v", sc.Backend, sc.Sd)
	if _, err := database.Register(&database.Database{Name: name, Description: "C02 bulk purge", StorageType: sc.Backend, ShadowDelete: sc.Sd}); err != nil {
		tr.EmitRaw(map[string]any{"e": "skip", "h": h, "why": err.Error()})
		return
	}
	i := database.NewInterface(&database.Options{Local: true, Internal: true})
	ev := map[string]any{"e": "bulk", "h": h, "b": sc.Backend, "sd": sc.Sd, "total": sc.Total, "purged": -1, "left": -1, "controls": -1,
		"v": "nil", "panic": ""}
	defer func() {
		if p := recover(); p != nil {
			ev["panic"] = fmt.Sprint(p)
		}
		tr.EmitRaw(ev)
		tr.Flush()
	}()
	put := i.PutMany(name)
	for k := 0; k < sc.Total+3; k++ {
		r := &Rec{I1: int64(k % 5)}
		if k < sc.Total {
			r.SetKey(fmt.Sprintf("%s:bulk/%06d", name, k))
		} else {
			r.SetKey(fmt.Sprintf("%s:keep/%d", name, k))
		}
		if err := put(r); err != nil {
			ev["v"], ev["panic"] = errClass(err), "batch put refused: "+err.Error()
			return
		}
	}
	if err := put(nil); err != nil {
		ev["v"], ev["panic"] = errClass(err), "batch put failed: "+err.Error()
		return
	}
	ctx, cancel := context.WithTimeout(context.Background(), 60*time.Second)
	defer cancel()
	n, err := i.Purge(ctx, query.New(name+":bulk/"))
	ev["v"] = errClass(err)
	ev["purged"] = n
	count := func(prefix string) int {
		it, err := i.Query(query.New(name + ":" + prefix))
		if err != nil {
			return -1
		}
		c := 0
		for range it.Next {
			c++
		}
		if it.Err() != nil {
			return -1
		}
		return c
	}
	ev["left"] = count("bulk/")
	ev["controls"] = count("keep/")
}

// ---------------------------------------------------------------- main

func main() {
	if len(os.Args) < 3 {
		fmt.Fprintln(os.Stderr, "usage: dbx <scripts.ndjson> <trace.ndjson> [skip]")
		os.Exit(64)
	}
	skip := 0
	if len(os.Args) > 3 {
		skip, _ = strconv.Atoi(os.Args[3])
	}
	base = time.Now().Unix() - 1000
	var err error
	root, err = os.MkdirTemp("", "verif-dbx-")
	if err != nil {
		fmt.Fprintln(os.Stderr, err)
		os.Exit(70)
	}
	defer os.RemoveAll(root)
	if err := database.InitializeWithPath(root); err != nil {
		fmt.Fprintln(os.Stderr, err)
		os.RemoveAll(root)
		os.Exit(70)
	}
	tr, err := vio.NewTrace(os.Args[2])
	if err != nil {
		fmt.Fprintln(os.Stderr, err)
		os.RemoveAll(root)
		os.Exit(70)
	}
	h := -1
	err = vio.ReadLines(os.Args[1], func(line []byte) error {
		h++
		if h < skip {
			return nil
		}
		var sc script
		if err := json.Unmarshal(line, &sc); err != nil {
			return fmt.Errorf("script %d: %w", h, err)
		}
		if sc.Kind == "iter" {
			runIter(tr, h, &sc)
			return nil
		}
		if sc.Kind == "slowq" {
			runSlowQuery(tr, h, &sc)
			return nil
		}
		if sc.Kind == "bulk" {
			runBulkPurge(tr, h, &sc)
			return nil
		}
		for ci, c := range sc.Cfgs {
			runHistory(tr, h, ci, &sc, c)
		}
		return nil
	})
	tr.Close()
	_ = database.Shutdown()
	os.RemoveAll(root)
	if err != nil {
		fmt.Fprintln(os.Stderr, err)
		os.Exit(70)
	}
}
