// Command cfg executes configuration histories generated from spec/ConfigLayersGen.tla against the real
// config package and records what every getter showed after every step (property C04, layering part).
//
// The config registry is a process-wide singleton, so every history runs in its own worker process
// (`cfg worker <dataroot>`, commands on fd 3, replies on fd 4) which registers the option fixture, starts
// the real module system (database + config module) on a fresh data root and executes the steps.  A
// SaveLoad step calls config.SaveConfig() in the running worker, ends that process and starts a new worker
// on the same data root: its start runs the real loadConfig; the observation of the step is read there.
//
// usage: cfg <scripts.ndjson> <trace.ndjson> [skip]
package main

import (
	"bufio"
	"encoding/json"
	"errors"
	"fmt"
	"os"
	"os/exec"
	"path/filepath"
	"sort"
	"strconv"
	"strings"
	"time"

	"github.com/safing/portbase/config"
	_ "github.com/safing/portbase/database/dbmodule"
	"github.com/safing/portbase/dataroot"
	"github.com/safing/portbase/log"
	"github.com/safing/portbase/modules"

	"verifharness/internal/vio"
)

// ------------------------------------------------------------------ fixture (mirrors spec/ConfigLayers.tla)

var optIDs = []string{"str", "arr", "num", "flg", "re", "al", "fn", "nre", "nal", "are", "beta", "exp", "rl"}

var keyOf = map[string]string{
	"str": "t/str", "arr": "t/arr", "num": "t/num", "flg": "t/flg", "re": "t/re", "al": "t/al", "fn": "t/fn",
	"nre": "t/nre", "nal": "t/nal", "are": "t/are",
	"beta": "t/beta", "exp": "t/exp", "rl": "core/releaseLevel", "unk": "t/unknown",
}

var typeOf = map[string]config.OptionType{
	"str": config.OptTypeString, "arr": config.OptTypeStringArray, "num": config.OptTypeInt, "flg": config.OptTypeBool,
	"re": config.OptTypeString, "al": config.OptTypeString, "fn": config.OptTypeInt, "beta": config.OptTypeString,
	"nre": config.OptTypeInt, "nal": config.OptTypeInt, "are": config.OptTypeStringArray,
	"exp": config.OptTypeInt, "rl": config.OptTypeString,
}

var idOfKey = map[string]string{}

func init() {
	for id, k := range keyOf {
		idOfKey[k] = id
	}
}

func registerOptions() error {
	reg := func(id string, def interface{}, mod func(o *config.Option)) error {
		o := &config.Option{
			Name: id, Key: keyOf[id], Description: "verification fixture " + id,
			OptType: typeOf[id], DefaultValue: def,
			ReleaseLevel: config.ReleaseLevelStable, ExpertiseLevel: config.ExpertiseLevelUser,
		}
		if mod != nil {
			mod(o)
		}
		return config.Register(o)
	}
	errs := []error{
		reg("str", "d", nil),
		reg("arr", []string{"d"}, nil),
		reg("num", 7, nil),
		reg("flg", false, nil),
		reg("re", "a", func(o *config.Option) { o.ValidationRegex = "^[ab]+$" }),
		reg("al", "x", func(o *config.Option) {
			o.PossibleValues = []config.PossibleValue{{Name: "x", Value: "x"}, {Name: "y", Value: "y"}}
		}),
		reg("fn", 0, func(o *config.Option) {
			o.ValidationFunc = func(v interface{}) error {
				n, ok := v.(int64)
				if !ok {
					return fmt.Errorf("validation function got %T", v)
				}
				if n%2 != 0 {
					return errors.New("must be even")
				}
				return nil
			}
		}),
		reg("nre", 0, func(o *config.Option) { o.ValidationRegex = "^-?[0-9]+$" }),
		reg("nal", 4, func(o *config.Option) {
			o.PossibleValues = []config.PossibleValue{{Name: "four", Value: 4}, {Name: "six", Value: 6}, {Name: "big", Value: 1 << 53}}
		}),
		reg("are", []string{"a"}, func(o *config.Option) { o.ValidationRegex = "^[ab]+$" }),
		reg("beta", "d", func(o *config.Option) { o.ReleaseLevel = config.ReleaseLevelBeta }),
		reg("exp", 1, func(o *config.Option) { o.ReleaseLevel = config.ReleaseLevelExperimental }),
	}
	return errors.Join(errs...)
}

// rawValue builds the Go value a raw identifier of the specification stands for.
func rawValue(id string) (interface{}, error) {
	if id == "nil" {
		return nil, nil
	}
	i := strings.IndexByte(id, ':')
	if i < 0 {
		return nil, fmt.Errorf("bad raw value %q", id)
	}
	kind, txt := id[:i], id[i+1:]
	num := func() (int64, error) {
		switch txt {
		case "p53":
			return 1 << 53, nil
		case "m53":
			return -(1 << 53), nil
		}
		return strconv.ParseInt(txt, 10, 64)
	}
	flt := func() (float64, error) {
		switch txt {
		case "p53":
			return float64(1 << 53), nil
		case "m53":
			return -float64(1 << 53), nil
		}
		return strconv.ParseFloat(txt, 64)
	}
	switch kind {
	case "s":
		return txt, nil
	case "ss":
		if txt == "" {
			return []string{}, nil
		}
		if txt == "nil" {
			return []string(nil), nil
		}
		return strings.Split(txt, ","), nil
	case "is":
		r := []interface{}{}
		if txt != "" {
			for _, e := range strings.Split(txt, ",") {
				if strings.HasPrefix(e, "#") {
					n, _ := strconv.Atoi(e[1:])
					r = append(r, n)
				} else {
					r = append(r, e)
				}
			}
		}
		return r, nil
	case "i":
		n, err := num()
		return int(n), err
	case "i64":
		n, err := num()
		return n, err
	case "i8":
		n, err := num()
		return int8(n), err
	case "i16":
		n, err := num()
		return int16(n), err
	case "u32":
		n, err := num()
		return uint32(n), err
	case "f":
		f, err := flt()
		return f, err
	case "f32":
		f, err := flt()
		return float32(f), err
	case "b":
		return txt == "true", nil
	case "x":
		switch txt {
		case "map":
			return map[string]interface{}{"a": 1}, nil
		case "bytes":
			return []byte("x"), nil
		case "struct":
			return struct{ A int }{1}, nil
		}
	}
	return nil, fmt.Errorf("bad raw value %q", id)
}

func canon(v interface{}) string {
	switch x := v.(type) {
	case nil:
		return "NIL"
	case string:
		return "S:" + x
	case []string:
		return "A:" + strings.Join(x, "|")
	case int64:
		return "I:" + strconv.FormatInt(x, 10)
	case bool:
		return "B:" + strconv.FormatBool(x)
	}
	return fmt.Sprintf("?%T:%v", v, v)
}

// ------------------------------------------------------------------ script / protocol types

type opT struct {
	Op string            `json:"op"`
	L  string            `json:"L"`
	O  string            `json:"o"`
	V  string            `json:"v"`
	M  map[string]string `json:"m"`
}

type step struct {
	Op opT `json:"op"`
}

type script struct {
	Steps []step `json:"steps"`
}

type resT struct {
	Err   bool     `json:"err"`
	Inv   []string `json:"inv"`
	Panic string   `json:"panic,omitempty"`
	Msg   string   `json:"msg,omitempty"`
}

type cmdT struct {
	Cmd string `json:"cmd"` // op | save | observe
	Op  opT    `json:"op"`
}

type replyT struct {
	Res resT           `json:"res"`
	Obs map[string]any `json:"obs,omitempty"`
}

// ------------------------------------------------------------------ worker

type getters struct {
	s map[string]config.StringOption
	a map[string]config.StringArrayOption
	i map[string]config.IntOption
	b map[string]config.BoolOption
}

const (
	fbS = "FB"
	fbI = int64(-99)
	fbB = true
)

var fbA = []string{"F", "B"}

func makeGetters(safe bool, ids []string) *getters {
	g := &getters{map[string]config.StringOption{}, map[string]config.StringArrayOption{},
		map[string]config.IntOption{}, map[string]config.BoolOption{}}
	for _, id := range ids {
		k := keyOf[id]
		if safe {
			g.s[id] = config.Concurrent.GetAsString(k, fbS)
			g.a[id] = config.Concurrent.GetAsStringArray(k, fbA)
			g.i[id] = config.Concurrent.GetAsInt(k, fbI)
			g.b[id] = config.Concurrent.GetAsBool(k, fbB)
		} else {
			g.s[id] = config.GetAsString(k, fbS)
			g.a[id] = config.GetAsStringArray(k, fbA)
			g.i[id] = config.GetAsInt(k, fbI)
			g.b[id] = config.GetAsBool(k, fbB)
		}
	}
	return g
}

// own reads the option through the getter of its own type.
func (g *getters) own(id string) string {
	switch typeOf[id] {
	case config.OptTypeString:
		return canon(g.s[id]())
	case config.OptTypeStringArray:
		return canon(g.a[id]())
	case config.OptTypeInt:
		return canon(g.i[id]())
	default:
		return canon(g.b[id]())
	}
}

// all reads the key through the getters of all four types; the own type is reported as "OWN".
func (g *getters) all(id string, own config.OptionType) []string {
	r := []string{canon(g.s[id]()), canon(g.a[id]()), canon(g.i[id]()), canon(g.b[id]())}
	if own >= config.OptTypeString && own <= config.OptTypeBool {
		r[int(own)-1] = "OWN"
	}
	return r
}

var (
	plain, safe, plainSafeUnknown *getters
)

func observe(op opT) map[string]any {
	obs := map[string]any{}
	g, c, n, w, uv, set, act, p := map[string]string{}, map[string]string{}, map[string]string{}, map[string][]string{},
		map[string]string{}, map[string]bool{}, map[string]string{}, map[string]string{}
	fresh := makeGetters(false, optIDs)
	active := config.GetActiveConfigValues()
	// the perspective of the step's own map
	pm := map[string]interface{}{}
	if op.Op == "Set" && op.O != "unk" {
		v, _ := rawValue(op.V)
		pm[keyOf[op.O]] = v
	} else {
		for k, id := range op.M {
			if id != "-" {
				v, _ := rawValue(id)
				pm[keyOf[k]] = v
			}
		}
	}
	persp, _ := config.NewPerspective(pm)
	for _, id := range optIDs {
		g[id] = plain.own(id)
		c[id] = safe.own(id)
		n[id] = fresh.own(id)
		w[id] = safe.all(id, typeOf[id])
		opt, err := config.GetOption(keyOf[id])
		if err != nil {
			// keep the record shape; the trace specification rejects the "?" values
			uv[id], set[id], act[id], p[id] = "?"+err.Error(), false, "?", "?"
			continue
		}
		uv[id] = canon(opt.UserValue())
		set[id] = opt.IsSetByUser()
		if v, ok := active[keyOf[id]]; ok {
			act[id] = canon(v)
		} else {
			act[id] = "NIL"
		}
		p[id] = "NONE"
		switch typeOf[id] {
		case config.OptTypeString:
			if v, ok := persp.GetAsString(keyOf[id]); ok {
				p[id] = canon(v)
			}
		case config.OptTypeStringArray:
			if v, ok := persp.GetAsStringArray(keyOf[id]); ok {
				p[id] = canon(v)
			}
		case config.OptTypeInt:
			if v, ok := persp.GetAsInt(keyOf[id]); ok {
				p[id] = canon(v)
			}
		default:
			if v, ok := persp.GetAsBool(keyOf[id]); ok {
				p[id] = canon(v)
			}
		}
	}
	obs["g"], obs["c"], obs["n"], obs["w"], obs["uv"], obs["set"], obs["act"], obs["p"] = g, c, n, w, uv, set, act, p
	obs["unk"] = plainSafeUnknown.all("unk", 0)
	return obs
}

func invKeys(ves []*config.ValidationError) []string {
	r := []string{}
	for _, ve := range ves {
		if ve == nil || ve.Option == nil {
			r = append(r, "?")
			continue
		}
		if id, ok := idOfKey[ve.Option.Key]; ok {
			r = append(r, id)
		} else {
			r = append(r, "?"+ve.Option.Key)
		}
	}
	sort.Strings(r)
	return r
}

func execOp(op opT) (r resT) {
	r.Inv = []string{}
	defer func() {
		if p := recover(); p != nil {
			r.Panic = fmt.Sprint(p)
		}
	}()
	switch op.Op {
	case "Set":
		v, err := rawValue(op.V)
		if err != nil {
			r.Panic = err.Error()
			return r
		}
		if op.L == "user" {
			err = config.SetConfigOption(keyOf[op.O], v)
		} else {
			err = config.SetDefaultConfigOption(keyOf[op.O], v)
		}
		if err != nil {
			r.Err = true
			r.Msg = err.Error()
		}
	case "Replace":
		m := map[string]interface{}{}
		for k, id := range op.M {
			if id == "-" {
				continue
			}
			v, err := rawValue(id)
			if err != nil {
				r.Panic = err.Error()
				return r
			}
			m[keyOf[k]] = v
		}
		var ves []*config.ValidationError
		if op.L == "user" {
			ves, _ = config.ReplaceConfig(m)
		} else {
			ves, _ = config.ReplaceDefaultConfig(m)
		}
		r.Inv = invKeys(ves)
	default:
		r.Panic = "unknown op " + op.Op
	}
	return r
}

func workerMain(dir string) {
	in := os.NewFile(3, "commands")
	out := bufio.NewWriter(os.NewFile(4, "replies"))
	fail := func(msg string) {
		b, _ := json.Marshal(replyT{Res: resT{Inv: []string{}, Panic: "worker: " + msg}})
		out.Write(b)
		out.WriteByte('\n')
		out.Flush()
		os.Exit(3)
	}
	log.SetLogLevel(log.CriticalLevel)
	modules.SetStdErrReporting(false)
	if err := registerOptions(); err != nil {
		fail("register: " + err.Error())
	}
	if err := dataroot.Initialize(dir, 0o0755); err != nil {
		fail("dataroot: " + err.Error())
	}
	if err := modules.Start(); err != nil {
		fail("start: " + err.Error())
	}
	plain = makeGetters(false, optIDs)
	safe = makeGetters(true, optIDs)
	plainSafeUnknown = makeGetters(true, []string{"unk"})
	// ready
	out.WriteString("{\"ready\":true}\n")
	out.Flush()
	sc := bufio.NewScanner(in)
	sc.Buffer(make([]byte, 1<<16), 1<<24)
	for sc.Scan() {
		var c cmdT
		if err := json.Unmarshal(sc.Bytes(), &c); err != nil {
			fail("bad command: " + err.Error())
		}
		var rep replyT
		rep.Res.Inv = []string{}
		switch c.Cmd {
		case "op":
			rep.Res = execOp(c.Op)
			if rep.Res.Panic == "" {
				func() {
					defer func() {
						if p := recover(); p != nil {
							rep.Res.Panic = "observe: " + fmt.Sprint(p)
							rep.Obs = nil
						}
					}()
					rep.Obs = observe(c.Op)
				}()
			}
		case "save":
			if err := config.SaveConfig(); err != nil {
				rep.Res.Err = true
				rep.Res.Msg = err.Error()
			}
		case "observe":
			func() {
				defer func() {
					if p := recover(); p != nil {
						rep.Res.Panic = "observe: " + fmt.Sprint(p)
						rep.Obs = nil
					}
				}()
				rep.Obs = observe(c.Op)
			}()
			if ves := config.GetLoadedConfigValidationErrors(); len(ves) > 0 {
				rep.Res.Inv = invKeys(ves)
			}
		}
		b, err := json.Marshal(rep)
		if err != nil {
			fail("marshal: " + err.Error())
		}
		out.Write(b)
		out.WriteByte('\n')
		out.Flush()
	}
	os.Exit(0)
}

// ------------------------------------------------------------------ parent

type worker struct {
	cmd   *exec.Cmd
	to    *os.File
	from  *bufio.Reader
	fromF *os.File
	lines chan []byte
}

func startWorker(dir string) (*worker, error) {
	cr, cw, err := os.Pipe()
	if err != nil {
		return nil, err
	}
	rr, rw, err := os.Pipe()
	if err != nil {
		return nil, err
	}
	self, err := os.Executable()
	if err != nil {
		return nil, err
	}
	cmd := exec.Command(self, "worker", dir)
	cmd.ExtraFiles = []*os.File{cr, rw}
	cmd.Stdout = nil
	cmd.Stderr = nil
	if os.Getenv("VERIF_DEBUG") != "" {
		cmd.Stderr = os.Stderr
	}
	if err := cmd.Start(); err != nil {
		return nil, err
	}
	cr.Close()
	rw.Close()
	w := &worker{cmd: cmd, to: cw, fromF: rr, lines: make(chan []byte, 4)}
	go func() {
		rd := bufio.NewReaderSize(rr, 1<<16)
		for {
			b, err := rd.ReadBytes('\n')
			if len(b) > 0 && b[len(b)-1] == '\n' {
				w.lines <- b
			}
			if err != nil {
				close(w.lines)
				return
			}
		}
	}()
	// wait for ready (or a failure report)
	b, err := w.read(30 * time.Second)
	if err != nil {
		w.kill()
		return nil, fmt.Errorf("worker did not come up: %w", err)
	}
	if !strings.Contains(string(b), "\"ready\"") {
		w.kill()
		return nil, &workerFailure{strings.TrimSpace(string(b))}
	}
	return w, nil
}

// workerFailure is a start failure that the worker reported itself (registration, data root or module
// start failed), as opposed to a process that could not be run at all.
type workerFailure struct{ msg string }

func (f *workerFailure) Error() string { return "worker failed: " + f.msg }

func (w *worker) read(d time.Duration) ([]byte, error) {
	select {
	case b, ok := <-w.lines:
		if !ok {
			return nil, errors.New("worker died")
		}
		return b, nil
	case <-time.After(d):
		return nil, errors.New("worker hangs")
	}
}

func (w *worker) call(c cmdT) (replyT, error) {
	var rep replyT
	b, _ := json.Marshal(c)
	if _, err := w.to.Write(append(b, '\n')); err != nil {
		return rep, err
	}
	rb, err := w.read(20 * time.Second)
	if err != nil {
		return rep, err
	}
	err = json.Unmarshal(rb, &rep)
	return rep, err
}

func (w *worker) stop() {
	w.to.Close()
	done := make(chan struct{})
	go func() { _ = w.cmd.Wait(); close(done) }()
	select {
	case <-done:
	case <-time.After(5 * time.Second):
		_ = w.cmd.Process.Kill()
		<-done
	}
	w.fromF.Close()
}

func (w *worker) kill() {
	_ = w.cmd.Process.Kill()
	_ = w.cmd.Wait()
	w.to.Close()
	w.fromF.Close()
}

func normOp(o opT) opT {
	if o.M == nil {
		o.M = map[string]string{}
	}
	for id := range keyOf {
		if _, ok := o.M[id]; !ok {
			o.M[id] = "-"
		}
	}
	return o
}

func runScript(tr *vio.Trace, s script, n int, base string) error {
	dir := filepath.Join(base, fmt.Sprintf("root-%d-%d", os.Getpid(), n))
	if err := os.MkdirAll(dir, 0o755); err != nil {
		return err
	}
	defer os.RemoveAll(dir)
	w, err := startWorker(dir)
	if err != nil {
		return err
	}
	defer func() {
		if w != nil {
			w.stop()
		}
	}()
	tr.EmitRaw(map[string]any{"e": "new", "h": n, "keys": keyOf})
	for _, st := range s.Steps {
		op := normOp(st.Op)
		tr.EmitRaw(map[string]any{"e": "try", "op": op, "h": n})
		tr.Flush()
		var rep replyT
		if op.Op == "SaveLoad" {
			rep, err = w.call(cmdT{Cmd: "save"})
			if err == nil && rep.Res.Panic == "" && !rep.Res.Err {
				w.stop()
				w = nil
				w, err = startWorker(dir)
				var wf *workerFailure
				switch {
				case err == nil:
					rep, err = w.call(cmdT{Cmd: "observe", Op: op})
				case errors.As(err, &wf):
					// the modules of the new process did not start on the saved file: that is an
					// observation, not an infrastructure failure
					rep = replyT{Res: resT{Inv: []string{}, Panic: "start after save: " + wf.msg}}
					err = nil
				default:
					return err
				}
			}
		} else {
			rep, err = w.call(cmdT{Cmd: "op", Op: op})
		}
		if err != nil {
			// hang or death inside the step: report as an observation
			rep = replyT{Res: resT{Inv: []string{}, Panic: "process: " + err.Error()}}
			if w != nil {
				w.kill()
				w = nil
			}
		}
		if rep.Res.Inv == nil {
			rep.Res.Inv = []string{}
		}
		ev := map[string]any{"e": "op", "op": op, "res": rep.Res, "h": n}
		if rep.Obs != nil {
			ev["obs"] = rep.Obs
		}
		tr.EmitRaw(ev)
		if rep.Res.Panic != "" || w == nil {
			break
		}
	}
	return nil
}

func main() {
	if len(os.Args) >= 3 && os.Args[1] == "worker" {
		workerMain(os.Args[2])
		return
	}
	if len(os.Args) < 3 {
		fmt.Fprintln(os.Stderr, "usage: cfg <scripts> <trace> [skip]")
		os.Exit(2)
	}
	skip := 0
	if len(os.Args) > 3 {
		skip, _ = strconv.Atoi(os.Args[3])
	}
	tr, err := vio.NewTrace(os.Args[2])
	if err != nil {
		fmt.Fprintln(os.Stderr, err)
		os.Exit(2)
	}
	base := filepath.Dir(os.Args[2])
	n := 0
	err = vio.ReadLines(os.Args[1], func(line []byte) error {
		if n < skip {
			n++
			return nil
		}
		var s script
		if err := json.Unmarshal(line, &s); err != nil {
			return err
		}
		if err := runScript(tr, s, n, base); err != nil {
			return err
		}
		n++
		return nil
	})
	tr.Close()
	if err != nil {
		fmt.Fprintln(os.Stderr, err)
		os.Exit(2)
	}
	fmt.Printf("histories=%d\n", n)
}
