// Command upd executes updater operation histories generated from spec/UpdaterGen.tla against a real
// updater.ResourceRegistry on a temporary storage directory with real files, and evaluates the
// file-name conversion functions on generated (identifier, version) vectors (property C19).
// It records what the code did; the verdict is TLC's (spec/UpdaterTrace.tla, spec/UpdaterNamesTrace.tla).
//
// usage: upd <scripts.ndjson> <trace.ndjson> [skip]
//
// A script line is either a history  {"init":{"online":..,"dev":..,"usepre":..},"steps":[op,...]}
// or a batch of name vectors          {"names":[{"dir":[..],"stem":[..],"exts":[..],"maj":[..],"min":[..],"pat":[..],"pre":[..]},...]}
// (every string is a sequence of one-character strings: TLC has no string operations).
package main

import (
	"encoding/json"
	"errors"
	"fmt"
	"io/fs"
	"net/http"
	"net/http/httptest"
	"os"
	"path/filepath"
	"sort"
	"strconv"
	"strings"
	"time"

	"github.com/safing/portbase/log"
	"github.com/safing/portbase/updater"
	"github.com/safing/portbase/utils"

	"verifharness/internal/vio"
)

// Symbolic version ids 1..6 of spec/Updater.tla and their concrete strings. The table is written into
// every trace ("new" event) and compared with the specification's own table there.
var (
	verStr     = []string{"0.0.0", "1.0.0", "1.1.0", "1.2.0-beta", "2.0.0-rc", "2.0.0"}
	// the same versions in other spellings the version parser accepts (an index file may say 1.0 where a file name says 1-0-0)
	verAlt = []string{"0.0", "1.0", "v1.1.0", "1.2-beta", "v2.0.0-rc", "2"}
	identifier = "pkg/sub.d/tool.tar.gz"
	// where the driver puts the file of an available version (documented format, written out by hand)
	fileNames = []string{
		"pkg/sub.d/tool_v0-0-0.tar.gz", "pkg/sub.d/tool_v1-0-0.tar.gz", "pkg/sub.d/tool_v1-1-0.tar.gz",
		"pkg/sub.d/tool_v1-2-0-beta.tar.gz", "pkg/sub.d/tool_v2-0-0-rc.tar.gz", "pkg/sub.d/tool_v2-0-0.tar.gz",
	}
)

type op struct {
	Op    string `json:"op"`
	V     int    `json:"v"`
	Avail bool   `json:"avail"`
	Cur   bool   `json:"cur"`
	Pre   bool   `json:"pre"`
	Idx   string `json:"idx"`
	Flag  bool   `json:"flag"`
	Keep  int    `json:"keep"`
	Alt   bool   `json:"alt"` // Add: the version is spelled in its other form
}

type res struct {
	Err   string `json:"err"`
	V     int    `json:"v"`
	Path  string `json:"path"`
	Panic string `json:"panic"`
}

type initFlags struct {
	Online bool `json:"online"`
	Dev    bool `json:"dev"`
	UsePre bool `json:"usepre"`
}

type nameVec struct {
	Dir  []string `json:"dir"`
	Stem []string `json:"stem"`
	Exts []string `json:"exts"`
	Maj  []string `json:"maj"`
	Min  []string `json:"min"`
	Pat  []string `json:"pat"`
	Pre  []string `json:"pre"`
}

type script struct {
	Init  initFlags `json:"init"`
	Steps []op      `json:"steps"`
	Names []nameVec `json:"names"`
}

type obs struct {
	L      []int `json:"l"`
	Av     []int `json:"av"`
	Cur    []int `json:"cur"`
	Pre    []int `json:"pre"`
	Bl     []int `json:"bl"`
	Files  []int `json:"files"`
	Sel    int   `json:"sel"`
	Act    int   `json:"act"`
	Online bool  `json:"online"`
	Dev    bool  `json:"dev"`
	UsePre bool  `json:"usepre"`
	// Odd counts what has no place in the model: duplicate or unknown entries of Resource.Versions and
	// unexpected files in the storage directory.
	Odd int `json:"odd"`
}

func idOf(version string) int {
	for i, s := range verStr {
		if s == version {
			return i + 1
		}
	}
	return -1
}

type world struct {
	reg       *updater.ResourceRegistry
	dir       string
	idxAuto   *updater.Index
	idxManual *updater.Index
}

func newWorld(dir string, f initFlags, url string) (*world, error) {
	reg := &updater.ResourceRegistry{
		Name:           "verif",
		Online:         f.Online,
		DevMode:        f.Dev,
		UsePreReleases: f.UsePre,
		UpdateURLs:     []string{url},
	}
	if err := reg.Initialize(utils.NewDirStructure(dir, 0o0755)); err != nil {
		return nil, err
	}
	return &world{
		reg:       reg,
		dir:       dir,
		idxAuto:   &updater.Index{Path: "stable.json", AutoDownload: true},
		idxManual: &updater.Index{Path: "manual.json", AutoDownload: false},
	}, nil
}

func (w *world) exec(o op) (r res) {
	defer func() {
		if p := recover(); p != nil {
			r = res{Err: "panic", Panic: fmt.Sprint(p)}
		}
	}()
	switch o.Op {
	case "Add":
		if o.V < 1 || o.V > len(verStr) {
			return res{Err: "badscript"}
		}
		if o.Avail {
			p := filepath.Join(w.dir, filepath.FromSlash(fileNames[o.V-1]))
			if err := os.MkdirAll(filepath.Dir(p), 0o0755); err != nil {
				return res{Err: "io", Panic: err.Error()}
			}
			if err := os.WriteFile(p, []byte("content of "+verStr[o.V-1]), 0o0644); err != nil {
				return res{Err: "io", Panic: err.Error()}
			}
		}
		var idx *updater.Index
		switch o.Idx {
		case "auto":
			idx = w.idxAuto
		case "manual":
			idx = w.idxManual
		}
		spelled := verStr[o.V-1]
		if o.Alt {
			spelled = verAlt[o.V-1]
		}
		if err := w.reg.AddResource(identifier, spelled, idx, o.Avail, o.Cur, o.Pre); err != nil {
			return res{Err: "adderr"}
		}
		return res{}
	case "Scan":
		if err := w.reg.ScanStorage(""); err != nil {
			return res{Err: "scanerr"}
		}
		return res{}
	case "SetOnline":
		w.reg.Lock()
		w.reg.Online = o.Flag
		w.reg.Unlock()
		return res{}
	case "SetDev":
		w.reg.SetDevMode(o.Flag)
		return res{}
	case "SetPre":
		w.reg.SetUsePreReleases(o.Flag)
		return res{}
	case "Select":
		w.reg.SelectVersions()
		return res{}
	case "GetSelected":
		m := w.reg.GetSelectedVersions()
		s, ok := m[identifier]
		if !ok {
			return res{}
		}
		return res{V: idOf(s)}
	case "GetFile":
		f, err := w.reg.GetFile(identifier)
		switch {
		case err == nil:
			rel, rerr := filepath.Rel(w.dir, f.Path())
			if rerr != nil {
				rel = f.Path()
			}
			return res{V: idOf(f.Version()), Path: filepath.ToSlash(rel)}
		case errors.Is(err, updater.ErrNotFound):
			return res{Err: "notfound"}
		case errors.Is(err, updater.ErrNotAvailableLocally):
			return res{Err: "notlocal"}
		default:
			return res{Err: "fetch"}
		}
	case "Blacklist":
		if o.V < 1 || o.V > len(verStr) {
			return res{Err: "badscript"}
		}
		exp := w.reg.Export()[identifier]
		if exp == nil {
			return res{Err: "nores"}
		}
		for _, rv := range exp.Versions {
			if rv.VersionNumber == verStr[o.V-1] {
				// File.Blacklist is the public way to Resource.Blacklist(version)
				if err := rv.GetFile().Blacklist(); err != nil {
					return res{Err: "refused"}
				}
				return res{}
			}
		}
		return res{Err: "nolisted"}
	case "Purge":
		w.reg.Purge(o.Keep)
		return res{}
	}
	return res{Err: "badscript"}
}

// execGuarded runs one operation; an operation that does not return within stepTimeout (every one of them
// takes milliseconds, downloads come from the loopback interface) is recorded as a hang.
func (w *world) execGuarded(o op) res {
	ch := make(chan res, 1)
	go func() { ch <- w.exec(o) }()
	select {
	case r := <-ch:
		return r
	case <-time.After(stepTimeout):
		return res{Err: "hang", Panic: "operation did not return within " + stepTimeout.String()}
	}
}

const stepTimeout = 20 * time.Second

func emptyObs() obs {
	return obs{L: []int{}, Av: []int{}, Cur: []int{}, Pre: []int{}, Bl: []int{}, Files: []int{}}
}

func (w *world) observe() (o obs) {
	o = emptyObs()
	defer func() {
		if recover() != nil {
			o.Odd += 1000
		}
	}()
	o.Online, o.Dev, o.UsePre = w.reg.Online, w.reg.DevMode, w.reg.UsePreReleases
	if exp := w.reg.Export()[identifier]; exp != nil {
		seen := map[int]bool{}
		for _, rv := range exp.Versions {
			id := idOf(rv.VersionNumber)
			if id < 1 || seen[id] {
				o.Odd++
				continue
			}
			seen[id] = true
			o.L = append(o.L, id)
			if rv.Available {
				o.Av = append(o.Av, id)
			}
			if rv.CurrentRelease {
				o.Cur = append(o.Cur, id)
			}
			if rv.PreRelease {
				o.Pre = append(o.Pre, id)
			}
			if rv.Blacklisted {
				o.Bl = append(o.Bl, id)
			}
		}
		if exp.SelectedVersion != nil {
			o.Sel = idOf(exp.SelectedVersion.VersionNumber)
		}
		if exp.ActiveVersion != nil {
			o.Act = idOf(exp.ActiveVersion.VersionNumber)
		}
	}
	tmp := filepath.Join(w.dir, "tmp")
	_ = filepath.WalkDir(w.dir, func(p string, d fs.DirEntry, err error) error {
		if err != nil {
			o.Odd++
			return nil
		}
		if d.IsDir() {
			if p == tmp {
				return filepath.SkipDir
			}
			return nil
		}
		rel, _ := filepath.Rel(w.dir, p)
		rel = filepath.ToSlash(rel)
		for i, n := range fileNames {
			if n == rel {
				o.Files = append(o.Files, i+1)
				return nil
			}
		}
		o.Odd++
		return nil
	})
	for _, s := range [][]int{o.L, o.Av, o.Cur, o.Pre, o.Bl, o.Files} {
		sort.Ints(s)
	}
	return o
}

func chars(s string) []string {
	r := make([]string, 0, len(s))
	for _, c := range s {
		r = append(r, string(c))
	}
	return r
}

// names evaluates GetVersionedPath and GetIdentifierAndVersion on one vector.
func names(v nameVec) (ev map[string]any) {
	ev = map[string]any{"e": "name", "dir": v.Dir, "stem": v.Stem, "exts": v.Exts, "maj": v.Maj, "min": v.Min,
		"pat": v.Pat, "pre": v.Pre, "name": []string{}, "ok": false, "id": []string{}, "ver": []string{}, "panic": ""}
	for _, k := range []string{"dir", "stem", "exts", "maj", "min", "pat", "pre"} {
		if ev[k].([]string) == nil {
			ev[k] = []string{}
		}
	}
	defer func() {
		if p := recover(); p != nil {
			ev["panic"] = fmt.Sprint(p)
		}
	}()
	id := strings.Join(v.Dir, "") + strings.Join(v.Stem, "") + strings.Join(v.Exts, "")
	ver := strings.Join(v.Maj, "") + "." + strings.Join(v.Min, "") + "." + strings.Join(v.Pat, "")
	if len(v.Pre) > 0 {
		ver += "-" + strings.Join(v.Pre, "")
	}
	name := updater.GetVersionedPath(id, ver)
	ev["name"] = chars(name)
	id2, ver2, ok := updater.GetIdentifierAndVersion(name)
	ev["ok"] = ok
	ev["id"] = chars(id2)
	ev["ver"] = chars(ver2)
	return ev
}

func main() {
	if len(os.Args) < 3 {
		fmt.Fprintln(os.Stderr, "usage: upd <scripts> <trace> [skip]")
		os.Exit(2)
	}
	skip := 0
	if len(os.Args) > 3 {
		skip, _ = strconv.Atoi(os.Args[3])
	}
	log.SetLogLevel(log.CriticalLevel)
	tr, err := vio.NewTrace(os.Args[2])
	if err != nil {
		fmt.Fprintln(os.Stderr, err)
		os.Exit(2)
	}
	base, err := os.MkdirTemp(filepath.Dir(os.Args[2]), "store-")
	if err != nil {
		fmt.Fprintln(os.Stderr, err)
		os.Exit(2)
	}
	defer os.RemoveAll(base)
	// on-demand downloads of GetFile are served from the loopback interface
	srv := httptest.NewServer(http.HandlerFunc(func(w http.ResponseWriter, r *http.Request) {
		body := []byte("downloaded " + r.URL.Path)
		w.Header().Set("Content-Length", strconv.Itoa(len(body)))
		_, _ = w.Write(body)
	}))
	defer srv.Close()

	n := 0
	err = vio.ReadLines(os.Args[1], func(line []byte) error {
		if n < skip {
			n++
			return nil
		}
		var s script
		if err := json.Unmarshal(line, &s); err != nil {
			return err
		}
		if s.Names != nil {
			for _, v := range s.Names {
				ev := names(v)
				ev["h"] = n
				tr.EmitRaw(ev)
			}
			n++
			return nil
		}
		dir := filepath.Join(base, "h"+strconv.Itoa(n))
		w, err := newWorld(dir, s.Init, srv.URL)
		if err != nil {
			return err
		}
		tr.EmitRaw(map[string]any{"e": "new", "h": n, "init": s.Init, "vers": verStr, "names": fileNames, "id": identifier})
		for _, o := range s.Steps {
			tr.EmitRaw(map[string]any{"e": "try", "op": o, "h": n})
			tr.Flush()
			r := w.execGuarded(o)
			if r.Panic != "" {
				// a panic may have left the resource locked (GetSelectedVersions does): no observation, the
				// history ends here and the trace specification rejects the event
				tr.EmitRaw(map[string]any{"e": "op", "h": n, "op": o, "res": r, "obs": emptyObs()})
				break
			}
			tr.EmitRaw(map[string]any{"e": "op", "h": n, "op": o, "res": r, "obs": w.observe()})
		}
		_ = os.RemoveAll(dir)
		n++
		return nil
	})
	tr.Close()
	if err != nil {
		fmt.Fprintln(os.Stderr, err)
		os.RemoveAll(base)
		os.Exit(2)
	}
	fmt.Printf("scripts=%d\n", n)
}
