// Command accx executes accessor operation tables / histories generated from spec/AccSemGen.tla
// against the real package database/accessor and records what the code did (extension check X12).
//
// usage: accx <scripts.ndjson> <trace.ndjson> [skip]
//
// The symbolic -> concrete mapping (integer and fraction anchors, the object under test) lives here
// and is written into the first event of every history, so that replay files are self-contained.
// The object is observed WITHOUT the accessor under test: Go field reads for the struct,
// encoding/json (UseNumber) for the JSON documents.
package main

import (
	"bytes"
	"encoding/json"
	"fmt"
	"math"
	"math/big"
	"os"
	"reflect"
	"strconv"
	"strings"

	"github.com/safing/portbase/database/accessor"

	"verifharness/internal/vio"
)

// ---- the object under test -------------------------------------------------------------------

type Deeper struct{ S string }

type SubT struct {
	S    string
	I    int64
	Deep Deeper
}

type Emb struct {
	ES string
	EI int32
}

type PEmb struct{ PE string }

type (
	MyStr string
	MyU8  uint8
)

type Obj struct {
	S    string
	A    []string
	I    int
	I8   int8
	I16  int16
	I32  int32
	I64  int64
	UI   uint
	UI8  uint8
	UI16 uint16
	UI32 uint32
	UI64 uint64
	F32  float32
	F64  float64
	B    bool
	NS   MyStr
	NI   MyU8
	Sub  SubT
	PS   *SubT
	M    map[string]string
	P    *string
	IA   []int
	Emb
	*PEmb
	u string
}

func newObj(init string) *Obj {
	p := "px"
	o := &Obj{
		S: "banana", A: []string{"black", "white"},
		I: 42, I8: 42, I16: 42, I32: 42, I64: 42, UI: 42, UI8: 42, UI16: 42, UI32: 42, UI64: 42,
		F32: 42.25, F64: 42.42, B: true, NS: "ns", NI: 42,
		Sub: SubT{S: "sub", I: -1}, PS: &SubT{S: "ps", I: 0}, M: map[string]string{"k": "mv"},
		P: &p, IA: []int{1, 2}, Emb: Emb{ES: "emb", EI: 42}, u: "hidden",
	}
	if init == "nilps" {
		o.PS = nil
	}
	return o
}

// ---- anchors -----------------------------------------------------------------------------------

var intAnchors []*big.Int

var fracAnchors = []float64{-1.5, -0.5, 0.5, 1.5, 42.25, float64(float32(42.42)), 42.42, 127.5}

func init() {
	for _, s := range []string{
		"-9223372036854775808", "-2147483649", "-2147483648", "-32769", "-32768", "-129", "-128", "-1", "0", "1",
		"2", "42", "127", "128", "255", "256", "32767", "32768", "65535", "65536",
		"2147483647", "2147483648", "4294967295", "4294967296", "9007199254740992", "9223372036854775807",
		"9223372036854775808", "18446744073709551615", "1361129467683753853853498429727072845824", // 2^130: a float64, beyond float32
	} {
		n, _ := new(big.Int).SetString(s, 10)
		intAnchors = append(intAnchors, n)
	}
}

// V is a value of the model.
type V struct {
	T  string   `json:"t"`
	R  int      `json:"r"`
	Fr bool     `json:"fr"`
	S  string   `json:"s"`
	B  bool     `json:"b"`
	L  []string `json:"l"`
}

func mk(t string) V        { return V{T: t, L: []string{}} }
func strV(s string) V      { v := mk("str"); v.S = s; return v }
func boolV(b bool) V       { v := mk("bool"); v.B = b; return v }
func arrV(l []string) V    { v := mk("arr"); v.L = append([]string{}, l...); return v }
func numV(r int, f bool) V { v := mk("num"); v.R = r; v.Fr = f; return v }

func bigRank(n *big.Int) V {
	for i, a := range intAnchors {
		if a.Cmp(n) == 0 {
			return numV(i, false)
		}
	}
	return numV(-1, false)
}

func floatRank(x float64) V {
	if math.IsNaN(x) || math.IsInf(x, 0) {
		return numV(-2, false)
	}
	if x == math.Trunc(x) {
		n, _ := new(big.Float).SetFloat64(x).Int(nil)
		return bigRank(n)
	}
	for i, a := range fracAnchors {
		if a == x {
			return numV(i, true)
		}
	}
	return numV(-1, true)
}

func numberRank(text string) V {
	if n, ok := new(big.Int).SetString(text, 10); ok {
		if v := bigRank(n); v.R >= 0 {
			return v
		}
		// sjson writes floats with the shortest digits that identify the float64, padded with zeros
		// (2^63 as 9223372036854776000): take the number for the float64 it denotes
	}
	x, err := strconv.ParseFloat(text, 64)
	if err != nil {
		return numV(-3, false)
	}
	return floatRank(x)
}

func anchorFloat(v V) float64 {
	if v.Fr {
		return fracAnchors[v.R]
	}
	x, _ := new(big.Float).SetInt(intAnchors[v.R]).Float64()
	return x
}

// ---- observing the object without the accessor ---------------------------------------------------

var leafKeys = []string{
	"S", "A", "I", "I8", "I16", "I32", "I64", "UI", "UI8", "UI16", "UI32", "UI64", "F32", "F64", "B",
	"NS", "NI", "ES", "EI", "Sub.S", "Sub.I", "Sub.Deep.S", "PS.S", "PS.I", "M.k",
	"X", "Sub.X", "S.X", "I8.X", "M.z",
}

func i64(n int64) V  { return bigRank(big.NewInt(n)) }
func u64(n uint64) V { return bigRank(new(big.Int).SetUint64(n)) }

func structState(o *Obj) map[string]V {
	st := map[string]V{}
	for _, k := range leafKeys {
		st[k] = mk("none")
	}
	st["S"] = strV(o.S)
	if o.A == nil {
		st["A"] = mk("null")
	} else {
		st["A"] = arrV(o.A)
	}
	st["I"], st["I8"], st["I16"], st["I32"], st["I64"] = i64(int64(o.I)), i64(int64(o.I8)), i64(int64(o.I16)), i64(int64(o.I32)), i64(o.I64)
	st["UI"], st["UI8"], st["UI16"], st["UI32"], st["UI64"] = u64(uint64(o.UI)), u64(uint64(o.UI8)), u64(uint64(o.UI16)), u64(uint64(o.UI32)), u64(o.UI64)
	st["F32"], st["F64"] = floatRank(float64(o.F32)), floatRank(o.F64)
	st["B"] = boolV(o.B)
	st["NS"], st["NI"] = strV(string(o.NS)), u64(uint64(o.NI))
	st["ES"], st["EI"] = strV(o.ES), i64(int64(o.EI))
	st["Sub.S"], st["Sub.I"], st["Sub.Deep.S"] = strV(o.Sub.S), i64(o.Sub.I), strV(o.Sub.Deep.S)
	if o.PS != nil {
		st["PS.S"], st["PS.I"] = strV(o.PS.S), i64(o.PS.I)
	}
	if s, ok := o.M["k"]; ok {
		st["M.k"] = strV(s)
	}
	if s, ok := o.M["z"]; ok {
		st["M.z"] = strV(s)
	}
	return st
}

func structRaw(o *Obj) string {
	b, err := json.Marshal(o)
	p := "<nil>"
	if o.P != nil {
		p = *o.P
	}
	return fmt.Sprintf("%s|%v|%s|%s|%v", b, err, o.u, p, o.PEmb)
}

func classifyJSON(x any, present bool) V {
	if !present {
		return mk("none")
	}
	switch t := x.(type) {
	case nil:
		return mk("null")
	case string:
		return strV(t)
	case bool:
		return boolV(t)
	case json.Number:
		return numberRank(string(t))
	case []any:
		l := []string{}
		for _, e := range t {
			s, ok := e.(string)
			if !ok {
				return mk("other")
			}
			l = append(l, s)
		}
		return arrV(l)
	case map[string]any:
		return mk("obj")
	}
	return mk("other")
}

func jsonState(doc []byte) map[string]V {
	st := map[string]V{}
	dec := json.NewDecoder(bytes.NewReader(doc))
	dec.UseNumber()
	var root any
	if err := dec.Decode(&root); err != nil || dec.More() {
		for _, k := range leafKeys {
			st[k] = mk("other") // not a JSON document any more
		}
		return st
	}
	for _, k := range leafKeys {
		cur := root
		present := true
		for _, part := range strings.Split(k, ".") {
			m, ok := cur.(map[string]any)
			if !ok {
				present = false
				break
			}
			cur, present = m[part]
			if !present {
				break
			}
		}
		st[k] = classifyJSON(cur, present)
	}
	return st
}

// ---- results ------------------------------------------------------------------------------------

type res struct {
	Ok    bool   `json:"ok"`
	V     V      `json:"v"`
	Zero  bool   `json:"zero"` // informational: the value returned next to ok = false was the zero value
	Panic string `json:"panic,omitempty"`
}

func classifyAny(x any) V {
	if x == nil {
		return mk("null")
	}
	rv := reflect.ValueOf(x)
	switch rv.Kind() { //nolint:exhaustive
	case reflect.String:
		return strV(rv.String())
	case reflect.Bool:
		return boolV(rv.Bool())
	case reflect.Int, reflect.Int8, reflect.Int16, reflect.Int32, reflect.Int64:
		return i64(rv.Int())
	case reflect.Uint, reflect.Uint8, reflect.Uint16, reflect.Uint32, reflect.Uint64:
		return u64(rv.Uint())
	case reflect.Float32, reflect.Float64:
		return floatRank(rv.Float())
	case reflect.Slice:
		switch t := x.(type) {
		case []string:
			return arrV(t)
		case []any:
			return classifyJSON(t, true)
		}
		return mk("other")
	case reflect.Map, reflect.Struct:
		return mk("obj")
	case reflect.Ptr:
		if rv.IsNil() {
			return mk("null")
		}
		return mk("other")
	}
	return mk("other")
}

type val struct {
	G string `json:"g"`
	V V      `json:"v"`
}

type op struct {
	Op  string `json:"op"`
	Key string `json:"key"`
	Val val    `json:"val"`
}

func goValue(v val) any {
	switch v.G {
	case "nil":
		return nil
	case "map":
		return map[string]any{"k": "v"}
	case "intarr":
		return []int{1, 2}
	case "string":
		return v.V.S
	case "mystr":
		return MyStr(v.V.S)
	case "bool":
		return v.V.B
	case "strarr":
		return append([]string{}, v.V.L...)
	case "anyarr":
		a := []any{}
		for _, s := range v.V.L {
			a = append(a, s)
		}
		return a
	case "float64":
		return anchorFloat(v.V)
	case "float32":
		return float32(anchorFloat(v.V))
	}
	n := intAnchors[v.V.R]
	switch v.G {
	case "int":
		return int(n.Int64())
	case "int8":
		return int8(n.Int64())
	case "int16":
		return int16(n.Int64())
	case "int32":
		return int32(n.Int64())
	case "int64":
		return n.Int64()
	case "uint":
		return uint(n.Uint64())
	case "uint8":
		return uint8(n.Uint64())
	case "uint16":
		return uint16(n.Uint64())
	case "uint32":
		return uint32(n.Uint64())
	case "uint64":
		return n.Uint64()
	case "myu8":
		return MyU8(n.Uint64())
	}
	panic("driver: unknown value type " + v.G)
}

func exec(acc accessor.Accessor, o op) (r res) {
	r.V = mk("none")
	defer func() {
		if p := recover(); p != nil {
			r = res{Ok: false, V: mk("none"), Panic: fmt.Sprint(p)}
		}
	}()
	fail := func(zero bool) res { return res{Ok: false, V: mk("none"), Zero: zero} }
	switch o.Op {
	case "Get":
		v, ok := acc.Get(o.Key)
		if !ok {
			return fail(v == nil)
		}
		return res{Ok: true, V: classifyAny(v)}
	case "GetString":
		v, ok := acc.GetString(o.Key)
		if !ok {
			return fail(v == "")
		}
		return res{Ok: true, V: strV(v)}
	case "GetStringArray":
		v, ok := acc.GetStringArray(o.Key)
		if !ok {
			return fail(v == nil)
		}
		return res{Ok: true, V: arrV(v)}
	case "GetInt":
		v, ok := acc.GetInt(o.Key)
		if !ok {
			return fail(v == 0)
		}
		return res{Ok: true, V: i64(v)}
	case "GetFloat":
		v, ok := acc.GetFloat(o.Key)
		if !ok {
			return fail(v == 0)
		}
		return res{Ok: true, V: floatRank(v)}
	case "GetBool":
		v, ok := acc.GetBool(o.Key)
		if !ok {
			return fail(!v)
		}
		return res{Ok: true, V: boolV(v)}
	case "Exists":
		return res{Ok: acc.Exists(o.Key), V: mk("none")}
	case "Set":
		err := acc.Set(o.Key, goValue(o.Val))
		return res{Ok: err == nil, V: mk("none")}
	}
	return res{V: mk("none"), Panic: "driver: unknown op " + o.Op}
}

type script struct {
	Acc   string `json:"acc"`
	Init  string `json:"init"`
	Steps []op   `json:"steps"`
}

func main() {
	if len(os.Args) < 3 {
		fmt.Fprintln(os.Stderr, "usage: accx <scripts> <trace> [skip]")
		os.Exit(2)
	}
	skip := 0
	if len(os.Args) > 3 {
		skip, _ = strconv.Atoi(os.Args[3])
	}
	tr, err := vio.NewTrace(os.Args[2])
	if err != nil {
		fmt.Fprintln(os.Stderr, err)
		os.Exit(2)
	}
	anch := make([]string, len(intAnchors))
	for i, a := range intAnchors {
		anch[i] = a.String()
	}
	n := 0
	err = vio.ReadLines(os.Args[1], func(line []byte) error {
		if n < skip {
			n++
			return nil
		}
		var s script
		if err := json.Unmarshal(line, &s); err != nil {
			return err
		}
		obj := newObj(s.Init)
		doc, _ := json.Marshal(obj)
		str := string(doc)
		var acc accessor.Accessor
		var state func() map[string]V
		var raw func() string
		switch s.Acc {
		case "struct":
			acc = accessor.NewStructAccessor(obj)
			state = func() map[string]V { return structState(obj) }
			raw = func() string { return structRaw(obj) }
		case "json":
			acc = accessor.NewJSONAccessor(&str)
			state = func() map[string]V { return jsonState([]byte(str)) }
			raw = func() string { return str }
		default:
			acc = accessor.NewJSONBytesAccessor(&doc)
			state = func() map[string]V { return jsonState(doc) }
			raw = func() string { return string(doc) }
		}
		first := map[string]any{"e": "new", "acc": s.Acc, "init": s.Init, "st": state(), "h": n}
		if n == skip {
			first["int_anchors"] = anch
			first["frac_anchors"] = fracAnchors
			first["object"] = string(doc)
		}
		tr.EmitRaw(first)
		prev := raw()
		for _, o := range s.Steps {
			if o.Val.V.L == nil {
				o.Val.V.L = []string{}
			}
			tr.EmitRaw(map[string]any{"e": "try", "op": o, "h": n})
			tr.Flush()
			r := exec(acc, o)
			now := raw()
			ev := map[string]any{"e": "op", "op": o, "res": r, "st": state(), "rawsame": now == prev, "h": n}
			if r.Panic != "" {
				ev["panic"] = r.Panic
			}
			tr.EmitRaw(ev)
			prev = now
			if r.Panic != "" {
				break
			}
		}
		n++
		return nil
	})
	tr.Close()
	if err != nil {
		fmt.Fprintln(os.Stderr, err)
		os.Exit(2)
	}
	fmt.Printf("histories=%d\n", n)
}
