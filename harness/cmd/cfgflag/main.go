// Command cfgflag replays scheduling policies (behaviours of spec/ConfigFlag.tla projected by
// ConfigFlagGen to actor sequences) against the real validity-flag hand-over of the config package
// (property C04, concurrent part).  Setter goroutines change one option, caller goroutines read it through
// getter closures (callers may share a Concurrent closure); the `verifPoint` yield points
// config.set.beforeSignal, config.signal.swapped and config.get.afterFlag (build tag verif) let the policy
// order the goroutines inside the hand-over.  The driver records call/return events in their real order;
// spec/ConfigFlagTrace.tla judges them.
//
// usage: cfgflag <scripts.ndjson> <trace.ndjson> [skip]
package main

import (
	"encoding/json"
	"fmt"
	"os"
	"strconv"
	"strings"
	"sync"
	"time"

	"github.com/safing/portbase/config"
	"github.com/safing/portbase/log"

	"verifharness/internal/sched"
	"verifharness/internal/vio"
)

type script struct {
	NS      int               `json:"ns"`
	Callers []int             `json:"callers"` // Callers[g-1] = closure id of caller g
	Policy  []string          `json:"policy"`  // "s1", "g3", ...
	Setter  string            `json:"setter"`  // user | def | replace | repldef
	OType   string            `json:"otype"`   // string | int | array
	Kinds   map[string]string `json:"kinds"`   // closure id -> safe | plain (plain only with one caller)
}

var (
	tr  *vio.Trace
	sch *sched.Sched
)

func value(otype string, ver int) interface{} {
	switch otype {
	case "int":
		return ver
	case "array":
		return []string{"v" + strconv.Itoa(ver)}
	}
	return "v" + strconv.Itoa(ver)
}

func parseVer(s string) int {
	if strings.HasPrefix(s, "v") {
		if n, err := strconv.Atoi(s[1:]); err == nil {
			return n
		}
	}
	return -1
}

// closure returns a function that reads the option's version through a getter closure of the package.
func closure(key, otype string, safe bool) func() int {
	switch otype {
	case "int":
		var g config.IntOption
		if safe {
			g = config.Concurrent.GetAsInt(key, -1)
		} else {
			g = config.GetAsInt(key, -1)
		}
		return func() int { return int(g()) }
	case "array":
		var g config.StringArrayOption
		if safe {
			g = config.Concurrent.GetAsStringArray(key, []string{"none"})
		} else {
			g = config.GetAsStringArray(key, []string{"none"})
		}
		return func() int {
			a := g()
			if len(a) != 1 {
				return -1
			}
			return parseVer(a[0])
		}
	}
	var g config.StringOption
	if safe {
		g = config.Concurrent.GetAsString(key, "none")
	} else {
		g = config.GetAsString(key, "none")
	}
	return func() int { return parseVer(g()) }
}

func set(kind, key string, v interface{}) error {
	switch kind {
	case "level":
		// the option under observation is a beta option whose user value is hidden while the release level is stable:
		// raising the level is the write that makes version 1 visible
		return config.SetConfigOption("core/releaseLevel", config.ReleaseLevelNameBeta)
	case "leveldef":
		return config.SetDefaultConfigOption("core/releaseLevel", config.ReleaseLevelNameBeta)
	case "def":
		return config.SetDefaultConfigOption(key, v)
	case "replace":
		ves, _ := config.ReplaceConfig(map[string]interface{}{key: v})
		if len(ves) > 0 {
			return ves[0]
		}
		return nil
	case "repldef":
		ves, _ := config.ReplaceDefaultConfig(map[string]interface{}{key: v})
		if len(ves) > 0 {
			return ves[0]
		}
		return nil
	}
	return config.SetConfigOption(key, v)
}

// inflight counts the running calls of every actor (incremented before its goroutine is started).
var (
	inflightMu sync.Mutex
	inflight   = map[string]int{}
)

func flying(actor string) bool {
	inflightMu.Lock()
	defer inflightMu.Unlock()
	return inflight[actor] > 0
}

func fly(actor string, d int) {
	inflightMu.Lock()
	inflight[actor] += d
	inflightMu.Unlock()
}

// settle waits until the actor is parked at a yield point or its call has returned; a caller that is
// blocked on the mutex of a shared closure does neither, so the wait is bounded.
func settle(actor string) {
	deadline := time.Now().Add(4 * time.Millisecond)
	for time.Now().Before(deadline) {
		if ok, _ := sch.IsParked(actor); ok {
			return
		}
		if !flying(actor) {
			return
		}
		time.Sleep(20 * time.Microsecond)
	}
}

func runScript(s script, n int) {
	emit := func(ev map[string]any) {
		ev["h"] = n
		tr.Emit(ev)
	}
	sch = sched.New()
	cur := sch
	config.VerifHook = func(point string) { cur.Yield(point, "") }
	key := fmt.Sprintf("vf/p%d/o%d", os.Getpid(), n)
	var ot config.OptionType
	switch s.OType {
	case "int":
		ot = config.OptTypeInt
	case "array":
		ot = config.OptTypeStringArray
	default:
		ot = config.OptTypeString
	}
	byLevel := s.Setter == "level" || s.Setter == "leveldef"
	opt := &config.Option{Name: key, Key: key, Description: "verification fixture", OptType: ot, DefaultValue: value(s.OType, 0)}
	if byLevel {
		opt.ReleaseLevel = config.ReleaseLevelBeta
		_ = config.SetConfigOption("core/releaseLevel", nil)
		_ = config.SetDefaultConfigOption("core/releaseLevel", nil)
		defer func() {
			_ = config.SetConfigOption("core/releaseLevel", nil)
			_ = config.SetDefaultConfigOption("core/releaseLevel", nil)
		}()
	}
	err := config.Register(opt)
	if err != nil {
		emit(map[string]any{"e": "panic", "what": "register: " + err.Error()})
		return
	}
	if byLevel {
		if err := config.SetConfigOption(key, value(s.OType, 1)); err != nil {
			emit(map[string]any{"e": "panic", "what": "preset: " + err.Error()})
			return
		}
	}
	closures := map[int]func() int{}
	for _, c := range s.Callers {
		if _, ok := closures[c]; !ok {
			closures[c] = closure(key, s.OType, s.Kinds[strconv.Itoa(c)] != "plain")
		}
	}
	emit(map[string]any{"e": "init", "ns": s.NS, "callers": s.Callers, "setter": s.Setter, "otype": s.OType, "kinds": s.Kinds, "key": key})

	var wg sync.WaitGroup
	launched := map[string]bool{}
	guard := func(what string, id int) {
		if p := recover(); p != nil {
			emit(map[string]any{"e": "panic", "what": fmt.Sprintf("%s %d: %v", what, id, p)})
		}
	}
	setter := func(actor string, id int) {
		defer wg.Done()
		defer fly(actor, -1)
		sch.Bind(actor)
		defer sch.Unbind()
		defer guard("setter", id)
		emit(map[string]any{"e": "scall", "s": id})
		err := set(s.Setter, key, value(s.OType, id))
		emit(map[string]any{"e": "sret", "s": id, "err": err != nil})
	}
	caller := func(actor string, id int) {
		defer wg.Done()
		defer fly(actor, -1)
		sch.Bind(actor)
		defer sch.Unbind()
		defer guard("caller", id)
		emit(map[string]any{"e": "gcall", "g": id})
		v := closures[s.Callers[id-1]]()
		emit(map[string]any{"e": "gret", "g": id, "v": v})
	}
	for _, a := range s.Policy {
		if len(a) < 2 {
			continue
		}
		id, err := strconv.Atoi(a[1:])
		if err != nil {
			continue
		}
		parked, _ := sch.IsParked(a)
		switch {
		case parked:
			sch.Release(a)
			settle(a)
		case a[0] == 's' && !launched[a] && id >= 1 && id <= s.NS:
			launched[a] = true
			wg.Add(1)
			fly(a, 1)
			go setter(a, id)
			settle(a)
		case a[0] == 'g' && !flying(a) && id >= 1 && id <= len(s.Callers):
			wg.Add(1)
			fly(a, 1)
			go caller(a, id)
			settle(a)
		}
	}
	// setters that the policy never reached still run, then everything is released
	for i := 1; i <= s.NS; i++ {
		a := "s" + strconv.Itoa(i)
		if !launched[a] {
			launched[a] = true
			wg.Add(1)
			fly(a, 1)
			go setter(a, i)
		}
	}
	sch.Free()
	done := make(chan struct{})
	go func() { wg.Wait(); close(done) }()
	select {
	case <-done:
	case <-time.After(15 * time.Second):
		// a deadlock inside the package: report it and give up the process (the orchestrator restarts
		// the driver behind this script)
		emit(map[string]any{"e": "hang", "parked": sch.ParkedActors()})
		tr.Close()
		os.Exit(3)
	}
	// after everything returned: every closure once more, then a new getter (= the last write)
	for g := range s.Callers {
		func() {
			defer guard("caller", g+1)
			emit(map[string]any{"e": "gcall", "g": g + 1})
			v := closures[s.Callers[g]]()
			emit(map[string]any{"e": "gret", "g": g + 1, "v": v})
		}()
	}
	func() {
		defer guard("final", 0)
		emit(map[string]any{"e": "final", "v": closure(key, s.OType, true)()})
	}()
}

func main() {
	if len(os.Args) < 3 {
		fmt.Fprintln(os.Stderr, "usage: cfgflag <scripts> <trace> [skip]")
		os.Exit(2)
	}
	skip := 0
	if len(os.Args) > 3 {
		skip, _ = strconv.Atoi(os.Args[3])
	}
	var err error
	tr, err = vio.NewTrace(os.Args[2])
	if err != nil {
		fmt.Fprintln(os.Stderr, err)
		os.Exit(2)
	}
	log.SetLogLevel(log.CriticalLevel)
	n := 0
	err = vio.ReadLines(os.Args[1], func(line []byte) error {
		if n < skip {
			n++
			return nil
		}
		var s script
		if err := json.Unmarshal(line, &s); err != nil {
			return err
		}
		tr.EmitRaw(map[string]any{"e": "try", "h": n})
		tr.Flush()
		runScript(s, n)
		n++
		return nil
	})
	tr.Close()
	if err != nil {
		fmt.Fprintln(os.Stderr, err)
		os.Exit(2)
	}
	fmt.Printf("histories=%d\n", n)
}
