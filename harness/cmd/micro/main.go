// Command micro replays one scheduling policy (from spec/MicroTasksGen.tla) against the real microtask
// scheduler (property C15).  Microtask functions are gates; the yield points micro.granted (scheduler,
// between closing the clearance signal and counting it) and micro.conclude (between the module and the
// global decrement) let the policy force the admission/finish interleavings.  One process per script.
//
// usage: micro <script.ndjson> <trace.ndjson> [skip]
package main

import (
	"context"
	"encoding/json"
	"errors"
	"fmt"
	"os"
	"sync"
	"sync/atomic"
	"time"

	"github.com/safing/portbase/log"
	"github.com/safing/portbase/modules"

	"verifharness/internal/sched"
	"verifharness/internal/vio"
)

type mtask struct {
	ID      string `json:"id"`
	Prio    string `json:"prio"`    // high med low
	Variant string `json:"variant"` // run start signal
	Out     string `json:"out"`     // ok err panic
	Done    int    `json:"done"`
	Pre     bool   `json:"pre"` // submitted before the module system is started (high priority only: no scheduler yet)
}

type script struct {
	Tasks     []mtask  `json:"tasks"`
	Threshold int      `json:"threshold"`
	Expiry    bool     `json:"expiry"`
	Policy    []string `json:"policy"`
	Burst     bool     `json:"burst"`  // free-running burst: functions hold HoldMs instead of waiting at a gate
	HoldMs    int      `json:"holdMs"`
	FullReports bool   `json:"fullReports"` // the module error reporting channel is full and nobody reads it
	Storm     int      `json:"storm"` // rounds of a signalled microtask whose done function is called by 4 goroutines at once
}

var (
	tr   *vio.Trace
	sch  *sched.Sched
	modM *modules.Module
	sc   script
	wg   sync.WaitGroup
)

func emit(ev map[string]any) {
	ev["t"] = sch.Ms()
	ev["h"] = 0
	tr.Emit(ev)
}

var errInjected = errors.New("injected failure")

func body(t *mtask) func(ctx context.Context) error {
	return func(ctx context.Context) error {
		if sch.Actor() == "" {
			sch.Bind(t.ID)
		}
		emit(map[string]any{"e": "mbegin", "i": t.ID})
		if sc.Burst {
			time.Sleep(time.Duration(sc.HoldMs) * time.Millisecond)
		} else {
			sch.Yield("fn", t.ID)
		}
		emit(map[string]any{"e": "mend", "i": t.ID})
		switch t.Out {
		case "err":
			return errInjected
		case "errc":
			// a failure that wraps a sentinel some loops treat as "finished": an error of the function all the same
			return fmt.Errorf("microtask %s aborted: %w (%w)", t.ID, errInjected, context.Canceled)
		case "panic":
			panic("injected panic in microtask " + t.ID)
		}
		return nil
	}
}

func class(err error) string {
	if err == nil {
		return "ok"
	}
	if isPanic, _ := modules.IsPanic(err); isPanic {
		return "panic"
	}
	if errors.Is(err, errInjected) {
		return "err"
	}
	return "other:" + err.Error()
}

func launch(t *mtask, maxDelay time.Duration) {
	fn := body(t)
	wg.Add(1)
	switch t.Variant {
	case "run":
		go func() {
			defer wg.Done()
			sch.Bind(t.ID)
			var err error
			switch t.Prio {
			case "high":
				err = modM.RunHighPriorityMicroTask(t.ID, fn)
			case "med":
				err = modM.RunMicroTask(t.ID, maxDelay, fn)
			default:
				err = modM.RunLowPriorityMicroTask(t.ID, maxDelay, fn)
			}
			emit(map[string]any{"e": "mret", "i": t.ID, "class": class(err)})
			sch.Unbind()
		}()
	case "start":
		inner := func(ctx context.Context) error {
			defer wg.Done()
			return fn(ctx)
		}
		switch t.Prio {
		case "high":
			modM.StartHighPriorityMicroTask(t.ID, inner)
		case "med":
			modM.StartMicroTask(t.ID, maxDelay, inner)
		default:
			modM.StartLowPriorityMicroTask(t.ID, maxDelay, inner)
		}
	default: // signal
		go func() {
			defer wg.Done()
			sch.Bind(t.ID)
			var done func()
			switch t.Prio {
			case "high":
				done = modM.SignalHighPriorityMicroTask()
			case "med":
				done = modM.SignalMicroTask(maxDelay)
			default:
				done = modM.SignalLowPriorityMicroTask(maxDelay)
			}
			func() {
				defer func() { _ = recover() }()
				_ = fn(modM.Ctx)
			}()
			n := t.Done
			if n < 1 {
				n = 1
			}
			for k := 1; k <= n; k++ {
				done()
				emit(map[string]any{"e": "done", "i": t.ID, "n": k})
			}
			sch.Unbind()
		}()
	}
}

func main() {
	if len(os.Args) < 3 {
		fmt.Fprintln(os.Stderr, "usage: micro <script> <trace> [skip]")
		os.Exit(2)
	}
	first := true
	err := vio.ReadLines(os.Args[1], func(line []byte) error {
		if !first {
			return nil
		}
		first = false
		return json.Unmarshal(line, &sc)
	})
	if err != nil {
		fmt.Fprintln(os.Stderr, err)
		os.Exit(2)
	}
	tr, err = vio.NewTrace(os.Args[2])
	if err != nil {
		fmt.Fprintln(os.Stderr, err)
		os.Exit(2)
	}
	sch = sched.New()
	log.SetLogLevel(log.CriticalLevel)
	modules.SetStdErrReporting(false)
	modules.VerifSetTimeouts(10*time.Second, 8*time.Second)
	if sc.Threshold < 2 {
		sc.Threshold = 2
	}
	ids, prios, outs := []string{}, []string{}, []string{}
	byID := map[string]*mtask{}
	for i := range sc.Tasks {
		t := &sc.Tasks[i]
		if t.Variant == "signal" && t.Out == "panic" {
			t.Out = "ok" // code between Signal* and done() is the caller's own
		}
		byID[t.ID] = t
		ids = append(ids, t.ID)
		prios = append(prios, t.Prio)
		if t.Out == "errc" {
			outs = append(outs, "err")
		} else {
			outs = append(outs, t.Out)
		}
	}
	tr.Emit(map[string]any{"e": "init", "ids": ids, "prios": prios, "outs": outs, "limit": sc.Threshold,
		"expiry": sc.Expiry, "h": 0, "t": 0})
	modM = modules.Register("M", nil, nil, nil)
	sch.Naming = func(point, tag string) string {
		if point == "micro.granted" {
			return "sched"
		}
		return ""
	}
	modules.VerifHook = func(point string, m *modules.Module) {
		switch point {
		case "micro.granted":
			sch.Yield(point, "")
		case "micro.conclude":
			if sch.Actor() != "" {
				sch.Yield(point, "M")
			}
		}
	}
	modules.SetMaxConcurrentMicroTasks(sc.Threshold)
	if sc.FullReports {
		// a consumer of error reports that has fallen behind: reporting must not hold up the reporter
		ch := make(chan *modules.ModuleError, 1)
		ch <- &modules.ModuleError{Message: "filler"}
		modules.SetErrorReportingChannel(ch)
	}
	maxDelay := 10 * time.Second
	launched := map[string]bool{}
	// microtasks that span the start of their module: submitted now, finished when the policy says so
	for i := range sc.Tasks {
		if t := &sc.Tasks[i]; t.Pre && t.Prio == "high" {
			launched[t.ID] = true
			launch(t, maxDelay)
			sch.Settle(t.ID, 5*time.Millisecond)
		}
	}
	if err := modules.Start(); err != nil {
		fmt.Fprintln(os.Stderr, "start failed:", err)
		os.Exit(2)
	}
	if sc.Burst || sc.Storm > 0 {
		maxDelay = 10 * time.Minute
		sch.Free()
	}
	if sc.Expiry {
		maxDelay = 60 * time.Millisecond
	}
	for _, a := range sc.Policy {
		if a != "sched" && !launched[a] {
			t := byID[a]
			if t == nil {
				continue
			}
			launched[a] = true
			launch(t, maxDelay)
			sch.Settle(a, 5*time.Millisecond)
			continue
		}
		if !sch.Await(a, 6*time.Millisecond, nil) {
			continue
		}
		sch.Release(a)
		sch.Settle(a, 2*time.Millisecond)
	}
	for i := range sc.Tasks {
		if !launched[sc.Tasks[i].ID] {
			launched[sc.Tasks[i].ID] = true
			launch(&sc.Tasks[i], maxDelay)
		}
	}
	sch.Free()
	// a done function "takes effect once no matter how often it is called": also when several goroutines call
	// it at the same instant (nothing in its documentation restricts it to one caller)
	for r := 0; r < sc.Storm; r++ {
		var done func()
		switch r % 3 {
		case 0:
			done = modM.SignalHighPriorityMicroTask()
		case 1:
			done = modM.SignalMicroTask(maxDelay)
		default:
			done = modM.SignalLowPriorityMicroTask(maxDelay)
		}
		var ready, start int32
		var sw sync.WaitGroup
		for g := 0; g < 4; g++ {
			sw.Add(1)
			go func() {
				defer sw.Done()
				atomic.AddInt32(&ready, 1)
				for atomic.LoadInt32(&start) == 0 {
				}
				done()
			}()
		}
		for atomic.LoadInt32(&ready) < 4 {
			time.Sleep(5 * time.Microsecond)
		}
		atomic.StoreInt32(&start, 1)
		sw.Wait()
	}
	if sc.Storm > 0 {
		emit(map[string]any{"e": "note", "point": "storm", "rounds": sc.Storm})
	}
	fin := make(chan struct{})
	go func() { wg.Wait(); close(fin) }()
	select {
	case <-fin:
	case <-time.After(20 * time.Second):
		emit(map[string]any{"e": "hang"})
		tr.Close()
		os.Exit(0)
	}
	time.Sleep(80 * time.Millisecond) // let the scheduler drain signals of timed-out requests
	emit(map[string]any{"e": "final", "modCount": modules.GetStatus().Modules["M"].MicroTasks})

	// ordinary tasks take their time slots from the idle microtask scheduler: that must not count as microtasks
	{
		var tw sync.WaitGroup
		for k := 0; k < sc.Threshold+2; k++ {
			tw.Add(1)
			modM.NewTask(fmt.Sprintf("slot-taker-%d", k), func(context.Context, *modules.Task) error {
				defer tw.Done()
				time.Sleep(25 * time.Millisecond)
				return nil
			}).Queue()
		}
		done := make(chan struct{})
		go func() { tw.Wait(); close(done) }()
		select {
		case <-done:
		case <-time.After(5 * time.Second):
			emit(map[string]any{"e": "note", "point": "slot-takers did not finish"})
		}
	}
	// idle probes: nothing runs and nothing waits (the scheduler is parked); a single microtask of each
	// waiting priority must be admitted at once, whichever variant submits it
	for _, kind := range []string{"low", "siglow", "med", "startlow"} {
		time.Sleep(30 * time.Millisecond)
		p0 := time.Now()
		got := make(chan int, 1)
		fn := func(context.Context) error {
			got <- int(time.Since(p0) / time.Millisecond)
			return nil
		}
		switch kind {
		case "low":
			_ = modM.RunLowPriorityMicroTask("idle-probe", 3*time.Second, fn)
		case "med":
			_ = modM.RunMicroTask("idle-probe", 3*time.Second, fn)
		case "startlow":
			modM.StartLowPriorityMicroTask("idle-probe", 3*time.Second, fn)
		default:
			done := modM.SignalLowPriorityMicroTask(3 * time.Second)
			_ = fn(nil)
			done()
		}
		ms := 5000
		select {
		case ms = <-got:
		case <-time.After(5 * time.Second):
		}
		emit(map[string]any{"e": "idleprobe", "kind": kind, "ms": ms})
	}
	time.Sleep(30 * time.Millisecond)

	// probes: `limit` microtasks submitted together must all be admitted at once, one more must wait
	n := sc.Threshold
	var pw sync.WaitGroup
	admitted := make(chan int, n+1)
	hold := make(chan struct{})
	t0 := time.Now()
	for k := 0; k < n; k++ {
		pw.Add(1)
		go func() {
			defer pw.Done()
			_ = modM.RunMicroTask("probe", 3*time.Second, func(context.Context) error {
				admitted <- int(time.Since(t0) / time.Millisecond)
				<-hold
				return nil
			})
		}()
	}
	worst := 0
	timeout := time.After(5 * time.Second)
	for k := 0; k < n; k++ {
		select {
		case ms := <-admitted:
			if ms > worst {
				worst = ms
			}
		case <-timeout:
			worst = 5000
			k = n
		}
	}
	emit(map[string]any{"e": "probe", "ms": worst})
	extra := make(chan struct{}, 1)
	pw.Add(1)
	go func() {
		defer pw.Done()
		_ = modM.RunLowPriorityMicroTask("probe-extra", 3*time.Second, func(context.Context) error {
			extra <- struct{}{}
			return nil
		})
	}()
	held := true
	select {
	case <-extra:
		held = false
	case <-time.After(200 * time.Millisecond):
	}
	emit(map[string]any{"e": "held", "held": held})
	close(hold)
	pw.Wait()
	s0 := sch.Ms()
	err = modules.Shutdown()
	emit(map[string]any{"e": "stopret", "ok": err == nil, "t0": s0})
	tr.Close()
	os.Exit(0)
}
