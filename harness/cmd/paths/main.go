// Command paths hands externally supplied names (generated from spec/PathScopeGen.tla) to the real
// portbase components that turn names into file paths and records what happened to the file system
// around the component's root (property C18).  It never judges: every event is decided by TLC
// against spec/PathScopeTrace.tla.
//
// One sandbox per vector:   <tmp>/c18-*/w/w/../o/[a/]<root>   with canary files in every directory
// a bounded name can reach (ancestors, the sibling "<root>-other", a namesake "<root>" elsewhere).
// A snapshot of the whole sandbox (type, mode, size, inode, content hash) is taken right before and
// right after the call; the difference is reported as model paths (segment sequences).
//
// usage: paths <vectors.ndjson> <trace.ndjson> [skip]
package main

import (
	"archive/zip"
	"bytes"
	"encoding/json"
	"fmt"
	"hash/fnv"
	"io/fs"
	"os"
	"path/filepath"
	"sort"
	"strconv"
	"strings"
	"syscall"

	"github.com/safing/portbase/database/query"
	"github.com/safing/portbase/database/record"
	"github.com/safing/portbase/database/storage/fstree"
	"github.com/safing/portbase/formats/dsd"
	"github.com/safing/portbase/log"
	"github.com/safing/portbase/updater"
	"github.com/safing/portbase/utils"

	"verifharness/internal/vio"
)

type vector struct {
	Comp  string     `json:"comp"`
	Op    string     `json:"op"`
	Depth int        `json:"depth"`
	Pad   int        `json:"pad"`
	Abs   bool       `json:"abs"`
	Segs  []string   `json:"segs"`
	Roots [][]string `json:"roots"` // model paths of the directories the component owns
	Base  []string   `json:"base"`  // model path the name is resolved against
	Esc   bool       `json:"esc"`   // verdict of the generator (echoed, not used for judging)
	Cls   string     `json:"cls"`
	Bare  bool       `json:"bare"` // no canaries: the root is empty and its ancestors hold nothing but the way to it
}

type change struct {
	K string   `json:"k"`
	P []string `json:"p"`
}

const (
	genericRoot = "stor"
	zipRoot     = "x_v1-0-0"
	verFile     = "y_v1-0-0.bin"
)

// ---------------------------------------------------------------- symbolic <-> concrete

type mapping struct {
	top      string // sandbox directory
	rootName string
}

func (m *mapping) conc(seg string) string {
	switch seg {
	case "root":
		return m.rootName
	case "root-other":
		return m.rootName + "-other"
	case "ROOT":
		return otherCase(m.rootName)
	case "bs2":
		return bs2Name
	}
	return seg
}

// bs2Name: parent references written with backslashes - on this platform one ordinary file name.
const bs2Name = `..\..\bsx`

// otherCase is the name in the other letter case (a different directory on a case-sensitive file system).
func otherCase(s string) string {
	u := strings.ToUpper(s)
	if u == s {
		u = strings.ToLower(s)
	}
	if u == s {
		u = s + "-CASE"
	}
	return u
}

func (m *mapping) sym(seg string) string {
	switch seg {
	case m.rootName:
		return "root"
	case m.rootName + "-other":
		return "root-other"
	case otherCase(m.rootName):
		return "ROOT"
	case bs2Name:
		return "bs2"
	}
	return seg
}

// path returns the concrete path of a model path.
func (m *mapping) path(model []string) string {
	p := m.top
	for _, s := range model {
		p += "/" + m.conc(s)
	}
	return p
}

// name renders the externally supplied name.
func (m *mapping) name(abs bool, segs []string) string {
	c := make([]string, len(segs))
	for i, s := range segs {
		c[i] = m.conc(s)
	}
	n := strings.Join(c, "/")
	if abs {
		n = "/" + n
	}
	return n
}

// model converts a concrete path back to a model path ("?" segments if it is not below the sandbox).
func (m *mapping) model(p string) []string {
	rel, err := filepath.Rel(m.top, p)
	if err != nil {
		return []string{"?", p}
	}
	return m.modelRel(rel)
}

func (m *mapping) modelRel(rel string) []string {
	if rel == "." || rel == "" {
		return []string{}
	}
	parts := strings.Split(filepath.ToSlash(rel), "/")
	for i, s := range parts {
		parts[i] = m.sym(s)
	}
	return parts
}

// ---------------------------------------------------------------- sandbox

func must(err error) {
	if err != nil {
		panic(infra{err})
	}
}

type infra struct{ err error }

var canaryCache = map[string][]byte{}

// canaryRecord is a valid serialized database record whose payload names the place it is planted at.
func canaryRecord(at string) []byte {
	if b, ok := canaryCache[at]; ok {
		return b
	}
	meta := &record.Meta{}
	meta.Update()
	w, err := record.NewWrapper("db:canary", meta, dsd.JSON, []byte(`{"at":"`+at+`"}`))
	must(err)
	data, err := w.MarshalRecord(w)
	must(err)
	canaryCache[at] = data
	return data
}

// writeFile / readFile: plain system calls (the sandbox is built and read ~10^5 times per run)
func writeFile(p string, data []byte) error {
	fd, err := syscall.Open(p, syscall.O_WRONLY|syscall.O_CREAT|syscall.O_TRUNC|syscall.O_CLOEXEC, 0o644)
	if err != nil {
		return &os.PathError{Op: "open", Path: p, Err: err}
	}
	_, err = syscall.Write(fd, data)
	syscall.Close(fd)
	if err != nil {
		return &os.PathError{Op: "write", Path: p, Err: err}
	}
	return nil
}

var readBuf = make([]byte, 1<<16)

func readFile(p string) ([]byte, error) {
	fd, err := syscall.Open(p, syscall.O_RDONLY|syscall.O_CLOEXEC|syscall.O_NOFOLLOW, 0)
	if err != nil {
		return nil, err
	}
	defer syscall.Close(fd)
	n := 0
	for {
		k, err := syscall.Read(fd, readBuf[n:])
		if err != nil {
			return readBuf[:n], err
		}
		if k == 0 {
			return readBuf[:n], nil
		}
		n += k
		if n == len(readBuf) {
			return readBuf[:n], nil // canaries and unpacked files are tiny; a prefix of 64 KiB is enough
		}
	}
}

type sandbox struct {
	m     *mapping
	roots []string // concrete
	keep  map[string]bool
}

func isAncestorOrSelf(anc, p string) bool {
	return p == anc || strings.HasPrefix(p, anc+"/")
}

// file plants one canary record file (content names its own place).
func (sb *sandbox) file(p string) {
	must(writeFile(p, canaryRecord(p[len(sb.m.top)+1:])))
}

// chain plants files b and y_v1-0-0.bin in d and a chain of directories a/ below it, as deep as a name
// with `rem` segments left can look.
func (sb *sandbox) chain(d string, rem int) {
	must(os.MkdirAll(d, 0o755))
	if rem < 1 {
		return
	}
	sb.file(d + "/b")
	sb.file(d + "/" + verFile)
	if rem >= 2 {
		sb.chain(d+"/a", rem-1)
	}
}

// onRootPath: d is a root or an ancestor of a root (never replaced by a canary directory)
func (sb *sandbox) onRootPath(d string) bool {
	for _, r := range sb.roots {
		if isAncestorOrSelf(d, r) {
			return true
		}
	}
	return false
}

// plant fills directory d for a name that has `rem` segments left when it arrives there: files b and
// y_v1-0-0.bin, directory a, the sibling <root>-other and a namesake <root> (unless that is the real root).
func (sb *sandbox) plant(d string, rem int) {
	if rem < 1 {
		return
	}
	sb.chain(d, rem)
	sb.chain(d+"/"+sb.m.rootName+"-other", rem-1)
	if n := d + "/" + sb.m.rootName; !sb.onRootPath(n) {
		sb.chain(n, rem-1)
	}
}

// steps is the number of segments a name needs to get from directory `from` to directory `to`.
func steps(from, to string) int {
	a := strings.Split(from, "/")
	b := strings.Split(to, "/")
	c := 0
	for c < len(a) && c < len(b) && a[c] == b[c] {
		c++
	}
	return len(a) - c + len(b) - c
}

func ancestors(top, p string) []string {
	var res []string
	for d := filepath.Dir(p); isAncestorOrSelf(top, d) && d != top; d = filepath.Dir(d) {
		res = append(res, d)
	}
	return res
}

// ---------------------------------------------------------------- snapshot

type entry struct {
	typ  string
	mode uint32
	size int64
	ino  uint64
	sum  uint64
}

func snapshot(top string) map[string]entry {
	res := make(map[string]entry, 256)
	_ = filepath.WalkDir(top, func(p string, d fs.DirEntry, err error) error {
		if err != nil {
			res[p] = entry{typ: "unreadable"}
			return nil
		}
		info, err := d.Info()
		if err != nil {
			res[p] = entry{typ: "gone"}
			return nil
		}
		e := entry{mode: uint32(info.Mode().Perm())}
		if st, ok := info.Sys().(*syscall.Stat_t); ok {
			e.ino = st.Ino
		}
		switch {
		case info.IsDir():
			e.typ = "dir"
		case info.Mode()&os.ModeSymlink != 0:
			e.typ = "link"
			t, _ := os.Readlink(p)
			h := fnv.New64a()
			h.Write([]byte(t))
			e.sum = h.Sum64()
		case info.Mode().IsRegular():
			e.typ = "file"
			e.size = info.Size()
			b, err := readFile(p)
			if err != nil {
				e.typ = "file-unreadable"
			}
			h := fnv.New64a()
			h.Write(b)
			e.sum = h.Sum64()
		default:
			e.typ = "special"
		}
		res[p] = e
		return nil
	})
	return res
}

func diff(m *mapping, before, after map[string]entry) []change {
	res := []change{}
	for p, b := range before {
		a, ok := after[p]
		switch {
		case !ok:
			res = append(res, change{"deleted", m.model(p)})
		case a.typ != b.typ:
			res = append(res, change{"retyped", m.model(p)})
		case a.typ == "dir":
			// a directory that was removed and created again is a change of its content, which shows below it
			if a.mode != b.mode {
				res = append(res, change{"chmod", m.model(p)})
			}
		case a.ino != b.ino || a.size != b.size || a.sum != b.sum:
			res = append(res, change{"modified", m.model(p)})
		case a.mode != b.mode:
			res = append(res, change{"chmod", m.model(p)})
		}
	}
	for p := range after {
		if _, ok := before[p]; !ok {
			res = append(res, change{"created", m.model(p)})
		}
	}
	sort.Slice(res, func(i, j int) bool {
		a, b := strings.Join(res[i].P, "/"), strings.Join(res[j].P, "/")
		if a != b {
			return a < b
		}
		return res[i].K < res[j].K
	})
	return res
}

// ---------------------------------------------------------------- components

// origin of a record returned by fstree: the canary says where it was planted
func originOf(m *mapping, r record.Record) []string {
	w, ok := r.(*record.Wrapper)
	if !ok {
		return []string{"?", fmt.Sprintf("%T", r)}
	}
	var c struct {
		At string `json:"at"`
	}
	if err := json.Unmarshal(w.Data, &c); err != nil || c.At == "" {
		return []string{"?", string(w.Data)}
	}
	return m.modelRel(c.At)
}

type outcome struct {
	err error
	got [][]string
}

func runFstree(v vector, m *mapping, root, name string, arm func()) outcome {
	st, err := fstree.NewFSTree("db", root)
	must(err)
	out := outcome{got: [][]string{}}
	arm()
	switch v.Op {
	case "put":
		meta := &record.Meta{}
		meta.Update()
		w, err := record.NewWrapper("db:"+name, meta, dsd.JSON, []byte(`{"at":"PUT"}`))
		must(err)
		_, out.err = st.Put(w)
	case "get":
		r, err := st.Get(name)
		out.err = err
		if r != nil {
			out.got = append(out.got, originOf(m, r))
		}
	case "delete":
		out.err = st.Delete(name)
	case "query":
		it, err := st.Query(query.New("db:"+name), true, true)
		out.err = err
		if it != nil {
			for r := range it.Next {
				out.got = append(out.got, originOf(m, r))
			}
			if out.err == nil {
				out.err = it.Err()
			}
		}
	default:
		must(fmt.Errorf("unknown fstree op %q", v.Op))
	}
	return out
}

func runDs(v vector, m *mapping, root, base, name string, arm func()) outcome {
	ds := utils.NewDirStructure(root, 0o750)
	child := ds.ChildDir("a", 0o700)
	out := outcome{got: [][]string{}}
	arm()
	switch v.Op {
	case "rel":
		out.err = ds.EnsureRelPath(name)
	case "relchild":
		out.err = child.EnsureRelPath(name)
	case "absroot", "absparent":
		out.err = ds.EnsureAbsPath(base + "/" + name)
	case "reldir":
		names := make([]string, len(v.Segs))
		for i, sg := range v.Segs {
			names[i] = m.conc(sg)
		}
		out.err = ds.EnsureRelDir(names...)
	default:
		must(fmt.Errorf("unknown ds op %q", v.Op))
	}
	return out
}

func newRegistry(storage string) *updater.ResourceRegistry {
	reg := &updater.ResourceRegistry{Name: "c18"}
	must(reg.Initialize(utils.NewDirStructure(storage, 0o755)))
	return reg
}

func runScan(v vector, m *mapping, reg *updater.ResourceRegistry, storage, base, name string, arm func()) outcome {
	out := outcome{got: [][]string{}}
	arm()
	if v.Op == "relroot" {
		// a relative scan root; the working directory is the storage directory
		wd, _ := os.Getwd()
		must(os.Chdir(base))
		rel := strings.TrimLeft(name, "/")
		if rel == "" {
			rel = "."
		}
		out.err = reg.ScanStorage(rel)
		must(os.Chdir(wd))
	} else {
		out.err = reg.ScanStorage(base + "/" + name)
	}
	// everything the scan registered refers to a file: where is it?
	for id, res := range reg.Export() {
		for _, ver := range res.Versions {
			p := filepath.Join(storage, filepath.FromSlash(updater.GetVersionedPath(id, ver.VersionNumber)))
			out.got = append(out.got, m.model(p))
		}
	}
	sort.Slice(out.got, func(i, j int) bool { return strings.Join(out.got[i], "/") < strings.Join(out.got[j], "/") })
	return out
}

func writeArchive(path, hostile string, dir bool) {
	var buf bytes.Buffer
	zw := zip.NewWriter(&buf)
	add := func(name string, isDir bool, content string) {
		fh := &zip.FileHeader{Name: name, Method: zip.Store}
		if isDir {
			fh.SetMode(os.ModeDir | 0o755)
		} else {
			fh.SetMode(0o644)
		}
		w, err := zw.CreateHeader(fh)
		must(err)
		// the format itself makes every name that ends in a separator a directory: no content then
		if !isDir && !strings.HasSuffix(name, "/") {
			_, err = w.Write([]byte(content))
			must(err)
		}
	}
	add("a/", true, "")
	add("a/keep.txt", false, "keep")
	if dir {
		add(hostile+"/", true, "")
	} else {
		add(hostile, false, "UNPACKED")
	}
	add("last.txt", false, "last")
	must(zw.Close())
	must(os.WriteFile(path, buf.Bytes(), 0o644))
}

func runZip(v vector, m *mapping, reg *updater.ResourceRegistry, identifier string, arm func()) outcome {
	out := outcome{got: [][]string{}}
	must(reg.AddResource(identifier, "1.0.0", nil, true, false, false))
	reg.SelectVersions()
	reg.AutoUnpack = []string{identifier}
	arm()
	out.err = reg.UnpackResources()
	return out
}

// ---------------------------------------------------------------- one vector

func eq(a, b []string) bool {
	if len(a) != len(b) {
		return false
	}
	for i := range a {
		if a[i] != b[i] {
			return false
		}
	}
	return true
}

func execute(v vector, tmpBase string) (ev map[string]any) {
	ev = map[string]any{
		"e": "call", "comp": v.Comp, "op": v.Op, "depth": v.Depth, "pad": v.Pad, "abs": v.Abs, "segs": v.Segs,
		"roots": v.Roots, "base": v.Base, "esc": v.Esc, "cls": v.Cls, "bare": v.Bare,
		"err": false, "panic": false, "errtext": "", "changes": []change{}, "got": [][]string{},
	}
	if v.Segs == nil {
		ev["segs"] = []string{}
	}
	top, err := os.MkdirTemp(tmpBase, "c18-")
	if err != nil {
		ev["infra"] = err.Error()
		return ev
	}
	defer func() {
		if os.RemoveAll(top) != nil {
			_ = filepath.WalkDir(top, func(p string, d fs.DirEntry, err error) error {
				_ = os.Chmod(p, 0o700)
				return nil
			})
			_ = os.RemoveAll(top)
		}
	}()
	m := &mapping{top: top, rootName: genericRoot}
	if v.Comp == "zip" {
		m.rootName = zipRoot
	}
	name := m.name(v.Abs, v.Segs)
	ev["name"] = name

	var before map[string]entry
	armed := false
	arm := func() { before = snapshot(top); armed = true }
	var out outcome

	defer func() {
		if p := recover(); p != nil {
			if in, ok := p.(infra); ok && !armed {
				ev["infra"] = in.err.Error()
				return
			}
			// the component panicked: not an error return
			ev["panic"] = true
			ev["errtext"] = fmt.Sprint(p)
			if armed {
				ev["changes"] = diff(m, before, snapshot(top))
			}
		}
	}()

	sb := &sandbox{m: m}
	for _, r := range v.Roots {
		sb.roots = append(sb.roots, m.path(r))
	}
	base := m.path(v.Base)
	ev["rootpath"] = strings.TrimPrefix(sb.roots[0], top+"/")

	// directories above the roots
	for _, r := range sb.roots {
		must(os.MkdirAll(filepath.Dir(r), 0o755))
	}

	var reg *updater.ResourceRegistry
	var identifier string
	switch v.Comp {
	case "fstree", "ds":
		must(os.Mkdir(sb.roots[0], 0o755))
	case "scan":
		reg = newRegistry(sb.roots[0])
	case "zip":
		// roots[0] = <storage>/tmp/<archive name>, roots[1] = <storage>/[a/]<archive name>
		if len(v.Roots) != 2 || len(v.Roots[0]) < 3 || v.Roots[0][len(v.Roots[0])-2] != "tmp" {
			must(fmt.Errorf("unexpected zip layout %v", v.Roots))
		}
		storage := m.path(v.Roots[0][:len(v.Roots[0])-2])
		if !eq(v.Roots[1][:len(v.Roots[0])-2], v.Roots[0][:len(v.Roots[0])-2]) {
			must(fmt.Errorf("unexpected zip layout %v", v.Roots))
		}
		reg = newRegistry(storage)
		sub := strings.Join(v.Roots[1][len(v.Roots[0])-2:len(v.Roots[1])-1], "/")
		identifier = "x.zip"
		if sub != "" {
			identifier = sub + "/x.zip"
		}
		must(os.MkdirAll(filepath.Dir(sb.roots[1]), 0o755))
		writeArchive(sb.roots[1]+".zip", name, v.Op == "dir")
	default:
		must(fmt.Errorf("unknown component %q", v.Comp))
	}

	// canaries wherever a name of at most pad-1 segments can arrive: in the ancestors of the roots and
	// (except for the unpack directories, which must not exist yet) in the roots themselves
	maxLen := v.Pad - 1
	if len(v.Segs) > maxLen {
		maxLen = len(v.Segs)
	}
	seen := map[string]bool{}
	for _, r := range sb.roots {
		if v.Bare {
			break
		}
		for _, d := range ancestors(top, r) {
			if !seen[d] {
				seen[d] = true
				sb.plant(d, maxLen-steps(base, d))
			}
		}
	}
	if v.Comp != "zip" && !v.Bare {
		rem := maxLen - steps(base, sb.roots[0])
		if rem > 3 {
			rem = 3
		}
		sb.plant(sb.roots[0], rem)
	}

	switch v.Comp {
	case "fstree":
		out = runFstree(v, m, sb.roots[0], name, arm)
	case "ds":
		out = runDs(v, m, sb.roots[0], base, name, arm)
	case "scan":
		out = runScan(v, m, reg, sb.roots[0], base, name, arm)
	case "zip":
		out = runZip(v, m, reg, identifier, arm)
	}
	after := snapshot(top)
	ev["changes"] = diff(m, before, after)
	ev["got"] = out.got
	if out.err != nil {
		ev["err"] = true
		t := strings.ReplaceAll(out.err.Error(), top, "<T>")
		if len(t) > 300 {
			t = t[:300]
		}
		ev["errtext"] = t
	}
	return ev
}

func main() {
	if len(os.Args) < 3 {
		fmt.Fprintln(os.Stderr, "usage: paths <vectors> <trace> [skip]")
		os.Exit(2)
	}
	skip := 0
	if len(os.Args) > 3 {
		skip, _ = strconv.Atoi(os.Args[3])
	}
	syscall.Umask(0)
	log.SetLogLevel(log.CriticalLevel)
	// a private directory per driver process (parallel drivers would otherwise contend for one directory):
	// <base>/sand for the sandboxes, <base>/tmp as TMPDIR (fstree's atomic writer may put its temporary files there)
	procBase, err := os.MkdirTemp(os.Getenv("C18_SANDBOXES"), "proc-")
	if err != nil {
		fmt.Fprintln(os.Stderr, err)
		os.Exit(2)
	}
	defer os.RemoveAll(procBase)
	tmpBase := procBase + "/sand"
	_ = os.Mkdir(tmpBase, 0o755)
	// never empty: a component that (wrongly) tidies up empty directories above its root stops here at the latest
	_ = os.WriteFile(tmpBase+"/.keep", []byte("x"), 0o600)
	_ = os.Mkdir(procBase+"/tmp", 0o755)
	os.Setenv("TMPDIR", procBase+"/tmp")
	tr, err := vio.NewTrace(os.Args[2])
	if err != nil {
		fmt.Fprintln(os.Stderr, err)
		os.RemoveAll(procBase)
		os.Exit(2)
	}
	h := 0
	err = vio.ReadLines(os.Args[1], func(line []byte) error {
		if h < skip {
			h++
			return nil
		}
		var v vector
		if err := json.Unmarshal(line, &v); err != nil {
			return err
		}
		tr.EmitRaw(map[string]any{"e": "try", "h": h})
		tr.Flush()
		ev := execute(v, tmpBase)
		ev["h"] = h
		tr.EmitRaw(ev)
		h++
		return nil
	})
	tr.Close()
	os.RemoveAll(procBase)
	if err != nil {
		fmt.Fprintln(os.Stderr, err)
		os.Exit(2)
	}
}
