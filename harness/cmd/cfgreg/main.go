// Command cfgreg executes the scripts of extension check X09 against the real config package.
//
// mode "reg" (default): operation histories generated from spec/CfgRegGen.tla.  The option registry of
// package config is a process-wide singleton, so every history runs in its own worker process
// (`cfgreg worker <dataroot>`: script on stdin, events on stdout) which starts the real module system
// (database + config module) on a fresh data root, executes the steps (Register, SetConfigOption,
// SetDefaultConfigOption, ReplaceConfig, NewPerspective, Get / Put / Delete / Query on the database
// "config" through database.Interface) and records after every step what the package shows.
//
// mode "maps": vectors generated from spec/CfgMapsGen.tla for the pure map conversions (Flatten, Expand,
// PutValueIntoHierarchicalConfig, JSONToMap, MapToJSON, CleanFlattenedConfig, CleanHierarchicalConfig);
// all vectors of one input file run in one process that registered the fixture keys of the vectors.
//
// usage: cfgreg <scripts.ndjson> <trace.ndjson> [skip]
package main

import (
	"bufio"
	"bytes"
	"encoding/json"
	"errors"
	"fmt"
	"os"
	"os/exec"
	"path/filepath"
	"sort"
	"strconv"
	"strings"
	"time"

	"github.com/safing/portbase/config"
	"github.com/safing/portbase/database"
	_ "github.com/safing/portbase/database/dbmodule"
	"github.com/safing/portbase/database/query"
	"github.com/safing/portbase/database/record"
	"github.com/safing/portbase/dataroot"
	"github.com/safing/portbase/formats/dsd"
	"github.com/safing/portbase/log"
	"github.com/safing/portbase/modules"

	"verifharness/internal/vio"
)

// ------------------------------------------------------------------ symbolic <-> concrete

// tokens of the key alphabet of spec/CfgReg.tla (index = token number)
var tokens = []string{"", "/", "a", "b", "core", "d", "expertiseLevel", "k", "releaseLevel", "t", "u"}

func keyStr(k []int) string {
	var sb strings.Builder
	for _, t := range k {
		if t >= 1 && t < len(tokens) {
			sb.WriteString(tokens[t])
		} else {
			sb.WriteString("?")
		}
	}
	return sb.String()
}

// keyTok maps a concrete key back to tokens; a key outside the alphabet becomes [0], which no model key equals.
func keyTok(s string) []int {
	r := []int{}
	for len(s) > 0 {
		hit := 0
		for t := 1; t < len(tokens); t++ {
			if strings.HasPrefix(s, tokens[t]) {
				hit = t
				break
			}
		}
		if hit == 0 {
			return []int{0}
		}
		r = append(r, hit)
		s = s[len(tokens[hit]):]
	}
	return r
}

// options that the config module registers itself besides the two level options; they are outside the model
var builtin = map[string]bool{"core/log/level": true, "core/devMode": true}

const markAnnotation = "verif:test:mark"

// rawValue builds the Go value a raw identifier of the specification stands for.
func rawValue(id string) (interface{}, error) {
	if id == "nil" {
		return nil, nil
	}
	i := strings.IndexByte(id, ':')
	if i < 0 {
		return nil, fmt.Errorf("bad raw value %q", id)
	}
	kind, txt := id[:i], id[i+1:]
	switch kind {
	case "s":
		return txt, nil
	case "ss":
		if txt == "" {
			return []string{}, nil
		}
		return strings.Split(txt, ","), nil
	case "is":
		r := []interface{}{}
		for _, e := range strings.Split(txt, ",") {
			if strings.HasPrefix(e, "#") {
				n, _ := strconv.Atoi(e[1:])
				r = append(r, n)
			} else {
				r = append(r, e)
			}
		}
		return r, nil
	case "i":
		n, err := strconv.Atoi(txt)
		return n, err
	case "f":
		return strconv.ParseFloat(txt, 64)
	case "b":
		return txt == "true", nil
	case "x":
		if txt == "map" {
			return map[string]interface{}{"a": 1}, nil
		}
	}
	return nil, fmt.Errorf("bad raw value %q", id)
}

// canon prints a value read back from the package (Go typed or JSON decoded) in canonical form.
func canon(v interface{}) string {
	switch x := v.(type) {
	case nil:
		return "NIL"
	case string:
		return "S:" + x
	case []string:
		return "A:" + strings.Join(x, "|")
	case []interface{}:
		parts := make([]string, len(x))
		for i, e := range x {
			s, ok := e.(string)
			if !ok {
				return fmt.Sprintf("?%T:%v", v, v)
			}
			parts[i] = s
		}
		return "A:" + strings.Join(parts, "|")
	case int64:
		return "I:" + strconv.FormatInt(x, 10)
	case int:
		return "I:" + strconv.Itoa(x)
	case float64:
		if x == float64(int64(x)) {
			return "I:" + strconv.FormatInt(int64(x), 10)
		}
		return "F:" + strconv.FormatFloat(x, 'g', -1, 64)
	case bool:
		return "B:" + strconv.FormatBool(x)
	}
	return fmt.Sprintf("?%T:%v", v, v)
}

// ------------------------------------------------------------------ script types

type specT struct {
	Nm int    `json:"nm"`
	Ds int    `json:"ds"`
	Hp int    `json:"hp"`
	T  int    `json:"t"`
	Re int    `json:"re"`
	Pv int    `json:"pv"`
	Vf int    `json:"vf"`
	Rl int    `json:"rl"`
	El int    `json:"el"`
	Rr int    `json:"rr"`
	An int    `json:"an"`
	D  string `json:"d"`
}

type entryT struct {
	K   []int  `json:"k"`
	Raw string `json:"raw"`
}

type opT struct {
	Op   string   `json:"op"`
	K    []int    `json:"k"`
	Raw  string   `json:"raw"`
	Spec specT    `json:"spec"`
	M    []entryT `json:"m"`
}

type script struct {
	Mode  string            `json:"mode"`
	Steps []opT             `json:"steps"`
	Vec   []json.RawMessage `json:"vec"`
}

type viewT struct {
	K  []int  `json:"k"`
	T  int    `json:"t"`
	Rl int    `json:"rl"`
	El int    `json:"el"`
	Rr int    `json:"rr"`
	An int    `json:"an"`
	D  string `json:"d"`
	V  string `json:"v"`
}

type kvT struct {
	K []int  `json:"k"`
	V string `json:"v"`
}

type resT struct {
	Err   string  `json:"err"`
	Recs  []viewT `json:"recs"`
	Keys  [][]int `json:"keys"`
	Vals  []kvT   `json:"vals"`
	Panic string  `json:"panic,omitempty"`
	Msg   string  `json:"msg,omitempty"`
}

type obsT struct {
	Recs []viewT `json:"recs"`
	Pend [][]int `json:"pend"`
	Act  []kvT   `json:"act"`
	El   int     `json:"el"`
	Each [][]int `json:"each"`
	Exp  [][]int `json:"exp"`
	Cf   [][]int `json:"cf"`
	Ch   [][]int `json:"ch"`
	Wt   [][]int `json:"wt"`
}

func newRes() resT { return resT{Err: "ok", Recs: []viewT{}, Keys: [][]int{}, Vals: []kvT{}} }

// ------------------------------------------------------------------ worker: one history

var (
	db  *database.Interface
	sub *database.Subscription
)

// drainFeed returns what the subscription to the database "config" received since the last call (the
// package notifies subscribers synchronously from the goroutine that makes the change).
func drainFeed() (views []viewT, err error) {
	views = []viewT{}
	for {
		select {
		case r, ok := <-sub.Feed:
			if !ok {
				return views, errors.New("subscription feed closed")
			}
			if builtin[r.DatabaseKey()] {
				continue
			}
			v, _, verr := viewOf(r)
			if verr != nil {
				return views, verr
			}
			views = append(views, v)
		default:
			return views, nil
		}
	}
}

func errClass(err error) string {
	switch {
	case err == nil:
		return "ok"
	case errors.Is(err, database.ErrNotFound):
		return "notfound"
	default:
		return "err"
	}
}

func buildOption(k []int, s specT) (*config.Option, error) {
	o := &config.Option{
		Key:             keyStr(k),
		OptType:         config.OptionType(s.T),
		ReleaseLevel:    config.ReleaseLevel(s.Rl),
		ExpertiseLevel:  config.ExpertiseLevel(s.El),
		RequiresRestart: s.Rr == 1,
		Annotations:     config.Annotations{config.CategoryAnnotation: "Verification"},
	}
	if s.Nm == 1 {
		o.Name = "fixture option"
	}
	if s.Ds == 1 {
		o.Description = "verification fixture"
	}
	if s.Hp == 1 {
		o.Help = "a longer text"
	}
	if s.An == 1 {
		o.Annotations[markAnnotation] = true
	}
	switch s.Re {
	case 1:
		o.ValidationRegex = "^[ab12]+$"
	case 2:
		o.ValidationRegex = "["
	}
	switch s.Pv {
	case 1:
		switch o.OptType {
		case config.OptTypeInt:
			o.PossibleValues = []config.PossibleValue{{Name: "one", Value: 1}, {Name: "two", Value: 2}}
		case config.OptTypeBool:
			o.PossibleValues = []config.PossibleValue{{Name: "yes", Value: true}}
		default:
			o.PossibleValues = []config.PossibleValue{{Name: "a", Value: "a"}, {Name: "b", Value: "b"}}
		}
	case 2:
		o.PossibleValues = []config.PossibleValue{{Name: "open", Value: "a("}, {Name: "a", Value: "a"}}
	}
	if s.Vf == 1 {
		o.ValidationFunc = func(v interface{}) error {
			switch canon(v) {
			case "S:b", "I:2", "B:false", "A:b":
				return errors.New("rejected by the validation function")
			}
			return nil
		}
	}
	d, err := rawValue(s.D)
	if err != nil {
		return nil, err
	}
	o.DefaultValue = d
	return o, nil
}

// viewOf decodes a record of the database "config".
func viewOf(r record.Record) (v viewT, pend bool, err error) {
	acc := r.GetAccessor(r)
	if acc == nil {
		return v, false, errors.New("record without accessor")
	}
	key, _ := acc.GetString("Key")
	if key != r.DatabaseKey() {
		v.K = []int{0}
	} else {
		v.K = keyTok(key)
	}
	if name, ok := acc.GetString("Name"); !ok || name == "" {
		v.K = []int{0}
	}
	t, _ := acc.GetInt("OptType")
	rl, _ := acc.GetInt("ReleaseLevel")
	el, _ := acc.GetInt("ExpertiseLevel")
	rr, _ := acc.GetBool("RequiresRestart")
	v.T, v.Rl, v.El = int(t), int(rl), int(el)
	if rr {
		v.Rr = 1
	}
	if d, ok := acc.Get("DefaultValue"); ok {
		v.D = canon(d)
	} else {
		v.D = "-"
	}
	if val, ok := acc.Get("Value"); ok {
		v.V = canon(val)
	} else {
		v.V = "-"
	}
	if a, ok := acc.Get("Annotations"); ok {
		if m, ok := a.(map[string]interface{}); ok {
			if _, has := m[markAnnotation]; has {
				v.An = 1
			}
			if p, has := m[config.RestartPendingAnnotation]; has && p == true {
				pend = true
			}
		}
	}
	return v, pend, nil
}

func queryViews(prefix string) (views []viewT, pend [][]int, err error) {
	views, pend = []viewT{}, [][]int{}
	it, err := db.Query(query.New("config:" + prefix))
	if err != nil {
		return views, pend, err
	}
	for r := range it.Next {
		if builtin[r.DatabaseKey()] {
			continue
		}
		v, p, verr := viewOf(r)
		if verr != nil {
			it.Cancel()
			return views, pend, verr
		}
		views = append(views, v)
		if p {
			pend = append(pend, v.K)
		}
	}
	return views, pend, it.Err()
}

var probeKeys = []string{"t/a", "t/b", "t/k/d", "u/a", "core/releaseLevel", "core/expertiseLevel", "u/b", "t/k/a"}

// nest builds a hierarchical map without using the package under test.
func nest(flat map[string]interface{}) map[string]interface{} {
	root := map[string]interface{}{}
	for k, v := range flat {
		parts := strings.Split(k, "/")
		cur := root
		for _, p := range parts[:len(parts)-1] {
			next, ok := cur[p].(map[string]interface{})
			if !ok {
				next = map[string]interface{}{}
				cur[p] = next
			}
			cur = next
		}
		cur[parts[len(parts)-1]] = v
	}
	return root
}

func leaves(m map[string]interface{}, prefix string, out *[]string) {
	for k, v := range m {
		p := k
		if prefix != "" {
			p = prefix + "/" + k
		}
		if sub, ok := v.(map[string]interface{}); ok {
			leaves(sub, p, out)
		} else {
			*out = append(*out, p)
		}
	}
}

func tokList(keys []string) [][]int {
	sort.Strings(keys)
	r := [][]int{}
	for _, k := range keys {
		if !builtin[k] {
			r = append(r, keyTok(k))
		}
	}
	return r
}

func observe() (o obsT, err error) {
	o.Wt = [][]int{}
	o.Recs, o.Pend, err = queryViews("")
	if err != nil {
		return o, err
	}
	o.Act = []kvT{}
	for k, v := range config.GetActiveConfigValues() {
		if !builtin[k] {
			o.Act = append(o.Act, kvT{keyTok(k), canon(v)})
		}
	}
	o.El = int(config.GetExpertiseLevel())
	o.Each = [][]int{}
	_ = config.ForEachOption(func(opt *config.Option) error {
		if !builtin[opt.Key] {
			o.Each = append(o.Each, keyTok(opt.Key))
		}
		return nil
	})
	o.Exp = [][]int{}
	for _, opt := range config.ExportOptions() {
		if !builtin[opt.Key] {
			o.Exp = append(o.Exp, keyTok(opt.Key))
		}
	}
	flat := map[string]interface{}{}
	for _, k := range probeKeys {
		flat[k] = "x"
	}
	tree := nest(flat)
	config.CleanFlattenedConfig(flat)
	left := []string{}
	for k := range flat {
		left = append(left, k)
	}
	o.Cf = tokList(left)
	config.CleanHierarchicalConfig(tree)
	left = []string{}
	leaves(tree, "", &left)
	o.Ch = tokList(left)
	return o, nil
}

func mapOf(m []entryT) (map[string]interface{}, error) {
	flat := map[string]interface{}{}
	for _, e := range m {
		v, err := rawValue(e.Raw)
		if err != nil {
			return nil, err
		}
		flat[keyStr(e.K)] = v
	}
	return flat, nil
}

func execOp(op opT) (r resT, wt [][]int) {
	r = newRes()
	wt = [][]int{}
	defer func() {
		if p := recover(); p != nil {
			r.Panic = fmt.Sprint(p)
		}
	}()
	fail := func(err error) {
		r.Err = errClass(err)
		if err != nil {
			r.Msg = err.Error()
		}
	}
	key := keyStr(op.K)
	switch op.Op {
	case "register":
		o, err := buildOption(op.K, op.Spec)
		if err != nil {
			r.Panic = err.Error()
			return
		}
		fail(config.Register(o))
	case "setuser", "setdef":
		v, err := rawValue(op.Raw)
		if err != nil {
			r.Panic = err.Error()
			return
		}
		if op.Op == "setuser" {
			fail(config.SetConfigOption(key, v))
		} else {
			fail(config.SetDefaultConfigOption(key, v))
		}
	case "dbput":
		doc := map[string]interface{}{"Key": key}
		if op.Raw != "absent" {
			v, err := rawValue(op.Raw)
			if err != nil {
				r.Panic = err.Error()
				return
			}
			doc["Value"] = v
		}
		data, err := json.Marshal(doc)
		if err != nil {
			r.Panic = err.Error()
			return
		}
		rec, err := record.NewWrapper("config:"+key, &record.Meta{}, dsd.JSON, data)
		if err != nil {
			r.Panic = err.Error()
			return
		}
		rec.UpdateMeta()
		fail(db.Put(rec))
	case "dbdel":
		fail(db.Delete("config:" + key))
	case "dbget":
		rec, err := db.Get("config:" + key)
		fail(err)
		if err == nil {
			v, _, verr := viewOf(rec)
			if verr != nil {
				r.Panic = verr.Error()
				return
			}
			r.Recs = append(r.Recs, v)
		}
	case "dbquery":
		views, _, err := queryViews(key)
		fail(err)
		r.Recs = views
	case "replace":
		flat, err := mapOf(op.M)
		if err != nil {
			r.Panic = err.Error()
			return
		}
		ves, _ := config.ReplaceConfig(flat)
		for _, ve := range ves {
			if ve == nil || ve.Option == nil {
				r.Keys = append(r.Keys, []int{0})
			} else {
				r.Keys = append(r.Keys, keyTok(ve.Option.Key))
			}
		}
	case "persp":
		flat, err := mapOf(op.M)
		if err != nil {
			r.Panic = err.Error()
			return
		}
		p, err := config.NewPerspective(nest(flat))
		fail(err)
		if p == nil {
			r.Panic = "NewPerspective returned no perspective"
			return
		}
		for _, k := range probeKeys {
			own := config.OptionType(0)
			if opt, gerr := config.GetOption(k); gerr == nil {
				own = opt.OptType
			}
			if p.Has(k) {
				r.Keys = append(r.Keys, keyTok(k))
			}
			seen := func(t config.OptionType, v interface{}) {
				r.Vals = append(r.Vals, kvT{keyTok(k), canon(v)})
				if t != own {
					wt = append(wt, keyTok(k))
				}
			}
			if v, ok := p.GetAsString(k); ok {
				seen(config.OptTypeString, v)
			}
			if v, ok := p.GetAsStringArray(k); ok {
				seen(config.OptTypeStringArray, v)
			}
			if v, ok := p.GetAsInt(k); ok {
				seen(config.OptTypeInt, v)
			}
			if v, ok := p.GetAsBool(k); ok {
				seen(config.OptTypeBool, v)
			}
		}
	default:
		r.Panic = "unknown op " + op.Op
	}
	return r, wt
}

func workerMain(dir string) {
	out := bufio.NewWriter(os.Stdout)
	emit := func(ev map[string]any) {
		b, _ := json.Marshal(ev)
		out.Write(b)
		out.WriteByte('\n')
		out.Flush()
	}
	in, err := bufio.NewReader(os.Stdin).ReadBytes('\n')
	if err != nil && len(in) == 0 {
		emit(map[string]any{"e": "setup-failed", "msg": "no script: " + err.Error()})
		os.Exit(3)
	}
	var s script
	if err := json.Unmarshal(in, &s); err != nil {
		emit(map[string]any{"e": "setup-failed", "msg": "bad script: " + err.Error()})
		os.Exit(3)
	}
	log.SetLogLevel(log.CriticalLevel)
	modules.SetStdErrReporting(false)
	if err := dataroot.Initialize(dir, 0o0755); err != nil {
		emit(map[string]any{"e": "setup-failed", "msg": "dataroot: " + err.Error()})
		os.Exit(3)
	}
	if err := modules.Start(); err != nil {
		emit(map[string]any{"e": "setup-failed", "msg": "start: " + err.Error()})
		os.Exit(3)
	}
	db = database.NewInterface(&database.Options{Local: true, Internal: true})
	if s.Mode == "maps" {
		runMaps(s, emit)
		os.Exit(0)
	}
	var serr error
	sub, serr = db.Subscribe(query.New("config:"))
	if serr != nil {
		emit(map[string]any{"e": "setup-failed", "msg": "subscribe: " + serr.Error()})
		os.Exit(3)
	}
	emit(map[string]any{"e": "new", "tokens": tokens})
	for _, op := range s.Steps {
		if op.M == nil {
			op.M = []entryT{}
		}
		if op.K == nil {
			op.K = []int{}
		}
		emit(map[string]any{"e": "try", "op": op})
		res, wt := execOp(op)
		feed, ferr := drainFeed()
		if ferr != nil && res.Panic == "" {
			res.Panic = "feed: " + ferr.Error()
		}
		ev := map[string]any{"e": "op", "op": op, "res": res, "feed": feed}
		if res.Panic == "" {
			func() {
				defer func() {
					if p := recover(); p != nil {
						res.Panic = "observe: " + fmt.Sprint(p)
						ev["res"] = res
					}
				}()
				obs, err := observe()
				if err != nil {
					res.Panic = "observe: " + err.Error()
					ev["res"] = res
					return
				}
				obs.Wt = wt
				ev["obs"] = obs
			}()
		}
		emit(ev)
		if res.Panic != "" {
			break
		}
	}
	os.Exit(0)
}

// ------------------------------------------------------------------ parent

func runScript(tr *vio.Trace, line []byte, s script, n int, base string) error {
	dir := filepath.Join(base, fmt.Sprintf("root-%d-%d", os.Getpid(), n))
	if err := os.MkdirAll(dir, 0o755); err != nil {
		return err
	}
	defer os.RemoveAll(dir)
	self, err := os.Executable()
	if err != nil {
		return err
	}
	cmd := exec.Command(self, "worker", dir)
	cmd.Stdin = bytes.NewReader(append(append([]byte{}, line...), '\n'))
	var stdout bytes.Buffer
	cmd.Stdout = &stdout
	var stderr bytes.Buffer
	cmd.Stderr = &stderr
	if err := cmd.Start(); err != nil {
		return err
	}
	done := make(chan error, 1)
	go func() { done <- cmd.Wait() }()
	var werr error
	select {
	case werr = <-done:
	case <-time.After(60 * time.Second):
		_ = cmd.Process.Kill()
		<-done
		werr = errors.New("worker hangs")
	}
	var lastTry json.RawMessage
	finished := true
	for _, l := range bytes.Split(stdout.Bytes(), []byte{'\n'}) {
		if len(l) == 0 {
			continue
		}
		var ev map[string]json.RawMessage
		if l[0] != '{' || json.Unmarshal(l, &ev) != nil {
			continue // a log line of the module system, or the partial last line of a dead worker
		}
		ev["h"] = json.RawMessage(strconv.Itoa(n))
		var kind string
		_ = json.Unmarshal(ev["e"], &kind)
		if kind == "try" {
			lastTry = ev["op"]
			finished = false
			continue
		}
		finished = true
		tr.EmitRaw(ev)
	}
	if werr != nil || !finished {
		// the worker died or hung inside a step: that is an observation of the step
		msg := "process: "
		if werr != nil {
			msg += werr.Error()
		} else {
			msg += "ended inside the step"
		}
		tail := stderr.String()
		if len(tail) > 600 {
			tail = tail[:600]
		}
		res := newRes()
		res.Err = "err"
		res.Panic = msg + " " + tail
		op := lastTry
		if op == nil {
			op = json.RawMessage(`{"op":"start"}`)
		}
		tr.EmitRaw(map[string]any{"e": "op", "op": op, "res": res, "h": n})
	}
	return nil
}

func main() {
	if len(os.Args) >= 3 && os.Args[1] == "worker" {
		workerMain(os.Args[2])
		return
	}
	if len(os.Args) < 3 {
		fmt.Fprintln(os.Stderr, "usage: cfgreg <scripts> <trace> [skip]")
		os.Exit(2)
	}
	skip := 0
	if len(os.Args) > 3 {
		skip, _ = strconv.Atoi(os.Args[3])
	}
	tr, err := vio.NewTrace(os.Args[2])
	if err != nil {
		fmt.Fprintln(os.Stderr, err)
		os.Exit(2)
	}
	base := filepath.Dir(os.Args[2])
	n := 0
	err = vio.ReadLines(os.Args[1], func(line []byte) error {
		if n < skip {
			n++
			return nil
		}
		var s script
		if err := json.Unmarshal(line, &s); err != nil {
			return err
		}
		if err := runScript(tr, line, s, n, base); err != nil {
			return err
		}
		tr.Flush()
		n++
		return nil
	})
	tr.Close()
	if err != nil {
		fmt.Fprintln(os.Stderr, err)
		os.Exit(2)
	}
	fmt.Printf("scripts=%d\n", n)
}

// ------------------------------------------------------------------ mode "maps"

var segNames = []string{"", "a", "b", "c"}

type mapEntry struct {
	P []int `json:"p"`
	V int   `json:"v"`
}

type vecT struct {
	Fn   string     `json:"fn"`
	Tree []mapEntry `json:"tree"`
	Flat []mapEntry `json:"flat"`
	K    []int      `json:"k"`
	V    int        `json:"v"`
	Reg  [][]int    `json:"reg"`
}

func pathStr(p []int) string {
	parts := make([]string, len(p))
	for i, s := range p {
		if s >= 1 && s < len(segNames) {
			parts[i] = segNames[s]
		} else {
			parts[i] = "?"
		}
	}
	return strings.Join(parts, "/")
}

func pathOf(s string) []int {
	r := []int{}
	for _, part := range strings.Split(s, "/") {
		id := 0
		for i := 1; i < len(segNames); i++ {
			if segNames[i] == part {
				id = i
			}
		}
		r = append(r, id)
	}
	return r
}

func mapValue(id int) interface{} {
	switch id {
	case 1:
		return "s"
	case 2:
		return 7
	case 3:
		return true
	case 4:
		return []string{"x", "y"}
	}
	return fmt.Sprintf("bad value id %d", id)
}

func mapValueID(v interface{}) int {
	b, err := json.Marshal(v)
	if err != nil {
		return 99
	}
	switch string(b) {
	case `"s"`:
		return 1
	case `7`:
		return 2
	case `true`:
		return 3
	case `["x","y"]`:
		return 4
	}
	return 99
}

// buildTree builds the nested map of a vector without using the package under test.
func buildTree(es []mapEntry) map[string]interface{} {
	root := map[string]interface{}{}
	for _, e := range es {
		cur := root
		for _, s := range e.P[:len(e.P)-1] {
			next, ok := cur[segNames[s]].(map[string]interface{})
			if !ok {
				next = map[string]interface{}{}
				cur[segNames[s]] = next
			}
			cur = next
		}
		last := segNames[e.P[len(e.P)-1]]
		if e.V == 0 {
			cur[last] = map[string]interface{}{}
		} else {
			cur[last] = mapValue(e.V)
		}
	}
	return root
}

func buildFlat(es []mapEntry) map[string]interface{} {
	m := map[string]interface{}{}
	for _, e := range es {
		m[pathStr(e.P)] = mapValue(e.V)
	}
	return m
}

func treeEntries(m map[string]interface{}, prefix []int, out *[]mapEntry) {
	for k, v := range m {
		p := append(append([]int{}, prefix...), pathOf(k)...)
		if sub, ok := v.(map[string]interface{}); ok {
			if len(sub) == 0 {
				*out = append(*out, mapEntry{p, 0})
			} else {
				treeEntries(sub, p, out)
			}
		} else {
			*out = append(*out, mapEntry{p, mapValueID(v)})
		}
	}
}

func flatEntries(m map[string]interface{}) []mapEntry {
	out := []mapEntry{}
	for k, v := range m {
		if _, isMap := v.(map[string]interface{}); isMap {
			out = append(out, mapEntry{pathOf(k), 98}) // a section inside a flat map
		} else {
			out = append(out, mapEntry{pathOf(k), mapValueID(v)})
		}
	}
	return out
}

func sortEntries(es []mapEntry) []mapEntry {
	sort.Slice(es, func(i, j int) bool { return fmt.Sprint(es[i].P) < fmt.Sprint(es[j].P) })
	return es
}

func runVec(v vecT) (ev map[string]any) {
	ev = map[string]any{"e": "vec", "fn": v.Fn, "tree": v.Tree, "flat": v.Flat, "k": v.K, "v": v.V, "same": true}
	defer func() {
		if p := recover(); p != nil {
			ev["panic"] = fmt.Sprint(p)
			ev["out"] = []mapEntry{}
		}
	}()
	out := []mapEntry{}
	switch v.Fn {
	case "flatten":
		t := buildTree(v.Tree)
		out = flatEntries(config.Flatten(t))
		after := []mapEntry{}
		treeEntries(t, nil, &after)
		before := []mapEntry{}
		treeEntries(buildTree(v.Tree), nil, &before)
		ev["same"] = fmt.Sprint(sortEntries(after)) == fmt.Sprint(sortEntries(before))
	case "j2m":
		b, err := json.Marshal(buildTree(v.Tree))
		if err != nil {
			panic(err)
		}
		m, err := config.JSONToMap(b)
		if err != nil {
			panic(err)
		}
		out = flatEntries(m)
	case "expand":
		treeEntries(config.Expand(buildFlat(v.Flat)), nil, &out)
	case "m2j":
		b, err := config.MapToJSON(buildFlat(v.Flat))
		if err != nil {
			panic(err)
		}
		var t map[string]interface{}
		if err := json.Unmarshal(b, &t); err != nil {
			panic(err)
		}
		treeEntries(t, nil, &out)
	case "put":
		t := buildTree(v.Tree)
		config.PutValueIntoHierarchicalConfig(t, pathStr(v.K), mapValue(v.V))
		treeEntries(t, nil, &out)
	case "round":
		treeEntries(config.Expand(config.Flatten(buildTree(v.Tree))), nil, &out)
	case "cleanflat":
		m := buildFlat(v.Flat)
		config.CleanFlattenedConfig(m)
		out = flatEntries(m)
	case "cleanhier":
		t := buildTree(v.Tree)
		config.CleanHierarchicalConfig(t)
		treeEntries(t, nil, &out)
	default:
		panic("unknown fn " + v.Fn)
	}
	ev["out"] = sortEntries(out)
	return ev
}

func runMaps(s script, emit func(map[string]any)) {
	// register the fixture keys of the clean vectors (the same list in every vector)
	registered := [][]int{}
	for _, raw := range s.Vec {
		var v vecT
		if err := json.Unmarshal(raw, &v); err != nil {
			emit(map[string]any{"e": "setup-failed", "msg": "bad vector: " + err.Error()})
			os.Exit(3)
		}
		if len(registered) > 0 || len(v.Reg) == 0 {
			continue
		}
		for _, p := range v.Reg {
			err := config.Register(&config.Option{Name: "fixture", Key: pathStr(p), Description: "clean fixture",
				OptType: config.OptTypeString, DefaultValue: "d"})
			if err != nil {
				emit(map[string]any{"e": "setup-failed", "msg": "register: " + err.Error()})
				os.Exit(3)
			}
			registered = append(registered, p)
		}
	}
	for _, raw := range s.Vec {
		var v vecT
		_ = json.Unmarshal(raw, &v)
		if v.Tree == nil {
			v.Tree = []mapEntry{}
		}
		if v.Flat == nil {
			v.Flat = []mapEntry{}
		}
		if v.K == nil {
			v.K = []int{}
		}
		ev := runVec(v)
		ev["reg"] = registered
		emit(ev)
	}
}
