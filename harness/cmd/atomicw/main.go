// Command atomicw binds property C17 (files are published atomically) to the real atomic-replace
// primitives of portbase: fstree storage Put, utils.CreateAtomic / CopyFileAtomic / ReplaceFileAtomic,
// renameio.WriteFile / Symlink, the updater's download (over a loopback HTTP server) and
// Resource.UnpackArchive.
//
//	atomicw <scripts.ndjson> <trace.ndjson> [skip]   batch mode (vlib.drive convention), one run per script
//	atomicw write <case.json>                         child: performs ONE write with the real primitive
//
// A script is {"case":{...},"mode":"full"|"kill"|"error"|"readers","sys":name,"k":n,"errno":"EIO"}:
//
//	full     the child runs under `strace -f`; the system-call log is converted to events
//	kill     the child runs under `strace -e inject=<sys>:signal=KILL:when=<k>` (only the main thread is traced
//	         and the writer is locked to it, so <k> counts the writer's own calls): it is killed immediately
//	         before its k-th <sys> call; the log up to that point is converted the same way
//	error    like kill, but the k-th call fails with <errno> instead (a failed operation)
//	readers  no strace: reader goroutines hammer the destination during `reps` replacements
//
// After every run the directory tree is inspected: the destination is classified (absent / old / new /
// other) and every path that did not exist before is listed with its location class.  The driver only
// records; the verdict is TLC's (spec/AtomicFileTrace.tla).
package main

import (
	"archive/zip"
	"bufio"
	"bytes"
	"encoding/json"
	"errors"
	"fmt"
	"io"
	"io/fs"
	"net"
	"net/http"
	"os"
	"os/exec"
	"path/filepath"
	"regexp"
	"runtime"
	"sort"
	"strconv"
	"strings"
	"sync"
	"sync/atomic"
	"syscall"
	"time"

	"github.com/safing/portbase/database/record"
	"github.com/safing/portbase/database/storage/fstree"
	"github.com/safing/portbase/formats/dsd"
	"github.com/safing/jess"
	"github.com/safing/jess/filesig"
	"github.com/safing/jess/lhash"
	"github.com/safing/jess/tools"
	_ "github.com/safing/jess/tools/all"
	"github.com/safing/portbase/updater"
	"github.com/safing/portbase/utils"
	"github.com/safing/portbase/utils/renameio"

	"verifharness/internal/vio"
)

func init() {
	// the writer runs on the main goroutine, wired to the main thread: all of its system calls are issued
	// by the one thread strace traces (and counts) in the kill / error modes
	runtime.LockOSThread()
}

// Case describes one write.
type Case struct {
	ID      string `json:"id"`
	Prim    string `json:"prim"`   // fstree createatomic copyatomic replaceatomic writefile symlink fetch unpack
	Dst     string `json:"dst"`    // absent | present | mode | nodir
	Old     string `json:"old"`    // size class of the old content: empty | small | big
	New     string `json:"new"`    // size class of the new content
	Layout  string `json:"layout"` // tmpdir (TMPDIR on the same file system) | xdev (TMPDIR elsewhere) | explicit (opts.TempDir) | explicitx
	Fault   string `json:"fault"`  // none | badsig (fetch: required signature, damaged body) | srcerr (source reader fails half way) | srceof (... with io.ErrUnexpectedEOF) | short (first download is cut short) | shortstream (every download is a close-delimited body cut short)
	Seed    int    `json:"seed"`
	Root    string `json:"root"`   // sandbox (filled in by the batch runner)
	Tmpdir  string `json:"tmpdir"` // TMPDIR of the writer (filled in by the batch runner)
	Xtmp    string `json:"xtmp"`   // opts.TempDir of layout explicitx: a directory on another file system
	Reps    int    `json:"reps"`
	Readers int    `json:"readers"`
}

type script struct {
	Case  Case   `json:"case"`
	Mode  string `json:"mode"`
	Sys   string `json:"sys"`
	K     int    `json:"k"`
	Errno string `json:"errno"`
}

const (
	markBegin = "/@@atomicw-begin"
	markEnd   = "/@@atomicw-end"
	identFile = "sub/tool.bin"
	identZip  = "sub/tool.zip"
	version   = "1.0.0"
)

// ------------------------------------------------------------------------------------------ layout

type layout struct {
	c        Case
	pub      string
	dest     string
	kind     string // file | dir | link
	tmpRoots []string
	src      string
	xtmp     string
}

func newLayout(c Case) *layout {
	l := &layout{c: c, pub: filepath.Join(c.Root, "pub"), kind: "file"}
	l.src = filepath.Join(c.Root, "src", "source.bin")
	l.xtmp = filepath.Join(c.Root, "xtmp")
	if c.Xtmp != "" {
		l.xtmp = c.Xtmp
	}
	l.tmpRoots = []string{c.Tmpdir, l.xtmp}
	switch c.Prim {
	case "symlink":
		l.kind = "link"
		l.dest = filepath.Join(l.pub, "sub", "current")
	case "fetch":
		l.dest = filepath.Join(l.pub, filepath.FromSlash(updater.GetVersionedPath(identFile, version)))
		l.tmpRoots = append(l.tmpRoots, filepath.Join(l.pub, "tmp"))
	case "unpack":
		l.kind = "dir"
		l.dest = strings.TrimSuffix(filepath.Join(l.pub, filepath.FromSlash(updater.GetVersionedPath(identZip, version))), ".zip")
		l.tmpRoots = append(l.tmpRoots, filepath.Join(l.pub, "tmp"))
	default:
		l.dest = filepath.Join(l.pub, "sub", "data.bin")
	}
	return l
}

func under(p, dir string) bool { return dir != "" && strings.HasPrefix(p, dir+"/") }

// loc classifies a path (see spec/AtomicFile.tla).
func (l *layout) loc(p string) string {
	p = filepath.Clean(p)
	if p == l.dest || under(p, l.dest) {
		return "dest"
	}
	for _, t := range l.tmpRoots {
		if t != "" && (p == t || under(p, t)) {
			return "tmp"
		}
	}
	dd := filepath.Dir(l.dest)
	if under(p, dd) {
		first := strings.SplitN(strings.TrimPrefix(p, dd+"/"), "/", 2)[0]
		if strings.HasPrefix(first, "."+filepath.Base(l.dest)) {
			return "sib"
		}
	}
	if under(l.dest, p) && (p == l.c.Root || under(p, l.c.Root)) {
		return "parent"
	}
	if p == l.c.Root || under(p, l.c.Root) {
		return "other"
	}
	return "ext"
}

// comps is the name of a path in the model: its components below the sandbox root.
func (l *layout) comps(p string) []string {
	p = filepath.Clean(p)
	if p == l.c.Root {
		return []string{"@root"}
	}
	if under(p, l.c.Root) {
		return strings.Split(strings.TrimPrefix(p, l.c.Root+"/"), "/")
	}
	if p == l.c.Tmpdir {
		return []string{"@tmp"}
	}
	if under(p, l.c.Tmpdir) {
		return append([]string{"@tmp"}, strings.Split(strings.TrimPrefix(p, l.c.Tmpdir+"/"), "/")...)
	}
	if under(p, l.xtmp) {
		return append([]string{"@xtmp"}, strings.Split(strings.TrimPrefix(p, l.xtmp+"/"), "/")...)
	}
	return []string{"@ext", p}
}

// ------------------------------------------------------------------------------------------ contents

func sizeOf(class string) int {
	switch class {
	case "empty":
		return 0
	case "small":
		return 97
	case "mid":
		return 256 << 10
	case "big":
		return 4 << 20
	}
	return 13
}

// content is a deterministic byte string: tag, then pseudo-random bytes.
func content(tag string, n int, seed int) []byte {
	b := make([]byte, n)
	copy(b, tag)
	x := uint64(seed)*0x9E3779B97F4A7C15 + 0x1234567
	for _, ch := range tag {
		x = x*31 + uint64(ch)
	}
	for i := len(tag); i < n; i++ {
		x ^= x << 13
		x ^= x >> 7
		x ^= x << 17
		b[i] = byte(x)
	}
	return b
}

func (l *layout) oldBytes() []byte { return content("OLD:", sizeOf(l.c.Old), l.c.Seed) }
func (l *layout) payload() []byte  { return content("NEW:", sizeOf(l.c.New), l.c.Seed) }

func fstreeRecord(data []byte) (record.Record, []byte, error) {
	meta := &record.Meta{Created: 1700000000, Modified: 1700000001}
	w, err := record.NewWrapper("verif:sub/data.bin", meta, dsd.RAW, data)
	if err != nil {
		return nil, nil, err
	}
	b, err := w.MarshalRecord(w)
	return w, b, err
}

// newBytes is the complete new content of a single-file destination.
func (l *layout) newBytes() []byte {
	if l.c.Prim == "fstree" {
		_, b, err := fstreeRecord(l.payload())
		if err != nil {
			panic(err)
		}
		return b
	}
	return l.payload()
}

type zent struct {
	name string
	dir  bool
	data []byte
}

func (l *layout) zipEntries() []zent {
	return []zent{
		{name: "bin/", dir: true},
		{name: "bin/tool", data: l.payload()},
		{name: "README", data: content("README:", 61, l.c.Seed)},
		{name: "empty", data: []byte{}},
		{name: "share/", dir: true},
		{name: "share/doc/", dir: true},
		{name: "share/doc/notes.txt", data: content("NOTES:", 1500, l.c.Seed)},
	}
}

func (l *layout) zipBytes() []byte {
	var buf bytes.Buffer
	zw := zip.NewWriter(&buf)
	for _, e := range l.zipEntries() {
		h := &zip.FileHeader{Name: e.name, Method: zip.Deflate}
		if e.dir {
			h.SetMode(0o755 | fs.ModeDir)
		} else {
			h.SetMode(0o644)
		}
		w, err := zw.CreateHeader(h)
		if err != nil {
			panic(err)
		}
		if !e.dir {
			_, _ = w.Write(e.data)
		}
	}
	_ = zw.Close()
	return buf.Bytes()
}

// header returns the "new" event of a run.
func (l *layout) header(h int, mode string) map[string]any {
	size, entries := len(l.newBytes()), 1
	switch l.kind {
	case "link":
		size = 0
	case "dir":
		size, entries = 0, 1
		for _, e := range l.zipEntries() {
			size += len(e.data)
			entries++
		}
	}
	old := "old"
	if l.c.Dst == "absent" || l.c.Dst == "nodir" {
		old = "absent"
	}
	osize := len(l.oldBytes())
	if l.kind != "file" {
		osize = 0
	}
	return map[string]any{"e": "new", "h": h, "case": l.c.ID, "mode": mode, "kind": l.kind, "size": size,
		"entries": entries, "old": old, "osize": osize, "dest": l.comps(l.dest)}
}

// ------------------------------------------------------------------------------------------ prep

const oldMark = "OLDMARK"

func (l *layout) prep() error {
	for _, d := range []string{l.pub, filepath.Join(l.c.Root, "src"), l.xtmp, l.c.Tmpdir} {
		if err := os.MkdirAll(d, 0o755); err != nil {
			return err
		}
	}
	if l.c.Prim == "unpack" && l.c.Layout == "xdev" {
		// the registry's tmp directory lies on another file system (a mount point or, as here, a symbolic link)
		if err := os.Symlink(l.c.Tmpdir, filepath.Join(l.pub, "tmp")); err != nil {
			return err
		}
	} else if l.c.Prim == "fetch" || l.c.Prim == "unpack" {
		if err := os.MkdirAll(filepath.Join(l.pub, "tmp"), 0o700); err != nil {
			return err
		}
	}
	if l.c.Dst != "nodir" {
		if err := os.MkdirAll(filepath.Dir(l.dest), 0o755); err != nil {
			return err
		}
	}
	if err := os.WriteFile(l.src, l.payload(), 0o644); err != nil {
		return err
	}
	if l.c.Prim == "unpack" {
		if err := os.WriteFile(l.dest+".zip", l.zipBytes(), 0o644); err != nil {
			return err
		}
	}
	if l.c.Dst == "present" || l.c.Dst == "mode" {
		mode := os.FileMode(0o644)
		if l.c.Dst == "mode" {
			mode = 0o400
		}
		switch l.kind {
		case "file":
			if err := os.WriteFile(l.dest, l.oldBytes(), 0o600); err != nil {
				return err
			}
			if err := os.Chmod(l.dest, mode); err != nil {
				return err
			}
		case "link":
			if err := os.Symlink("target-old", l.dest); err != nil {
				return err
			}
		case "dir":
			if err := os.MkdirAll(filepath.Join(l.dest, "olddir"), 0o755); err != nil {
				return err
			}
			if err := os.WriteFile(filepath.Join(l.dest, "olddir", oldMark), l.oldBytes(), 0o644); err != nil {
				return err
			}
		}
	}
	return nil
}

// tree lists every path below the sandbox (and below TMPDIR when that is elsewhere), without following links.
func (l *layout) tree() map[string]bool {
	m := map[string]bool{}
	roots := []string{l.c.Root}
	if !under(l.c.Tmpdir, l.c.Root) {
		roots = append(roots, l.c.Tmpdir)
	}
	if !under(l.xtmp, l.c.Root) {
		roots = append(roots, l.xtmp)
	}
	for _, r := range roots {
		_ = filepath.WalkDir(r, func(p string, d fs.DirEntry, err error) error {
			if err == nil {
				m[p] = d.IsDir()
			}
			return nil
		})
	}
	return m
}

// ------------------------------------------------------------------------------------------ observe

func (l *layout) destState() (state, detail string) {
	st, err := os.Lstat(l.dest)
	if err != nil {
		if errors.Is(err, fs.ErrNotExist) {
			return "absent", ""
		}
		return "other", "lstat: " + err.Error()
	}
	detail = fmt.Sprintf("mode=%04o", st.Mode().Perm())
	switch l.kind {
	case "file":
		if !st.Mode().IsRegular() {
			return "other", "not a regular file " + st.Mode().String()
		}
		b, err := os.ReadFile(l.dest)
		if err != nil {
			// a mode like 0000 is not used by the cases: a read error is reported as such
			return "other", "read: " + err.Error()
		}
		return classify(b, l.oldBytes(), l.newBytes(), detail)
	case "link":
		if st.Mode()&fs.ModeSymlink == 0 {
			return "other", "not a symlink"
		}
		t, _ := os.Readlink(l.dest)
		switch t {
		case "target-old":
			return "old", t
		case "target-new":
			return "new", t
		}
		return "other", "points to " + t
	default:
		got := map[string]string{}
		_ = filepath.WalkDir(l.dest, func(p string, d fs.DirEntry, err error) error {
			if err != nil || p == l.dest {
				return nil
			}
			rel := strings.TrimPrefix(p, l.dest+"/")
			if d.IsDir() {
				got[rel+"/"] = ""
			} else {
				b, _ := os.ReadFile(p)
				got[rel] = string(b)
			}
			return nil
		})
		oldT := map[string]string{"olddir/": "", "olddir/" + oldMark: string(l.oldBytes())}
		newT := map[string]string{}
		for _, e := range l.zipEntries() {
			newT[e.name] = string(e.data)
		}
		switch {
		case sameTree(got, oldT):
			return "old", detail
		case sameTree(got, newT):
			return "new", detail
		}
		names := make([]string, 0, len(got))
		for k, v := range got {
			names = append(names, fmt.Sprintf("%s(%d)", k, len(v)))
		}
		sort.Strings(names)
		return "other", "tree: " + strings.Join(names, " ")
	}
}

func sameTree(a, b map[string]string) bool {
	if len(a) != len(b) {
		return false
	}
	for k, v := range a {
		if w, ok := b[k]; !ok || w != v {
			return false
		}
	}
	return true
}

func classify(b, oldB, newB []byte, detail string) (string, string) {
	switch {
	case bytes.Equal(b, newB):
		return "new", detail
	case bytes.Equal(b, oldB):
		return "old", detail
	}
	d := fmt.Sprintf("%s len=%d (old %d, new %d)", detail, len(b), len(oldB), len(newB))
	if len(b) > 0 {
		n := len(b)
		if n > 8 {
			n = 8
		}
		d += fmt.Sprintf(" starts %q", b[:n])
	}
	if len(b) < len(newB) && bytes.Equal(b, newB[:len(b)]) {
		d += " = prefix of the new content"
	}
	return "other", d
}

func (l *layout) observe(before map[string]bool, why, errText string) map[string]any {
	state, detail := l.destState()
	strays := map[string]int{"tmp": 0, "sib": 0, "parent": 0, "other": 0}
	names := []string{}
	for p := range l.tree() {
		if _, was := before[p]; was {
			continue
		}
		lc := l.loc(p)
		if lc == "dest" {
			continue
		}
		strays[lc]++
		names = append(names, lc+":"+strings.Join(l.comps(p), "/"))
	}
	sort.Strings(names)
	return map[string]any{"e": "obs", "why": why, "dest": state, "detail": detail, "strays": strays, "names": names, "err": errText}
}

// ------------------------------------------------------------------------------------------ the write

type failingReader struct {
	r    io.Reader
	left int
	err  error // nil: a generic error
}

func (f *failingReader) Read(p []byte) (int, error) {
	if f.left <= 0 {
		if f.err != nil {
			return 0, f.err
		}
		return 0, errors.New("source failed")
	}
	if len(p) > f.left {
		p = p[:f.left]
	}
	n, err := f.r.Read(p)
	f.left -= n
	return n, err
}

// prepared returns the function that performs the one write; everything that is not part of the
// primitive (loading data, registries, the HTTP server) happens before it is called.
func (l *layout) prepared(gen int) (func() error, func(), error) {
	c := l.c
	data := l.payload()
	if gen > 0 {
		data = genContent(gen)
	}
	var opts *utils.AtomicFileOptions
	if c.Layout == "explicit" || c.Layout == "explicitx" {
		opts = &utils.AtomicFileOptions{TempDir: l.xtmp}
	}
	nop := func() {}
	switch c.Prim {
	case "fstree":
		st, err := fstree.NewFSTree("verif", l.pub)
		if err != nil {
			return nil, nil, err
		}
		r, _, err := fstreeRecord(data)
		if err != nil {
			return nil, nil, err
		}
		return func() error { _, err := st.Put(r); return err }, nop, nil
	case "createatomic":
		var rd io.Reader = bytes.NewReader(data)
		if c.Fault == "srcerr" {
			rd = &failingReader{r: bytes.NewReader(data), left: len(data) / 2}
		}
		if c.Fault == "srceof" {
			// a source that ends before its announced length (a truncated compressed stream, a short section reader)
			rd = &failingReader{r: bytes.NewReader(data), left: len(data) / 2, err: fmt.Errorf("source: %w", io.ErrUnexpectedEOF)}
		}
		return func() error { return utils.CreateAtomic(l.dest, rd, opts) }, nop, nil
	case "copyatomic":
		if gen > 0 {
			if err := os.WriteFile(l.src, data, 0o644); err != nil {
				return nil, nil, err
			}
		}
		return func() error { return utils.CopyFileAtomic(l.dest, l.src, opts) }, nop, nil
	case "replaceatomic":
		if gen > 0 {
			if err := os.WriteFile(l.src, data, 0o644); err != nil {
				return nil, nil, err
			}
		}
		return func() error { return utils.ReplaceFileAtomic(l.dest, l.src, opts) }, nop, nil
	case "writefile":
		return func() error { return renameio.WriteFile(l.dest, data, 0o644) }, nop, nil
	case "symlink":
		target := "target-new"
		if gen > 0 {
			target = "target-" + strconv.Itoa(gen)
		}
		return func() error { return renameio.Symlink(target, l.dest) }, nop, nil
	case "fetch":
		var served int32
		var sigOf func(map[string]string) ([]byte, error)
		var sigBytes atomic.Value
		ln, err := net.Listen("tcp", "127.0.0.1:0")
		if err != nil {
			return nil, nil, err
		}
		srv := &http.Server{Handler: http.HandlerFunc(func(w http.ResponseWriter, r *http.Request) {
			if strings.HasSuffix(r.URL.Path, filesig.Extension) {
				if b, _ := sigBytes.Load().([]byte); b != nil {
					_, _ = w.Write(b)
					return
				}
				http.NotFound(w, r)
				return
			}
			n := atomic.AddInt32(&served, 1)
			w.Header().Set("Content-Length", strconv.Itoa(len(data)))
			if c.Fault == "short" && n == 1 {
				_, _ = w.Write(data[:len(data)/2])
				return // the server closes the connection: the client sees an unexpected EOF
			}
			if c.Fault == "shortstream" {
				// a response without Content-Length and without chunking is delimited by the close of the
				// connection: an interrupted transfer looks like a clean end of the body to the client
				if hj, ok := w.(http.Hijacker); ok {
					conn, buf, err := hj.Hijack()
					if err == nil {
						_, _ = buf.WriteString("HTTP/1.1 200 OK\r\nContent-Type: application/octet-stream\r\nConnection: close\r\n\r\n")
						_, _ = buf.Write(data[:len(data)/2])
						_ = buf.Flush()
						_ = conn.Close()
						return
					}
				}
			}
			if len(data) <= 64<<10 {
				_, _ = w.Write(data)
				return
			}
			// a large body is sent in paced 32 KiB pieces, so that the client finds one piece per read and
			// the sequence of its write calls is the same in every run (crash points are counted per call)
			fl, _ := w.(http.Flusher)
			for off := 0; off < len(data); off += 32 << 10 {
				end := off + 32<<10
				if end > len(data) {
					end = len(data)
				}
				if _, err := w.Write(data[off:end]); err != nil {
					return
				}
				if fl != nil {
					fl.Flush()
				}
				time.Sleep(time.Millisecond)
			}
		})}
		reg := &updater.ResourceRegistry{Name: "verif", Online: true, UpdateURLs: []string{"http://" + ln.Addr().String()}}
		var sigFile []byte
		if c.Fault == "badsig" {
			// downloads must be verified: the server delivers a valid signature of the resource, but the body it
			// sends was damaged on the way (same length): every attempt fails, nothing may be published
			updater.VerifBackoffUnit = time.Millisecond
			trustStore := jess.NewMemTrustStore()
			tool, err := tools.Get("Ed25519")
			if err != nil {
				return nil, nil, err
			}
			signet := jess.NewSignetBase(tool)
			signet.ID = "verif-c17-key"
			if err := tool.StaticLogic.GenerateKey(signet); err != nil {
				return nil, nil, err
			}
			if err := trustStore.StoreSignet(signet); err != nil {
				return nil, nil, err
			}
			rcpt, err := signet.AsRecipient()
			if err != nil {
				return nil, nil, err
			}
			if err := trustStore.StoreSignet(rcpt); err != nil {
				return nil, nil, err
			}
			reg.Verification = map[string]*updater.VerificationOptions{"": {TrustStore: trustStore,
				DownloadPolicy: updater.SignaturePolicyRequire, DiskLoadPolicy: updater.SignaturePolicyRequire}}
			signed := append([]byte{}, data...)
			if len(data) > 0 {
				data = append([]byte{}, data...)
				data[len(data)/2] ^= 0x55 // what the server sends differs from what was signed
			}
			defer func() {
				_ = signed
			}()
			sigOf = func(meta map[string]string) ([]byte, error) {
				envelope := jess.NewUnconfiguredEnvelope()
				envelope.SuiteID = jess.SuiteSignV1
				envelope.Senders = []*jess.Signet{signet}
				letter, _, err := filesig.SignFileData(lhash.BLAKE2b_256.Digest(signed), meta, envelope, trustStore)
				if err != nil {
					return nil, err
				}
				return filesig.AddToSigFile(letter, nil, false)
			}
		}
		go func() { _ = srv.Serve(ln) }()
		if err := reg.Initialize(utils.NewDirStructure(l.pub, 0o755)); err != nil {
			return nil, nil, err
		}
		if err := reg.AddResource(identFile, version, nil, false, false, false); err != nil {
			return nil, nil, err
		}
		reg.SelectVersions()
		if sigOf != nil {
			for _, res := range reg.Export() {
				for _, rv := range res.Versions {
					b, err := sigOf(rv.SigningMetadata())
					if err != nil {
						return nil, nil, err
					}
					sigFile = b
				}
			}
			sigBytes.Store(sigFile)
		}
		return func() error { _, err := reg.GetFile(identFile); return err }, func() { _ = srv.Close() }, nil
	case "unpack":
		reg := &updater.ResourceRegistry{Name: "verif", Online: false, AutoUnpack: []string{identZip}}
		if err := reg.Initialize(utils.NewDirStructure(l.pub, 0o755)); err != nil {
			return nil, nil, err
		}
		if err := reg.AddResource(identZip, version, nil, true, false, false); err != nil {
			return nil, nil, err
		}
		reg.SelectVersions()
		if c.Layout == "xdev" {
			// Initialize has removed and re-created the tmp directory: now it becomes the link to the other file system
			_ = os.RemoveAll(filepath.Join(l.pub, "tmp"))
			if err := os.Symlink(c.Tmpdir, filepath.Join(l.pub, "tmp")); err != nil {
				return nil, nil, err
			}
		}
		return func() error { return reg.UnpackResources() }, nop, nil
	}
	return nil, nil, fmt.Errorf("unknown primitive %q", c.Prim)
}

func marker(p string) { _ = syscall.Access(p, 0) }

func sanitize(s string) string {
	var sb strings.Builder
	for _, r := range s {
		switch {
		case r >= 'a' && r <= 'z', r >= 'A' && r <= 'Z', r >= '0' && r <= '9', r == '-', r == '_', r == '.':
			sb.WriteRune(r)
		default:
			sb.WriteByte('_')
		}
		if sb.Len() > 120 {
			break
		}
	}
	return sb.String()
}

func childWrite(casePath string) int {
	b, err := os.ReadFile(casePath)
	if err != nil {
		fmt.Fprintln(os.Stderr, err)
		return 3
	}
	var c Case
	if err := json.Unmarshal(b, &c); err != nil {
		fmt.Fprintln(os.Stderr, err)
		return 3
	}
	l := newLayout(c)
	op, done, err := l.prepared(0)
	if err != nil {
		fmt.Fprintln(os.Stderr, "prepare:", err)
		return 3
	}
	marker(markBegin)
	err = op()
	// the result travels in the marker (no write call of the writer thread outside the primitive)
	if err != nil {
		marker(markEnd + "-err-" + sanitize(err.Error()))
	} else {
		marker(markEnd + "-ok")
	}
	done()
	return 0
}

// ------------------------------------------------------------------------------------------ strace log -> events

var traceSet = "open,openat,creat,write,pwrite64,writev,pwritev,copy_file_range,sendfile,ftruncate,truncate,fallocate," +
	"fsync,fdatasync,close,rename,renameat,renameat2,unlink,unlinkat,rmdir,mkdir,mkdirat,chmod,fchmod,fchmodat," +
	"chown,fchown,fchownat,lchown,symlink,symlinkat,link,linkat,access,faccessat,faccessat2"

var (
	rePid     = regexp.MustCompile(`^(\d+)\s+(.*)$`)
	reResumed = regexp.MustCompile(`^<\.\.\. (\w+) resumed>\s*(.*)$`)
	reRet     = regexp.MustCompile(`^(.*)\)\s+= (.*)$`)
	reFd      = regexp.MustCompile(`^(-?\d+|AT_FDCWD)<(.*)>$`)
)

type call struct {
	pid    string
	name   string
	args   []string
	ret    string
	killed bool // never returned (the process was killed before / in it)
}

func splitArgs(s string) []string {
	var out []string
	depth, inq, start := 0, false, 0
	for i := 0; i < len(s); i++ {
		ch := s[i]
		if inq {
			if ch == '\\' {
				i++
			} else if ch == '"' {
				inq = false
			}
			continue
		}
		switch ch {
		case '"':
			inq = true
		case '[', '{', '<', '(':
			depth++
		case ']', '}', '>', ')':
			if depth > 0 {
				depth--
			}
		case ',':
			if depth == 0 {
				out = append(out, strings.TrimSpace(s[start:i]))
				start = i + 1
			}
		}
	}
	if t := strings.TrimSpace(s[start:]); t != "" {
		out = append(out, t)
	}
	return out
}

func unquote(a string) (string, bool) {
	a = strings.TrimSuffix(a, "...")
	if len(a) < 2 || a[0] != '"' || a[len(a)-1] != '"' {
		return "", false
	}
	s, err := strconv.Unquote(a)
	if err != nil {
		return a[1 : len(a)-1], true
	}
	return s, true
}

func fdPath(a string) string {
	m := reFd.FindStringSubmatch(a)
	if m == nil {
		return ""
	}
	return m[2]
}

func atPath(dirfd, p string) string {
	if filepath.IsAbs(p) {
		return filepath.Clean(p)
	}
	if d := fdPath(dirfd); d != "" {
		return filepath.Join(d, p)
	}
	wd, _ := os.Getwd()
	return filepath.Join(wd, p)
}

func parseCall(pid, text string) (call, bool) {
	i := strings.Index(text, "(")
	if i <= 0 {
		return call{}, false
	}
	c := call{pid: pid, name: text[:i]}
	rest := text[i+1:]
	m := reRet.FindStringSubmatch(rest)
	if m == nil {
		c.killed = true
		rest = strings.TrimSuffix(strings.TrimSpace(rest), "<unfinished ...>")
		rest = strings.TrimSuffix(strings.TrimSpace(rest), ")")
		c.args = splitArgs(rest)
		c.ret = "?"
		return c, true
	}
	c.args = splitArgs(m[1])
	c.ret = strings.TrimSpace(m[2])
	if c.ret == "?" {
		c.killed = true // the process was killed in this call; "? ERESTARTSYS" is a call restarted after a signal: no effect
	}
	return c, true
}

func retInt(ret string) int64 {
	f := strings.Fields(ret)
	if len(f) == 0 {
		return -1
	}
	s := f[0]
	if k := strings.Index(s, "<"); k > 0 {
		s = s[:k]
	}
	n, err := strconv.ParseInt(s, 10, 64)
	if err != nil {
		return -1
	}
	return n
}

type convResult struct {
	events   []map[string]any
	began    bool
	ended    bool
	endErr   string
	killed   bool
	injected bool
	foreign  int // file-system events inside the sandbox issued by other threads than the writer's
}

// convert turns the strace log into model events (only calls between the two markers that touch the sandbox).
func (l *layout) convert(logPath string) (*convResult, error) {
	f, err := os.Open(logPath)
	if err != nil {
		return nil, err
	}
	defer f.Close()
	res := &convResult{}
	pending := map[string]string{}
	counts := map[string]int{} // per syscall name: calls of the main thread since process start
	mainPid := ""
	first := true
	sc := bufio.NewScanner(f)
	sc.Buffer(make([]byte, 1<<20), 1<<26)
	handle := func(c call) {
		isMain := c.pid == mainPid
		if strings.Contains(c.ret, "(INJECTED)") {
			res.injected = true
		}
		k := 0
		if isMain {
			counts[c.name]++
			k = counts[c.name]
		}
		if c.name == "access" || c.name == "faccessat" || c.name == "faccessat2" {
			for _, a := range c.args {
				if p, ok := unquote(a); ok {
					if p == markBegin {
						res.began = true
					} else if strings.HasPrefix(p, markEnd) {
						res.ended = true
						res.endErr = strings.TrimPrefix(strings.TrimPrefix(strings.TrimPrefix(p, markEnd), "-ok"), "-err-")
					}
				}
			}
			return
		}
		if !res.began || res.ended {
			return
		}
		ev := l.event(c)
		if ev == nil {
			return
		}
		ev["sys"], ev["k"], ev["main"] = c.name, k, isMain
		if !isMain {
			res.foreign++
		}
		if strings.Contains(c.ret, "(INJECTED)") {
			ev["injected"] = true
		}
		res.events = append(res.events, ev)
	}
	for sc.Scan() {
		line := sc.Text()
		pid := ""
		if m := rePid.FindStringSubmatch(line); m != nil {
			pid, line = m[1], m[2]
		}
		if first {
			mainPid, first = pid, false
		}
		switch {
		case strings.HasPrefix(line, "+++ killed by"):
			res.killed = true
			continue
		case strings.HasPrefix(line, "+++"), strings.HasPrefix(line, "---"):
			continue
		}
		if m := reResumed.FindStringSubmatch(line); m != nil {
			line = pending[pid] + m[2]
			delete(pending, pid)
		} else if strings.HasSuffix(line, "<unfinished ...>") {
			pending[pid] = strings.TrimSuffix(line, "<unfinished ...>")
			continue
		}
		if c, ok := parseCall(pid, line); ok {
			handle(c)
		}
	}
	// calls that never returned: the process died in (before) them
	pids := make([]string, 0, len(pending))
	for p := range pending {
		pids = append(pids, p)
	}
	sort.Strings(pids)
	for _, p := range pids {
		if c, ok := parseCall(p, pending[p]); ok {
			c.killed = true
			handle(c)
		}
	}
	return res, sc.Err()
}

func (l *layout) event(c call) map[string]any {
	ev := map[string]any{"e": "sys", "op": "", "path": []string{}, "loc": "", "path2": []string{}, "loc2": "",
		"n": 0, "ok": false, "creat": false, "trunc": false, "wr": false, "tgt": "", "p": "", "p2": ""}
	ret := retInt(c.ret)
	ev["ok"] = ret >= 0 && !c.killed
	if c.killed {
		ev["killed"] = true
	}
	arg := func(i int) string {
		if i < len(c.args) {
			return c.args[i]
		}
		return ""
	}
	str := func(i int) string { s, _ := unquote(arg(i)); return s }
	// one name per file: the registry's tmp directory may be a link to a directory on another file system
	canon := func(p string) string {
		if l.c.Prim == "unpack" && l.c.Layout == "xdev" {
			link := filepath.Join(l.pub, "tmp")
			if p == link || under(p, link) {
				return l.c.Tmpdir + strings.TrimPrefix(p, link)
			}
		}
		return p
	}
	set := func(p string) bool {
		p = canon(p)
		lc := l.loc(p)
		ev["path"], ev["loc"], ev["p"] = l.comps(p), lc, p
		return lc != "ext"
	}
	set2 := func(p string) bool {
		p = canon(p)
		lc := l.loc(p)
		ev["path2"], ev["loc2"], ev["p2"] = l.comps(p), lc, p
		return lc != "ext"
	}
	fdp := func(i int) (string, bool) {
		p := fdPath(arg(i))
		if p == "" || !strings.HasPrefix(p, "/") || strings.HasSuffix(p, " (deleted)") {
			return "", false
		}
		return p, true
	}
	openFlags := func(flags string) bool {
		ev["op"] = "open"
		ev["wr"] = strings.Contains(flags, "O_WRONLY") || strings.Contains(flags, "O_RDWR")
		ev["creat"] = strings.Contains(flags, "O_CREAT")
		ev["trunc"] = strings.Contains(flags, "O_TRUNC")
		if strings.Contains(flags, "O_TMPFILE") {
			ev["op"] = "unsupported"
		}
		return ev["wr"].(bool) || ev["creat"].(bool) || ev["trunc"].(bool)
	}
	switch c.name {
	case "open":
		if !openFlags(arg(1)) || !set(atPath("", str(0))) {
			return nil
		}
	case "openat":
		if !openFlags(arg(2)) || !set(atPath(arg(0), str(1))) {
			return nil
		}
	case "creat":
		openFlags("O_WRONLY|O_CREAT|O_TRUNC")
		if !set(atPath("", str(0))) {
			return nil
		}
	case "write", "pwrite64", "writev", "pwritev", "sendfile":
		p, ok := fdp(0)
		if !ok || !set(p) {
			return nil
		}
		ev["op"] = "write"
		if ret > 0 {
			ev["n"] = ret
		}
	case "copy_file_range":
		p, ok := fdp(2)
		if !ok || !set(p) {
			return nil
		}
		ev["op"] = "write"
		if ret > 0 {
			ev["n"] = ret
		}
	case "ftruncate":
		p, ok := fdp(0)
		if !ok || !set(p) {
			return nil
		}
		ev["op"] = "trunc"
		n, _ := strconv.Atoi(arg(1))
		ev["n"] = n
	case "truncate":
		if !set(atPath("", str(0))) {
			return nil
		}
		ev["op"] = "trunc"
		n, _ := strconv.Atoi(arg(1))
		ev["n"] = n
	case "fallocate":
		p, ok := fdp(0)
		if !ok || !set(p) {
			return nil
		}
		ev["op"] = "unsupported"
	case "fsync", "fdatasync":
		p, ok := fdp(0)
		if !ok || !set(p) {
			return nil
		}
		ev["op"] = "fsync"
	case "close":
		p, ok := fdp(0)
		if !ok || !set(p) {
			return nil
		}
		ev["op"] = "close"
	case "rename":
		a, b := set(atPath("", str(0))), set2(atPath("", str(1)))
		if !a && !b {
			return nil
		}
		ev["op"] = "rename"
	case "renameat", "renameat2":
		a, b := set(atPath(arg(0), str(1))), set2(atPath(arg(2), str(3)))
		if !a && !b {
			return nil
		}
		ev["op"] = "rename"
		if c.name == "renameat2" && arg(4) != "0" {
			ev["op"] = "unsupported"
		}
	case "unlink", "rmdir":
		if !set(atPath("", str(0))) {
			return nil
		}
		ev["op"] = "unlink"
	case "unlinkat":
		if !set(atPath(arg(0), str(1))) {
			return nil
		}
		ev["op"] = "unlink"
	case "mkdir":
		if !set(atPath("", str(0))) {
			return nil
		}
		ev["op"] = "mkdir"
	case "mkdirat":
		if !set(atPath(arg(0), str(1))) {
			return nil
		}
		ev["op"] = "mkdir"
	case "chmod", "chown", "lchown":
		if !set(atPath("", str(0))) {
			return nil
		}
		ev["op"] = "chmod"
	case "fchmod", "fchown":
		p, ok := fdp(0)
		if !ok || !set(p) {
			return nil
		}
		ev["op"] = "chmod"
	case "fchmodat", "fchownat":
		if !set(atPath(arg(0), str(1))) {
			return nil
		}
		ev["op"] = "chmod"
	case "symlink", "symlinkat":
		lp := atPath("", str(1))
		if c.name == "symlinkat" {
			lp = atPath(arg(1), str(2))
		}
		if !set(lp) {
			return nil
		}
		ev["op"] = "symlink"
		switch str(0) {
		case "target-new":
			ev["tgt"] = "new"
		case "target-old":
			ev["tgt"] = "old"
		default:
			ev["tgt"] = "other"
		}
	case "link":
		a, b := set(atPath("", str(0))), set2(atPath("", str(1)))
		if !a && !b {
			return nil
		}
		ev["op"] = "unsupported"
	case "linkat":
		a, b := set(atPath(arg(0), str(1))), set2(atPath(arg(2), str(3)))
		if !a && !b {
			return nil
		}
		ev["op"] = "unsupported"
	default:
		return nil
	}
	return ev
}

// ------------------------------------------------------------------------------------------ one run

func runOne(h int, s script, work string, tr *vio.Trace) {
	fail := func(what string, err error) {
		tr.Emit(map[string]any{"e": "infra", "h": h, "what": what, "err": fmt.Sprint(err)})
	}
	dir, err := os.MkdirTemp(work, "run-")
	if err != nil {
		fail("mkdir", err)
		return
	}
	defer os.RemoveAll(dir)
	c := s.Case
	c.Root = filepath.Join(dir, "root")
	c.Tmpdir = filepath.Join(c.Root, "tmp")
	if c.Layout == "xdev" {
		x, err := os.MkdirTemp("/dev/shm", "verif-c17-")
		if err != nil {
			fail("xdev", err)
			return
		}
		defer os.RemoveAll(x)
		c.Tmpdir = x
	}
	if c.Layout == "explicitx" {
		x, err := os.MkdirTemp("/dev/shm", "verif-c17-")
		if err != nil {
			fail("xdev", err)
			return
		}
		defer os.RemoveAll(x)
		c.Xtmp = x
	}
	l := newLayout(c)
	if err := l.prep(); err != nil {
		fail("prep", err)
		return
	}
	before := l.tree()
	if s.Mode == "readers" {
		tr.Emit(l.header(h, s.Mode))
		runReaders(h, l, tr)
		return
	}
	casePath := filepath.Join(dir, "case.json")
	self, _ := filepath.Abs(os.Args[0])
	after := ""
	if s.Mode == "killthen" {
		// an earlier writer of the same destination was killed right before it published (its temporary file is
		// left behind); the operation judged is the next, undisturbed write of a shorter content into the same place
		cb, _ := json.Marshal(c)
		if err := os.WriteFile(casePath, cb, 0o644); err != nil {
			fail("case", err)
			return
		}
		pre := exec.Command("strace", "-o", "/dev/null", "-e", "trace="+traceSet, "-e",
			fmt.Sprintf("inject=%s:signal=KILL:when=%d", s.Sys, s.K), self, "write", casePath)
		pre.Env = append(os.Environ(), "TMPDIR="+c.Tmpdir)
		pre.Dir = c.Root
		_ = pre.Run()
		if st, _ := l.destState(); st != "old" {
			tr.Emit(map[string]any{"e": "infra", "h": h, "what": "killthen", "err": "the first writer was not killed before it published: " + st})
			return
		}
		if c.New == "big" {
			c.New = "small"
		} else {
			c.New = "empty"
		}
		l = newLayout(c)
		before = l.tree()
		s.Mode, after = "full", "crash"
	}
	cb, _ := json.Marshal(c)
	if err := os.WriteFile(casePath, cb, 0o644); err != nil {
		fail("case", err)
		return
	}
	logPath := filepath.Join(dir, "strace.log")
	args := []string{"-y", "-s", "0", "-o", logPath, "-e", "trace=" + traceSet}
	switch s.Mode {
	case "full":
		args = append([]string{"-f"}, args...)
	case "kill":
		args = append(args, "-e", fmt.Sprintf("inject=%s:signal=KILL:when=%d", s.Sys, s.K))
	case "error":
		args = append(args, "-e", fmt.Sprintf("inject=%s:error=%s:when=%d", s.Sys, s.Errno, s.K))
	}
	args = append(args, self, "write", casePath)
	cmd := exec.Command("strace", args...)
	cmd.Env = append(os.Environ(), "TMPDIR="+c.Tmpdir)
	cmd.Dir = c.Root
	var stderr bytes.Buffer
	cmd.Stderr = &stderr
	t0 := time.Now()
	if err := cmd.Start(); err != nil {
		fail("strace", err)
		return
	}
	waited := make(chan error, 1)
	go func() { waited <- cmd.Wait() }()
	select {
	case <-waited:
	case <-time.After(120 * time.Second):
		_ = cmd.Process.Kill()
		<-waited
		fail("timeout", errors.New(stderr.String()))
		return
	}
	if dbg := os.Getenv("VERIF_C17_KEEPLOG"); dbg != "" {
		if b, rerr := os.ReadFile(logPath); rerr == nil {
			_ = os.WriteFile(dbg, b, 0o644)
		}
	}
	res, err := l.convert(logPath)
	if err != nil {
		fail("convert", err)
		return
	}
	if !res.began {
		fail("nomarker", fmt.Errorf("the writer never reached the primitive: %s", strings.TrimSpace(stderr.String())))
		return
	}
	hd := l.header(h, s.Mode)
	hd["sys"], hd["k"], hd["wall_ms"] = s.Sys, s.K, time.Since(t0).Milliseconds()
	hd["killed"], hd["injected"], hd["ended"], hd["foreign"] = res.killed, res.injected, res.ended, res.foreign
	if after != "" {
		hd["after"] = after
	}
	tr.Emit(hd)
	for _, ev := range res.events {
		ev["h"] = h
		tr.Emit(ev)
	}
	why := "end"
	switch {
	case res.killed:
		why = "crash"
	case res.endErr != "":
		why = "fail"
	}
	ob := l.observe(before, why, res.endErr)
	ob["h"] = h
	tr.Emit(ob)
}

// ------------------------------------------------------------------------------------------ readers

func genContent(g int) []byte {
	n := 97
	if g%2 == 0 {
		n = 192 << 10
	}
	return content(fmt.Sprintf("GEN:%08d:", g), n, g)
}

func classifyGen(l *layout, b []byte, initial []byte, cache *sync.Map) int {
	if bytes.Equal(b, initial) {
		return 0
	}
	i := bytes.Index(b, []byte("GEN:"))
	if i < 0 || len(b) < i+13 {
		return -2
	}
	g, err := strconv.Atoi(string(b[i+4 : i+12]))
	if err != nil || g <= 0 {
		return -2
	}
	var want []byte
	if v, ok := cache.Load(g); ok {
		want = v.([]byte)
	} else {
		want = genContent(g)
		if l.c.Prim == "fstree" {
			_, want, _ = fstreeRecord(want)
		}
		cache.Store(g, want)
	}
	if bytes.Equal(b, want) {
		return g
	}
	return -2
}

type readKey struct{ lo, hi, seen int }

func runReaders(h int, l *layout, tr *vio.Trace) {
	c := l.c
	_ = os.Setenv("TMPDIR", c.Tmpdir)
	var started, completed int64
	var stop int32
	var mu sync.Mutex
	seen := map[readKey]int{}
	detail := map[readKey]string{}
	var cache sync.Map
	initial := l.oldBytes()
	absentOK := c.Dst == "absent" || c.Dst == "nodir"
	var wg sync.WaitGroup
	for r := 0; r < c.Readers; r++ {
		wg.Add(1)
		go func(r int) {
			defer wg.Done()
			for atomic.LoadInt32(&stop) == 0 {
				lo := int(atomic.LoadInt64(&completed))
				g, d := -2, ""
				if l.kind == "link" {
					t, err := os.Readlink(l.dest)
					switch {
					case err != nil && errors.Is(err, fs.ErrNotExist):
						g = -1
					case err != nil:
						d = err.Error()
					case t == "target-old":
						g = 0
					case strings.HasPrefix(t, "target-"):
						if n, err := strconv.Atoi(strings.TrimPrefix(t, "target-")); err == nil {
							g = n
						}
					}
				} else {
					var b []byte
					var err error
					if r%2 == 0 {
						b, err = os.ReadFile(l.dest)
					} else {
						b, err = slowRead(l.dest)
					}
					switch {
					case err != nil && errors.Is(err, fs.ErrNotExist):
						g = -1
					case err != nil:
						d = err.Error()
					default:
						g = classifyGen(l, b, initial, &cache)
						if g == -2 {
							_, d = classify(b, nil, nil, "")
						}
					}
				}
				hi := int(atomic.LoadInt64(&started))
				if g == -1 && absentOK {
					g = 0 // generation 0 of this case is "no file"
				}
				k := readKey{lo, hi, g}
				mu.Lock()
				seen[k]++
				if d != "" {
					detail[k] = d
				}
				mu.Unlock()
			}
		}(r)
	}
	errs := 0
	firstErr := ""
	for g := 1; g <= c.Reps; g++ {
		op, done, err := l.prepared(g)
		if err == nil {
			atomic.AddInt64(&started, 1)
			err = op()
			atomic.AddInt64(&completed, 1)
			done()
		}
		if err != nil {
			errs++
			if firstErr == "" {
				firstErr = err.Error()
			}
		}
	}
	atomic.StoreInt32(&stop, 1)
	wg.Wait()
	keys := make([]readKey, 0, len(seen))
	for k := range seen {
		keys = append(keys, k)
	}
	sort.Slice(keys, func(i, j int) bool {
		a, b := keys[i], keys[j]
		if a.lo != b.lo {
			return a.lo < b.lo
		}
		if a.hi != b.hi {
			return a.hi < b.hi
		}
		return a.seen < b.seen
	})
	total := 0
	for _, k := range keys {
		total += seen[k]
		tr.Emit(map[string]any{"e": "read", "h": h, "lo": k.lo, "hi": k.hi, "seen": k.seen, "count": seen[k], "detail": detail[k]})
	}
	tr.Emit(map[string]any{"e": "readstat", "h": h, "reads": total, "distinct": len(keys), "reps": c.Reps, "errors": errs, "err": firstErr})
}

// slowRead reads the file in small pieces with pauses, so that replacements happen while it is open.
func slowRead(p string) ([]byte, error) {
	f, err := os.Open(p)
	if err != nil {
		return nil, err
	}
	defer f.Close()
	var out []byte
	buf := make([]byte, 16<<10)
	for {
		n, err := f.Read(buf)
		out = append(out, buf[:n]...)
		if err == io.EOF {
			return out, nil
		}
		if err != nil {
			return out, err
		}
		runtime.Gosched()
	}
}

// ------------------------------------------------------------------------------------------ main

func main() {
	if len(os.Args) >= 3 && os.Args[1] == "write" {
		os.Exit(childWrite(os.Args[2]))
	}
	if len(os.Args) < 3 {
		fmt.Fprintln(os.Stderr, "usage: atomicw <scripts.ndjson> <trace.ndjson> [skip] | atomicw write <case.json>")
		os.Exit(2)
	}
	skip := 0
	if len(os.Args) > 3 {
		skip, _ = strconv.Atoi(os.Args[3])
	}
	tr, err := vio.NewTrace(os.Args[2])
	if err != nil {
		fmt.Fprintln(os.Stderr, err)
		os.Exit(2)
	}
	defer tr.Close()
	work, _ := filepath.Abs(filepath.Dir(os.Args[2]))
	n := 0
	err = vio.ReadLines(os.Args[1], func(line []byte) error {
		if n < skip {
			n++
			return nil
		}
		var s script
		if err := json.Unmarshal(line, &s); err != nil {
			return err
		}
		tr.Emit(map[string]any{"e": "try", "h": n})
		tr.Flush()
		runOne(n, s, work, tr)
		tr.Flush()
		n++
		return nil
	})
	if err != nil {
		fmt.Fprintln(os.Stderr, err)
		os.Exit(2)
	}
}
