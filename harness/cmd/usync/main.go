// Command usync runs workload scripts (from spec/USyncGen.tla and spec/USyncPool.tla) against the small
// concurrency primitives of portbase/utils - OnceAgain, CallLimiter, StablePool, BroadcastFlag - and records
// the call/return history of every script (extension check X02).  The processes of a script run
// concurrently and freely; every event takes its position in the history from one global atomic counter:
// "call" is recorded before the method is invoked, "ret" after it returned, "fs"/"fe" are the first and the
// last thing the function given to Do does.  spec/USyncTrace.tla judges the history.
//
// usage: usync <scripts.ndjson> <trace.ndjson> [skip]
package main

import (
	"encoding/json"
	"fmt"
	"os"
	"sort"
	"strconv"
	"sync"
	"sync/atomic"
	"time"

	"github.com/safing/portbase/utils"

	"verifharness/internal/vio"
)

type opS struct {
	Op   string `json:"op"`
	A    int    `json:"a"`
	D    int    `json:"d"`    // delay before the call, microseconds
	Hold int    `json:"hold"` // duration of the function given to Do, microseconds
	Pan  bool   `json:"pan"`  // the function given to Do panics
}

type script struct {
	Kind   string  `json:"kind"`
	Pause  int     `json:"pause"` // CallLimiter: minimum pause, microseconds
	HasNew bool    `json:"hasnew"`
	NN     int     `json:"nn"` // BroadcastFlag: processes 1..nn notify, the others own one Flag each
	Procs  [][]opS `json:"procs"`
}

type rec struct {
	seq int64
	ev  map[string]any
}

// history collects the events of one script.
type history struct {
	ctr   atomic.Int64
	start time.Time
	mu    []sync.Mutex
	bufs  [][]rec
}

func newHistory(np int) *history {
	return &history{start: time.Now().Round(0), mu: make([]sync.Mutex, np+1), bufs: make([][]rec, np+1)}
}

// add records an event of process p at this instant.
func (h *history) add(p int, ev map[string]any) {
	seq := h.ctr.Add(1)
	h.mu[p].Lock()
	h.bufs[p] = append(h.bufs[p], rec{seq, ev})
	h.mu[p].Unlock()
}

// us is the wall clock (the clock CallLimiter uses: its lastExec carries no monotonic reading) in
// microseconds since the start of the history.
func (h *history) us() int {
	return int(time.Now().Round(0).Sub(h.start) / time.Microsecond)
}

func (h *history) events() []map[string]any {
	var all []rec
	for p := range h.bufs {
		h.mu[p].Lock()
		all = append(all, h.bufs[p]...)
		h.mu[p].Unlock()
	}
	sort.Slice(all, func(i, j int) bool { return all[i].seq < all[j].seq })
	out := make([]map[string]any, len(all))
	for i, r := range all {
		out[i] = r.ev
	}
	return out
}

func delay(us int) {
	if us <= 0 {
		return
	}
	if us < 200 {
		t0 := time.Now()
		for time.Since(t0) < time.Duration(us)*time.Microsecond {
		}
		return
	}
	time.Sleep(time.Duration(us) * time.Microsecond)
}

type doer interface{ Do(f func()) }

// bundled runs the calls of process p against OnceAgain / CallLimiter.
func bundled(h *history, obj doer, p int, ops []opS) {
	for i := range ops {
		o := ops[i]
		delay(o.D)
		f := func() {
			h.add(p, map[string]any{"e": "fs", "p": p, "t": h.us()})
			delay(o.Hold)
			h.add(p, map[string]any{"e": "fe", "p": p, "t": h.us(), "pan": o.Pan})
			if o.Pan {
				panic("injected panic")
			}
		}
		h.add(p, map[string]any{"e": "call", "p": p})
		pan := false
		func() {
			defer func() {
				if r := recover(); r != nil {
					pan = true
				}
			}()
			obj.Do(f)
		}()
		h.add(p, map[string]any{"e": "ret", "p": p, "pan": pan})
	}
}

// linear runs the calls of process p against a StablePool or a BroadcastFlag (fl: the process's own Flag).
func linear(h *history, pool *utils.StablePool, bf *utils.BroadcastFlag, fl *utils.Flag, p int, ops []opS) {
	for i := range ops {
		o := ops[i]
		delay(o.D)
		h.add(p, map[string]any{"e": "call", "p": p, "op": o.Op, "a": o.A})
		k, v := "ok", 0
		func() {
			defer func() {
				if r := recover(); r != nil {
					k, v = "panic", 0
				}
			}()
			switch o.Op {
			case "put":
				if o.A == 0 {
					pool.Put(nil)
				} else {
					pool.Put(o.A)
				}
			case "get":
				x := pool.Get()
				switch {
				case x == nil:
					k = "nil"
				case x.(int) < 0:
					k = "new"
				default:
					k, v = "item", x.(int)
				}
			case "size":
				k, v = "int", pool.Size()
			case "max":
				k, v = "int", pool.Max()
			case "notify":
				bf.NotifyAndReset()
			case "refresh":
				fl.Refresh()
			case "isset":
				k = "bool"
				if fl.IsSet() {
					v = 1
				}
			case "poll":
				k = "bool"
				select {
				case <-fl.Signal():
					v = 1
				default:
				}
			case "wait":
				k = "bool"
				select {
				case <-fl.Signal():
					v = 1
				case <-time.After(3 * time.Millisecond):
					// a stalled goroutine may find both cases ready and be handed the timer: look again
					select {
					case <-fl.Signal():
						v = 1
					default:
					}
				}
			default:
				k = "unknown-op"
			}
		}()
		h.add(p, map[string]any{"e": "ret", "p": p, "k": k, "v": v})
	}
}

func runScript(sc *script) (first map[string]any, evs []map[string]any, stuck bool) {
	np := len(sc.Procs)
	h := newHistory(np)
	first = map[string]any{"e": "new", "kind": sc.Kind, "np": np, "pause": sc.Pause, "hasnew": sc.HasNew, "nf": np - sc.NN}
	var wg sync.WaitGroup
	start := make(chan struct{})
	var total time.Duration
	for _, ops := range sc.Procs {
		for _, o := range ops {
			total += time.Duration(o.D+o.Hold+sc.Pause+3000) * time.Microsecond
		}
	}
	var body func(p int, ops []opS)
	switch sc.Kind {
	case "once":
		obj := &utils.OnceAgain{}
		body = func(p int, ops []opS) { bundled(h, obj, p, ops) }
	case "limiter":
		obj := utils.NewCallLimiter(time.Duration(sc.Pause) * time.Microsecond)
		body = func(p int, ops []opS) { bundled(h, obj, p, ops) }
	case "pool":
		pool := &utils.StablePool{}
		if sc.HasNew {
			var n atomic.Int64
			pool.New = func() interface{} { return -int(n.Add(1)) }
		}
		body = func(p int, ops []opS) { linear(h, pool, nil, nil, p, ops) }
	case "flag":
		bf := utils.NewBroadcastFlag()
		flags := make([]*utils.Flag, np+1)
		for p := sc.NN + 1; p <= np; p++ {
			flags[p] = bf.NewFlag()
		}
		body = func(p int, ops []opS) { linear(h, nil, bf, flags[p], p, ops) }
	default:
		return first, nil, false
	}
	for i := range sc.Procs {
		p, ops := i+1, sc.Procs[i]
		wg.Add(1)
		go func() {
			defer wg.Done()
			<-start
			body(p, ops)
		}()
	}
	done := make(chan struct{})
	go func() { wg.Wait(); close(done) }()
	close(start)
	select {
	case <-done:
	case <-time.After(10*time.Second + 20*total):
		stuck = true
	}
	return first, h.events(), stuck
}

func main() {
	if len(os.Args) < 3 {
		fmt.Fprintln(os.Stderr, "usage: usync <scripts.ndjson> <trace.ndjson> [skip]")
		os.Exit(2)
	}
	skip := 0
	if len(os.Args) > 3 {
		skip, _ = strconv.Atoi(os.Args[3])
	}
	tr, err := vio.NewTrace(os.Args[2])
	if err != nil {
		fmt.Fprintln(os.Stderr, err)
		os.Exit(2)
	}
	idx := -1
	err = vio.ReadLines(os.Args[1], func(line []byte) error {
		idx++
		if idx < skip {
			return nil
		}
		var sc script
		if err := json.Unmarshal(line, &sc); err != nil {
			return fmt.Errorf("script %d: %w", idx, err)
		}
		tr.EmitRaw(map[string]any{"e": "try", "h": idx, "kind": sc.Kind})
		tr.Flush()
		first, evs, stuck := runScript(&sc)
		first["h"] = idx
		tr.EmitRaw(first)
		for _, ev := range evs {
			ev["h"] = idx
			tr.EmitRaw(ev)
		}
		if stuck {
			tr.EmitRaw(map[string]any{"e": "stuck", "h": idx})
		}
		return nil
	})
	tr.Close()
	if err != nil {
		fmt.Fprintln(os.Stderr, err)
		os.Exit(2)
	}
}
