// Command metricsx replays operation histories generated from spec/MetricsGen.tla against the real package
// metrics (extension check X11) and records what the package did, for validation by spec/MetricsTrace.tla.
//
// usage: metricsx <scripts.ndjson> <trace.ndjson> [skip]
//
// The package keeps its registry, namespace, global labels and persistence switch in package variables, and a
// process life is part of the histories (persisted counters): every life of a history is a child process of this
// driver (metricsx -child <datadir>) that executes one operation per line of its standard input and answers on
// file descriptor 3.  A child whose standard input ends exits at once, without stopping the modules.
//
// Strings of the model are sequences of ASCII codes; they are turned into Go strings here and back.
package main

import (
	"bufio"
	"bytes"
	"encoding/json"
	"errors"
	"fmt"
	"io"
	"net"
	"net/http"
	"os"
	"os/exec"
	"sort"
	"strconv"
	"strings"
	"sync"
	"sync/atomic"
	"syscall"
	"time"

	"github.com/safing/portbase/api"
	"github.com/safing/portbase/config"
	"github.com/safing/portbase/database"
	_ "github.com/safing/portbase/database/dbmodule"
	_ "github.com/safing/portbase/database/storage/fstree"
	"github.com/safing/portbase/dataroot"
	"github.com/safing/portbase/log"
	"github.com/safing/portbase/metrics"
	"github.com/safing/portbase/modules"

	"verifharness/internal/vio"
)

type label struct {
	N []int `json:"n"`
	V []int `json:"v"`
}

type op struct {
	Op      string  `json:"op"`
	Kind    string  `json:"kind"`
	ID      []int   `json:"id"`
	Labels  []label `json:"labels"`
	Perm    int     `json:"perm"`
	Level   int     `json:"level"`
	Persist bool    `json:"persist"`
	IID     []int   `json:"iid"`
	H       int     `json:"h"`
	N       int     `json:"n"`
	G       int     `json:"g"`
	Key     int     `json:"key"`
	Flag    bool    `json:"flag"`
}

type line struct {
	Lid []int `json:"lid"`
	V   int   `json:"v"`
}

type res struct {
	Err   string `json:"err"`
	Lid   []int  `json:"lid"`
	V     int    `json:"v"`
	Lines []line `json:"lines"`
	Panic string `json:"panic,omitempty"`
	Note  string `json:"note,omitempty"`
}

type script struct {
	Steps []op `json:"steps"`
}

func emptyRes(e string) res { return res{Err: e, Lid: []int{}, Lines: []line{}} }

func str(a []int) string {
	b := make([]byte, len(a))
	for i, x := range a {
		b[i] = byte(x)
	}
	return string(b)
}

func codes(s string) []int {
	r := make([]int, len(s))
	for i := 0; i < len(s); i++ {
		r[i] = int(s[i])
	}
	return r
}

var keys = map[int]string{1: "core:metrics/storage", 2: "core:metrics/other"}

// ------------------------------------------------------------------------------------------ parent

type child struct {
	cmd    *exec.Cmd
	in     io.WriteCloser
	out    *bufio.Reader
	outF   *os.File
	stderr *capWriter
}

type capWriter struct {
	mu  sync.Mutex
	buf bytes.Buffer
	max int
}

func (c *capWriter) Write(p []byte) (int, error) {
	c.mu.Lock()
	defer c.mu.Unlock()
	if c.buf.Len() < c.max {
		c.buf.Write(p)
	}
	return len(p), nil
}

func (c *capWriter) String() string {
	c.mu.Lock()
	defer c.mu.Unlock()
	return c.buf.String()
}

func spawn(dir string) (*child, error) {
	self, err := os.Executable()
	if err != nil {
		return nil, err
	}
	pr, pw, err := os.Pipe()
	if err != nil {
		return nil, err
	}
	cmd := exec.Command(self, "-child", dir)
	cmd.ExtraFiles = []*os.File{pw}
	cw := &capWriter{max: 6000}
	cmd.Stderr = cw
	in, err := cmd.StdinPipe()
	if err != nil {
		return nil, err
	}
	if err := cmd.Start(); err != nil {
		return nil, err
	}
	_ = pw.Close()
	return &child{cmd: cmd, in: in, out: bufio.NewReaderSize(pr, 1<<16), outF: pr, stderr: cw}, nil
}

var errNoAnswer = errors.New("child does not answer (60s)")

func (c *child) call(o op) (res, error) {
	b, _ := json.Marshal(o)
	if _, err := c.in.Write(append(b, '\n')); err != nil {
		return res{}, fmt.Errorf("child gone: %w", err)
	}
	type answer struct {
		line []byte
		err  error
	}
	ch := make(chan answer, 1)
	go func() {
		l, err := c.out.ReadBytes('\n')
		ch <- answer{l, err}
	}()
	select {
	case a := <-ch:
		if a.err != nil {
			return res{}, fmt.Errorf("child died: %w", a.err)
		}
		var r res
		if err := json.Unmarshal(a.line, &r); err != nil {
			return res{}, fmt.Errorf("bad answer: %w", err)
		}
		return r, nil
	case <-time.After(60 * time.Second):
		_ = c.cmd.Process.Kill()
		return res{}, errNoAnswer
	}
}

func (c *child) close() {
	if c == nil {
		return
	}
	_ = c.in.Close()
	done := make(chan struct{})
	go func() { _ = c.cmd.Wait(); close(done) }()
	select {
	case <-done:
	case <-time.After(10 * time.Second):
		_ = c.cmd.Process.Kill()
		<-done
	}
	_ = c.outF.Close()
}

func firstLines(s string, n int) string {
	ls := strings.Split(s, "\n")
	if len(ls) > n {
		ls = ls[:n]
	}
	return strings.Join(ls, "\n")
}

func runScript(tr *vio.Trace, h int, sc script) {
	dir, err := os.MkdirTemp("", "metricsx-")
	if err != nil {
		tr.EmitRaw(map[string]any{"e": "setup-failed", "h": h, "why": err.Error()})
		return
	}
	defer os.RemoveAll(dir)
	tr.EmitRaw(map[string]any{"e": "new", "h": h})
	var c *child
	defer func() { c.close() }()
	start := func() bool {
		c.close()
		c, err = spawn(dir)
		if err != nil {
			tr.EmitRaw(map[string]any{"e": "setup-failed", "h": h, "why": err.Error()})
			return false
		}
		return true
	}
	if !start() {
		return
	}
	for _, o := range sc.Steps {
		if o.Op == "proc" {
			if !start() {
				return
			}
			tr.EmitRaw(map[string]any{"e": "op", "h": h, "op": o, "res": emptyRes("ok")})
			continue
		}
		r, err := c.call(o)
		if err != nil {
			// the process died in this step
			c.close()
			r = emptyRes("crash")
			if errors.Is(err, errNoAnswer) {
				r.Err = "infra" // an overloaded machine is no verdict about the package
			}
			r.Panic = err.Error() + "\n" + firstLines(c.stderr.String(), 14)
			tr.EmitRaw(map[string]any{"e": "op", "h": h, "op": o, "res": r})
			tr.Flush()
			c = nil
			return
		}
		if r.Err == "skip" {
			// not applicable in the state the real package is in (the history was generated along another of
			// the outcomes the model allows): left out
			continue
		}
		tr.EmitRaw(map[string]any{"e": "op", "h": h, "op": o, "res": r})
		if r.Err == "infra" {
			return
		}
	}
}

func main() {
	if len(os.Args) >= 3 && os.Args[1] == "-child" {
		childMain()
		return
	}
	if len(os.Args) < 3 {
		fmt.Fprintln(os.Stderr, "usage: metricsx <scripts.ndjson> <trace.ndjson> [skip]")
		os.Exit(2)
	}
	skip := 0
	if len(os.Args) > 3 {
		skip, _ = strconv.Atoi(os.Args[3])
	}
	tr, err := vio.NewTrace(os.Args[2])
	if err != nil {
		fmt.Fprintln(os.Stderr, err)
		os.Exit(2)
	}
	h := 0
	err = vio.ReadLines(os.Args[1], func(b []byte) error {
		defer func() { h++ }()
		if h < skip {
			return nil
		}
		var sc script
		if err := json.Unmarshal(b, &sc); err != nil {
			return err
		}
		runScript(tr, h, sc)
		tr.Flush()
		return nil
	})
	tr.Close()
	if err != nil {
		fmt.Fprintln(os.Stderr, err)
		os.Exit(2)
	}
}

// ------------------------------------------------------------------------------------------ child

type handle struct {
	kind    string
	counter *metrics.Counter
	src     *int64 // what the function of a gauge / fetching counter returns
	m       metrics.Metric
}

var (
	handles = map[int]*handle{}
	dataDir string
	baseURL string
	client  *http.Client
)

var portLock *os.File

func freePort() (int, error) {
	for try := 0; try < 200; try++ {
		// a port below the range the kernel hands out to ":0" listeners and outgoing connections, so that no other process
		// can be given it between this probe and the moment the api module binds it
		probe := 20000 + int((time.Now().UnixNano()/1000+int64(os.Getpid())*7919+int64(try)*104729)%10000)
		l, err := net.Listen("tcp", fmt.Sprintf("127.0.0.1:%d", probe))
		if err != nil {
			continue
		}
		p := l.Addr().(*net.TCPAddr).Port
		_ = l.Close()
		// the lock files are shared with the other api drivers: no two of them on one port
		f, err := os.OpenFile(fmt.Sprintf("%s/verif-apiauth-port-%d.lock", os.TempDir(), p), os.O_CREATE|os.O_RDWR, 0o600)
		if err != nil {
			return 0, err
		}
		if syscall.Flock(int(f.Fd()), syscall.LOCK_EX|syscall.LOCK_NB) != nil {
			_ = f.Close()
			continue
		}
		portLock = f
		return p, nil
	}
	return 0, errors.New("no free loopback port")
}

// builtin reports whether an exported name belongs to a metric the module registers itself.
func builtin(name string) bool {
	if i := strings.IndexAny(name, "{ "); i >= 0 {
		name = name[:i]
	}
	for _, p := range []string{"info", "runtime", "host_", "logs_", "go_", "process_"} {
		if strings.Contains(name, p) {
			return true
		}
	}
	return false
}

func classify(err error) string {
	switch {
	case err == nil:
		return "ok"
	case errors.Is(err, metrics.ErrAlreadyStarted):
		return "started"
	case errors.Is(err, metrics.ErrAlreadySet):
		return "alreadyset"
	case errors.Is(err, metrics.ErrAlreadyRegistered):
		return "dup"
	case errors.Is(err, metrics.ErrAlreadyInitialized):
		return "already"
	case errors.Is(err, metrics.ErrInvalidOptions):
		return "invalid"
	case strings.Contains(err.Error(), "too early"):
		return "early"
	case strings.Contains(err.Error(), "must match"):
		return "invalid"
	}
	return "error:" + err.Error()
}

func value(v any) int {
	switch x := v.(type) {
	case uint64:
		return int(x)
	case float64:
		return int(x)
	case nil:
		return -1
	}
	return -99
}

// parseLines turns Prometheus text into the lines of the model: "<labeled id> <integer>".
func parseLines(text string) ([]line, string) {
	ls := []line{}
	for _, l := range strings.Split(text, "\n") {
		if l == "" || strings.HasPrefix(l, "#") || builtin(l) {
			continue
		}
		i := strings.LastIndexByte(l, ' ')
		if i < 0 {
			return ls, "line without value: " + l
		}
		v, err := strconv.Atoi(l[i+1:])
		if err != nil {
			return ls, "value is not an integer: " + l
		}
		ls = append(ls, line{Lid: codes(l[:i]), V: v})
	}
	return ls, ""
}

var phase = "pre"

func exec1(o op) (r res) {
	r = emptyRes("ok")
	switch {
	case phase == "dead",
		phase != "pre" && o.Op == "start",
		phase != "up" && (o.Op == "enable" || o.Op == "stop" || o.Op == "http" || o.Op == "inc" || o.Op == "set"):
		return emptyRes("skip")
	}
	defer func() {
		if p := recover(); p != nil {
			r = emptyRes("panic")
			r.Panic = fmt.Sprint(p)
		}
	}()
	switch o.Op {
	case "ns":
		r.Err = classify(metrics.SetNamespace(str(o.ID)))
	case "glabel":
		r.Err = classify(metrics.AddGlobalLabel(str(o.ID), str(o.IID)))
	case "start":
		os.Args = []string{os.Args[0], "--metrics-instance=" + str(o.ID)}
		if err := modules.Start(); err != nil {
			r.Err = "fail"
			r.Note = err.Error()
			phase = "dead"
			return r
		}
		phase = "up"
		if _, err := database.Register(&database.Database{Name: "core", StorageType: "fstree"}); err != nil {
			r.Err = "infra"
			r.Note = err.Error()
		}
	case "new":
		labels := map[string]string{}
		for _, l := range o.Labels {
			labels[str(l.N)] = str(l.V)
		}
		if len(o.Labels) == 0 && o.H%2 == 0 {
			labels = nil
		}
		opts := &metrics.Options{
			Permission: api.Permission(o.Perm), ExpertiseLevel: config.ExpertiseLevel(o.Level),
			Persist: o.Persist, InternalID: str(o.IID),
		}
		hd := &handle{kind: o.Kind, src: new(int64)}
		*hd.src = int64(o.N)
		var err error
		switch o.Kind {
		case "counter":
			var c *metrics.Counter
			c, err = metrics.NewCounter(str(o.ID), labels, opts)
			if err == nil {
				hd.counter, hd.m = c, c
				r.V = int(c.Get())
			}
		case "gauge":
			var g *metrics.Gauge
			g, err = metrics.NewGauge(str(o.ID), labels, func() float64 { return float64(atomic.LoadInt64(hd.src)) }, opts)
			if err == nil {
				hd.m = g
				r.V = int(g.CurrentValue())
			}
		case "fcounter":
			var fn func() uint64
			if !o.Flag {
				fn = func() uint64 { return uint64(atomic.LoadInt64(hd.src)) }
			}
			var f *metrics.FetchingCounter
			f, err = metrics.NewFetchingCounter(str(o.ID), labels, fn, opts)
			if err == nil {
				hd.m = f
				r.V = int(f.CurrentValue())
			}
		case "hist":
			var hi *metrics.Histogram
			hi, err = metrics.NewHistogram(str(o.ID), labels, opts)
			if err == nil {
				hd.m = hi
				r.V = -1
			}
		default:
			r.Err = "bad-op"
			return r
		}
		r.Err = classify(err)
		if err == nil {
			handles[o.H] = hd
			r.Lid = codes(hd.m.LabeledID())
		} else {
			r.Note = err.Error()
		}
	case "inc":
		hd := handles[o.H]
		if hd == nil || hd.counter == nil {
			r.Err = "skip"
			return r
		}
		var wg sync.WaitGroup
		gate := make(chan struct{})
		for g := 0; g < o.G; g++ {
			wg.Add(1)
			go func() {
				defer wg.Done()
				<-gate
				for i := 0; i < o.N; i++ {
					hd.counter.Inc()
				}
			}()
		}
		close(gate)
		wg.Wait()
		r.V = int(hd.counter.Get())
	case "set":
		hd := handles[o.H]
		if hd == nil || hd.counter != nil || hd.kind == "hist" {
			r.Err = "skip"
			return r
		}
		atomic.StoreInt64(hd.src, int64(o.N))
		r.V = value(getValue(hd.m))
	case "write":
		var b bytes.Buffer
		metrics.WriteMetrics(&b, api.Permission(o.Perm), config.ExpertiseLevel(o.Level))
		var note string
		r.Lines, note = parseLines(b.String())
		if note != "" {
			r.Err, r.Note = "format", note
		}
	case "http":
		if client == nil {
			r.Err = "infra"
			return r
		}
		lv := []string{"user", "expert", "developer"}[o.Level]
		url := baseURL + "/metrics?level=" + lv
		if o.Flag && o.Level == 2 {
			url = baseURL + "/metrics" // developer is the default
		}
		var resp *http.Response
		var err error
		// the server manager of the api module starts to listen some time after the module start
		for deadline := time.Now().Add(8 * time.Second); ; time.Sleep(3 * time.Millisecond) {
			var req *http.Request
			req, err = http.NewRequest(http.MethodGet, url, nil)
			if err != nil {
				break
			}
			req.Header.Set("X-Verif-Perm", strconv.Itoa(o.Perm))
			resp, err = client.Do(req)
			if err == nil || time.Now().After(deadline) {
				break
			}
		}
		if err != nil {
			r.Err, r.Note = "infra", err.Error()
			return r
		}
		body, _ := io.ReadAll(resp.Body)
		_ = resp.Body.Close()
		if resp.StatusCode == http.StatusNotFound {
			// is this the server of this process at all? (another process may have taken the probed port before the api
			// module could bind it) - the ping endpoint of the api module answers on the real one
			preq, _ := http.NewRequest(http.MethodGet, baseURL+"/api/v1/ping", nil)
			preq.Header.Set("X-Verif-Perm", "4")
			if pr, perr := client.Do(preq); perr != nil {
				r.Err, r.Note = "infra", "404 and no ping: "+perr.Error()
				return r
			} else {
				pb, _ := io.ReadAll(pr.Body)
				_ = pr.Body.Close()
				if pr.StatusCode != http.StatusOK || !strings.Contains(string(pb), "Pong") {
					r.Err, r.Note = "infra", "404 from a server that does not answer ping: not this process"
					return r
				}
			}
		}
		if resp.StatusCode != http.StatusOK {
			r.Err, r.Note = "status:"+strconv.Itoa(resp.StatusCode), firstLines(string(body), 3)
			return r
		}
		var note string
		r.Lines, note = parseLines(string(body))
		if note != "" {
			r.Err, r.Note = "format", note
		}
	case "list":
		for _, m := range metrics.ExportMetrics(api.Permission(o.Perm)) {
			if builtin(m.LabeledID()) {
				continue
			}
			r.Lines = append(r.Lines, line{Lid: codes(m.LabeledID()), V: value(m.CurrentValue)})
		}
	case "values":
		vals := metrics.ExportValues(api.Permission(o.Perm), o.Flag)
		ks := make([]string, 0, len(vals))
		for k := range vals {
			if !builtin(k) {
				ks = append(ks, k)
			}
		}
		sort.Strings(ks)
		for _, k := range ks {
			r.Lines = append(r.Lines, line{Lid: codes(k), V: value(vals[k])})
		}
	case "enable":
		r.Err = classify(metrics.EnableMetricPersistence(keys[o.Key]))
	case "stop":
		phase = "dead"
		if err := modules.Shutdown(); err != nil {
			r.Err = "error:" + err.Error()
		}
	default:
		r.Err = "bad-op"
	}
	return r
}

func getValue(m metrics.Metric) any {
	switch x := m.(type) {
	case metrics.UIntMetric:
		return x.CurrentValue()
	case metrics.FloatMetric:
		return x.CurrentValue()
	}
	return nil
}

func childMain() {
	dataDir = os.Args[2]
	os.Args = os.Args[:1] // the module system parses the command line
	out := os.NewFile(3, "answers")
	if out == nil {
		os.Exit(2)
	}
	if err := dataroot.Initialize(dataDir, 0o755); err != nil {
		fmt.Fprintln(os.Stderr, "dataroot:", err)
		os.Exit(2)
	}
	log.SetLogLevel(log.CriticalLevel)
	modules.SetStdErrReporting(false)
	repCh := make(chan *modules.ModuleError, 1000)
	modules.SetErrorReportingChannel(repCh)
	go func() {
		for range repCh {
		}
	}()
	if os.Getenv("METRICSX_HTTP") == "1" {
		port, err := freePort()
		if err != nil {
			fmt.Fprintln(os.Stderr, "port:", err)
			os.Exit(2)
		}
		api.SetDefaultAPIListenAddress(fmt.Sprintf("127.0.0.1:%d", port))
		baseURL = fmt.Sprintf("http://127.0.0.1:%d", port)
		client = &http.Client{Timeout: 20 * time.Second}
		_ = api.SetAuthenticator(func(r *http.Request, _ *http.Server) (*api.AuthToken, error) {
			p, err := strconv.Atoi(r.Header.Get("X-Verif-Perm"))
			if err != nil {
				return nil, api.ErrAPIAccessDeniedMessage
			}
			return &api.AuthToken{Read: api.Permission(p), Write: api.Permission(p)}, nil
		})
	} else {
		api.EnableServer = false
		api.SetDefaultAPIListenAddress("127.0.0.1:1")
	}

	in := bufio.NewReaderSize(os.Stdin, 1<<16)
	bw := bufio.NewWriter(out)
	for {
		l, err := in.ReadBytes('\n')
		if len(bytes.TrimSpace(l)) > 0 {
			var o op
			var r res
			if jerr := json.Unmarshal(l, &o); jerr != nil {
				r = emptyRes("bad-op")
			} else {
				r = exec1(o)
			}
			if r.Lid == nil {
				r.Lid = []int{}
			}
			if r.Lines == nil {
				r.Lines = []line{}
			}
			b, _ := json.Marshal(r)
			_, _ = bw.Write(b)
			_ = bw.WriteByte('\n')
			_ = bw.Flush()
		}
		if err != nil {
			break
		}
	}
	// the process ends without any farewell: what is not on disk by now is lost
	os.Exit(0)
}
