package main

import (
	"bytes"
	"fmt"
	"os"
	"time"

	"github.com/safing/portbase/api"
	"github.com/safing/portbase/config"
	"github.com/safing/portbase/database"
	_ "github.com/safing/portbase/database/dbmodule"
	_ "github.com/safing/portbase/database/storage/fstree"
	"github.com/safing/portbase/dataroot"
	"github.com/safing/portbase/log"
	"github.com/safing/portbase/metrics"
	"github.com/safing/portbase/modules"
)

func main() {
	t0 := time.Now()
	dir := os.Args[1]
	os.Args = os.Args[:1]
	if err := dataroot.Initialize(dir, 0o755); err != nil {
		panic(err)
	}
	api.EnableServer = false
	log.SetLogLevel(log.CriticalLevel)
	modules.SetStdErrReporting(false)
	api.SetDefaultAPIListenAddress("127.0.0.1:1")
	os.Args = []string{os.Args[0], "--metrics-instance", "inst"}
	err := modules.Start()
	fmt.Println("start", err, time.Since(t0))
	_, err = database.Register(&database.Database{Name: "core", StorageType: "fstree"})
	fmt.Println("dbreg", err)
	c, err := metrics.NewCounter("a/b", map[string]string{"x": "1\"\n"}, &metrics.Options{Persist: true, Permission: api.PermitAnyone})
	fmt.Println(err)
	c.Inc()
	c.Inc()
	fmt.Println("enable", metrics.EnableMetricPersistence("core:metrics/storage"))
	c.Inc()
	var b bytes.Buffer
	metrics.WriteMetrics(&b, api.PermitAnyone, config.ExpertiseLevelDeveloper)
	fmt.Print(b.String())
	b.Reset()
	metrics.WriteMetrics(&b, api.PermitSelf, config.ExpertiseLevelDeveloper)
	fmt.Println(len(b.String()))
	for _, m := range metrics.ExportMetrics(api.PermitSelf) {
		fmt.Println(m.LabeledID(), m.CurrentValue)
	}
	fmt.Println(modules.Shutdown(), time.Since(t0))
}
