// Command apicl replays scripts generated from spec/ApiClientGen.tla into the real websocket client of
// the database API (package api/client) and records what the client did (extension check X13).
//
// Every script gets its own fake API server (a websocket endpoint at /api/database/v1 on a loopback
// port, played by this driver) and its own client.  The server side is scripted: it sends the frames
// the script names (frames for open operations, for unknown ids, malformed frames), drops the
// connection, refuses connections while its gate is closed.  The driver never judges: it records the
// operation ids the client handed out, the frames the server received, the messages every callback
// received and a few booleans/timings; spec/ApiClientTrace.tla decides.
//
// Synchronisation: after every step that leaves the connection up the driver runs a barrier: a request
// of a dedicated barrier operation goes through the client's send queue, the server answers it, the
// answer comes back through the client's receive queue and dispatcher.  Both queues are FIFO, so when the
// barrier's callback fires everything sent before it in either direction has been handled.
//
// usage: apicl <scripts.ndjson> <trace.ndjson> [skip]
package main

import (
	"encoding/json"
	"fmt"
	"net"
	"net/http"
	"os"
	"strconv"
	"strings"
	"sync"
	"sync/atomic"
	"time"

	"github.com/gorilla/websocket"

	"github.com/safing/portbase/api/client"
	"github.com/safing/portbase/log"

	"verifharness/internal/vio"
)

type step struct {
	Op    string   `json:"op"`    // start | srv | drop | await | cancel | shutdown | many | flood | storm
	Kind  string   `json:"kind"`  // start: get query sub qsub create update insert delete none
	Key   string   `json:"key"`   // start: key or query text
	Val   string   `json:"val"`   // start: symbolic value (create/update/insert)
	Mode  string   `json:"mode"`  // start: func | nil (callback or nil handleFunc)
	Resus bool     `json:"resus"` // start/many: EnableResuscitation
	To    int      `json:"to"`    // srv/flood/cancel: operation index (1-based); srv: 0 unknown id, -1 no id at all
	Parts []string `json:"parts"` // srv: what follows the id on the wire, joined with "|"
	How   string   `json:"how"`   // drop: close | abort;  flood: drop | cancel
	Hold  int      `json:"hold"`  // await: keep the gate closed for that many ms first
	G     int      `json:"g"`     // many: goroutines
	M     int      `json:"m"`     // many: operations per goroutine; flood: frames; storm: rounds
	Echo  bool     `json:"echo"`  // many: the server answers every request with one upd frame
}

type script struct {
	Steps []step `json:"steps"`
}

type msg struct {
	Ty  string `json:"ty"`
	Key string `json:"key"`
	Val string `json:"val"`
}

type obs struct {
	ID        string     `json:"id"`
	IDs       []string   `json:"ids"`
	Got       [][]msg    `json:"got"`
	Wire      [][]string `json:"wire"`
	Sync      string     `json:"sync"` // ok | timeout | na
	Panic     string     `json:"panic"`
	Returned  bool       `json:"returned"`
	Offline   bool       `json:"offline"`
	Online    bool       `json:"online"`
	Stopped   bool       `json:"stopped"`
	SrvClosed bool       `json:"srvclosed"`
	Refused   int        `json:"refused"`
	SinceDrop int        `json:"since_drop_ms"`
	SinceOpen int        `json:"since_open_ms"`
}

// concrete values behind the symbolic ones; spec/ApiClient.tla holds their wire form (ValWire)
var values = map[string]interface{}{
	"v1": map[string]interface{}{"n": 1},
	"v2": map[string]interface{}{"s": "x|y"},
}

const (
	callTimeout = 5 * time.Second
	syncTimeout = 5 * time.Second
)

type opRec struct {
	op  *client.Operation
	mu  sync.Mutex
	got []msg
}

func (r *opRec) cb(m *client.Message) {
	r.mu.Lock()
	r.got = append(r.got, msg{Ty: m.Type, Key: m.Key, Val: string(m.RawValue)})
	r.mu.Unlock()
}

func (r *opRec) count() int {
	r.mu.Lock()
	defer r.mu.Unlock()
	return len(r.got)
}

type srvConn struct {
	ws     *websocket.Conn
	wmu    sync.Mutex
	closed chan struct{} // the server's reader saw the end of the connection
}

func (sc *srvConn) write(s string) error {
	sc.wmu.Lock()
	defer sc.wmu.Unlock()
	return sc.ws.WriteMessage(websocket.BinaryMessage, []byte(s))
}

type world struct {
	ln      net.Listener
	hs      *http.Server
	gate    atomic.Bool
	refused atomic.Int32
	echo    atomic.Bool
	connCh  chan *srvConn
	cur     *srvConn

	wireMu sync.Mutex
	wire   [][]string
	barIn  chan string // barrier requests seen by the server

	c       *client.Client
	ops     []*opRec
	bar     *client.Operation
	barOut  chan string // barrier answers seen by the barrier callback
	barN    int
	stopped chan struct{}

	panicMu sync.Mutex
	panics  []string

	dropAt time.Time
	dead   bool // a barrier has timed out: the client is stuck, do not wait for it again
}

func (w *world) notePanic(where string, r interface{}) {
	w.panicMu.Lock()
	w.panics = append(w.panics, fmt.Sprintf("%s: %v", where, r))
	w.panicMu.Unlock()
}

func (w *world) takePanics() string {
	w.panicMu.Lock()
	defer w.panicMu.Unlock()
	s := strings.Join(w.panics, "; ")
	w.panics = nil
	return s
}

// guard runs fn on its own goroutine, recovers a panic, gives up waiting after d.
func (w *world) guard(where string, d time.Duration, fn func()) bool {
	done := make(chan struct{})
	go func() {
		defer close(done)
		defer func() {
			if r := recover(); r != nil {
				w.notePanic(where, r)
			}
		}()
		fn()
	}()
	select {
	case <-done:
		return true
	case <-time.After(d):
		return false
	}
}

func (w *world) serve(rw http.ResponseWriter, r *http.Request) {
	if !w.gate.Load() {
		w.refused.Add(1)
		http.Error(rw, "closed", http.StatusServiceUnavailable)
		return
	}
	up := websocket.Upgrader{CheckOrigin: func(*http.Request) bool { return true }}
	ws, err := up.Upgrade(rw, r, nil)
	if err != nil {
		return
	}
	sc := &srvConn{ws: ws, closed: make(chan struct{})}
	go w.reader(sc)
	w.connCh <- sc
}

func (w *world) reader(sc *srvConn) {
	defer close(sc.closed)
	for {
		_, data, err := sc.ws.ReadMessage()
		if err != nil {
			return
		}
		parts := strings.SplitN(string(data), "|", 4)
		if len(parts) == 3 && parts[1] == "get" && strings.HasPrefix(parts[2], "barrier-") {
			w.barIn <- parts[2]
			continue
		}
		w.wireMu.Lock()
		w.wire = append(w.wire, parts)
		w.wireMu.Unlock()
		if w.echo.Load() && len(parts) >= 3 {
			_ = sc.write(parts[0] + "|upd|k1|v1")
		}
	}
}

func newWorld() (*world, error) {
	w := &world{
		connCh:  make(chan *srvConn, 16),
		barIn:   make(chan string, 1024),
		barOut:  make(chan string, 1024),
		stopped: make(chan struct{}),
	}
	ln, err := net.Listen("tcp", "127.0.0.1:0")
	if err != nil {
		return nil, err
	}
	w.ln = ln
	mux := http.NewServeMux()
	mux.HandleFunc("/api/database/v1", w.serve)
	w.hs = &http.Server{Handler: mux}
	go func() { _ = w.hs.Serve(ln) }()
	w.gate.Store(true)
	w.c = client.NewClient(ln.Addr().String())
	go func() {
		defer close(w.stopped)
		defer func() {
			if r := recover(); r != nil {
				w.notePanic("StayConnected", r)
			}
		}()
		w.c.StayConnected()
	}()
	select {
	case w.cur = <-w.connCh:
	case <-time.After(10 * time.Second):
		return nil, fmt.Errorf("the client never connected")
	}
	if !w.guard("Online", callTimeout, func() { <-w.c.Online() }) {
		return nil, fmt.Errorf("the client never went online")
	}
	w.bar = w.c.NewOperation(func(m *client.Message) {
		if m.Type == client.MsgOk {
			w.barOut <- m.Key
		}
	})
	return w, nil
}

func (w *world) close() {
	w.guard("Shutdown", callTimeout, func() { w.c.Shutdown() })
	_ = w.hs.Close()
	if w.cur != nil {
		_ = w.cur.ws.Close()
	}
}

// barrier: see the package comment.
func (w *world) barrier() string {
	if w.dead {
		return "timeout"
	}
	r := w.barrier1()
	if r != "ok" {
		w.dead = true
	}
	return r
}

func (w *world) barrier1() string {
	w.barN++
	name := "barrier-" + strconv.Itoa(w.barN)
	if !w.guard("barrier", callTimeout, func() { w.bar.Send("get", name, nil) }) {
		return "timeout"
	}
	deadline := time.After(syncTimeout)
	for {
		select {
		case s := <-w.barIn:
			if s != name {
				continue
			}
		case <-deadline:
			return "timeout"
		}
		break
	}
	if err := w.cur.write(w.bar.ID + "|ok|" + name + "|x"); err != nil {
		return "timeout"
	}
	for {
		select {
		case s := <-w.barOut:
			if s == name {
				return "ok"
			}
		case <-deadline:
			return "timeout"
		}
	}
}

func (w *world) wireLen() int {
	w.wireMu.Lock()
	defer w.wireMu.Unlock()
	return len(w.wire)
}

func (w *world) collect(o *obs) {
	o.Got = make([][]msg, len(w.ops))
	for i, r := range w.ops {
		r.mu.Lock()
		o.Got[i] = r.got
		r.got = nil
		r.mu.Unlock()
		if o.Got[i] == nil {
			o.Got[i] = []msg{}
		}
	}
	w.wireMu.Lock()
	o.Wire = w.wire
	w.wire = nil
	w.wireMu.Unlock()
	if o.Wire == nil {
		o.Wire = [][]string{}
	}
	if o.IDs == nil {
		o.IDs = []string{}
	}
	o.Panic = w.takePanics()
}

// startOne issues one request through the client's exported API.
func (w *world) startOne(kind, key, val, mode string, resus bool) *opRec {
	r := &opRec{}
	var f func(*client.Message)
	if mode != "nil" {
		f = r.cb
	}
	switch kind {
	case "get":
		r.op = w.c.Get(key, f)
	case "query":
		r.op = w.c.Query(key, f)
	case "sub":
		r.op = w.c.Sub(key, f)
	case "qsub":
		r.op = w.c.Qsub(key, f)
	case "create":
		r.op = w.c.Create(key, values[val], f)
	case "update":
		r.op = w.c.Update(key, values[val], f)
	case "insert":
		r.op = w.c.Insert(key, values[val], f)
	case "delete":
		r.op = w.c.Delete(key, f)
	default: // "none": an operation that has not sent its request yet
		r.op = w.c.NewOperation(f)
	}
	if resus {
		r.op.EnableResuscitation()
	}
	return r
}

func (w *world) waitOffline(o *obs) {
	// the offline channel is closed before the operations are told (both under the client's lock);
	// asking for the online channel afterwards waits for that lock
	o.Offline = w.guard("Offline", callTimeout, func() {
		<-w.c.Offline()
		_ = w.c.Online()
	})
}

func (w *world) kill(how string) {
	w.gate.Store(false)
	w.refused.Store(0)
	w.dropAt = time.Now()
	if how == "close" {
		w.cur.wmu.Lock()
		_ = w.cur.ws.WriteControl(websocket.CloseMessage,
			websocket.FormatCloseMessage(websocket.CloseNormalClosure, ""), time.Now().Add(time.Second))
		w.cur.wmu.Unlock()
	}
	_ = w.cur.ws.Close()
}

func (w *world) exec(st step, online *bool, down *bool) obs {
	o := obs{Sync: "na", Returned: true}
	switch st.Op {
	case "start":
		var r *opRec
		o.Returned = w.guard("start", callTimeout, func() { r = w.startOne(st.Kind, st.Key, st.Val, st.Mode, st.Resus) })
		if r != nil && r.op != nil {
			o.ID = r.op.ID
			w.ops = append(w.ops, r)
		} else {
			w.ops = append(w.ops, &opRec{})
		}

	case "many":
		recs := make([][]*opRec, st.G)
		w.echo.Store(st.Echo)
		o.Returned = w.guard("many", 2*callTimeout, func() {
			var wg sync.WaitGroup
			for g := 0; g < st.G; g++ {
				wg.Add(1)
				go func(g int) {
					defer wg.Done()
					defer func() {
						if r := recover(); r != nil {
							w.notePanic("many", r)
						}
					}()
					for k := 0; k < st.M; k++ {
						recs[g] = append(recs[g], w.startOne("sub", "k1", "", "func", st.Resus))
					}
				}(g)
			}
			wg.Wait()
		})
		if o.Returned {
			for g := 0; g < st.G; g++ {
				for k := 0; k < st.M; k++ {
					if k < len(recs[g]) {
						w.ops = append(w.ops, recs[g][k])
						o.IDs = append(o.IDs, recs[g][k].op.ID)
					} else {
						w.ops = append(w.ops, &opRec{})
						o.IDs = append(o.IDs, "")
					}
				}
			}
		} else {
			for k := 0; k < st.G*st.M; k++ {
				w.ops = append(w.ops, &opRec{})
				o.IDs = append(o.IDs, "")
			}
		}

	case "storm":
		// st.M rounds: a fresh operation without callback, the server floods it, Cancel in the middle
		for k := 0; k < st.M; k++ {
			var r *opRec
			ok := w.guard("storm-start", callTimeout, func() { r = w.startOne("sub", "k1", "", "nil", false) })
			if !ok || r == nil || r.op == nil {
				o.Returned = false
				w.ops = append(w.ops, &opRec{})
				o.IDs = append(o.IDs, "")
				continue
			}
			w.ops = append(w.ops, r)
			o.IDs = append(o.IDs, r.op.ID)
			if !*online {
				ok = w.guard("storm-cancel", callTimeout, func() { r.op.Cancel() })
				o.Returned = o.Returned && ok
				continue
			}
			some := make(chan struct{})
			done := make(chan struct{})
			id := r.op.ID
			sc := w.cur
			go func() {
				defer close(done)
				for j := 0; j < 40; j++ {
					if sc.write(id+"|upd|k1|"+strconv.Itoa(j)) != nil {
						break
					}
					if j == 4 {
						close(some)
					}
				}
			}()
			select {
			case <-some:
			case <-done:
			}
			ok = w.guard("storm-cancel", callTimeout, func() { r.op.Cancel() })
			o.Returned = o.Returned && ok
			<-done
		}

	case "srv":
		id := "#4242"
		if st.To >= 1 && st.To <= len(w.ops) && w.ops[st.To-1].op != nil {
			id = w.ops[st.To-1].op.ID
		}
		var raw string
		if st.To < 0 {
			raw = strings.Join(st.Parts, "|")
		} else {
			raw = strings.Join(append([]string{id}, st.Parts...), "|")
		}
		_ = w.cur.write(raw)

	case "flood":
		r := w.ops[st.To-1]
		id := r.op.ID
		before := r.count()
		switch st.How {
		case "drop":
			for j := 1; j <= st.M; j++ {
				_ = w.cur.write(id + "|upd|k1|" + strconv.Itoa(j))
			}
			w.kill("close")
			w.waitOffline(&o)
			*online = false
			// what was read before the end of the connection is dispatched by the client's handler on its own
			// schedule: wait until it is all there (normal case) or nothing more comes
			deadline := time.Now().Add(2 * time.Second)
			for r.count() < before+st.M+1 && time.Now().Before(deadline) {
				time.Sleep(time.Millisecond)
			}
		default: // cancel while the frames are coming in
			some := make(chan struct{})
			done := make(chan struct{})
			sc := w.cur
			go func() {
				defer close(done)
				for j := 1; j <= st.M; j++ {
					_ = sc.write(id + "|upd|k1|" + strconv.Itoa(j))
					if j == (st.M+1)/2 {
						close(some)
					}
				}
			}()
			<-some
			o.Returned = w.guard("cancel", callTimeout, func() { r.op.Cancel() })
			<-done
		}

	case "cancel":
		r := w.ops[st.To-1]
		if r.op != nil {
			o.Returned = w.guard("cancel", callTimeout, func() { r.op.Cancel() })
		}

	case "drop":
		w.kill(st.How)
		w.waitOffline(&o)
		*online = false

	case "await":
		if st.Hold > 0 {
			time.Sleep(time.Duration(st.Hold) * time.Millisecond)
		}
		opened := time.Now()
		w.gate.Store(true)
		select {
		case w.cur = <-w.connCh:
			now := time.Now()
			o.SinceDrop = int(now.Sub(w.dropAt) / time.Millisecond)
			o.SinceOpen = int(now.Sub(opened) / time.Millisecond)
			o.Refused = int(w.refused.Load())
			o.Online = w.guard("Online", callTimeout, func() { <-w.c.Online() })
			*online = true
			// requests of resuscitated operations may be queued just after the online signal, behind the
			// barrier's request: let the wire go quiet (300ms without a frame, 3s at most) before the barrier
			if o.Online {
				last, since, end := w.wireLen(), time.Now(), time.Now().Add(3*time.Second)
				for time.Now().Before(end) && time.Since(since) < 300*time.Millisecond {
					time.Sleep(5 * time.Millisecond)
					if n := w.wireLen(); n != last {
						last, since = n, time.Now()
					}
				}
			}
		case <-time.After(15 * time.Second):
			o.SinceDrop = -1
			o.SinceOpen = -1
			o.Refused = int(w.refused.Load())
		}

	case "shutdown":
		was := *online
		o.Returned = w.guard("Shutdown", callTimeout, func() { w.c.Shutdown() })
		select {
		case <-w.stopped:
			o.Stopped = true
		case <-time.After(10 * time.Second):
		}
		if was {
			select {
			case <-w.cur.closed:
				o.SrvClosed = true
			case <-time.After(callTimeout):
			}
		}
		*online = false
		*down = true
	}
	if *online {
		o.Sync = w.barrier()
		w.echo.Store(false)
	}
	w.collect(&o)
	return o
}

func main() {
	if len(os.Args) < 3 {
		fmt.Fprintln(os.Stderr, "usage: apicl <scripts> <trace> [skip]")
		os.Exit(2)
	}
	skip := 0
	if len(os.Args) > 3 {
		skip, _ = strconv.Atoi(os.Args[3])
	}
	log.SetLogLevel(log.CriticalLevel)
	tr, err := vio.NewTrace(os.Args[2])
	if err != nil {
		fmt.Fprintln(os.Stderr, err)
		os.Exit(2)
	}
	n := 0
	err = vio.ReadLines(os.Args[1], func(line []byte) error {
		if n < skip {
			n++
			return nil
		}
		var s script
		if err := json.Unmarshal(line, &s); err != nil {
			return err
		}
		tr.EmitRaw(map[string]any{"e": "try", "h": n, "k": 0, "op": "connect"})
		tr.Flush()
		w, err := newWorld()
		if err != nil {
			// infrastructure or a client that cannot connect at all: the history stays empty and the
			// trace specification rejects the "new" event that says so
			tr.EmitRaw(map[string]any{"e": "new", "h": n, "bar": "", "connected": false, "err": err.Error()})
			n++
			return nil
		}
		tr.EmitRaw(map[string]any{"e": "new", "h": n, "bar": w.bar.ID, "connected": true})
		online, down := true, false
		for k, st := range s.Steps {
			tr.EmitRaw(map[string]any{"e": "try", "h": n, "k": k + 1, "op": st.Op})
			tr.Flush()
			o := w.exec(st, &online, &down)
			if st.Parts == nil {
				st.Parts = []string{}
			}
			tr.EmitRaw(map[string]any{"e": "step", "h": n, "op": st, "obs": o})
		}
		tr.Flush()
		w.close()
		n++
		return nil
	})
	tr.Close()
	if err != nil {
		fmt.Fprintln(os.Stderr, err)
		os.Exit(2)
	}
}
