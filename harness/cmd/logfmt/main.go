// Command logfmt runs one script generated from spec/LogFmtGen.tla against the real package log and
// records what the package did: results of the level / tracer calls and, for every message the output
// adapter receives, the Message accessors and the text of the default formatter split into its fields
// (extension check X14).  The logger is a process-wide singleton that starts once: one process per script.
// A script with "rng" set exercises package rng instead (second subject of X14).
//
// usage: logfmt <script.ndjson> <trace.ndjson> [skip]
package main

import (
	"context"
	"encoding/json"
	"flag"
	"fmt"
	"os"
	"regexp"
	"strconv"
	"strings"
	"time"
	"unicode/utf8"

	"github.com/safing/portbase/log"

	"verifharness/internal/vio"
)

type op struct {
	K string `json:"k"`
	A int    `json:"a"`
	B int    `json:"b"`
	C int    `json:"c"`
	S int    `json:"s"`
	L []int  `json:"l"`
	M int    `json:"m"`
	// filled in by the driver
	Txt string `json:"txt"`
	T0  int64  `json:"t0"`
	T1  int64  `json:"t1"`
}

type pair struct {
	P  int `json:"p"`
	Lv int `json:"lv"`
}

type preLine struct {
	Sev  int    `json:"sev"`
	Site int    `json:"site"`
	M    int    `json:"m"`
	Txt  string `json:"txt"`
	T0   int64  `json:"t0"`
	T1   int64  `json:"t1"`
}

type ini struct {
	Flag   int       `json:"flag"`
	FlagC  int       `json:"flagc"`
	Preset int       `json:"preset"`
	Plog   []pair    `json:"plog"`
	Pre    []preLine `json:"pre"`
	// concrete strings (for the reader of a replay file)
	FlagS string `json:"flagS"`
	PlogS string `json:"plogS"`
}

type script struct {
	Ini  ini             `json:"ini"`
	Ops  []op            `json:"ops"`
	Spin int             `json:"spin"` // format the first written message this many extra times (counter wrap)
	Rng  json.RawMessage `json:"rng"`
}

type result struct {
	Lv     int    `json:"lv"`
	Nn     bool   `json:"nn"`
	CtxNil bool   `json:"ctxnil"`
	Held   int    `json:"held"`
	Tot    []int  `json:"tot"`
	Name   string `json:"name"`
	Tag    string `json:"tag"`
}

// sub is one collected line of a rendered trace, rendered is a formatted message split into its fields.
type sub struct {
	C0     int      `json:"c0"`
	C1     int      `json:"c1"`
	Dur    int64    `json:"dur"`
	DurW   int      `json:"durw"`
	DurLen int      `json:"durlen"`
	Origin []string `json:"origin"`
	OLine  int      `json:"oline"`
	OLW    int      `json:"olw"`
	Arrow  int      `json:"arrow"`
	Tag    string   `json:"tag"`
	Msg    string   `json:"msg"`
}

type rendered struct {
	C0     int      `json:"c0"`
	C1     int      `json:"c1"`
	Ts     []int    `json:"ts"`
	Mt     []int    `json:"mt"`
	Origin []string `json:"origin"`
	OLine  int      `json:"oline"`
	OLW    int      `json:"olw"`
	Arrow  int      `json:"arrow"`
	Tag    string   `json:"tag"`
	Ctr    int      `json:"ctr"`
	CtrW   int      `json:"ctrw"`
	DupN   int      `json:"dupn"`
	Msg    string   `json:"msg"`
	Sigma  int64    `json:"sigma"`
	Subs   []sub    `json:"subs"`
}

var (
	tr    *vio.Trace
	epoch = time.Now()

	names = []string{"", "trace", "debug", "info", "warning", "error", "critical"}
	pkgs  = []string{"", "alpha", "beta", "b", "er", "gamma"}

	headRe = regexp.MustCompile(`^(?:\x1b\[(\d+)m)?(\d\d)(\d\d)(\d\d) (\d\d):(\d\d):(\d\d)\.(\d\d\d) (.*?):(\d+) (\S+) ([A-Z]{4}) (\d+)(?: \[(\d+)x\])?(\x1b\[0m)? (.*)$`)
	subRe  = regexp.MustCompile(`^(?:\x1b\[(\d+)m)?( *)(\S+) (.*?):(\d+) (\S+) ([A-Z]{4})(\x1b\[0m)?     (.*)$`)

	syncSeen = make(chan string, 64)
	spin     int
)

func us() int64 { return int64(time.Since(epoch) / time.Microsecond) }

func chars(s string) []string {
	r := []string{}
	for _, c := range s {
		r = append(r, string(c))
	}
	return r
}

func atoi(s string) int {
	n, err := strconv.Atoi(s)
	if err != nil {
		return -1
	}
	return n
}

func arrowOf(s string) int {
	r, n := utf8.DecodeRuneInString(s)
	if n != len(s) {
		return -1
	}
	return int(r)
}

func b2(b bool) int {
	if b {
		return 1
	}
	return 0
}

// parse splits a formatted message into its fields; ok = false if it does not have the expected shape at all.
func parse(text string) (r rendered, ok bool) {
	r = rendered{Ts: []int{}, Mt: []int{}, Origin: []string{}, Subs: []sub{}, Sigma: -1}
	lines := strings.Split(text, "\n")
	m := headRe.FindStringSubmatch(lines[0])
	if m == nil {
		return r, false
	}
	if m[1] != "" {
		r.C0 = atoi(m[1])
	}
	for i := 2; i <= 8; i++ {
		r.Ts = append(r.Ts, atoi(m[i]))
	}
	r.Origin = chars(m[9])
	r.OLine = atoi(m[10])
	r.OLW = len(m[10])
	r.Arrow = arrowOf(m[11])
	r.Tag = m[12]
	r.Ctr = atoi(m[13])
	r.CtrW = len(m[13])
	if m[14] != "" {
		r.DupN = atoi(m[14])
	}
	r.C1 = b2(m[15] != "")
	r.Msg = m[16]
	if i := strings.LastIndex(r.Msg, " Σ="); i >= 0 {
		if d, err := time.ParseDuration(r.Msg[i+len(" Σ="):]); err == nil {
			r.Sigma = int64(d)
			r.Msg = r.Msg[:i]
		}
	}
	for _, l := range lines[1:] {
		m := subRe.FindStringSubmatch(l)
		if m == nil {
			return r, false
		}
		s := sub{Origin: chars(m[4])}
		if m[1] != "" {
			s.C0 = atoi(m[1])
		}
		d, err := time.ParseDuration(m[3])
		if err != nil {
			return r, false
		}
		s.Dur = int64(d)
		s.DurLen = utf8.RuneCountInString(m[3])
		s.DurW = len(m[2]) + s.DurLen
		s.OLine = atoi(m[5])
		s.OLW = len(m[5])
		s.Arrow = arrowOf(m[6])
		s.Tag = m[7]
		s.C1 = b2(m[8] != "")
		s.Msg = m[9]
		r.Subs = append(r.Subs, s)
	}
	return r, true
}

func emit(ev map[string]any) {
	ev["h"] = 0
	tr.Emit(ev)
}

// the adapter: record the message and its default (coloured) rendering
func adapter(msg log.Message, dups uint64) {
	text := log.StdoutAdapter.Format(msg, dups)
	r, ok := parse(text)
	t := msg.Time()
	r.Mt = []int{t.Year() % 100, int(t.Month()), t.Day(), t.Hour(), t.Minute(), t.Second(), t.Nanosecond() / 1000000}
	emit(map[string]any{"e": "out", "ok": ok, "txt": msg.Text(), "sev": int(msg.Severity()), "file": chars(msg.File()),
		"line": msg.LineNumber(), "tus": int64(t.Sub(epoch) / time.Microsecond), "dups": int(dups), "r": r, "raw": text})
	if spin > 0 {
		ctrs := make([]int, 0, spin)
		for i := 0; i < spin; i++ {
			x, _ := parse(log.StdoutAdapter.Format(msg, dups))
			ctrs = append(ctrs, x.Ctr)
		}
		spin = 0
		emit(map[string]any{"e": "spin", "ctrs": ctrs})
	}
	if msg.File() == "/w/sync/point" {
		syncSeen <- msg.Text()
	}
}

func variant(name string, c int) string {
	switch c {
	case 1:
		return strings.ToUpper(name)
	case 2:
		return strings.ToUpper(name[:1]) + name[1:]
	case 3:
		b := []byte(name)
		for i := range b {
			if i%2 == 1 {
				b[i] = strings.ToUpper(string(b[i]))[0]
			}
		}
		return string(b)
	}
	return name
}

// message of an operation: m selects the kind of text, n makes it unique, f the formatted variant
func message(m, n int, f bool) (format string, args []interface{}, expect string) {
	if !f {
		switch m {
		case 1:
			format = fmt.Sprintf("with spaces and = signs %d", n)
		case 2:
			format = fmt.Sprintf("100%%d percent %%s %d", n)
		case 3:
			format = ""
		case 4:
			format = fmt.Sprintf("ünïcode → λ %d", n)
		case 5:
			format = fmt.Sprintf(" lead %d trail ", n)
		default:
			format = fmt.Sprintf("msg-%d", n)
		}
		return format, nil, format
	}
	switch m {
	case 1:
		format, args = "%s and %v = %5.2f #%d", []interface{}{"spaces", true, 3.14159, n}
	case 2:
		format, args = "%s", []interface{}{fmt.Sprintf("100%%d percent %%s %d", n)}
	case 3:
		format, args = "%s", []interface{}{""}
	case 4:
		format, args = "%q|%x|%d", []interface{}{"ü", 255, n}
	case 5:
		format, args = "%d%%|%3d|", []interface{}{100, n}
	default:
		format, args = "msg-%d", []interface{}{n}
	}
	return format, args, fmt.Sprintf(format, args...)
}

func parseInput(a, b, c int) string {
	if a < 1 || a > 6 {
		return []string{"", "none", "NONE", "verbose", "warn", "err", "fatal"}[b%7]
	}
	s := variant(names[a], b)
	switch c {
	case 1:
		return " " + s
	case 2:
		return s + " "
	case 3:
		return s + "s"
	case 4:
		return s[:len(s)-1]
	case 5:
		return strconv.Itoa(a)
	}
	return s
}

func totals() []int {
	return []int{int(log.TotalWarningLogLines()), int(log.TotalErrorLogLines()), int(log.TotalCriticalLogLines())}
}

var (
	tracers [3]*log.ContextTracer
	ctxs    [3]context.Context
	known   []*log.ContextTracer // tracer n is known[n-1]
)

func idOf(t *log.ContextTracer) int {
	if t == nil {
		return 0
	}
	for i, k := range known {
		if k == t {
			return i + 1
		}
	}
	return -1
}

func syncPoint(n int) {
	o := op{K: "sync", L: []int{}, Txt: fmt.Sprintf("sync-%d", n)}
	o.T0 = us()
	callSync(o.Txt)
	o.T1 = us() + 1
	emit(map[string]any{"e": "op", "op": o, "res": result{Tot: []int{}}})
	deadline := time.Now().Add(20 * time.Second)
	for {
		log.TriggerWriter()
		select {
		case txt := <-syncSeen:
			if txt == o.Txt {
				emit(map[string]any{"e": "synced"})
				return
			}
		case <-time.After(200 * time.Microsecond):
		}
		if time.Now().After(deadline) {
			emit(map[string]any{"e": "timeout"})
			return
		}
	}
}

func runOp(n int, o op) {
	res := result{Tot: []int{}}
	if o.L == nil {
		o.L = []int{}
	}
	ev := map[string]any{"e": "op"}
	func() {
		defer func() {
			if p := recover(); p != nil {
				ev["panic"] = fmt.Sprint(p)
			}
		}()
		switch o.K {
		case "setlevel":
			log.SetLogLevel(log.Severity(o.A))
		case "getlevel":
			res.Lv = int(log.GetLogLevel())
		case "setpkg":
			m := map[string]log.Severity{}
			for i, lv := range o.L {
				if lv != 0 {
					m[pkgs[i+1]] = log.Severity(lv)
				}
			}
			log.SetPkgLevels(m)
		case "unsetpkg":
			log.UnSetPkgLevels()
		case "log":
			format, args, expect := message(o.M, n, o.C == 1)
			o.Txt = expect
			o.T0 = us()
			for i := 0; i < o.B; i++ {
				callLog(o.S, o.A, o.C == 1, format, args)
			}
			o.T1 = us() + 1
		case "tlog":
			format, args, expect := message(o.M, n, o.C == 1)
			o.Txt = expect
			o.T0 = us()
			callTr(tracers[o.A], o.S, o.B, o.C == 1, format, args)
			o.T1 = us() + 1
		case "addtracer":
			var ctx context.Context
			switch o.B {
			case 0:
				ctx = nil
			case 1:
				ctx = context.Background()
			default:
				ctx = ctxs[o.C]
			}
			nctx, t := callAdd(o.S, ctx)
			if t != nil {
				known = append(known, t)
			}
			tracers[o.A], ctxs[o.A] = t, nctx
			res.Nn = t != nil
			res.CtxNil = nctx == nil
			res.Held = idOf(log.Tracer(nctx))
		case "gettracer":
			t := log.Tracer(ctxs[o.A])
			tracers[o.A] = t
			res.Held = idOf(t)
		case "submit":
			tracers[o.A].Submit()
		case "totals":
			res.Tot = totals()
		case "parse":
			o.Txt = parseInput(o.A, o.B, o.C)
			res.Lv = int(log.ParseLevel(o.Txt))
		case "names":
			res.Name = log.Severity(o.A).Name()
			res.Tag = log.Severity(o.A).String()
		}
	}()
	ev["op"] = o
	ev["res"] = res
	emit(ev)
}

func main() {
	if len(os.Args) < 3 {
		fmt.Fprintln(os.Stderr, "usage: logfmt <script> <trace> [skip]")
		os.Exit(2)
	}
	var sc script
	first := true
	err := vio.ReadLines(os.Args[1], func(line []byte) error {
		if !first {
			return nil
		}
		first = false
		return json.Unmarshal(line, &sc)
	})
	if err != nil {
		fmt.Fprintln(os.Stderr, err)
		os.Exit(2)
	}
	tr, err = vio.NewTrace(os.Args[2])
	if err != nil {
		fmt.Fprintln(os.Stderr, err)
		os.Exit(2)
	}
	if len(sc.Rng) > 0 && string(sc.Rng) != "null" {
		runRng(sc.Rng)
		tr.Close()
		os.Exit(0)
	}
	spin = sc.Spin
	log.SetAdapter(log.AdapterFunc(adapter))
	log.EnableScheduling()
	in := sc.Ini
	if in.Plog == nil {
		in.Plog = []pair{}
	}
	if in.Pre == nil {
		in.Pre = []preLine{}
	}
	if in.Preset != 0 {
		log.SetLogLevel(log.Severity(in.Preset))
	}
	switch {
	case in.Flag >= 1 && in.Flag <= 6:
		in.FlagS = variant(names[in.Flag], in.FlagC)
	case in.Flag != 0:
		in.FlagS = "verbose"
	}
	if in.FlagS != "" {
		_ = flag.Set("log", in.FlagS)
	}
	ps := []string{}
	for i, p := range in.Plog {
		switch {
		case p.Lv >= 1 && p.Lv <= 6:
			ps = append(ps, pkgs[p.P]+"="+variant(names[p.Lv], i%2))
		case p.Lv == 7:
			ps = append(ps, pkgs[p.P]+"=loud")
		case p.Lv == 8:
			ps = append(ps, pkgs[p.P])
		default:
			ps = append(ps, pkgs[p.P]+"=info=debug")
		}
	}
	in.PlogS = strings.Join(ps, ",")
	if in.PlogS != "" {
		_ = flag.Set("plog", in.PlogS)
	}
	// lines logged before Start: they are kept and written once the logger runs
	for i := range in.Pre {
		p := &in.Pre[i]
		m := p.M
		if m == 3 {
			m = 0 // (the empty text is the only one a later line could repeat: keep the lines before Start unique)
		}
		format, _, expect := message(m, 9000+i, false)
		p.Txt = expect
		p.T0 = us()
		callLog(p.Site, p.Sev, false, format, nil)
		p.T1 = us() + 1
	}
	time.Sleep(2 * time.Millisecond) // (a line logged before Start must not get its time from Start)
	serr := log.Start()
	emit(map[string]any{"e": "start", "ini": in, "err": serr != nil})
	if len(in.Pre) > 0 {
		time.Sleep(20 * time.Millisecond) // (the goroutines that hold the lines logged before Start hand them over now)
	}
	nsync := 0
	for i, o := range sc.Ops {
		switch o.K {
		case "sync":
			nsync++
			syncPoint(nsync)
		case "unexp":
			un := []rendered{}
			for _, l := range log.GetLastUnexpectedLogs() {
				r, ok := parse(l)
				if !ok {
					r.Tag = "UNPARSABLE: " + l
				}
				un = append(un, r)
			}
			emit(map[string]any{"e": "unexp", "un": un})
		default:
			runOp(i+1, o)
		}
	}
	nsync++
	syncPoint(nsync)
	log.Shutdown()
	emit(map[string]any{"e": "end"})
	tr.Close()
	os.Exit(0)
}
