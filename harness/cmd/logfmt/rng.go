package main

import (
	"encoding/hex"
	"encoding/json"
	"fmt"
	"os"
	"sync"

	"github.com/safing/portbase/modules"
	"github.com/safing/portbase/rng"
)

// second subject of X14: package rng.  Vectors come from spec/RngGen.tla; 64-bit numbers travel as four 16-bit
// limbs (most significant first).
type rngCall struct {
	Fn    string `json:"fn"`
	Phase string `json:"phase"`
	N     int    `json:"n"`
	Max   []int  `json:"max"`
}

type rngRes struct {
	Ok  bool  `json:"ok"`
	Len int   `json:"len"`
	Num []int `json:"num"`
}

type rngScript struct {
	Before  []rngCall `json:"before"`
	Calls   []rngCall `json:"calls"`
	Workers int       `json:"workers"`
	Blocks  int       `json:"blocks"`
}

func limbs(x uint64) []int {
	return []int{int(x >> 48), int(x >> 32 & 0xffff), int(x >> 16 & 0xffff), int(x & 0xffff)}
}

func unlimbs(l []int) uint64 {
	var x uint64
	for _, v := range l {
		x = x<<16 | uint64(v)
	}
	return x
}

func rngDo(c rngCall) {
	ev := map[string]any{"e": "call", "cls": c.Fn + ":" + c.Phase, "c": c}
	res := rngRes{Num: []int{0, 0, 0, 0}}
	tr.Emit(map[string]any{"e": "try", "c": c, "h": 0})
	tr.Flush()
	func() {
		defer func() {
			if p := recover(); p != nil {
				ev["panic"] = fmt.Sprint(p)
			}
		}()
		switch c.Fn {
		case "bytes":
			b, err := rng.Bytes(c.N)
			res.Ok, res.Len = err == nil, len(b)
		case "read":
			n, err := rng.Read(make([]byte, c.N))
			res.Ok, res.Len = err == nil, n
		case "reader":
			n, err := rng.Reader.Read(make([]byte, c.N))
			res.Ok, res.Len = err == nil, n
		case "number":
			x, err := rng.Number(unlimbs(c.Max))
			res.Ok = err == nil
			res.Num = limbs(x)
		}
	}()
	ev["r"] = res
	emit(ev)
}

func runRng(raw json.RawMessage) {
	var sc rngScript
	if err := json.Unmarshal(raw, &sc); err != nil {
		fmt.Fprintln(os.Stderr, err)
		os.Exit(2)
	}
	for _, c := range sc.Before {
		c.Phase = "before"
		rngDo(c)
	}
	m := modules.Register("verifrng", nil, nil, nil, "rng")
	m.Enable()
	os.Args = []string{os.Args[0], "--log", "critical"}
	modules.SetStdErrReporting(false)
	if err := modules.Start(); err != nil {
		fmt.Fprintln(os.Stderr, err)
		os.Exit(2)
	}
	for _, c := range sc.Calls {
		c.Phase = "after"
		rngDo(c)
	}
	// concurrent callers: every worker keeps what it was handed; all of it goes to the model
	var wg sync.WaitGroup
	got := make([][]string, sc.Workers)
	for w := 0; w < sc.Workers; w++ {
		wg.Add(1)
		go func(w int) {
			defer wg.Done()
			for i := 0; i < sc.Blocks; i++ {
				var b []byte
				switch i % 3 {
				case 0:
					b, _ = rng.Bytes(16)
				case 1:
					b = make([]byte, 16)
					_, _ = rng.Read(b)
				default:
					b = make([]byte, 16)
					_, _ = rng.Reader.Read(b)
				}
				got[w] = append(got[w], hex.EncodeToString(b))
			}
		}(w)
	}
	wg.Wait()
	all := []string{}
	for _, g := range got {
		all = append(all, g...)
	}
	emit(map[string]any{"e": "blocks", "cls": fmt.Sprintf("w%d", sc.Workers), "bs": all})
	_ = modules.Shutdown()
}
