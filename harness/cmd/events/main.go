// Command events executes one driver script generated from spec/Events.tla against the real module
// event bus of portbase (modules/events.go) and records what the code did (extension check X01).
//
// The script is a sequence of driver steps (register an event / a hook, trigger, inject, enable,
// disable, Start, ManageModules, Shutdown, release a start routine, release a hook, sync).  Start
// routines and (optionally) hook functions are gates: they log their entry, park until the script
// releases them, log their end and return.  Everything else runs freely; the observations are judged by
// TLC against spec/EventsAbs.tla (spec/EventsTrace.tla).  The module system is a process-wide
// singleton, so one process executes exactly one script.
//
// One yield point of the library is used (build tag verif): mgmt.treereset inside buildEnabledTree, where the
// goroutine of Start/ManageModules waits for the script step "reltree" when module management is on.
//
// usage: events <script.ndjson> <trace.ndjson> [skip]
package main

import (
	"context"
	"encoding/json"
	"errors"
	"fmt"
	"os"
	"strconv"
	"sync"
	"sync/atomic"
	"time"

	"github.com/safing/portbase/log"
	"github.com/safing/portbase/modules"

	"verifharness/internal/vio"
)

type step struct {
	Op     string `json:"op"`
	M      string `json:"m"`
	Ev     string `json:"ev"`
	Expose bool   `json:"expose"`
	K      int    `json:"k"`
	Hm     string `json:"hm"`
	Hold   bool   `json:"hold"`
	Out    string `json:"out"`
	Eager  bool   `json:"eager"`
}

type script struct {
	Mgmt     bool       `json:"mgmt"`
	Sub      bool       `json:"sub"`
	Mods     []string   `json:"mods"`
	Deps     [][]string `json:"deps"`
	Steps    []step     `json:"steps"`
	SettleMs int        `json:"settle_ms"` // pause after a step that is not eager (default 3)
	QuietMs  int        `json:"quiet_ms"`  // a sync waits until nothing has been observed for this long (default 60)
}

type payload struct{ T int }

type hookState struct {
	id     int
	out    string
	mu     sync.Mutex
	hold   bool
	parked []chan struct{}
}

var (
	tr       *vio.Trace
	sc       script
	mods     = map[string]*modules.Module{}
	lastEmit atomic.Int64 // unix nanos of the last observation

	gmu      sync.Mutex
	startCh  = map[string]chan struct{}{} // parked start routines
	treeCh   chan struct{}                // Start/ManageModules parked inside buildEnabledTree (yield point mgmt.treereset)
	autoPass bool                         // finalisation: gates let everything pass

	pmu      sync.Mutex
	payloads = map[int]*payload{}

	hooks = map[int]*hookState{}

	inFlight atomic.Int32
	started  bool
	shut     bool
	ntrig    int
)

func emit(ev map[string]any) {
	ev["h"] = 0
	tr.Emit(ev)
	lastEmit.Store(time.Now().UnixNano())
}

func tid(n int) string { return "t" + strconv.Itoa(n) }
func kid(n int) string { return "k" + strconv.Itoa(n) }

// quiesce waits until nothing has been observed for d (at most max).
func quiesce(d, max time.Duration) {
	deadline := time.Now().Add(max)
	for time.Now().Before(deadline) {
		since := time.Since(time.Unix(0, lastEmit.Load()))
		if since >= d {
			return
		}
		time.Sleep(d - since + 100*time.Microsecond)
	}
}

func startFn(name string) func() error {
	return func() error {
		ch := make(chan struct{})
		gmu.Lock()
		emit(map[string]any{"e": "sfbegin", "m": name})
		pass := autoPass
		if !pass {
			startCh[name] = ch
		}
		gmu.Unlock()
		if !pass {
			<-ch
		}
		emit(map[string]any{"e": "sfend", "m": name})
		return nil
	}
}

// releaseStart lets the parked start routine of the module continue; it waits a moment for it to arrive.
func releaseStart(name string, patience time.Duration) bool {
	deadline := time.Now().Add(patience)
	for {
		gmu.Lock()
		ch, ok := startCh[name]
		if ok {
			delete(startCh, name)
		}
		gmu.Unlock()
		if ok {
			close(ch)
			return true
		}
		if inFlight.Load() == 0 || time.Now().After(deadline) {
			return false
		}
		time.Sleep(200 * time.Microsecond)
	}
}

// treePoint is the yield point inside buildEnabledTree: under module management the goroutine that rebuilds
// the dependency flags waits here until the script releases it (step "reltree").
func treePoint() {
	gmu.Lock()
	if autoPass || !sc.Mgmt {
		gmu.Unlock()
		return
	}
	ch := make(chan struct{})
	treeCh = ch
	gmu.Unlock()
	<-ch
}

func releaseTree(patience time.Duration) bool {
	deadline := time.Now().Add(patience)
	for {
		gmu.Lock()
		ch := treeCh
		treeCh = nil
		gmu.Unlock()
		if ch != nil {
			close(ch)
			return true
		}
		if inFlight.Load() == 0 || time.Now().After(deadline) {
			return false
		}
		time.Sleep(200 * time.Microsecond)
	}
}

func hookFn(hs *hookState) func(context.Context, interface{}) error {
	return func(ctx context.Context, data interface{}) error {
		t := -1
		if p, ok := data.(*payload); ok && p != nil {
			pmu.Lock()
			if payloads[p.T] == p { // the very value that was handed to the trigger
				t = p.T
			}
			pmu.Unlock()
		}
		var ch chan struct{}
		hs.mu.Lock()
		emit(map[string]any{"e": "hbegin", "t": tid(t), "k": kid(hs.id), "data": t, "ctxdone": ctx.Err() != nil})
		if hs.hold {
			ch = make(chan struct{})
			hs.parked = append(hs.parked, ch)
		}
		hs.mu.Unlock()
		if ch != nil {
			<-ch
		}
		emit(map[string]any{"e": "hend", "t": tid(t), "k": kid(hs.id)})
		switch hs.out {
		case "err":
			return errors.New("injected failure")
		case "panic":
			panic("injected panic in hook " + kid(hs.id))
		}
		return nil
	}
}

func releaseHook(hs *hookState) {
	hs.mu.Lock()
	hs.hold = false
	ps := hs.parked
	hs.parked = nil
	hs.mu.Unlock()
	for _, ch := range ps {
		close(ch)
	}
}

// withTimeout runs fn and reports whether it had not returned after the limit.
func withTimeout(fn func()) (blocked bool) {
	done := make(chan struct{})
	go func() { fn(); close(done) }()
	select {
	case <-done:
		return false
	case <-time.After(5 * time.Second):
		return true
	}
}

func waitCall(d time.Duration) bool {
	deadline := time.Now().Add(d)
	for inFlight.Load() > 0 {
		if time.Now().After(deadline) {
			return false
		}
		time.Sleep(200 * time.Microsecond)
	}
	return true
}

func lifecycle(kind string) {
	if shut || !waitCall(time.Second) {
		return
	}
	switch kind {
	case "start":
		if started {
			return
		}
	case "manage":
		if !started || !sc.Mgmt {
			return
		}
	case "shutdown":
		if !started {
			return
		}
	}
	emit(map[string]any{"e": "call", "kind": kind})
	inFlight.Add(1)
	if kind == "shutdown" {
		shut = true
	}
	go func() {
		var err error
		switch kind {
		case "start":
			err = modules.Start()
		case "manage":
			err = modules.ManageModules()
		case "shutdown":
			err = modules.Shutdown()
		}
		ev := map[string]any{"e": "ret", "kind": kind, "ok": err == nil}
		if err != nil {
			ev["err"] = err.Error()
		}
		emit(ev)
		inFlight.Add(-1)
	}()
	if kind == "start" {
		started = true
		// go on only when Start() has locked the module system
		deadline := time.Now().Add(5 * time.Second)
		for modules.GetStatus() == nil && time.Now().Before(deadline) {
			time.Sleep(100 * time.Microsecond)
		}
	}
}

func main() {
	if len(os.Args) < 3 {
		fmt.Fprintln(os.Stderr, "usage: events <script> <trace> [skip]")
		os.Exit(2)
	}
	skip := 0
	if len(os.Args) > 3 {
		skip, _ = strconv.Atoi(os.Args[3])
	}
	n := 0
	found := false
	err := vio.ReadLines(os.Args[1], func(line []byte) error {
		if n == skip {
			found = true
			n++
			return json.Unmarshal(line, &sc)
		}
		n++
		return nil
	})
	if err != nil || !found {
		fmt.Fprintln(os.Stderr, "cannot read script:", err)
		os.Exit(2)
	}
	tr, err = vio.NewTrace(os.Args[2])
	if err != nil {
		fmt.Fprintln(os.Stderr, err)
		os.Exit(2)
	}
	settle := 3 * time.Millisecond
	if sc.SettleMs > 0 {
		settle = time.Duration(sc.SettleMs) * time.Millisecond
	}
	quiet := 60 * time.Millisecond
	if sc.QuietMs > 0 {
		quiet = time.Duration(sc.QuietMs) * time.Millisecond
	}
	log.SetLogLevel(log.CriticalLevel)
	modules.SetStdErrReporting(false)
	modules.VerifSetTimeouts(20*time.Second, 3*time.Second)
	repCh := make(chan *modules.ModuleError, 1000)
	modules.SetErrorReportingChannel(repCh)
	go func() {
		for range repCh {
		}
	}()

	for i, name := range sc.Mods {
		var deps []string
		if i < len(sc.Deps) {
			deps = sc.Deps[i]
		}
		mods[name] = modules.Register(name, nil, startFn(name), nil, deps...)
	}
	if sc.Mgmt {
		modules.EnableModuleManagement(func(*modules.Module) {})
	}
	if sc.Sub {
		modules.SetEventSubscriptionFunc(func(moduleName, eventName string, internal bool, data interface{}) {
			t := -1
			if p, ok := data.(*payload); ok && p != nil {
				pmu.Lock()
				if payloads[p.T] == p {
					t = p.T
				}
				pmu.Unlock()
			}
			emit(map[string]any{"e": "sub", "t": tid(t), "m": moduleName, "ev": eventName, "internal": internal, "data": t})
		})
	}
	modules.VerifHook = func(point string, _ *modules.Module) {
		if point == "mgmt.treereset" {
			treePoint()
		}
	}
	deps := make([][]string, len(sc.Mods))
	for i := range deps {
		deps[i] = []string{}
		if i < len(sc.Deps) && sc.Deps[i] != nil {
			deps[i] = sc.Deps[i]
		}
	}
	emit(map[string]any{"e": "init", "mgmt": sc.Mgmt, "mods": sc.Mods, "deps": deps, "sub": sc.Sub})

	for _, st := range sc.Steps {
		// a step that could kill the process is announced first
		tr.EmitRaw(map[string]any{"e": "try", "op": st, "h": 0})
		tr.Flush()
		switch st.Op {
		case "regev":
			m := mods[st.M]
			if m == nil {
				continue
			}
			m.RegisterEvent(st.Ev, st.Expose)
			emit(map[string]any{"e": "regev", "m": st.M, "ev": st.Ev, "expose": st.Expose})
		case "reghook":
			hm := mods[st.Hm]
			if hm == nil || hooks[st.K] != nil {
				continue
			}
			hs := &hookState{id: st.K, out: st.Out, hold: st.Hold}
			hooks[st.K] = hs
			err := hm.RegisterEventHook(st.M, st.Ev, kid(st.K), hookFn(hs))
			emit(map[string]any{"e": "reghook", "k": kid(st.K), "hm": st.Hm, "m": st.M, "ev": st.Ev, "ok": err == nil})
		case "trig":
			m := mods[st.M]
			if m == nil {
				continue
			}
			ntrig++
			p := &payload{T: ntrig}
			pmu.Lock()
			payloads[ntrig] = p
			pmu.Unlock()
			t := ntrig
			emit(map[string]any{"e": "trig", "t": tid(t), "m": st.M, "ev": st.Ev, "data": t})
			blocked := withTimeout(func() { m.TriggerEvent(st.Ev, p) })
			emit(map[string]any{"e": "trigret", "t": tid(t), "blocked": blocked})
		case "inject":
			j := mods[st.Hm]
			if j == nil {
				continue
			}
			ntrig++
			p := &payload{T: ntrig}
			pmu.Lock()
			payloads[ntrig] = p
			pmu.Unlock()
			t := ntrig
			emit(map[string]any{"e": "inject", "t": tid(t), "j": st.Hm, "m": st.M, "ev": st.Ev, "data": t})
			var ierr error
			blocked := withTimeout(func() { ierr = j.InjectEvent("injected", st.M, st.Ev, p) })
			emit(map[string]any{"e": "injret", "t": tid(t), "ok": !blocked && ierr == nil, "blocked": blocked})
		case "relhook":
			if hs := hooks[st.K]; hs != nil {
				releaseHook(hs)
			}
		case "relstart":
			releaseStart(st.M, 300*time.Millisecond)
		case "reltree":
			releaseTree(300 * time.Millisecond)
		case "enable", "disable":
			m := mods[st.M]
			if m == nil || !sc.Mgmt || shut || !waitCall(time.Second) {
				continue
			}
			m.SetEnabled(st.Op == "enable")
			emit(map[string]any{"e": st.Op, "m": st.M})
		case "start", "manage", "shutdown":
			lifecycle(st.Op)
		case "sync":
			quiesce(quiet, 50*quiet)
			emit(map[string]any{"e": "sync"})
		}
		if !st.Eager {
			time.Sleep(settle)
		}
	}

	// finalisation: open every gate, let the running pass return, wait for quiet, final accounting
	gmu.Lock()
	autoPass = true
	if treeCh != nil {
		close(treeCh)
		treeCh = nil
	}
	for name, ch := range startCh {
		close(ch)
		delete(startCh, name)
	}
	gmu.Unlock()
	for _, hs := range hooks {
		releaseHook(hs)
	}
	waitCall(15 * time.Second)
	quiesce(quiet, 50*quiet)
	emit(map[string]any{"e": "sync", "final": true})
	tr.Close()
	os.Exit(0)
}
