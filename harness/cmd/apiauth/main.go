// Command apiauth executes API authentication histories generated from spec/ApiAuthGen.tla and
// spec/ApiAuthTable.tla against the real api package (property C12) and records what the server
// answered; it also covers the API part of C06 (panicking endpoint functions).
//
// The process starts the real module system (api, config, database) on a temporary data root with the
// HTTP server on a loopback port, registers one handler per required-permission pair, one
// authenticator whose behaviour the script switches, and talks to the server over real HTTP and
// through the database bridge (database key api:<path>).  One process serves many scripts; whether
// an authenticator is registered is fixed per process (argument "noauthfn").
//
// usage: apiauth <scripts.ndjson> <trace.ndjson> [skip] [noauthfn]
//
// The mapping from the symbolic request of the model to the concrete bytes sent is written into every
// event (field "hdr"), the judgement is made by TLC with spec/ApiAuthTrace.tla.
package main

import (
	"encoding/base64"
	"encoding/json"
	"errors"
	"fmt"
	"io"
	"math/rand"
	"net"
	"net/http"
	"os"
	"regexp"
	"strconv"
	"strings"
	"sync"
	"syscall"
	"time"

	"github.com/safing/portbase/api"
	"github.com/safing/portbase/config"
	"github.com/safing/portbase/database"
	_ "github.com/safing/portbase/database/dbmodule"
	"github.com/safing/portbase/database/record"
	"github.com/safing/portbase/dataroot"
	"github.com/safing/portbase/modules"

	"verifharness/internal/vio"
)

// ------------------------------------------------------------------------------------------ script

type keyEnt struct {
	R     int    `json:"r"`
	W     int    `json:"w"`
	Exp   string `json:"exp"`
	Form  string `json:"form"`
	Short bool   `json:"short"`
	Reuse bool   `json:"reuse"`
}

type reqT struct {
	Via    string `json:"via"`
	Route  string `json:"route"`
	Rr     int    `json:"rr"`
	Rw     int    `json:"rw"`
	M      string `json:"m"`
	Acrm   string `json:"acrm"`
	Origin string `json:"origin"`
	Azk    string `json:"azk"`
	Azid   int    `json:"azid"`
	Azn    int    `json:"azn"`
	Ckk    string `json:"ckk"`
	Ckid   int    `json:"ckid"`
}

type step struct {
	Op   string   `json:"op"`
	Keys []keyEnt `json:"keys"`
	On   bool     `json:"on"`
	Mode string   `json:"mode"`
	R    int      `json:"r"`
	W    int      `json:"w"`
	Q    *reqT    `json:"q"`
	S    int      `json:"s"`
	Kind string   `json:"kind"`
	Pv   string   `json:"pv"`
	M    string   `json:"m"`
}

type script struct {
	Authset bool   `json:"authset"`
	Seed    int64  `json:"seed"`
	Steps   []step `json:"steps"`
}

// ------------------------------------------------------------------------------------------ shared state

const cookieName = "Portmaster-API-Token"

// slot collects what the server side saw while the (single, sequential) current request was served.
type slotT struct {
	sync.Mutex
	invoked bool
	tr, tw  int
	ac      bool
}

var (
	slot slotT

	authMu   sync.Mutex
	authMode = "nil"
	authR    = 1
	authW    = 1

	port     int
	baseURL  string
	client   *http.Client
	dbi      *database.Interface
	baseline int // idle worker count of the api module
)

func resetSlot() {
	slot.Lock()
	slot.invoked, slot.tr, slot.tw, slot.ac = false, -9, -9, false
	slot.Unlock()
}

func recordInvocation(t *api.AuthToken) {
	slot.Lock()
	slot.invoked = true
	if t == nil {
		slot.tr, slot.tw = -8, -8
	} else {
		slot.tr, slot.tw = int(t.Read), int(t.Write)
	}
	slot.Unlock()
}

func tokenOf(r *http.Request) *api.AuthToken {
	ar := api.GetAPIRequest(r)
	if ar == nil {
		return nil
	}
	return ar.AuthToken
}

func plainHandler(w http.ResponseWriter, r *http.Request) {
	recordInvocation(tokenOf(r))
	w.WriteHeader(http.StatusOK)
	_, _ = w.Write([]byte("verif-handler\n"))
}

func authenticator(r *http.Request, _ *http.Server) (*api.AuthToken, error) {
	slot.Lock()
	slot.ac = true
	slot.Unlock()
	authMu.Lock()
	mode, rr, ww := authMode, authR, authW
	authMu.Unlock()
	switch mode {
	case "ok":
		return &api.AuthToken{Read: api.Permission(rr), Write: api.Permission(ww)}, nil
	case "err":
		return nil, errors.New("verif: authenticator backend failed")
	case "denied":
		return nil, fmt.Errorf("%wverif: access denied", api.ErrAPIAccessDeniedMessage)
	default:
		return nil, nil
	}
}

type panicStruct struct{ A int }

// panicReports receives what the module system reports on its error channel.
var panicReports = make(chan *modules.ModuleError, 64)

func doPanic(pv string) {
	switch pv {
	case "nil":
		var p any
		panic(p)
	case "err":
		panic(errors.New("verif: injected error panic"))
	case "rt":
		var m map[string]int
		m["x"] = 1
	case "struct":
		panic(panicStruct{7})
	default:
		panic("verif: injected string panic")
	}
}

// ------------------------------------------------------------------------------------------ setup

// freePort picks a loopback port no other apiauth driver uses: the port is reserved by an exclusive lock on
// a scratch file for the lifetime of the process (the api package opens the listener itself, much later).
func freePort() (int, error) {
	for try := 0; try < 200; try++ {
		// a port below the range the kernel hands out to ":0" listeners and outgoing connections, so that no other process
		// can be given it between this probe and the moment the api module binds it
		probe := 20000 + int((time.Now().UnixNano()/1000+int64(os.Getpid())*7919+int64(try)*104729)%10000)
		l, err := net.Listen("tcp", fmt.Sprintf("127.0.0.1:%d", probe))
		if err != nil {
			continue
		}
		p := l.Addr().(*net.TCPAddr).Port
		_ = l.Close()
		f, err := os.OpenFile(fmt.Sprintf("%s/verif-apiauth-port-%d.lock", os.TempDir(), p), os.O_CREATE|os.O_RDWR, 0o600)
		if err != nil {
			return 0, err
		}
		if syscall.Flock(int(f.Fd()), syscall.LOCK_EX|syscall.LOCK_NB) != nil {
			_ = f.Close()
			continue
		}
		portLock = f // held until the process exits
		return p, nil
	}
	return 0, errors.New("no free loopback port")
}

var portLock *os.File

func register() error {
	for rr := -3; rr <= 5; rr++ {
		for rw := -3; rw <= 5; rw++ {
			api.RegisterHandler(fmt.Sprintf("/verif/wrap/%d/%d", rr, rw),
				api.WrapInAuthHandler(plainHandler, api.Permission(rr), api.Permission(rw)))
			api.RegisterHandler(fmt.Sprintf("/verif/getonly/%d/%d", rr, rw),
				api.WrapInAuthHandler(plainHandler, api.Permission(rr), api.Permission(rw))).Methods(http.MethodGet)
		}
	}
	api.RegisterHandleFunc("/verif/plain", plainHandler)
	n := 0
	for rr := -1; rr <= 4; rr++ {
		for rw := -1; rw <= 4; rw++ {
			e := api.Endpoint{
				Name:  fmt.Sprintf("verif %d %d", rr, rw),
				Path:  fmt.Sprintf("verif/ep/%d/%d", rr, rw),
				Read:  api.Permission(rr),
				Write: api.Permission(rw),
			}
			// rotate over the endpoint function types
			switch n % 4 {
			case 0:
				e.ActionFunc = func(ar *api.Request) (string, error) {
					recordInvocation(ar.AuthToken)
					return "verif-endpoint", nil
				}
			case 1:
				e.DataFunc = func(ar *api.Request) ([]byte, error) {
					recordInvocation(ar.AuthToken)
					return []byte("verif-endpoint"), nil
				}
			case 2:
				e.StructFunc = func(ar *api.Request) (interface{}, error) {
					recordInvocation(ar.AuthToken)
					return map[string]string{"verif": "endpoint"}, nil
				}
			default:
				e.HandlerFunc = plainHandler
			}
			n++
			if err := api.RegisterEndpoint(e); err != nil {
				return fmt.Errorf("endpoint %s: %w", e.Path, err)
			}
		}
	}
	// C06: one endpoint per endpoint function type whose function panics
	pv := func(ar *api.Request) string { return ar.URL.Query().Get("pv") }
	eps := []api.Endpoint{
		{Path: "verif/panic/action", ActionFunc: func(ar *api.Request) (string, error) { doPanic(pv(ar)); return "", nil }},
		{Path: "verif/panic/data", DataFunc: func(ar *api.Request) ([]byte, error) { doPanic(pv(ar)); return nil, nil }},
		{Path: "verif/panic/struct", StructFunc: func(ar *api.Request) (interface{}, error) { doPanic(pv(ar)); return nil, nil }},
		{Path: "verif/panic/record", RecordFunc: func(ar *api.Request) (record.Record, error) { doPanic(pv(ar)); return nil, nil }},
		{Path: "verif/panic/handler", HandlerFunc: func(w http.ResponseWriter, r *http.Request) { doPanic(r.URL.Query().Get("pv")) }},
		// writes its status line and part of the body first, panics afterwards
		{Path: "verif/panic/handlerlate", HandlerFunc: func(w http.ResponseWriter, r *http.Request) {
			w.WriteHeader(http.StatusOK)
			_, _ = w.Write([]byte("partial"))
			doPanic(r.URL.Query().Get("pv"))
		}},
	}
	for _, e := range eps {
		e.Name = e.Path
		e.Read, e.Write = api.PermitAnyone, api.PermitAnyone
		if err := api.RegisterEndpoint(e); err != nil {
			return fmt.Errorf("endpoint %s: %w", e.Path, err)
		}
	}
	ph := func(w http.ResponseWriter, r *http.Request) { doPanic(r.URL.Query().Get("pv")) }
	api.RegisterHandler("/verif/panic/wrap", api.WrapInAuthHandler(ph, api.PermitAnyone, api.PermitAnyone))
	phLate := func(w http.ResponseWriter, r *http.Request) {
		w.WriteHeader(http.StatusOK)
		_, _ = w.Write([]byte("partial"))
		doPanic(r.URL.Query().Get("pv"))
	}
	api.RegisterHandler("/verif/panic/wraplate", api.WrapInAuthHandler(phLate, api.PermitAnyone, api.PermitAnyone))
	modules.SetErrorReportingChannel(panicReports)
	return nil
}

func apiStatus() (workers, micro int) {
	st := modules.GetStatus()
	if st == nil {
		return -1, -1
	}
	if m, ok := st.Modules["api"]; ok {
		workers, micro = m.Workers, m.MicroTasks
	}
	if m, ok := st.Modules["config"]; ok {
		workers += m.Workers
		micro += m.MicroTasks
	}
	return
}

func setup(withAuth bool) error {
	dir, err := os.MkdirTemp("", "verif-apiauth-")
	if err != nil {
		return err
	}
	cleanupDir = dir
	if err := dataroot.Initialize(dir, 0o755); err != nil {
		return err
	}
	port, err = freePort()
	if err != nil {
		return err
	}
	api.SetDefaultAPIListenAddress(fmt.Sprintf("127.0.0.1:%d", port))
	baseURL = fmt.Sprintf("http://127.0.0.1:%d", port)
	if err := register(); err != nil {
		return err
	}
	if withAuth {
		if err := api.SetAuthenticator(authenticator); err != nil {
			return err
		}
	}
	m := modules.Register("verifapi", nil, nil, nil, "api")
	m.Enable()
	os.Args = []string{os.Args[0], "--log", "critical"}
	modules.SetStdErrReporting(false)
	if err := modules.Start(); err != nil {
		return err
	}
	client = &http.Client{
		Timeout: 10 * time.Second,
		Transport: &http.Transport{
			MaxIdleConns: 4, MaxIdleConnsPerHost: 4, IdleConnTimeout: 60 * time.Second, DisableCompression: true,
		},
		CheckRedirect: func(*http.Request, []*http.Request) error { return http.ErrUseLastResponse },
	}
	dbi = database.NewInterface(&database.Options{Local: true, Internal: true})
	// wait for the listener
	deadline := time.Now().Add(10 * time.Second)
	for {
		c, err := net.DialTimeout("tcp", fmt.Sprintf("127.0.0.1:%d", port), time.Second)
		if err == nil {
			_ = c.Close()
			break
		}
		if time.Now().After(deadline) {
			return fmt.Errorf("api server does not listen: %w", err)
		}
		time.Sleep(2 * time.Millisecond)
	}
	// the server that answers on the port must be the one of this process
	resetSlot()
	resp, err := client.Get(baseURL + "/verif/wrap/1/1")
	if err != nil {
		return fmt.Errorf("self check: %w", err)
	}
	_ = resp.Body.Close()
	slot.Lock()
	mine := slot.invoked
	slot.Unlock()
	if !mine || resp.StatusCode != http.StatusOK {
		return fmt.Errorf("self check: port %d is served by another process (status %d)", port, resp.StatusCode)
	}
	time.Sleep(20 * time.Millisecond)
	baseline, _ = apiStatus()
	return nil
}

var cleanupDir string

// ------------------------------------------------------------------------------------------ configuration ops

type concKey struct {
	key     string    // the key string a client presents
	entry   string    // the entry of the option value
	expires time.Time // zero: never
	counted bool      // the entry reaches the expiry check of the loader (form ok)
}

type hist struct {
	rnd      *rand.Rand
	keys     []concKey
	prevKeys []concKey
	soonAt   time.Time // instant the "soon" keys expire (zero: no such key)
	sentinel string
	stale    bool // an entry of the replaced key configuration is still in the key table after the reload
	sess     []string
	gen      int
	infra    string
}

const soonDelay = 150 * time.Millisecond

const alnum = "abcdefghijklmnopqrstuvwxyzABCDEFGHIJKLMNOPQRSTUVWXYZ0123456789"

func randStr(r *rand.Rand, n int, alphabet string) string {
	b := make([]byte, n)
	for i := range b {
		b[i] = alphabet[r.Intn(len(alphabet))]
	}
	return string(b)
}

var permWord = map[int]string{1: "anyone", 2: "user", 3: "admin"}

func idle() bool {
	w, m := apiStatus()
	return w <= baseline && m == 0
}

// settle waits until the asynchronous reload of the key table (config change event hook, possibly
// followed by the clean-up microtask that removes expired entries from the option and reloads again)
// has come to rest.
func (h *hist) settle(all []concKey) {
	deadline := time.Now().Add(5 * time.Second)
	for h.sentinel != "" && !api.VerifHasAPIKey(h.sentinel) {
		if time.Now().After(deadline) {
			h.infra = "key table not reloaded within 5 s"
			return
		}
		time.Sleep(100 * time.Microsecond)
	}
	// every entry that is valid now is in the table (after concurrent changes the table may have been
	// built from an intermediate value of the option: wait for the reload that read the final one)
	for _, k := range all {
		for k.counted && (k.expires.IsZero() || time.Until(k.expires) > time.Minute) && !api.VerifHasAPIKey(k.key) {
			if time.Now().After(deadline) {
				h.infra = "key table not reloaded from the final option value within 5 s"
				return
			}
			time.Sleep(100 * time.Microsecond)
		}
	}
	get := config.GetAsStringArray(api.CfgAPIKeys, nil)
	for {
		now := time.Now()
		cur := map[string]bool{}
		for _, e := range get() {
			cur[e] = true
		}
		pending := false
		for _, k := range all {
			if k.counted && !k.expires.IsZero() && now.After(k.expires) && cur[k.entry] {
				pending = true
			}
		}
		if !pending {
			break
		}
		if now.After(deadline) {
			h.infra = "expired entries not removed from the option within 5 s"
			return
		}
		time.Sleep(100 * time.Microsecond)
	}
	// no reload or clean-up in flight for a while
	calm := 0
	for calm < 4 {
		if idle() {
			calm++
		} else {
			calm = 0
		}
		if time.Now().After(deadline) {
			h.infra = "api module did not become idle within 5 s"
			return
		}
		time.Sleep(250 * time.Microsecond)
	}
}

// avoidEdge sleeps over the expiry instant of the "soon" keys when it is close, so that a configuration
// change is clearly before or clearly after it.
func (h *hist) avoidEdge() {
	if h.soonAt.IsZero() {
		return
	}
	d := time.Until(h.soonAt)
	if d > -5*time.Millisecond && d < 40*time.Millisecond {
		time.Sleep(d + 5*time.Millisecond)
	}
}

// errConfigHang reports a configuration change that did not return: the process cannot go on (the calling
// goroutine is stuck inside the config package); the event is recorded and the process exits with status 5.
var errConfigHang = errors.New("timeout")

const configTimeout = 20 * time.Second

func setOption(key string, value any) error {
	done := make(chan error, 1)
	go func() { done <- config.SetConfigOption(key, value) }()
	select {
	case err := <-done:
		return err
	case <-time.After(configTimeout):
		return errConfigHang
	}
}

func (h *hist) setKeys(ents []keyEnt, storm *bool) error {
	h.avoidEdge()
	h.gen++
	h.prevKeys = h.keys
	h.keys = nil
	h.soonAt = time.Time{}
	now := time.Now().Round(0)
	vals := []string{}
	// fresh key strings differ from each other and from every string of the previous configuration (so
	// that "the string of the old entry i" is configured now exactly if entry i takes it over)
	used := map[string]bool{}
	for _, k := range h.prevKeys {
		used[k.key] = true
	}
	for i, e := range ents {
		var k string
		if e.Reuse && i < len(h.prevKeys) {
			k = h.prevKeys[i].key
		} else {
			for {
				if e.Short {
					k = randStr(h.rnd, 1+h.rnd.Intn(3), alnum)
				} else {
					k = randStr(h.rnd, 4+h.rnd.Intn(28), alnum+"-_.~")
				}
				if !used[k] {
					break
				}
			}
		}
		used[k] = true
		ck := concKey{key: k, counted: e.Form == "ok"}
		rp, wp := permWord[e.R], permWord[e.W]
		if e.Form == "badperm" {
			if h.rnd.Intn(2) == 0 {
				rp = "root"
			} else {
				wp = "self"
			}
		}
		entry := k + "?read=" + rp + "&write=" + wp
		switch e.Exp {
		case "far":
			ck.expires = now.Add(time.Hour)
		case "past":
			ck.expires = now.Add(-time.Hour)
		case "soon":
			ck.expires = now.Add(soonDelay)
			h.soonAt = ck.expires
		}
		if !ck.expires.IsZero() {
			entry += "&expires=" + ck.expires.UTC().Format("2006-01-02T15:04:05.000000000Z")
		}
		if e.Form == "badexp" {
			entry = k + "?read=" + rp + "&write=" + wp + "&expires=tomorrow"
			ck.expires = time.Time{}
		}
		ck.entry = entry
		h.keys = append(h.keys, ck)
		vals = append(vals, entry)
	}
	oldSentinel := h.sentinel
	h.stale = false
	if len(ents) == 0 && storm == nil && oldSentinel != "" && h.gen%2 == 0 {
		// a really empty key list (no sentinel entry either): every key of the replaced configuration must go
		h.sentinel = ""
		if err := setOption(api.CfgAPIKeys, []string{}); err != nil {
			return err
		}
		for deadline := time.Now().Add(2 * time.Second); api.VerifHasAPIKey(oldSentinel) && time.Now().Before(deadline); {
			time.Sleep(200 * time.Microsecond)
		}
		h.stale = api.VerifHasAPIKey(oldSentinel)
		return nil
	}
	h.sentinel = fmt.Sprintf("sentinel-%d-%s", h.gen, randStr(h.rnd, 12, alnum))
	// entries that must be ignored: no key, an unparsable one, and one whose key contains a colon (read as an opaque URL)
	vals = append(vals, h.sentinel+"?read=user", "?read=admin&write=admin", "%zz?read=admin", "app:s3cret?read=admin&write=admin")
	defer func() {
		if oldSentinel != "" {
			h.stale = api.VerifHasAPIKey(oldSentinel)
		}
	}()
	if storm == nil {
		if err := setOption(api.CfgAPIKeys, vals); err != nil {
			return err
		}
	} else {
		// two callers change the two options at the same time, several times; the last values stand
		errs := make(chan error, 2)
		go func() {
			var err error
			for i := 0; i < stormRounds && err == nil; i++ {
				v := vals
				if i < stormRounds-1 && i%2 == 1 {
					v = vals[len(vals)-4:]
				}
				err = setOption(api.CfgAPIKeys, v)
			}
			errs <- err
		}()
		go func() {
			var err error
			for i := 0; i < stormRounds && err == nil; i++ {
				val := i%2 == 0
				if i == stormRounds-1 {
					val = *storm
				}
				err = setOption(config.CfgDevModeKey, val)
			}
			errs <- err
		}()
		e1, e2 := <-errs, <-errs
		if e1 != nil {
			return e1
		}
		if e2 != nil {
			return e2
		}
	}
	h.settle(h.keys)
	return nil
}

const stormRounds = 24

// intact reports whether the key option still holds what this history configured last: a clean-up
// microtask of the api package that was scheduled for an older configuration and ran late would have
// written the older entries back.
func (h *hist) intact() bool {
	if h.sentinel == "" {
		return true // the empty list was configured: there is nothing a late clean-up could have replaced
	}
	want := h.sentinel + "?read=user"
	for _, e := range config.GetAsStringArray(api.CfgAPIKeys, nil)() {
		if e == want {
			return true
		}
	}
	if h.infra == "" {
		h.infra = "the key option was overwritten by a late clean-up of an older configuration"
	}
	return false
}

func (h *hist) setDev(on bool) error {
	h.avoidEdge()
	if err := setOption(config.CfgDevModeKey, on); err != nil {
		return err
	}
	h.settle(h.keys)
	return nil
}

// ------------------------------------------------------------------------------------------ requests

type obs struct {
	St  int    `json:"st"`
	Inv bool   `json:"inv"`
	Tr  int    `json:"tr"`
	Tw  int    `json:"tw"`
	Ac  bool   `json:"ac"`
	Sc  bool   `json:"sc"`
	Err string `json:"err"`
}

var headerUnsafe = regexp.MustCompile(`[\x00-\x08\x0a-\x1f\x7f]`)

// garbage returns an arbitrary header value (valid on the wire: no control characters, not blank).
func garbage(r *rand.Rand) string {
	n := 1 + r.Intn(60)
	b := make([]byte, n)
	for i := range b {
		switch r.Intn(6) {
		case 0:
			const punct = " \t;=,:/\"'%&?#[]@\\"
			b[i] = punct[r.Intn(len(punct))]
		case 1:
			b[i] = byte(0x80 + r.Intn(0x80))
		default:
			b[i] = byte(0x21 + r.Intn(0x5e))
		}
	}
	s := strings.TrimSpace(headerUnsafe.ReplaceAllString(string(b), "x"))
	if s == "" {
		s = "x"
	}
	return s
}

func routePath(q *reqT) string {
	switch q.Route {
	case "wrap":
		return fmt.Sprintf("/verif/wrap/%d/%d", q.Rr, q.Rw)
	case "getonly":
		return fmt.Sprintf("/verif/getonly/%d/%d", q.Rr, q.Rw)
	case "ep":
		return fmt.Sprintf("/api/v1/verif/ep/%d/%d", q.Rr, q.Rw)
	case "plain":
		return "/verif/plain"
	case "epmiss":
		return "/api/v1/verif/missing"
	default:
		return "/verif/nothing"
	}
}

func (h *hist) origin(q *reqT) (origin, host string) {
	r := h.rnd
	switch q.Origin {
	case "host":
		return fmt.Sprintf("http://127.0.0.1:%d", port), ""
	case "hostnoport":
		return []string{"http://127.0.0.1", "https://127.0.0.1:8443", "http://127.0.0.1:81"}[r.Intn(3)], "127.0.0.1"
	case "portless":
		return "http://127.0.0.1", ""
	case "ext":
		return "chrome-extension://" + randStr(r, 32, "abcdefghijklmnop"), ""
	case "local":
		return []string{"http://localhost:4200", "http://127.0.0.1:4200", "http://localhost", "https://localhost:8080"}[r.Intn(4)], ""
	case "foreign":
		return []string{
			"http://evil.example", "https://evil.example:443", fmt.Sprintf("http://127.0.0.1.evil.example:%d", port),
			"http://localhost.evil.example", "null", fmt.Sprintf("http://evil.example:%d", port), "file://", "moz-extension://abcdef",
			fmt.Sprintf("http://127.0.0.2:%d", port), "http://[::1]", "chrome-extension.evil.example",
		}[r.Intn(11)], ""
	case "bad":
		return []string{"http://[::1", "http://a b.example/", "%zz", "://x", "http://127.0.0.1:port", "http://%41:8080/"}[r.Intn(6)], ""
	case "garbage":
		for {
			g := garbage(r)
			// not by accident one of the allowed forms
			if !strings.HasPrefix(g, "chrome-extension:") && !strings.Contains(g, "127.0.0.1") && !strings.Contains(g, "localhost") {
				return g, ""
			}
		}
	}
	return "", ""
}

func basicOf(r *rand.Rand, key string) string {
	cut := 0
	if len(key) > 0 {
		cut = r.Intn(len(key) + 1)
	}
	return "Basic " + base64.StdEncoding.EncodeToString([]byte(key[:cut]+":"+key[cut:]))
}

func (h *hist) unknownKey(n int) string {
	for {
		k := randStr(h.rnd, n, alnum)
		known := false
		for _, c := range h.keys {
			if c.key == k {
				known = true
			}
		}
		if !known {
			return k
		}
	}
}

func (h *hist) authorization(q *reqT) (string, bool) {
	r := h.rnd
	switch q.Azk {
	case "bearer", "basic":
		if q.Azid >= 1 && q.Azid <= len(h.keys) {
			if q.Azk == "bearer" {
				return "Bearer " + h.keys[q.Azid-1].key, true
			}
			return basicOf(r, h.keys[q.Azid-1].key), true
		}
		return "Bearer " + h.unknownKey(12), true
	case "old":
		if q.Azid >= 1 && q.Azid <= len(h.prevKeys) {
			return "Bearer " + h.prevKeys[q.Azid-1].key, true
		}
		return "Bearer " + h.unknownKey(12), true
	case "unknown":
		return "Bearer " + h.unknownKey(4+r.Intn(40)), true
	case "short":
		return "Bearer " + h.unknownKey(q.Azn), true
	case "basicshort":
		return basicOf(r, h.unknownKey(q.Azn)), true
	case "basicbad":
		return []string{
			"Basic !!!not-base64!!!", "Basic " + base64.StdEncoding.EncodeToString([]byte("nocolonhere")), "Basic ",
			"Basic =", "Basic " + randStr(r, 7, alnum),
		}[r.Intn(5)], true
	case "scheme":
		return []string{"Digest ", "Token ", "bearer ", "BEARER ", "Negotiate ", "Bearer", "Basic"}[r.Intn(7)] + h.unknownKey(8), true
	case "garbage":
		return garbage(r), true
	}
	return "", false
}

func (h *hist) cookie(q *reqT) (string, bool) {
	r := h.rnd
	val := func() string { return base64.RawURLEncoding.EncodeToString([]byte(randStr(r, 32, alnum))) }
	switch q.Ckk {
	case "sess":
		if q.Ckid >= 1 && q.Ckid <= len(h.sess) {
			return cookieName + "=" + h.sess[q.Ckid-1], true
		}
		return cookieName + "=" + val(), true
	case "unknown":
		return []string{cookieName + "=" + val(), cookieName + "=", cookieName + "=x", "a=b; " + cookieName + "=" + val()}[r.Intn(4)], true
	case "othername":
		v := val()
		if len(h.sess) > 0 {
			v = h.sess[len(h.sess)-1]
		}
		return []string{"Other-Token=", "portmaster-api-token=", cookieName + "x="}[r.Intn(3)] + v, true
	case "garbage":
		return garbage(r), true
	}
	return "", false
}

func phaseOf(soonAt time.Time, t0, t1 time.Time) string {
	if soonAt.IsZero() {
		return "before"
	}
	if t1.Round(0).Add(time.Millisecond).Before(soonAt) {
		return "before"
	}
	if t0.Round(0).After(soonAt.Add(time.Millisecond)) {
		return "after"
	}
	return "around"
}

var codeRe = regexp.MustCompile(`unexpected error code (\d+)`)

func (h *hist) doBridge(q *reqT, o *obs, hdr map[string]any) {
	p := strings.TrimPrefix(routePath(q), "/api/v1/")
	if !strings.HasPrefix(routePath(q), "/api/v1/") {
		// the bridge prefixes /api/v1/: other routes are not reachable, ask for the literal path
		p = strings.TrimPrefix(routePath(q), "/")
	}
	key := "api:" + p
	hdr["dbkey"] = key
	var err error
	if q.M == http.MethodGet {
		_, err = dbi.Get(key)
	} else {
		rec := &api.EndpointBridgeRequest{Method: q.M}
		if q.M == http.MethodPost || q.M == http.MethodPut {
			rec.Data = []byte("verif")
			rec.MimeType = "text/plain"
		}
		rec.SetKey(key)
		rec.UpdateMeta()
		err = dbi.Put(rec)
	}
	switch {
	case err == nil:
		o.St = 200
	case strings.Contains(err.Error(), "bridged api call failed"):
		o.St = 500
	default:
		if m := codeRe.FindStringSubmatch(err.Error()); m != nil {
			o.St, _ = strconv.Atoi(m[1])
		} else {
			o.Err = "bridge: " + err.Error()
		}
	}
}

func (h *hist) doHTTP(method, path, query string, q *reqT, o *obs, hdr map[string]any) {
	var body io.Reader
	if method == http.MethodPost || method == http.MethodPut || method == http.MethodPatch {
		body = strings.NewReader("verif")
	}
	u := baseURL + path
	if query != "" {
		u += "?" + query
	}
	req, err := http.NewRequest(method, u, body)
	if err != nil {
		o.Err = "build: " + err.Error()
		return
	}
	if q != nil {
		if org, host := h.origin(q); org != "" {
			req.Header.Set("Origin", org)
			hdr["origin"] = org
			if host != "" {
				req.Host = host
				hdr["host"] = host
			}
		}
		if q.Acrm != "" {
			req.Header.Set("Access-Control-Request-Method", q.Acrm)
		}
		if a, ok := h.authorization(q); ok {
			req.Header["Authorization"] = []string{a}
			hdr["authorization"] = a
		}
		if c, ok := h.cookie(q); ok {
			req.Header["Cookie"] = []string{c}
			hdr["cookie"] = c
		}
	}
	resp, err := client.Do(req)
	if err != nil {
		o.Err = "transport: " + err.Error()
		return
	}
	n, _ := io.Copy(io.Discard, io.LimitReader(resp.Body, 1<<20))
	_ = resp.Body.Close()
	o.St = resp.StatusCode
	hdr["bodylen"] = n
	for _, c := range resp.Cookies() {
		if c.Name == cookieName && c.Value != "" {
			o.Sc = true
			h.sess = append(h.sess, c.Value)
		}
	}
}

func (h *hist) doReq(q *reqT) (obs, string, map[string]any) {
	o := obs{Tr: -9, Tw: -9}
	hdr := map[string]any{}
	resetSlot()
	t0 := time.Now()
	if q.Via == "bridge" {
		h.doBridge(q, &o, hdr)
	} else {
		h.doHTTP(q.M, routePath(q), "", q, &o, hdr)
	}
	t1 := time.Now()
	slot.Lock()
	o.Inv, o.Tr, o.Tw, o.Ac = slot.invoked, slot.tr, slot.tw, slot.ac
	slot.Unlock()
	return o, phaseOf(h.soonAt, t0, t1), hdr
}

// ------------------------------------------------------------------------------------------ main

func run(tr *vio.Trace, n int, s *script) error {
	h := &hist{rnd: rand.New(rand.NewSource(s.Seed*7919 + 17))}
	tr.EmitRaw(map[string]any{"e": "new", "h": n, "authset": s.Authset, "seed": s.Seed})
	// the state every history starts from: no keys, no development mode, authenticator answers nil
	authMu.Lock()
	authMode, authR, authW = "nil", 1, 1
	authMu.Unlock()
	if err := h.setKeys(nil, nil); err != nil {
		if errors.Is(err, errConfigHang) {
			tr.EmitRaw(map[string]any{"e": "keys", "h": n, "keys": []keyEnt{}, "err": err.Error()})
		}
		return err
	}
	if err := h.setDev(false); err != nil {
		if errors.Is(err, errConfigHang) {
			tr.EmitRaw(map[string]any{"e": "dev", "h": n, "on": false, "err": err.Error()})
		}
		return err
	}
	h.prevKeys, h.keys = nil, nil
	for _, st := range s.Steps {
		if h.infra != "" || !h.intact() {
			break
		}
		switch st.Op {
		case "keys":
			if st.Keys == nil {
				st.Keys = []keyEnt{}
			}
			if err := h.setKeys(st.Keys, nil); err != nil {
				if errors.Is(err, errConfigHang) {
					tr.EmitRaw(map[string]any{"e": "keys", "h": n, "keys": st.Keys, "err": err.Error()})
				}
				return err
			}
			conc := make([]string, len(h.keys))
			for i, k := range h.keys {
				conc[i] = k.entry
			}
			tr.EmitRaw(map[string]any{"e": "keys", "h": n, "keys": st.Keys, "entries": conc, "err": "", "stale": h.stale})
		case "storm":
			if st.Keys == nil {
				st.Keys = []keyEnt{}
			}
			on := st.On
			if err := h.setKeys(st.Keys, &on); err != nil {
				if errors.Is(err, errConfigHang) {
					tr.EmitRaw(map[string]any{"e": "storm", "h": n, "keys": st.Keys, "on": st.On, "err": err.Error()})
				}
				return err
			}
			tr.EmitRaw(map[string]any{"e": "storm", "h": n, "keys": st.Keys, "on": st.On, "err": "", "stale": h.stale})
		case "dev":
			if err := h.setDev(st.On); err != nil {
				if errors.Is(err, errConfigHang) {
					tr.EmitRaw(map[string]any{"e": "dev", "h": n, "on": st.On, "err": err.Error()})
				}
				return err
			}
			tr.EmitRaw(map[string]any{"e": "dev", "h": n, "on": st.On, "err": ""})
		case "auth":
			authMu.Lock()
			authMode, authR, authW = st.Mode, st.R, st.W
			authMu.Unlock()
			tr.EmitRaw(map[string]any{"e": "auth", "h": n, "mode": st.Mode, "r": st.R, "w": st.W})
		case "expire":
			ok := false
			if st.S >= 1 && st.S <= len(h.sess) {
				ok = api.VerifExpireSession(h.sess[st.S-1])
			}
			tr.EmitRaw(map[string]any{"e": "expire", "h": n, "s": st.S, "found": ok})
		case "clean":
			api.VerifCleanSessions()
			tr.EmitRaw(map[string]any{"e": "clean", "h": n})
		case "wait":
			if !h.soonAt.IsZero() {
				if d := time.Until(h.soonAt); d > -5*time.Millisecond {
					time.Sleep(d + 5*time.Millisecond)
				}
			}
			tr.EmitRaw(map[string]any{"e": "wait", "h": n})
		case "req":
			tr.EmitRaw(map[string]any{"e": "try", "h": n, "q": st.Q})
			tr.Flush()
			o, phase, hdr := h.doReq(st.Q)
			tr.EmitRaw(map[string]any{"e": "req", "h": n, "q": st.Q, "phase": phase, "ob": o, "hdr": hdr})
		case "panic":
			tr.EmitRaw(map[string]any{"e": "try", "h": n, "panic": st.Kind + "/" + st.Pv})
			tr.Flush()
			o := obs{Tr: -9, Tw: -9}
			path := "/api/v1/verif/panic/" + st.Kind
			if st.Kind == "wrap" || st.Kind == "wraplate" {
				path = "/verif/panic/" + st.Kind
			}
			for len(panicReports) > 0 {
				<-panicReports
			}
			h.doHTTP(st.M, path, "pv="+st.Pv, nil, &o, map[string]any{})
			// the panic must be reported on the module error channel
			reported := false
			deadline := time.After(2 * time.Second)
		waitReport:
			for {
				select {
				case me := <-panicReports:
					if me != nil && me.Severity == "panic" {
						reported = true
						break waitReport
					}
				case <-deadline:
					break waitReport
				}
			}
			// the server must still serve: probe a public handler
			resetSlot()
			p := obs{Tr: -9, Tw: -9}
			h.doHTTP(http.MethodGet, "/verif/wrap/1/1", "", nil, &p, map[string]any{})
			slot.Lock()
			inv := slot.invoked
			slot.Unlock()
			tr.EmitRaw(map[string]any{"e": "apipanic", "h": n, "kind": st.Kind, "pv": st.Pv, "m": st.M,
				"st": o.St, "err": o.Err + p.Err, "probe": p.St, "probeinv": inv, "reported": reported})
		default:
			return fmt.Errorf("unknown op %q", st.Op)
		}
	}
	if h.infra != "" || !h.intact() {
		tr.EmitRaw(map[string]any{"e": "infra", "h": n, "what": h.infra})
	}
	return nil
}

func main() {
	if len(os.Args) < 3 {
		fmt.Fprintln(os.Stderr, "usage: apiauth <scripts> <trace> [skip] [noauthfn]")
		os.Exit(2)
	}
	scripts, trace := os.Args[1], os.Args[2]
	skip := 0
	if len(os.Args) > 3 {
		skip, _ = strconv.Atoi(os.Args[3])
	}
	withAuth := !(len(os.Args) > 4 && os.Args[4] == "noauthfn")
	tr, err := vio.NewTrace(trace)
	if err != nil {
		fmt.Fprintln(os.Stderr, err)
		os.Exit(2)
	}
	if err := setup(withAuth); err != nil {
		fmt.Fprintln(os.Stderr, "setup:", err)
		os.Exit(3)
	}
	n := 0
	err = vio.ReadLines(scripts, func(line []byte) error {
		if n < skip {
			n++
			return nil
		}
		var s script
		if err := json.Unmarshal(line, &s); err != nil {
			return err
		}
		if s.Authset != withAuth {
			return fmt.Errorf("script %d needs authset=%v, the process has %v", n, s.Authset, withAuth)
		}
		if err := run(tr, n, &s); err != nil {
			return err
		}
		n++
		return nil
	})
	tr.Close()
	if errors.Is(err, errConfigHang) {
		// a goroutine is stuck inside the config package: a clean shutdown is not possible
		fmt.Fprintln(os.Stderr, "config change did not return within", configTimeout)
		os.Exit(5)
	}
	_ = modules.Shutdown()
	if cleanupDir != "" {
		_ = os.RemoveAll(cleanupDir)
	}
	if portLock != nil {
		_ = os.Remove(portLock.Name())
	}
	if err != nil {
		// exit status 4: the harness failed (2 is the status of a Go process that died of a panic)
		fmt.Fprintln(os.Stderr, "harness:", err)
		os.Exit(4)
	}
	fmt.Printf("histories=%d\n", n)
}
