// Command life drives the real module manager (modules.Start / ManageModules / Shutdown) through one
// scheduling script generated from spec/LifecycleGen.tla (property C01, also C06 for panicking
// lifecycle routines).  Every prep/start/stop callback is a gate: it logs "begin", parks until the
// script releases it with an outcome (ok / error / panic), logs "end" and returns.  The module system
// is a process-wide singleton, so one process executes exactly one script.
//
// usage: life <script.ndjson> <trace.ndjson> [skip]
package main

import (
	"context"
	"encoding/json"
	"errors"
	"fmt"
	"os"
	"sync"
	"sync/atomic"
	"time"

	"github.com/safing/portbase/log"
	"github.com/safing/portbase/modules"

	"verifharness/internal/vio"
)

type step struct {
	Op  string `json:"op"`
	M   int    `json:"m"`
	Ok  bool   `json:"ok"`
	How string `json:"how"` // for failing finishes: "error" (default) or "panic"
}

type script struct {
	N       int     `json:"n"`
	Mgmt    bool    `json:"mgmt"`
	Deps    [][]int `json:"deps"`
	Enabled []bool  `json:"enabled"`
	Steps   []step  `json:"steps"`
	StartTimeoutMs int `json:"startTimeoutMs"` // > 0: shortened module start timeout (for "expire" steps)
	StopTimeoutMs  int   `json:"stopTimeoutMs"` // > 0: shortened module stop timeout
	Overstay       []int `json:"overstay"`      // modules whose start routine leaves a worker behind that ignores its context
	LateCtrl int    `json:"lateCtrl"` // > 0: the goroutine that ran the start routine of this module is held back right before it signals
	// that the routine has ended (yield point ctrl.done) until the stop routine of the module has begun
	Eager   bool    `json:"eager"` // issue the next API call as soon as the previous one has returned, even if the
	// script (the model) expected callbacks to finish first: an early return is then followed by the next call
}

type outcome struct {
	ok  bool
	how string
}

type parked struct {
	m  int
	cb string
	ch chan outcome
	at time.Time
}

var overstayRelease = make(chan struct{})

var (
	sc      script
	sc0     = &sc
	tr      *vio.Trace
	mu      sync.Mutex
	gates   []*parked // parked callbacks in arrival order
	inCall  int       // API calls in flight
	mods    []*modules.Module
	started bool
	shut    bool
)

func name(i int) string { return fmt.Sprintf("m%d", i) }

var (
	lateHeld    = make(chan struct{}) // closed when the held goroutine may go on
	lateOnce    sync.Once
	lateArrived atomic.Bool
)

func gate(m int, cb string) error {
	if cb == "stop" && sc0.LateCtrl == m && lateArrived.Load() {
		// the stop routine has begun: now the tail of the start routine's goroutine runs, and gets time to do its damage
		lateOnce.Do(func() { close(lateHeld) })
		time.Sleep(30 * time.Millisecond)
	}
	p := &parked{m: m, cb: cb, ch: make(chan outcome, 1), at: time.Now()}
	mu.Lock()
	tr.Emit(map[string]any{"e": "begin", "m": m, "cb": cb, "h": 0})
	gates = append(gates, p)
	mu.Unlock()
	o := <-p.ch
	how := ""
	if !o.ok {
		how = "error"
		if o.how == "panic" {
			how = "panic"
		}
		if o.how == "canceled" {
			how = "canceled"
		}
	}
	tr.Emit(map[string]any{"e": "end", "m": m, "cb": cb, "ok": o.ok, "how": how, "h": 0})
	if o.ok {
		return nil
	}
	if o.how == "panic" {
		panic(fmt.Sprintf("injected panic in %s of %s", cb, name(m)))
	}
	if o.how == "canceled" {
		// an error value that wraps a sentinel some loops treat as "finished": it is a failure all the same
		return fmt.Errorf("interrupted while %s of %s: %w", cb, name(m), context.Canceled)
	}
	return errors.New("injected failure")
}

// take removes and returns the parked callback of module m (m == 0: the oldest one).
func take(m int) *parked {
	mu.Lock()
	defer mu.Unlock()
	for i, p := range gates {
		if m == 0 || p.m == m {
			gates = append(gates[:i], gates[i+1:]...)
			return p
		}
	}
	return nil
}

// waitParked waits for the callback of module m to arrive at its gate. The script comes from the
// model; where the real manager took a different (equally legal) turn the callback never arrives and
// the step is skipped: immediately if no manager call is running, else after the patience interval.
func waitParked(m int, d time.Duration) *parked {
	deadline := time.Now().Add(d)
	idleSince := time.Time{}
	for {
		if p := take(m); p != nil {
			return p
		}
		now := time.Now()
		if callsInFlight() == 0 {
			if idleSince.IsZero() {
				idleSince = now
			} else if now.Sub(idleSince) > 20*time.Millisecond {
				return nil
			}
		} else {
			idleSince = time.Time{}
		}
		if now.After(deadline) {
			return nil
		}
		time.Sleep(200 * time.Microsecond)
	}
}

func callsInFlight() int {
	mu.Lock()
	defer mu.Unlock()
	return inCall
}

func waitIdle(d time.Duration) bool {
	deadline := time.Now().Add(d)
	for callsInFlight() > 0 {
		if time.Now().After(deadline) {
			return false
		}
		time.Sleep(200 * time.Microsecond)
	}
	return true
}

func online() []bool {
	r := make([]bool, len(mods))
	for i, m := range mods {
		r[i] = m.Online()
	}
	return r
}

func api(op string) {
	mu.Lock()
	inCall++
	tr.Emit(map[string]any{"e": "call", "op": op, "h": 0})
	mu.Unlock()
	go func() {
		var err error
		switch op {
		case "start":
			err = modules.Start()
		case "manage":
			err = modules.ManageModules()
		case "shutdown":
			err = modules.Shutdown()
		}
		mu.Lock()
		ev := map[string]any{"e": "ret", "op": op, "ok": err == nil, "online": online(), "h": 0}
		if err != nil {
			ev["err"] = err.Error()
		}
		tr.Emit(ev)
		inCall--
		mu.Unlock()
	}()
}

func note(msg string, st step) {
	tr.Emit(map[string]any{"e": "note", "msg": msg, "step": st, "h": 0})
}

// settle releases every parked callback with a successful outcome until nothing moves any more.
// It reports false if an API call is still in flight although no callback is parked (hang).
func settle(limit time.Duration) bool {
	quietSince := time.Now()
	hardStop := time.Now().Add(limit)
	for {
		if p := take(0); p != nil {
			p.ch <- outcome{ok: true}
			quietSince = time.Now()
			continue
		}
		if callsInFlight() == 0 {
			if time.Since(quietSince) > 30*time.Millisecond {
				return true
			}
		} else if time.Now().After(hardStop) {
			return false
		}
		time.Sleep(300 * time.Microsecond)
	}
}

func main() {
	if len(os.Args) < 3 {
		fmt.Fprintln(os.Stderr, "usage: life <script> <trace> [skip]")
		os.Exit(2)
	}
	first := true
	err := vio.ReadLines(os.Args[1], func(line []byte) error {
		if !first {
			return nil
		}
		first = false
		return json.Unmarshal(line, &sc)
	})
	if err != nil {
		fmt.Fprintln(os.Stderr, err)
		os.Exit(2)
	}
	tr, err = vio.NewTrace(os.Args[2])
	if err != nil {
		fmt.Fprintln(os.Stderr, err)
		os.Exit(2)
	}
	defer tr.Close()
	log.SetLogLevel(log.CriticalLevel)
	sc0 = &sc
	if sc.LateCtrl > 0 {
		seen := 0
		var hmu sync.Mutex
		modules.VerifHook = func(point string, m *modules.Module) {
			if point != "ctrl.done" || m == nil || m.Name != name(sc.LateCtrl) {
				return
			}
			hmu.Lock()
			seen++
			second := seen == 2 // control routines of a module end in this order: prep, start, stop
			hmu.Unlock()
			if !second {
				return
			}
			lateArrived.Store(true)
			select {
			case <-lateHeld:
			case <-time.After(20 * time.Second):
			}
		}
	}

	deps := make([][]int, sc.N)
	for i := range deps {
		deps[i] = []int{}
		if i < len(sc.Deps) && sc.Deps[i] != nil {
			deps[i] = sc.Deps[i]
		}
	}
	en := make([]bool, sc.N)
	copy(en, sc.Enabled)
	tr.Emit(map[string]any{"e": "reg", "n": sc.N, "deps": deps, "mgmt": sc.Mgmt, "enabled": en, "h": 0})
	for i := 1; i <= sc.N; i++ {
		i := i
		var dn []string
		for _, d := range deps[i-1] {
			dn = append(dn, name(d))
		}
		m := modules.Register(name(i),
			func() error { return gate(i, "prep") },
			func() error {
				err := gate(i, "start")
				if err == nil {
					for _, o := range sc.Overstay {
						if o == i {
							// a worker that does not look at its context: the stop of this module runs into its timeout
							mods[i-1].StartWorker("overstay", func(context.Context) error {
								<-overstayRelease
								return nil
							})
						}
					}
				}
				return err
			},
			func() error { return gate(i, "stop") },
			dn...)
		mods = append(mods, m)
	}
	if sc.Mgmt {
		modules.EnableModuleManagement(func(*modules.Module) {})
		for i, e := range en {
			if e {
				mods[i].Enable()
			}
		}
	}

	if sc.StartTimeoutMs > 0 || sc.StopTimeoutMs > 0 {
		startT, stopT := 2*time.Minute, 30*time.Second
		if sc.StartTimeoutMs > 0 {
			startT = time.Duration(sc.StartTimeoutMs) * time.Millisecond
		}
		if sc.StopTimeoutMs > 0 {
			stopT = time.Duration(sc.StopTimeoutMs) * time.Millisecond
		}
		modules.VerifSetTimeouts(startT, stopT)
	}

	const patience = 400 * time.Millisecond
	steps := append([]step{}, sc.Steps...)
	for len(steps) > 0 {
		st := steps[0]
		steps = steps[1:]
		if sc.Eager && st.Op == "finish" && started {
			// give the manager a moment to return, if it is going to
			for k := 0; k < 25 && callsInFlight() > 0; k++ {
				time.Sleep(200 * time.Microsecond)
			}
		}
		if sc.Eager && st.Op == "finish" && started && callsInFlight() == 0 {
			// no manager call is running although the model still expects this callback to finish inside one:
			// pull the next API call of the script forward
			for j, nx := range steps {
				if nx.Op == "shutdown" || nx.Op == "manage" {
					steps = append(append([]step{nx}, steps[:j]...), steps[j+1:]...)
					steps = append(steps, st)
					st = steps[0]
					steps = steps[1:]
					note("call returned early: next API call pulled forward", nx)
					break
				}
				if nx.Op == "toggle" {
					break
				}
			}
		}
		switch st.Op {
		case "start", "manage", "shutdown":
			if !waitIdle(patience) {
				note("previous call still running: step skipped", st)
				continue
			}
			if st.Op == "start" {
				if started {
					continue
				}
				started = true
			}
			if st.Op == "shutdown" {
				if shut {
					continue
				}
				shut = true
			}
			api(st.Op)
		case "toggle":
			if st.M < 1 || st.M > sc.N {
				continue
			}
			// the model toggles only between calls
			if !waitIdle(patience) {
				note("call still running: toggle skipped", st)
				continue
			}
			mu.Lock()
			mods[st.M-1].SetEnabled(st.Ok)
			tr.Emit(map[string]any{"e": "toggle", "m": st.M, "on": st.Ok, "h": 0})
			mu.Unlock()
		case "expire":
			// the start routine of module st.M stays at its gate beyond the (shortened) start timeout: the manager
			// gives up on it; the routine itself returns only when a later step finishes it
			var hung *parked
			for k := 0; k < 2000 && hung == nil; k++ {
				mu.Lock()
				for _, g := range gates {
					if g.m == st.M && g.cb == "start" {
						hung = g
					}
				}
				mu.Unlock()
				if hung == nil {
					time.Sleep(200 * time.Microsecond)
				}
			}
			if hung == nil || sc.StartTimeoutMs <= 0 {
				note("start routine not parked: step skipped", st)
				continue
			}
			time.Sleep(time.Until(hung.at.Add(time.Duration(sc.StartTimeoutMs+150) * time.Millisecond)))
			mu.Lock()
			tr.Emit(map[string]any{"e": "expired", "m": st.M, "cb": "start", "h": 0})
			mu.Unlock()
			waitIdle(2 * time.Second)
		case "finish":
			p := waitParked(st.M, patience)
			if p == nil {
				note("callback not parked: step skipped", st)
				continue
			}
			p.ch <- outcome{ok: st.Ok, how: st.How}
		}
		tr.Flush()
	}
	// end of script: let everything run to completion, then shut down if the script did not
	hang := !settle(10 * time.Second)
	if !hang && started && !shut {
		shut = true
		api("shutdown")
		hang = !settle(10 * time.Second)
	}
	if hang {
		tr.Emit(map[string]any{"e": "hang", "h": 0})
	}
	tr.Close()
	os.Exit(0)
}
