// Command cont executes container operation histories generated from spec/ContainerGen.tla
// against the real container package and records what the code did (property C16).
//
// usage: cont <scripts.ndjson> <trace.ndjson>
package main

import (
	"encoding/json"
	"fmt"
	"os"
	"strconv"

	"github.com/safing/portbase/container"

	"verifharness/internal/vio"
)

type op struct {
	Op    string  `json:"op"`
	B     []int   `json:"b"`
	N     int     `json:"n"`
	Num   []int   `json:"num"`
	Parts [][]int `json:"parts"`
	C     int     `json:"c"`    // container the operation works on (1 = the one the history started with)
	Keep  bool    `json:"keep"` // the returned container/slice lives on as a further container
}

// produced is the container handed out by the last operation (for op.Keep).
var produced *container.Container

// contents reads what a container holds without changing it.
func contents(c *container.Container) (b []int) {
	defer func() {
		if recover() != nil {
			b = []int{-1} // never a byte: the step is rejected
		}
	}()
	return vio.Ints(c.Peek(c.Length()))
}

// handOut reports a container returned by an operation; a kept one is read without compiling it,
// so that it goes on sharing memory with its origin as it would in a caller's hands.
func handOut(o op, nc *container.Container) res {
	if o.Keep {
		produced = nc
		return res{Ok: true, Data: contents(nc), Num: []int{0}}
	}
	return okData(nc.CompileData())
}

func handOutSlice(o op, b []byte) res {
	if o.Keep {
		produced = container.New(b)
	}
	return okData(b)
}

type res struct {
	Ok    bool   `json:"ok"`
	Data  []int  `json:"data"`
	Num   []int  `json:"num"`
	Flag  bool   `json:"flag"`
	Panic string `json:"panic,omitempty"`
}

type step struct {
	Op op `json:"op"`
}

type script struct {
	Init  [][]int `json:"init"`
	Steps []step  `json:"steps"`
}

func parts(p [][]int) [][]byte {
	r := make([][]byte, len(p))
	for i, x := range p {
		r[i] = vio.Bytes(x)
	}
	return r
}

func okNone() res         { return res{Ok: true, Data: []int{}, Num: []int{0}} }
func okData(b []byte) res { return res{Ok: true, Data: vio.Ints(b), Num: []int{0}} }
func errRes() res         { return res{Ok: false, Data: []int{}, Num: []int{0}} }
func okNum(n uint64) res  { return res{Ok: true, Data: []int{}, Num: vio.Digits(n)} }
func okFlag(f bool) res   { return res{Ok: true, Data: []int{}, Num: []int{0}, Flag: f} }

func exec(c *container.Container, o op) (r res) {
	defer func() {
		if p := recover(); p != nil {
			r = res{Ok: false, Data: []int{}, Num: []int{0}, Panic: fmt.Sprint(p)}
		}
	}()
	switch o.Op {
	case "Append":
		c.Append(vio.Bytes(o.B))
		return okNone()
	case "Prepend":
		c.Prepend(vio.Bytes(o.B))
		return okNone()
	case "AppendNumber":
		c.AppendNumber(vio.FromDigits(o.Num))
		return okNone()
	case "PrependNumber":
		c.PrependNumber(vio.FromDigits(o.Num))
		return okNone()
	case "AppendInt":
		c.AppendInt(int(vio.FromDigits(o.Num)))
		return okNone()
	case "PrependInt":
		c.PrependInt(int(vio.FromDigits(o.Num)))
		return okNone()
	case "AppendAsBlock":
		c.AppendAsBlock(vio.Bytes(o.B))
		return okNone()
	case "PrependAsBlock":
		c.PrependAsBlock(vio.Bytes(o.B))
		return okNone()
	case "PrependLength":
		c.PrependLength()
		return okNone()
	case "AppendContainer":
		c.AppendContainer(container.New(parts(o.Parts)...))
		return okNone()
	case "AppendContainerAsBlock":
		c.AppendContainerAsBlock(container.New(parts(o.Parts)...))
		return okNone()
	case "AppendUsedContainer", "AppendUsedContainerAsBlock":
		src := container.New(parts(o.Parts)...)
		_, _ = src.Get(o.N) // consume the first bytes of the source (fails and consumes nothing if it is shorter)
		if o.Op == "AppendUsedContainer" {
			c.AppendContainer(src)
		} else {
			c.AppendContainerAsBlock(src)
		}
		return okNone()
	case "Replace":
		c.Replace(vio.Bytes(o.B))
		return okNone()
	case "Reload":
		b, err := c.MarshalJSON()
		if err != nil {
			return errRes()
		}
		if err := c.UnmarshalJSON(b); err != nil {
			return errRes()
		}
		return okNone()
	case "Peek":
		return handOutSlice(o, c.Peek(o.N))
	case "PeekContainer":
		nc := c.PeekContainer(o.N)
		if nc == nil {
			return errRes()
		}
		return handOut(o, nc)
	case "CompileData":
		return okData(c.CompileData())
	case "HoldsData":
		return okFlag(c.HoldsData())
	case "Get":
		b, err := c.Get(o.N)
		if err != nil {
			return errRes()
		}
		return handOutSlice(o, b)
	case "GetAsContainer":
		nc, err := c.GetAsContainer(o.N)
		if err != nil {
			return errRes()
		}
		return handOut(o, nc)
	case "GetMax":
		return handOutSlice(o, c.GetMax(o.N))
	case "GetAll":
		return handOutSlice(o, c.GetAll())
	case "WriteToSlice":
		buf := make([]byte, o.N)
		n, emptied := c.WriteToSlice(buf)
		if n < 0 || n > len(buf) {
			return res{Ok: false, Data: []int{}, Num: []int{0}, Panic: fmt.Sprintf("WriteToSlice returned n=%d for a slice of %d", n, len(buf))}
		}
		r := okData(buf[:n])
		r.Flag = emptied
		return r
	case "GetNextBlock":
		b, err := c.GetNextBlock()
		if err != nil {
			return errRes()
		}
		return handOutSlice(o, b)
	case "GetNextBlockAsContainer":
		nc, err := c.GetNextBlockAsContainer()
		if err != nil {
			return errRes()
		}
		return handOut(o, nc)
	case "GetNextN":
		var v uint64
		var err error
		switch o.N {
		case 8:
			var x uint8
			x, err = c.GetNextN8()
			v = uint64(x)
		case 16:
			var x uint16
			x, err = c.GetNextN16()
			v = uint64(x)
		case 32:
			var x uint32
			x, err = c.GetNextN32()
			v = uint64(x)
		default:
			v, err = c.GetNextN64()
		}
		if err != nil {
			return errRes()
		}
		return okNum(v)
	}
	return res{Panic: "unknown op " + o.Op}
}

func length(c *container.Container) (n int) {
	defer func() {
		if recover() != nil {
			n = -1
		}
	}()
	return c.Length()
}

func main() {
	if len(os.Args) < 3 {
		fmt.Fprintln(os.Stderr, "usage: cont <scripts> <trace> [skip]")
		os.Exit(2)
	}
	skip := 0
	if len(os.Args) > 3 {
		skip, _ = strconv.Atoi(os.Args[3])
	}
	tr, err := vio.NewTrace(os.Args[2])
	if err != nil {
		fmt.Fprintln(os.Stderr, err)
		os.Exit(2)
	}
	n := 0
	err = vio.ReadLines(os.Args[1], func(line []byte) error {
		if n < skip {
			n++
			return nil
		}
		var s script
		if err := json.Unmarshal(line, &s); err != nil {
			return err
		}
		cs := []*container.Container{container.New(parts(s.Init)...)}
		init := s.Init
		if init == nil {
			init = [][]int{}
		}
		tr.EmitRaw(map[string]any{"e": "new", "parts": init, "h": n})
		for _, st := range s.Steps {
			// announce the operation first: if it kills the process (fatal error, not a panic) the
			// orchestrator sees which one it was
			tr.EmitRaw(map[string]any{"e": "try", "op": st.Op, "h": n})
			tr.Flush()
			o := st.Op
			// the script was generated along one of the outcomes the model allows; where the code took
			// another allowed one it may hold fewer containers: map the indices onto those that exist
			if o.C < 1 {
				o.C = 1
			}
			o.C = (o.C-1)%len(cs) + 1
			existing := o.Op == "AppendExisting" || o.Op == "AppendExistingAsBlock"
			if existing {
				if len(cs) < 2 {
					continue
				}
				if o.N < 1 {
					o.N = 1
				}
				o.N = (o.N-1)%len(cs) + 1
				if o.N == o.C {
					o.N = o.N%len(cs) + 1
				}
			}
			var r res
			produced = nil
			switch {
			case existing && o.Op == "AppendExisting":
				cs[o.C-1].AppendContainer(cs[o.N-1])
				r = okNone()
			case existing:
				cs[o.C-1].AppendContainerAsBlock(cs[o.N-1])
				r = okNone()
			default:
				r = exec(cs[o.C-1], o)
			}
			if r.Ok && r.Panic == "" && produced != nil {
				cs = append(cs, produced)
			}
			c := cs[min(o.C, len(cs))-1]
			all := make([][]int, len(cs))
			for i := range cs {
				all[i] = contents(cs[i])
			}
			if o.B == nil {
				o.B = []int{}
			}
			if o.Parts == nil {
				o.Parts = [][]int{}
			}
			tr.EmitRaw(map[string]any{"e": "op", "op": o, "res": r, "len": length(c), "all": all, "h": n})
			if r.Panic != "" {
				break
			}
		}
		n++
		return nil
	})
	tr.Close()
	if err != nil {
		fmt.Fprintln(os.Stderr, err)
		os.Exit(2)
	}
	fmt.Printf("histories=%d\n", n)
}
