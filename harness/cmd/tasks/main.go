// Command tasks replays one script (behaviour of spec/TasksImpl.tla, or an order script) against the real
// task queue and schedule handlers of the modules package (property C07).  Every task lives on its own
// module so that the verif yield points identify it; task functions are gates; the handlers park at
// queue.popped, sched.arm, sched.fired, sched.decided and task.checked.  One process per script.
//
// usage: tasks <script.ndjson> <trace.ndjson> [skip]
package main

import (
	"context"
	"encoding/json"
	"fmt"
	"os"
	"strings"
	"sync"
	"time"

	"github.com/safing/portbase/log"
	"github.com/safing/portbase/modules"

	"verifharness/internal/sched"
	"verifharness/internal/vio"
)

type step struct {
	A  string `json:"a"` // api tick qh sh end await
	T  int    `json:"t"`
	K  string `json:"k"`
	At int    `json:"at"`
}

type script struct {
	N       int    `json:"n"`
	MD      int    `json:"md"`   // max delay in clock units (> 50: library default of one minute)
	Unit    int    `json:"unit"` // milliseconds per clock unit
	Ordered bool   `json:"ordered"`
	Auto    bool   `json:"auto"` // task functions return by themselves after HoldMs
	HoldMs  int    `json:"holdMs"`
	FreeH   bool   `json:"freeHandlers"` // the queue and schedule handlers are not parked at yield points
	Panics  []int  `json:"panics"`       // tasks whose function panics instead of returning (every run)
	Steps   []step `json:"steps"`
}

var (
	tr      *vio.Trace
	sch     *sched.Sched
	sc      script
	mods    []*modules.Module
	tasks   []*modules.Task
	mu      sync.Mutex
	running = map[int]bool{}
	manual  = map[int]bool{} // tasks whose function waits for an explicit end step even in auto mode
)

func emit(ev map[string]any) {
	ev["t"] = sch.Ms()
	ev["h"] = 0
	tr.Emit(ev)
}

func taskFn(k int) func(context.Context, *modules.Task) error {
	return func(ctx context.Context, _ *modules.Task) error {
		actor := fmt.Sprintf("t%d", k)
		sch.Bind(actor)
		defer sch.Unbind()
		mu.Lock()
		running[k] = true
		hold := sc.Auto && !manual[k]
		mu.Unlock()
		emit(map[string]any{"e": "begin", "task": k, "ctxdone": ctx.Err() != nil})
		if hold {
			time.Sleep(time.Duration(sc.HoldMs) * time.Millisecond)
		} else {
			sch.Yield("fn", actor)
			// do not return within microseconds: see the note on the queue slot race in cmd/stopwork
			time.Sleep(20 * time.Millisecond)
		}
		emit(map[string]any{"e": "end", "task": k})
		mu.Lock()
		running[k] = false
		mu.Unlock()
		for _, p := range sc.Panics {
			if p == k {
				panic(fmt.Sprintf("injected panic in task %d", k))
			}
		}
		return nil
	}
}

var (
	repeating = map[int]bool{}
	maxRepMs  int
)

func anyRunning() bool {
	mu.Lock()
	defer mu.Unlock()
	for _, r := range running {
		if r {
			return true
		}
	}
	return false
}

func main() {
	if len(os.Args) < 3 {
		fmt.Fprintln(os.Stderr, "usage: tasks <script> <trace> [skip]")
		os.Exit(2)
	}
	first := true
	err := vio.ReadLines(os.Args[1], func(line []byte) error {
		if !first {
			return nil
		}
		first = false
		return json.Unmarshal(line, &sc)
	})
	if err != nil {
		fmt.Fprintln(os.Stderr, err)
		os.Exit(2)
	}
	tr, err = vio.NewTrace(os.Args[2])
	if err != nil {
		fmt.Fprintln(os.Stderr, err)
		os.Exit(2)
	}
	if sc.Unit <= 0 {
		sc.Unit = 100
	}
	if sc.HoldMs <= 0 {
		sc.HoldMs = 25
	}
	for _, st := range sc.Steps {
		if st.A == "end" || st.A == "await" {
			manual[st.T] = true
		}
	}
	log.SetLogLevel(log.CriticalLevel)
	modules.SetStdErrReporting(false)
	for k := 1; k <= sc.N; k++ {
		mods = append(mods, modules.Register(fmt.Sprintf("M%d", k), nil, nil, nil))
	}
	tagTask := func(m *modules.Module) int {
		if m == nil || !strings.HasPrefix(m.Name, "M") {
			return 0
		}
		var k int
		fmt.Sscanf(m.Name, "M%d", &k)
		return k
	}
	sch = sched.New()
	modules.VerifHook = func(point string, m *modules.Module) {
		switch point {
		case "queue.popped":
			if sch.Actor() == "" {
				sch.Bind("qh")
			}
			if !sc.FreeH {
				sch.Yield(point, "")
			}
		case "sched.arm", "sched.fired", "sched.decided":
			if sch.Actor() == "" {
				sch.Bind("sh")
			}
			if point == "sched.decided" {
				emit(map[string]any{"e": "note", "point": point, "task": tagTask(m)})
			}
			if !sc.FreeH {
				sch.Yield(point, "")
			}
		case "task.deferred":
			// the deferred bookkeeping of a panicking run is slow (the panic is reported first): whatever the code
			// releases before it has reset the task's state gets a head start
			for _, p := range sc.Panics {
				if p == tagTask(m) {
					time.Sleep(30 * time.Millisecond)
				}
			}
		case "task.checked":
			emit(map[string]any{"e": "checked", "task": tagTask(m), "by": sch.Actor()})
			if a := sch.Actor(); (a == "qh" || a == "sh") && !sc.FreeH {
				sch.Yield(point, "")
			}
		}
	}
	if err := modules.Start(); err != nil {
		fmt.Fprintln(os.Stderr, "start failed:", err)
		os.Exit(2)
	}
	mdMs := 60000
	if sc.MD > 0 && sc.MD <= 50 {
		mdMs = sc.MD * sc.Unit
	}
	tr.Emit(map[string]any{"e": "init", "n": sc.N, "ordered": sc.Ordered, "md": sc.MD, "mdMs": mdMs, "unit": sc.Unit, "h": 0, "t": 0})

	t0 := time.Now()
	base := sch.Ms()
	for k := 1; k <= sc.N; k++ {
		t := mods[k-1].NewTask(fmt.Sprintf("task%d", k), taskFn(k))
		if sc.MD > 0 && sc.MD <= 50 {
			t.MaxDelay(time.Duration(sc.MD*sc.Unit) * time.Millisecond)
		}
		tasks = append(tasks, t)
	}
	clock := 0
	lastSched := 0
	for _, st := range sc.Steps {
		if st.A == "api" && st.K == "schedule" && st.At > lastSched {
			lastSched = st.At
		}
	}
	for _, st := range sc.Steps {
		switch st.A {
		case "tick":
			clock++
			target := t0.Add(time.Duration(clock*sc.Unit) * time.Millisecond)
			if d := time.Until(target); d > 0 {
				time.Sleep(d)
			}
		case "api":
			if st.T < 1 || st.T > sc.N {
				continue
			}
			t := tasks[st.T-1]
			switch st.K {
			case "cancel":
				t.Cancel()
				emit(map[string]any{"e": "cancelret", "task": st.T})
			case "unschedule":
				t.Schedule(time.Time{})
				emit(map[string]any{"e": "unsched", "task": st.T})
			case "schedule":
				at := base + st.At*sc.Unit
				emit(map[string]any{"e": "sub", "task": st.T, "kind": "schedule", "at": at})
				t.Schedule(t0.Add(time.Duration(st.At*sc.Unit) * time.Millisecond))
			case "repeat":
				// Task.Repeat with an interval of st.At clock units (through the verif accessor: the API itself
				// enforces a minimum of one minute)
				iv := st.At * sc.Unit
				mu.Lock()
				repeating[st.T] = true
				if iv > maxRepMs {
					maxRepMs = iv
				}
				mu.Unlock()
				emit(map[string]any{"e": "sub", "task": st.T, "kind": "repeat", "at": sch.Ms() + iv, "iv": iv})
				modules.VerifRepeat(t, time.Duration(iv)*time.Millisecond)
			case "repeatoff":
				t.Repeat(0)
				mu.Lock()
				repeating[st.T] = false
				mu.Unlock()
				emit(map[string]any{"e": "repoff", "task": st.T})
			case "queue":
				emit(map[string]any{"e": "sub", "task": st.T, "kind": "queue", "at": 0})
				t.Queue()
			case "prio":
				emit(map[string]any{"e": "sub", "task": st.T, "kind": "prio", "at": 0})
				t.QueuePrioritized()
			case "asap":
				emit(map[string]any{"e": "sub", "task": st.T, "kind": "asap", "at": 0})
				t.StartASAP()
			}
		case "qh", "sh":
			// model sub-step -> the yield point the handler is released from (empty: the step only
			// brings the handler to its next yield point, e.g. the timer firing or the pop itself)
			from := map[string]string{"arm": "sched.arm", "front": "sched.fired", "asap": "sched.decided", "rwl": "sched.decided", "launch": "task.checked"}[st.K]
			if st.A == "qh" {
				from = map[string]string{"rwl": "queue.popped", "launch": "task.checked"}[st.K]
			}
			if !sch.Await(st.A, 6*time.Millisecond, nil) {
				continue
			}
			if from == "" {
				continue
			}
			if _, at := sch.IsParked(st.A); at == from {
				sch.Release(st.A)
				sch.Settle(st.A, 3*time.Millisecond)
			}
			// the model's "arm" clears a pending notification and arms the timer in one step; the code needs one more
			// pass through its loop per pending notification before it waits on the timer
			for i := 0; st.A == "sh" && st.K == "arm" && i < 3; i++ {
				if p, at := sch.IsParked("sh"); !p || at != "sched.arm" {
					break
				}
				sch.Release("sh")
				sch.Settle("sh", 3*time.Millisecond)
			}
		case "end":
			a := fmt.Sprintf("t%d", st.T)
			if sch.Await(a, 4*time.Millisecond, nil) {
				sch.Release(a)
				// the model's End is the whole return incl. the deferred bookkeeping: wait for the function to
				// return and give the deferred part (counter, task lock, executing = false, new context) time
				deadline := time.Now().Add(300 * time.Millisecond)
				for time.Now().Before(deadline) {
					mu.Lock()
					r := running[st.T]
					mu.Unlock()
					if !r {
						break
					}
					time.Sleep(500 * time.Microsecond)
				}
				time.Sleep(8 * time.Millisecond)
			}
		case "await":
			sch.Await(fmt.Sprintf("t%d", st.T), 2*time.Second, nil)
		case "free":
			sch.Free()
		}
	}
	sch.Free()
	// repeating tasks stop repeating now (what is scheduled stays scheduled: one more run each)
	stopped := false
	for k := 1; k <= sc.N; k++ {
		mu.Lock()
		r := repeating[k]
		mu.Unlock()
		if r {
			tasks[k-1].Repeat(0)
			emit(map[string]any{"e": "repoff", "task": k})
			stopped = true
		}
	}
	if stopped || maxRepMs > 0 {
		time.Sleep(time.Duration(maxRepMs+350) * time.Millisecond)
	}
	// every scheduled time must have passed by a good margin before the final judgement
	if d := time.Until(t0.Add(time.Duration(lastSched*sc.Unit+350) * time.Millisecond)); d > 0 {
		time.Sleep(d)
	}
	// quiescence: nothing running for 400 ms (at most 6 s)
	quiet := time.Now()
	limit := time.Now().Add(6 * time.Second)
	for time.Since(quiet) < 400*time.Millisecond && time.Now().Before(limit) {
		if anyRunning() {
			quiet = time.Now()
		}
		time.Sleep(2 * time.Millisecond)
	}
	emit(map[string]any{"e": "final"})
	tr.Close()
	os.Exit(0)
}
