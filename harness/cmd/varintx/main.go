// Command varintx evaluates formats/varint on enumerated and model-generated inputs and records
// every call as one ndjson event for validation against spec/VarintTrace.tla (property C10).
//
// usage: varintx <directives.ndjson> <trace.ndjson> [skip]
package main

import (
	"encoding/json"
	"fmt"
	"math/rand"
	"os"
	"strconv"

	"github.com/safing/portbase/formats/varint"

	"verifharness/internal/vio"
)

type directive struct {
	Fam   string `json:"fam"`
	From  int    `json:"from"`
	To    int    `json:"to"`
	Seed  int64  `json:"seed"`
	Count int    `json:"count"`
	B     []int  `json:"b"`
	Num   []int  `json:"num"`
}

var (
	tr *vio.Trace
	h  int
)

func emit(ev map[string]any) {
	ev["h"] = h
	tr.EmitRaw(ev)
}

func guard(ev map[string]any, fn func()) {
	defer func() {
		if p := recover(); p != nil {
			ev["panic"] = fmt.Sprint(p)
			emit(ev)
		}
	}()
	fn()
}

func pack(w int, n uint64) []byte {
	switch w {
	case 8:
		return varint.Pack8(uint8(n))
	case 16:
		return varint.Pack16(uint16(n))
	case 32:
		return varint.Pack32(uint32(n))
	}
	return varint.Pack64(n)
}

func doPack(w int, n uint64) []byte {
	var out []byte
	ev := map[string]any{"e": "pack", "w": w, "num": vio.Digits(n)}
	guard(ev, func() {
		out = pack(w, n)
		ev["out"] = vio.Ints(out)
		ev["size"] = varint.EncodedSize(n)
		emit(ev)
	})
	return out
}

// spare returns b as a view into a larger array (as a receive buffer would be): what lies behind the end of the input is
// not part of it, whatever the capacity says.
func spare(b []byte) []byte {
	if b == nil {
		return nil
	}
	buf := make([]byte, len(b)+320)
	for i := range buf {
		buf[i] = byte(0x41 + i%23)
	}
	copy(buf, b)
	return buf[:len(b)]
}

func doUnpack(w int, b []byte) {
	ev := map[string]any{"e": "unpack", "w": w, "b": vio.Ints(b)}
	b = spare(b)
	guard(ev, func() {
		var v uint64
		var n int
		var err error
		switch w {
		case 8:
			var x uint8
			x, n, err = varint.Unpack8(b)
			v = uint64(x)
		case 16:
			var x uint16
			x, n, err = varint.Unpack16(b)
			v = uint64(x)
		case 32:
			var x uint32
			x, n, err = varint.Unpack32(b)
			v = uint64(x)
		default:
			v, n, err = varint.Unpack64(b)
		}
		if err != nil {
			ev["ok"], ev["num"], ev["n"] = false, []int{0}, 0
		} else {
			ev["ok"], ev["num"], ev["n"] = true, vio.Digits(v), n
		}
		emit(ev)
	})
}

func doBlock(b []byte) {
	ev := map[string]any{"e": "block", "b": vio.Ints(b)}
	b = spare(b)
	guard(ev, func() {
		data, total, err := varint.GetNextBlock(b)
		if err != nil {
			ev["ok"], ev["data"], ev["total"] = false, []int{}, 0
		} else {
			ev["ok"], ev["data"], ev["total"] = true, vio.Ints(data), total
		}
		emit(ev)
	})
}

func doPrepend(b []byte) {
	ev := map[string]any{"e": "prepend", "b": vio.Ints(b)}
	guard(ev, func() {
		cp := append([]byte{}, b...)
		ev["out"] = vio.Ints(varint.PrependLength(cp))
		emit(ev)
	})
}

var widths = []int{8, 16, 32, 64}

func fits(w int, n uint64) bool {
	return w == 64 || n < 1<<uint(w)
}

func number(n uint64) {
	for _, w := range widths {
		if !fits(w, n) {
			continue
		}
		out := doPack(w, n)
		for _, w2 := range widths {
			doUnpack(w2, out)
		}
	}
}

func run(d directive) {
	switch d.Fam {
	case "values": // every value in [from, to): pack in all fitting widths, unpack the result in all widths
		for n := d.From; n < d.To; n++ {
			number(uint64(n))
		}
	case "num":
		number(vio.FromDigits(d.Num))
	case "rand": // seeded random numbers of every bit length
		r := rand.New(rand.NewSource(d.Seed))
		for i := 0; i < d.Count; i++ {
			bits := 1 + r.Intn(64)
			n := r.Uint64() >> uint(64-bits)
			number(n)
		}
	case "bytes1":
		for a := 0; a < 256; a++ {
			for _, w := range widths {
				doUnpack(w, []byte{byte(a)})
			}
			doBlock([]byte{byte(a)})
		}
		for _, w := range widths {
			doUnpack(w, []byte{})
			doUnpack(w, nil)
		}
		doBlock(nil)
	case "bytes2": // all two-byte strings with first byte in [from, to)
		for a := d.From; a < d.To; a++ {
			for b := 0; b < 256; b++ {
				for _, w := range widths {
					doUnpack(w, []byte{byte(a), byte(b)})
				}
				doBlock([]byte{byte(a), byte(b)})
			}
		}
	case "bytes3": // three-byte strings over byte classes
		cl := []byte{0, 1, 2, 3, 127, 128, 129, 254, 255}
		for _, a := range cl {
			for _, b := range cl {
				for _, c := range cl {
					for _, w := range widths {
						doUnpack(w, []byte{a, b, c})
					}
					doBlock([]byte{a, b, c})
				}
			}
		}
	case "randbytes":
		r := rand.New(rand.NewSource(d.Seed))
		for i := 0; i < d.Count; i++ {
			n := r.Intn(14)
			b := make([]byte, n)
			for j := range b {
				switch r.Intn(4) {
				case 0:
					b[j] = byte(r.Intn(256))
				case 1:
					b[j] = 0x80 | byte(r.Intn(128))
				case 2:
					b[j] = 0xff
				default:
					b[j] = byte(r.Intn(4))
				}
			}
			for _, w := range widths {
				doUnpack(w, b)
			}
			doBlock(b)
		}
	case "unpack":
		for _, w := range widths {
			doUnpack(w, vio.Bytes(d.B))
		}
	case "block":
		doBlock(vio.Bytes(d.B))
		doPrepend(vio.Bytes(d.B))
	}
}

func main() {
	if len(os.Args) < 3 {
		fmt.Fprintln(os.Stderr, "usage: varintx <directives> <trace> [skip]")
		os.Exit(2)
	}
	skip := 0
	if len(os.Args) > 3 {
		skip, _ = strconv.Atoi(os.Args[3])
	}
	var err error
	tr, err = vio.NewTrace(os.Args[2])
	if err != nil {
		fmt.Fprintln(os.Stderr, err)
		os.Exit(2)
	}
	err = vio.ReadLines(os.Args[1], func(line []byte) error {
		if h < skip {
			h++
			return nil
		}
		var d directive
		if err := json.Unmarshal(line, &d); err != nil {
			return err
		}
		tr.EmitRaw(map[string]any{"e": "try", "h": h})
		tr.Flush()
		run(d)
		h++
		return nil
	})
	tr.Close()
	if err != nil {
		fmt.Fprintln(os.Stderr, err)
		os.Exit(2)
	}
}
