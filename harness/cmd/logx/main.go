// Command logx runs one logging workload (generated from spec/LogAbsGen.tla) against the real logger and
// records what producers submitted and what the output adapter received (property C20).  The logger is a
// process-wide singleton: one process per script.
//
// usage: logx <script.ndjson> <trace.ndjson> [skip]
package main

import (
	"encoding/json"
	"fmt"
	"os"
	"regexp"
	"sync"
	"time"

	"github.com/safing/portbase/log"

	"verifharness/cmd/logx/other"
	"verifharness/internal/vio"
)

type op struct {
	Kind   string `json:"kind"` // log tracer setlevel setpkg unsetpkg burst
	P      int    `json:"p"`
	Origin string `json:"origin"`
	Sev    int    `json:"sev"`
	Rep    int    `json:"rep"`
	K      int    `json:"k"`
	Lines  []int  `json:"lines"` // tracer: severities of the collected lines
	A      int    `json:"a"`
	B      int    `json:"b"`
}

type script struct {
	NP      int  `json:"np"`
	Ops     []op `json:"ops"`
	Paced   bool `json:"paced"`   // writer paced by TriggerWriter instead of free running
	StallMs int  `json:"stallMs"` // paced: the writer is not triggered for this long at the beginning
	PaceUs  int  `json:"paceUs"`  // paced: trigger interval
	Burst   int  `json:"burst"`   // extra unique lines per producer in the first phase (buffer overflow runs)
	ShutMs  int  `json:"shutMs"`  // delay between the last log call and Shutdown
	Shut2Ms int  `json:"shut2Ms"` // > 0: a second goroutine calls Shutdown too, this long after the first call
	SlowUs  int  `json:"slowUs"`  // the adapter takes this long per message (a slow terminal or file)
	Pulses  int  `json:"pulses"`  // closing phase: single line, short pause, then more lines than the buffer holds (xN)
}

var (
	tr    *vio.Trace
	token = regexp.MustCompile(`p[0-9]+-[0-9]+`)
)

func emit(ev map[string]any) {
	ev["h"] = 0
	tr.Emit(ev)
}

func text(p, k int) string { return fmt.Sprintf("p%d-%d", p, k) }

func runOp(o op) {
	switch o.Kind {
	case "log":
		txt := text(o.P, 100*o.K)
		emit(map[string]any{"e": "log", "p": o.P, "origin": o.Origin, "sev": o.Sev, "txt": txt, "rep": o.Rep})
		if o.Origin == "other" {
			other.Emit(o.Sev, txt, o.Rep)
		} else {
			emitHere(o.Sev, txt, o.Rep)
		}
	case "tracer":
		ls := make([]map[string]any, len(o.Lines))
		a := make([]other.Line, len(o.Lines))
		b := make([]lineHere, len(o.Lines))
		for i, s := range o.Lines {
			txt := text(o.P, 100*o.K+i+1)
			ls[i] = map[string]any{"sev": s, "txt": txt}
			a[i] = other.Line{Sev: s, Txt: txt}
			b[i] = lineHere{Sev: s, Txt: txt}
		}
		emit(map[string]any{"e": "tracer", "p": o.P, "origin": o.Origin, "lines": ls})
		if o.Origin == "other" {
			other.Tracer(a)
		} else {
			tracerHere(b)
		}
	}
}

func lvl(n int) log.Severity { return log.Severity(n) }

func main() {
	if len(os.Args) < 3 {
		fmt.Fprintln(os.Stderr, "usage: logx <script> <trace> [skip]")
		os.Exit(2)
	}
	var sc script
	first := true
	err := vio.ReadLines(os.Args[1], func(line []byte) error {
		if !first {
			return nil
		}
		first = false
		return json.Unmarshal(line, &sc)
	})
	if err != nil {
		fmt.Fprintln(os.Stderr, err)
		os.Exit(2)
	}
	tr, err = vio.NewTrace(os.Args[2])
	if err != nil {
		fmt.Fprintln(os.Stderr, err)
		os.Exit(2)
	}
	tr.Emit(map[string]any{"e": "init", "np": sc.NP, "h": 0})
	log.SetAdapter(log.AdapterFunc(func(msg log.Message, dups uint64) {
		if sc.SlowUs > 0 {
			time.Sleep(time.Duration(sc.SlowUs) * time.Microsecond)
		}
		toks := token.FindAllString(log.StdoutAdapter.Format(msg, dups), -1)
		lines := []string{}
		if len(toks) > 1 {
			// main line (= last collected line) first, then the other collected lines in order
			lines = append(append(lines, toks[1:]...), toks[0])
		}
		emit(map[string]any{"e": "out", "txt": msg.Text(), "sev": int(msg.Severity()), "dups": int(dups), "lines": lines})
	}))
	if sc.Paced {
		log.EnableScheduling()
	}
	log.SetLogLevel(log.InfoLevel)
	if err := log.Start(); err != nil {
		fmt.Fprintln(os.Stderr, err)
		os.Exit(2)
	}
	stopPacer := make(chan struct{})
	if sc.Paced {
		go func() {
			time.Sleep(time.Duration(sc.StallMs) * time.Millisecond)
			iv := time.Duration(sc.PaceUs) * time.Microsecond
			if iv <= 0 {
				iv = 500 * time.Microsecond
			}
			for {
				select {
				case <-stopPacer:
					return
				default:
				}
				log.TriggerWriter()
				time.Sleep(iv)
			}
		}()
	}
	// phases: maximal runs of producer operations; level changes happen while no producer runs
	i := 0
	firstPhase := true
	for i < len(sc.Ops) {
		o := sc.Ops[i]
		switch o.Kind {
		case "setlevel":
			log.SetLogLevel(lvl(o.Sev))
			emit(map[string]any{"e": "setlevel", "lvl": o.Sev})
			i++
			continue
		case "setpkg":
			m := map[string]log.Severity{}
			if o.A != 0 {
				m["logx"] = lvl(o.A)
			}
			if o.B != 0 {
				m["other"] = lvl(o.B)
			}
			log.SetPkgLevels(m)
			emit(map[string]any{"e": "setpkg", "a": o.A, "b": o.B})
			i++
			continue
		case "unsetpkg":
			log.UnSetPkgLevels()
			emit(map[string]any{"e": "unsetpkg"})
			i++
			continue
		}
		j := i
		progs := map[int][]op{}
		for j < len(sc.Ops) && (sc.Ops[j].Kind == "log" || sc.Ops[j].Kind == "tracer") {
			progs[sc.Ops[j].P] = append(progs[sc.Ops[j].P], sc.Ops[j])
			j++
		}
		if firstPhase && sc.Burst > 0 {
			for p := 1; p <= sc.NP; p++ {
				for k := 0; k < sc.Burst; k++ {
					progs[p] = append(progs[p], op{Kind: "log", P: p, Origin: "logx", Sev: 6, Rep: 1, K: 1000000 + k})
				}
			}
		}
		firstPhase = false
		var wg sync.WaitGroup
		for _, prog := range progs {
			wg.Add(1)
			go func(prog []op) {
				defer wg.Done()
				for _, o := range prog {
					runOp(o)
				}
			}(prog)
		}
		wg.Wait()
		i = j
	}
	// pulses: one line wakes the writer, which writes it and backs off for 10 ms; during that pause more lines than
	// the buffer holds arrive, so the writer is woken by a blocked producer (forced emptying) instead of the token
	for pu := 0; pu < sc.Pulses; pu++ {
		base := 2000000 + pu*10000
		runOp(op{Kind: "log", P: 1, Origin: "logx", Sev: 6, Rep: 1, K: base})
		time.Sleep(2 * time.Millisecond)
		for k := 1; k <= 1100; k++ {
			runOp(op{Kind: "log", P: 1, Origin: "logx", Sev: 6, Rep: 1, K: base + k})
		}
		time.Sleep(15 * time.Millisecond)
	}
	if sc.ShutMs > 0 {
		time.Sleep(time.Duration(sc.ShutMs) * time.Millisecond)
	}
	emit(map[string]any{"e": "shutcall"})
	if sc.Shut2Ms > 0 {
		// two callers (say a signal handler and the regular exit path): each returns only after everything is written
		first := make(chan struct{})
		go func() {
			log.Shutdown()
			emit(map[string]any{"e": "shutret"})
			close(first)
		}()
		time.Sleep(time.Duration(sc.Shut2Ms) * time.Millisecond)
		emit(map[string]any{"e": "shutcall"})
		log.Shutdown()
		emit(map[string]any{"e": "shutret"})
		<-first
	} else {
		log.Shutdown()
		emit(map[string]any{"e": "shutret"})
	}
	close(stopPacer)
	tr.Close()
	os.Exit(0)
}
