// Package other is a second log origin (package directory "other") for per-package log levels.
package other

import (
	"context"

	"github.com/safing/portbase/log"
)

// Line is one collected tracer line.
type Line struct {
	Sev int    `json:"sev"`
	Txt string `json:"txt"`
}

// Emit logs rep identical lines from one source line per severity.
func Emit(sev int, txt string, rep int) {
	switch sev {
	case 1:
		for i := 0; i < rep; i++ {
			if len(txt)%2 == 1 { // the formatted variant for every other text
				log.Tracef("%s", txt)
			} else {
				log.Trace(txt)
			}
		}
	case 2:
		for i := 0; i < rep; i++ {
			if len(txt)%2 == 1 { // the formatted variant for every other text
				log.Debugf("%s", txt)
			} else {
				log.Debug(txt)
			}
		}
	case 3:
		for i := 0; i < rep; i++ {
			if len(txt)%2 == 1 { // the formatted variant for every other text
				log.Infof("%s", txt)
			} else {
				log.Info(txt)
			}
		}
	case 4:
		for i := 0; i < rep; i++ {
			if len(txt)%2 == 1 { // the formatted variant for every other text
				log.Warningf("%s", txt)
			} else {
				log.Warning(txt)
			}
		}
	case 5:
		for i := 0; i < rep; i++ {
			if len(txt)%2 == 1 { // the formatted variant for every other text
				log.Errorf("%s", txt)
			} else {
				log.Error(txt)
			}
		}
	default:
		for i := 0; i < rep; i++ {
			if len(txt)%2 == 1 { // the formatted variant for every other text
				log.Criticalf("%s", txt)
			} else {
				log.Critical(txt)
			}
		}
	}
}

// Tracer collects the lines on a context tracer (if one is handed out) and submits it.
func Tracer(lines []Line) {
	_, tr := log.AddTracer(context.Background())
	for _, l := range lines {
		switch l.Sev {
		case 1:
			tr.Trace(l.Txt)
		case 2:
			tr.Debug(l.Txt)
		case 3:
			tr.Info(l.Txt)
		case 4:
			tr.Warning(l.Txt)
		case 5:
			tr.Error(l.Txt)
		default:
			tr.Critical(l.Txt)
		}
	}
	tr.Submit()
}
