// Command apibr executes call histories generated from spec/ApiBrGen.tla against the database bridge of the
// real api package (database "api:", api_bridge.go) and against the built-in endpoints (extension check X10),
// and records what came back; the judgement is made by TLC with spec/ApiBrTrace.tla.
//
// The process starts the real module system (api, config, database) on a temporary data root with the HTTP
// server on a loopback port, registers instrumented endpoints below x10/, an authenticator that turns the
// request header X-Verif-Perm into a token, and a module x10mod with the event x10ev.  Every operation of a
// script is executed through the database interface (Get / Put on api:<key>) or over real HTTP, "pair"
// operations both ways.  The mapping from the symbolic request of the model to the concrete key, record and
// bytes is written into every event (field "conc").
//
// usage: apibr <scripts.ndjson> <trace.ndjson> [skip]
package main

import (
	"bytes"
	"context"
	"encoding/base64"
	"encoding/json"
	"errors"
	"fmt"
	"io"
	"math/rand"
	"net"
	"net/http"
	"net/url"
	"os"
	"regexp"
	"sort"
	"strconv"
	"strings"
	"sync"
	"sync/atomic"
	"syscall"
	"time"

	"github.com/gorilla/websocket"

	"github.com/safing/portbase/api"
	"github.com/safing/portbase/config"
	"github.com/safing/portbase/database"
	_ "github.com/safing/portbase/database/dbmodule"
	_ "github.com/safing/portbase/database/storage/hashmap"
	"github.com/safing/portbase/database/query"
	"github.com/safing/portbase/database/record"
	"github.com/safing/portbase/dataroot"
	"github.com/safing/portbase/formats/dsd"
	"github.com/safing/portbase/modules"

	"verifharness/internal/vio"
)

// ------------------------------------------------------------------------------------------ script

type opT struct {
	Op    string `json:"op"`
	On    bool   `json:"on"`
	S     string `json:"s"`
	Slot  int    `json:"slot"`
	Perm  int    `json:"perm"`
	Ch    string `json:"ch"`
	Ep    string `json:"ep"`
	Kf    string `json:"kf"`
	M     string `json:"m"`
	Data  string `json:"data"`
	Query string `json:"query"`
	Mime  string `json:"mime"`
	Pf    string `json:"pf"`
	Cred  string `json:"cred"`
	Hm    string `json:"hm"`
}

type script struct {
	Steps []opT `json:"steps"`
	Seed  int64 `json:"seed"`
}

// ------------------------------------------------------------------------------------------ concrete values

var (
	someData = []byte("verif\x00\xff data {\"a\":1}")
	queryOne = map[string]string{"a": "1"}
	queryTwo = map[string]string{"a": "1", "b": "x y&z=%41+/é"}
	badMeths = []string{"GE T", "G(T", "POST\r\nX-Y: z", " ", "GET /x HTTP/1.0\r\n\r\nGET", "é", "A\x00B", "GET\n"}
	// keys that leave /api/v1/ once joined and cleaned; /api/x10out is served by an open handler of the driver
	escapes = []string{"../v2/%s", "..", "../../etc/passwd", "x10/../../%s", "../v1x/%s", ".", "../x10out", "../x10out", "zz/../../x10out"}
)

const (
	bodyEcho     = "x10 echo\n"
	msgFail      = "x10 failure"
	msgConflict  = "x10 conflict"
	structJSON   = `{"X10":"struct","N":7}`
	cookieName   = "Portmaster-API-Token"
	permHeader   = "X-Verif-Perm"
	ownPrefix    = "x10/"
	triggerMod   = "x10mod"
	triggerEvent = "x10ev"
)

func pathOf(ep string) string {
	switch ep {
	case "ping", "endpoints":
		return ep
	case "cfgopts":
		return "config/options"
	case "authperm":
		return "auth/permissions"
	case "bearer":
		return "auth/bearer"
	case "basic":
		return "auth/basic"
	case "reset":
		return "auth/reset"
	case "modstatus":
		return "modules/status"
	case "trigger":
		return "modules/" + triggerMod + "/trigger/" + triggerEvent
	case "triggerbad":
		return "modules/" + triggerMod + "/trigger/nosuch"
	case "none":
		return ownPrefix + "nosuch"
	}
	return ownPrefix + ep
}

func keyOf(o *opT, r *rand.Rand) string {
	p := pathOf(o.Ep)
	switch o.Kf {
	case "dotdot":
		return "zz/../" + p
	case "qkey":
		return p + "?a=1"
	case "escape":
		e := escapes[r.Intn(len(escapes))]
		if strings.Contains(e, "%s") {
			return fmt.Sprintf(e, p)
		}
		return e
	case "empty":
		return ""
	case "weird":
		// odd but legal database keys: the statement only demands that the call returns
		w := []string{p + "?a=b c", p + "?a HTTP/1.1", p + "%zz", p + "#x y", "a b/../" + p, p + "?a=\xff", p + "\x7f",
			p + "?%zz", "//" + p, p + "/", "./" + p, p + "?a=1&a=2;b", p + "\r\nX-Y: z", " " + p, p + "?" + strings.Repeat("x y", 3)}
		return w[r.Intn(len(w))]
	}
	return p
}

func queryOf(o *opT) map[string]string {
	switch o.Query {
	case "one":
		return queryOne
	case "two":
		return queryTwo
	}
	return nil
}

// ------------------------------------------------------------------------------------------ instrumentation

type slotT struct {
	sync.Mutex
	inv   int
	invep string
	sm    string
	sin   string
	sq    string
	sct   string
	str   int
	stw   int
}

var slot slotT

func resetSlot() {
	slot.Lock()
	slot.inv, slot.invep, slot.sm, slot.sin, slot.sq, slot.sct, slot.str, slot.stw = 0, "", "", "", "", "", -9, -9
	slot.Unlock()
}

func sameMap(a url.Values, b map[string]string) bool {
	if len(a) != len(b) {
		return false
	}
	for k, v := range b {
		if vs, ok := a[k]; !ok || len(vs) != 1 || vs[0] != v {
			return false
		}
	}
	return true
}

func see(ep string, ar *api.Request) {
	slot.Lock()
	defer slot.Unlock()
	slot.inv++
	slot.invep = ep
	slot.sm = ar.Request.Method
	switch {
	case len(ar.InputData) == 0:
		slot.sin = "none"
	case bytes.Equal(ar.InputData, someData):
		slot.sin = "some"
	default:
		slot.sin = "other"
	}
	q := ar.Request.URL.Query()
	switch {
	case len(q) == 0:
		slot.sq = "none"
	case sameMap(q, queryOne):
		slot.sq = "one"
	case sameMap(q, queryTwo):
		slot.sq = "two"
	default:
		slot.sq = "other"
	}
	switch ct := ar.Request.Header.Get("Content-Type"); ct {
	case "":
		slot.sct = "none"
	case "application/json":
		slot.sct = "json"
	default:
		slot.sct = "other"
	}
	if ar.AuthToken != nil {
		slot.str, slot.stw = int(ar.AuthToken.Read), int(ar.AuthToken.Write)
	}
}

var eventCount atomic.Int64

func register() error {
	api.RegisterHandler("/api/x10out", outHandler{})
	echo := func(ep string) api.ActionFunc {
		return func(ar *api.Request) (string, error) {
			see(ep, ar)
			return "x10 echo", nil
		}
	}
	type decl struct {
		ep   string
		r, w api.Permission
	}
	for _, d := range []decl{
		{"echoA", api.PermitAnyone, api.PermitAnyone}, {"echoU", api.PermitUser, api.PermitUser},
		{"echoD", api.PermitAdmin, api.PermitAdmin}, {"echoS", api.PermitSelf, api.PermitSelf},
		{"dyn", api.Dynamic, api.Dynamic}, {"ronly", api.PermitAnyone, api.NotSupported},
		{"wonly", api.NotSupported, api.PermitAdmin},
	} {
		if err := api.RegisterEndpoint(api.Endpoint{Path: ownPrefix + d.ep, Read: d.r, Write: d.w, ActionFunc: echo(d.ep), Name: d.ep}); err != nil {
			return err
		}
	}
	if err := api.RegisterEndpoint(api.Endpoint{Path: ownPrefix + "empty", Read: api.PermitAnyone, Write: api.PermitAnyone, Name: "empty",
		DataFunc: func(ar *api.Request) ([]byte, error) { see("empty", ar); return nil, nil }}); err != nil {
		return err
	}
	if err := api.RegisterEndpoint(api.Endpoint{Path: ownPrefix + "fail", Read: api.PermitAnyone, Write: api.PermitAnyone, Name: "fail",
		ActionFunc: func(ar *api.Request) (string, error) { see("fail", ar); return "", errors.New(msgFail) }}); err != nil {
		return err
	}
	if err := api.RegisterEndpoint(api.Endpoint{Path: ownPrefix + "conflict", Read: api.PermitAnyone, Write: api.PermitAnyone, Name: "conflict",
		ActionFunc: func(ar *api.Request) (string, error) {
			see("conflict", ar)
			return "", api.ErrorWithStatus(errors.New(msgConflict), http.StatusConflict)
		}}); err != nil {
		return err
	}
	return api.RegisterEndpoint(api.Endpoint{Path: ownPrefix + "struct", Read: api.PermitAnyone, Write: api.PermitAnyone, Name: "struct",
		StructFunc: func(ar *api.Request) (interface{}, error) {
			see("struct", ar)
			return struct {
				X10 string
				N   int
			}{"struct", 7}, nil
		}})
}

// outHandler is served outside the /api/v1/ scope and open to anyone: the bridge must not reach it.
type outHandler struct{}

func (outHandler) ReadPermission(*http.Request) api.Permission  { return api.PermitAnyone }
func (outHandler) WritePermission(*http.Request) api.Permission { return api.PermitAnyone }
func (outHandler) ServeHTTP(w http.ResponseWriter, r *http.Request) {
	if ar := api.GetAPIRequest(r); ar != nil {
		see("out", ar)
	}
	api.TextResponse(w, r, "x10 out")
}

func authenticator(r *http.Request, _ *http.Server) (*api.AuthToken, error) {
	var p api.Permission
	switch r.Header.Get(permHeader) {
	case "user":
		p = api.PermitUser
	case "admin":
		p = api.PermitAdmin
	case "self":
		p = api.PermitSelf
	default:
		return nil, nil
	}
	return &api.AuthToken{Read: p, Write: p}, nil
}

// ------------------------------------------------------------------------------------------ setup

var (
	portLock   *os.File
	port       int
	baseURL    string
	client     *http.Client
	dbi        *database.Interface
	observer   *database.Subscription
	cleanupDir string
)

func freePort() (int, error) {
	for try := 0; try < 200; try++ {
		// a port below the range the kernel hands out to ":0" listeners and outgoing connections, so that no other process
		// can be given it between this probe and the moment the api module binds it
		probe := 20000 + int((time.Now().UnixNano()/1000+int64(os.Getpid())*7919+int64(try)*104729)%10000)
		l, err := net.Listen("tcp", fmt.Sprintf("127.0.0.1:%d", probe))
		if err != nil {
			continue
		}
		p := l.Addr().(*net.TCPAddr).Port
		_ = l.Close()
		f, err := os.OpenFile(fmt.Sprintf("%s/verif-apibr-port-%d.lock", os.TempDir(), p), os.O_CREATE|os.O_RDWR, 0o600)
		if err != nil {
			return 0, err
		}
		if syscall.Flock(int(f.Fd()), syscall.LOCK_EX|syscall.LOCK_NB) != nil {
			_ = f.Close()
			continue
		}
		portLock = f
		return p, nil
	}
	return 0, errors.New("no free loopback port")
}

func setup() error {
	dir, err := os.MkdirTemp("", "verif-apibr-")
	if err != nil {
		return err
	}
	cleanupDir = dir
	if err := dataroot.Initialize(dir, 0o755); err != nil {
		return err
	}
	port, err = freePort()
	if err != nil {
		return err
	}
	api.SetDefaultAPIListenAddress(fmt.Sprintf("127.0.0.1:%d", port))
	baseURL = fmt.Sprintf("http://127.0.0.1:%d", port)
	if err := register(); err != nil {
		return err
	}
	if err := api.SetAuthenticator(authenticator); err != nil {
		return err
	}
	var m *modules.Module
	m = modules.Register(triggerMod, nil, func() error {
		return m.RegisterEventHook(triggerMod, triggerEvent, "x10 count", func(context.Context, interface{}) error {
			eventCount.Add(1)
			return nil
		})
	}, nil, "api")
	m.RegisterEvent(triggerEvent, true)
	m.Enable()
	os.Args = []string{os.Args[0], "--log", "critical"}
	modules.SetStdErrReporting(false)
	if err := modules.Start(); err != nil {
		return err
	}
	client = &http.Client{
		Timeout:       10 * time.Second,
		Transport:     &http.Transport{DisableKeepAlives: true, DisableCompression: true},
		CheckRedirect: func(*http.Request, []*http.Request) error { return http.ErrUseLastResponse },
	}
	dbi = database.NewInterface(&database.Options{Local: true, Internal: true})
	observer, err = dbi.Subscribe(query.New("api:"))
	if err != nil {
		return err
	}
	deadline := time.Now().Add(10 * time.Second)
	for {
		c, err := net.DialTimeout("tcp", fmt.Sprintf("127.0.0.1:%d", port), time.Second)
		if err == nil {
			_ = c.Close()
			break
		}
		if time.Now().After(deadline) {
			return fmt.Errorf("api server does not listen: %w", err)
		}
		time.Sleep(2 * time.Millisecond)
	}
	// the server that answers on the port must be the one of this process
	resetSlot()
	resp, err := client.Get(baseURL + "/api/v1/" + ownPrefix + "echoA")
	if err != nil {
		return fmt.Errorf("self check: %w", err)
	}
	_ = resp.Body.Close()
	slot.Lock()
	mine := slot.inv == 1
	slot.Unlock()
	if !mine || resp.StatusCode != http.StatusOK {
		return fmt.Errorf("self check: port %d is served by another process (status %d)", port, resp.StatusCode)
	}
	return nil
}

// ------------------------------------------------------------------------------------------ websocket probe

type wsRec struct {
	record.Base
	sync.Mutex
	V string
}

var wsProbed bool

// wsProbe talks to the database endpoint of the live server the way a user interface does (a websocket connection from
// loopback, admin permission): a plain, a secret and a crown-jewel record are asked for by key and through a query.
func wsProbe() (map[string]any, error) {
	if !wsProbed {
		if _, err := database.Register(&database.Database{Name: "x10ws", Description: "x10 websocket probe", StorageType: "hashmap"}); err != nil {
			return nil, err
		}
		for _, name := range []string{"plain", "secret", "crown"} {
			r := &wsRec{V: name}
			r.SetKey("x10ws:" + name)
			r.UpdateMeta()
			switch name {
			case "secret":
				r.Meta().MakeSecret()
			case "crown":
				r.Meta().MakeCrownJewel()
			}
			if err := dbi.Put(r); err != nil {
				return nil, err
			}
		}
		wsProbed = true
	}
	hd := http.Header{}
	hd.Set(permHeader, "admin")
	conn, resp, err := websocket.DefaultDialer.Dial(fmt.Sprintf("ws://127.0.0.1:%d/api/database/v1", port), hd)
	if resp != nil && resp.Body != nil {
		_ = resp.Body.Close()
	}
	if err != nil {
		return nil, fmt.Errorf("websocket dial: %w", err)
	}
	defer conn.Close()
	for _, m := range []string{"1|get|x10ws:plain", "2|get|x10ws:secret", "3|get|x10ws:crown", "4|query|query x10ws:"} {
		if err := conn.WriteMessage(websocket.TextMessage, []byte(m)); err != nil {
			return nil, err
		}
	}
	res := map[string]any{"plain": "", "secret": "", "crown": ""}
	q := []string{}
	names := map[string]string{"1": "plain", "2": "secret", "3": "crown"}
	_ = conn.SetReadDeadline(time.Now().Add(10 * time.Second))
	for done := false; !done || res["plain"] == "" || res["secret"] == "" || res["crown"] == ""; {
		_, msg, err := conn.ReadMessage()
		if err != nil {
			return nil, fmt.Errorf("websocket read: %w", err)
		}
		parts := strings.SplitN(string(msg), "|", 4)
		if len(parts) < 2 {
			continue
		}
		if n, ok := names[parts[0]]; ok {
			res[n] = parts[1]
			continue
		}
		if parts[0] == "4" {
			switch parts[1] {
			case "ok":
				if len(parts) >= 3 {
					q = append(q, strings.TrimPrefix(parts[2], "x10ws:"))
				}
			case "done", "error":
				done = true
			}
		}
	}
	sort.Strings(q)
	res["q"] = q
	return res, nil
}

// ------------------------------------------------------------------------------------------ classification

func classifyMime(ct string) string {
	switch {
	case ct == "":
		return "none"
	case strings.HasPrefix(ct, "text/plain"):
		return "text"
	case strings.HasPrefix(ct, "application/json"):
		return "json"
	}
	return "other"
}

type obsT struct {
	Ok     bool   `json:"ok"`
	Ec     string `json:"ec"`
	Code   int    `json:"code"`
	Body   string `json:"body"`
	Ebody  string `json:"ebody"`
	Mime   string `json:"mime"`
	Keyok  bool   `json:"keyok"`
	Inv    int    `json:"inv"`
	Invep  string `json:"invep"`
	Sm     string `json:"sm"`
	Sin    string `json:"sin"`
	Sq     string `json:"sq"`
	Sct    string `json:"sct"`
	Str    int    `json:"str"`
	Stw    int    `json:"stw"`
	Evd    int    `json:"evd"`
	Fedall int    `json:"fedall"`
	Fedone int    `json:"fedone"`
	Feddrv int    `json:"feddrv"`
	Pr     int    `json:"pr"`
	Pw     int    `json:"pw"`
	Roles  string `json:"roles"`
	Etext  string `json:"etext"`
	Cookie bool   `json:"cookie"`

	rawBody string
	rawMime string
}

// classifyBody names the class of a response body; the classes are those of spec/ApiBr.tla.
func classifyBody(body string, o *obsT) string {
	switch body {
	case "":
		return "empty"
	case "Pong.\n":
		return "ping"
	case bodyEcho:
		return "echo"
	case structJSON:
		return "struct"
	case "Authenticated.\n":
		return "authenticated"
	case "Authorization required.\n":
		return "authreq"
	case "Session deleted.\n":
		return "sessdel"
	case "Method not allowed.\n":
		return "notallowed"
	case "Not found.\n":
		return "notfound"
	case "Insufficient permissions.\n":
		return "insufficient"
	case "event successfully injected\n":
		return "injected"
	case msgFail + "\n":
		return "failmsg"
	case msgConflict + "\n":
		return "conflictmsg"
	}
	if strings.HasPrefix(body, "failed to inject event: ") {
		return "injectfail"
	}
	if strings.HasPrefix(body, "[") {
		var list []map[string]any
		if json.Unmarshal([]byte(body), &list) != nil || len(list) == 0 {
			return "other"
		}
		if _, ok := list[0]["Path"]; ok {
			// the endpoint listing: every registered path, sorted
			var got []string
			for _, e := range list {
				p, _ := e["Path"].(string)
				got = append(got, p)
			}
			var want []string
			for _, e := range api.ExportEndpoints() {
				want = append(want, e.Path)
			}
			has := map[string]bool{}
			for _, p := range got {
				has[p] = true
			}
			if sort.StringsAreSorted(got) && strings.Join(got, "\n") == strings.Join(want, "\n") && has["ping"] && has[ownPrefix+"echoA"] && has["auth/reset"] {
				return "listing"
			}
			return "other"
		}
		if _, ok := list[0]["Key"]; ok {
			has := map[string]bool{}
			for _, e := range list {
				k, _ := e["Key"].(string)
				has[k] = true
			}
			if has[config.CfgDevModeKey] && has[api.CfgAPIKeys] {
				return "options"
			}
		}
		return "other"
	}
	if strings.HasPrefix(body, "{") {
		var obj map[string]any
		if json.Unmarshal([]byte(body), &obj) != nil {
			return "other"
		}
		if mods, ok := obj["Modules"].(map[string]any); ok {
			if _, a := mods["api"]; a {
				if _, b := mods[triggerMod]; b {
					return "status"
				}
			}
			return "other"
		}
		rr, ok1 := obj["ReadRole"].(string)
		wr, ok2 := obj["WriteRole"].(string)
		pr, ok3 := obj["Read"].(float64)
		pw, ok4 := obj["Write"].(float64)
		if ok1 && ok2 && ok3 && ok4 && len(obj) == 4 {
			o.Pr, o.Pw, o.Roles = int(pr), int(pw), rr+"/"+wr
			return "perm"
		}
	}
	return "other"
}

// ------------------------------------------------------------------------------------------ history state

type hist struct {
	rnd     *rand.Rand
	dev     bool
	subs    map[string]*database.Subscription
	cookies [3]string
}

func drain(s *database.Subscription, keep *[]record.Record) int {
	n := 0
	for {
		select {
		case r, ok := <-s.Feed:
			if !ok {
				return n
			}
			n++
			if keep != nil {
				*keep = append(*keep, r)
			}
		default:
			return n
		}
	}
}

func (h *hist) takeSlot(o *obsT) {
	slot.Lock()
	o.Inv, o.Invep, o.Sm, o.Sin, o.Sq, o.Sct, o.Str, o.Stw = slot.inv, slot.invep, slot.sm, slot.sin, slot.sq, slot.sct, slot.str, slot.stw
	slot.Unlock()
}

func (h *hist) before() int64 {
	resetSlot()
	drain(observer, nil)
	for _, s := range h.subs {
		drain(s, nil)
	}
	return eventCount.Load()
}

// after collects the event count and the feeds; trig: the call addressed the event trigger
func (h *hist) after(o *obsT, ev0 int64, trig bool) []record.Record {
	if trig {
		deadline := time.Now().Add(20 * time.Millisecond)
		if o.Ok {
			deadline = time.Now().Add(3 * time.Second)
		}
		for eventCount.Load() == ev0 && time.Now().Before(deadline) {
			time.Sleep(200 * time.Microsecond)
		}
		if o.Ok {
			time.Sleep(2 * time.Millisecond) // a second (wrong) delivery would follow at once
		}
	}
	o.Evd = int(eventCount.Load() - ev0)
	var got []record.Record
	o.Feddrv = drain(observer, &got)
	if s := h.subs["all"]; s != nil {
		o.Fedall = drain(s, nil)
	}
	if s := h.subs["one"]; s != nil {
		o.Fedone = drain(s, nil)
	}
	h.takeSlot(o)
	return got
}

var codeRe = regexp.MustCompile(`unexpected error code (\d+)`)

type otherRecord struct {
	record.Base
	sync.Mutex
	Method string
	Path   string
}

// bridge executes one call through the database interface
func (h *hist) bridge(o *opT, conc map[string]any) obsT {
	ob := obsT{Pr: -9, Pw: -9}
	key := keyOf(o, h.rnd)
	dbKey := "api:" + key
	conc["dbkey"] = dbKey
	ev0 := h.before()
	var rec record.Record
	var err error
	func() {
		defer func() {
			if p := recover(); p != nil {
				ob.Ec = "panic"
				ob.Etext = fmt.Sprint(p)
			}
		}()
		if o.Ch == "get" {
			rec, err = dbi.Get(dbKey)
			return
		}
		method := o.M
		if method == "bad" {
			method = badMeths[h.rnd.Intn(len(badMeths))]
		}
		pf := ""
		switch o.Pf {
		case "same":
			pf = pathOf(o.Ep)
		case "other":
			pf = ownPrefix + "fail"
			if o.Ep == "fail" {
				pf = ownPrefix + "echoA"
			}
		}
		var data []byte
		if o.Data == "some" {
			data = someData
		}
		mime := ""
		if o.Mime == "json" {
			mime = "application/json"
		}
		conc["method"], conc["path"], conc["mime"] = method, pf, mime
		if q := queryOf(o); q != nil {
			conc["query"] = q
		}
		var put record.Record
		switch o.Ch {
		case "put":
			r := &api.EndpointBridgeRequest{Method: method, Path: pf, Query: queryOf(o), Data: data, MimeType: mime}
			r.SetKey(dbKey)
			r.UpdateMeta()
			put = r
		case "putw":
			doc := map[string]any{"Method": method, "Path": pf, "MimeType": mime}
			if q := queryOf(o); q != nil {
				doc["Query"] = q
			}
			if data != nil {
				doc["Data"] = base64.StdEncoding.EncodeToString(data)
			}
			js, _ := json.Marshal(doc)
			conc["json"] = string(js)
			w, werr := record.NewWrapper(dbKey, &record.Meta{}, dsd.JSON, js)
			if werr != nil {
				err = werr
				return
			}
			w.UpdateMeta()
			put = w
		case "putwbad":
			docs := []string{`[1,2,3]`, `"text"`, `{"Method":5}`, `{"Query":"a=1"}`, `{"Data":"%%%"}`, `{`}
			js := docs[h.rnd.Intn(len(docs))]
			conc["json"] = js
			w, werr := record.NewWrapper(dbKey, &record.Meta{}, dsd.JSON, []byte(js))
			if werr != nil {
				err = werr
				return
			}
			w.UpdateMeta()
			put = w
		default: // putother
			r := &otherRecord{Method: method, Path: pathOf(o.Ep)}
			r.SetKey(dbKey)
			r.UpdateMeta()
			put = r
		}
		err = dbi.Put(put)
	}()
	if ob.Ec == "" {
		switch {
		case err == nil:
			ob.Ok = true
		case errors.Is(err, database.ErrNotFound):
			ob.Ec = "notfound"
		case strings.Contains(err.Error(), "bridged api call failed: "):
			ob.Ec, ob.Code = "failed", 500
			t := err.Error()
			ob.Ebody = classifyBody(t[strings.Index(t, "bridged api call failed: ")+len("bridged api call failed: "):], &obsT{})
		case codeRe.MatchString(err.Error()):
			ob.Ec = "code"
			ob.Code, _ = strconv.Atoi(codeRe.FindStringSubmatch(err.Error())[1])
		case strings.Contains(err.Error(), "violates scope"):
			ob.Ec = "scope"
		case strings.Contains(err.Error(), "not of type"):
			ob.Ec = "type"
		default:
			ob.Ec = "other"
		}
		if err != nil {
			ob.Etext = err.Error()
			if len(ob.Etext) > 300 {
				ob.Etext = ob.Etext[:300]
			}
		}
	}
	fed := h.after(&ob, ev0, o.Ep == "trigger" || o.Ep == "triggerbad")
	// the response record: returned by Get, pushed to the subscribers by Put
	var resp record.Record
	if o.Ch == "get" {
		resp = rec
	} else if ob.Ok && len(fed) > 0 {
		resp = fed[0]
	}
	if ob.Ok && resp != nil {
		if r, ok := resp.(*api.EndpointBridgeResponse); ok {
			ob.rawBody, ob.rawMime = r.Body, r.MimeType
			ob.Body = classifyBody(r.Body, &ob)
			ob.Mime = classifyMime(r.MimeType)
			ob.Keyok = r.Key() == dbKey
		} else {
			ob.Body, ob.Mime = fmt.Sprintf("type:%T", resp), "other"
		}
	} else if ob.Ok {
		ob.Body, ob.Mime = "missing", "missing"
	}
	return ob
}

// web executes one HTTP round trip
func (h *hist) web(o *opT, method string, conc map[string]any) obsT {
	ob := obsT{Pr: -9, Pw: -9}
	u := baseURL + "/api/v1/" + pathOf(o.Ep)
	switch {
	case o.Query != "none":
		v := url.Values{}
		for k, x := range queryOf(o) {
			v.Set(k, x)
		}
		u += "?" + v.Encode()
	case o.Kf == "qkey":
		u += "?a=1"
	}
	var body io.Reader
	if (method == http.MethodPost || method == http.MethodPut) && o.Data == "some" {
		body = bytes.NewReader(someData)
	}
	conc["url"], conc["httpmethod"] = u, method
	ev0 := h.before()
	req, err := http.NewRequest(method, u, body)
	if err != nil {
		ob.Ec, ob.Etext = "build", err.Error()
		return ob
	}
	if o.Mime == "json" {
		req.Header.Set("Content-Type", "application/json")
	}
	switch o.Cred {
	case "user", "admin", "self":
		req.Header.Set(permHeader, o.Cred)
	case "s1", "s2":
		c := h.cookies[int(o.Cred[1]-'0')]
		if c == "" {
			c = "bogus-" + strconv.Itoa(h.rnd.Intn(1000))
		}
		req.Header.Set("Cookie", cookieName+"="+c)
		conc["cookie"] = c
	}
	resp, err := client.Do(req)
	if err != nil {
		ob.Ec, ob.Etext = "transport", err.Error()
		h.after(&ob, ev0, false)
		return ob
	}
	b, _ := io.ReadAll(io.LimitReader(resp.Body, 8<<20))
	_ = resp.Body.Close()
	ob.Code = resp.StatusCode
	ob.Ok = resp.StatusCode >= 200 && resp.StatusCode <= 299
	ob.rawBody, ob.rawMime = string(b), resp.Header.Get("Content-Type")
	ob.Body = classifyBody(ob.rawBody, &ob)
	ob.Mime = classifyMime(ob.rawMime)
	for _, c := range resp.Cookies() {
		if c.Name == cookieName && c.Value != "" && c.MaxAge >= 0 {
			ob.Cookie = true
			conc["setcookie"] = c.Value
		}
	}
	h.after(&ob, ev0, o.Ep == "trigger" || o.Ep == "triggerbad")
	return ob
}

func setOption(key string, value any) error {
	done := make(chan error, 1)
	go func() { done <- config.SetConfigOption(key, value) }()
	select {
	case err := <-done:
		return err
	case <-time.After(20 * time.Second):
		return errors.New("config change did not return within 20 s")
	}
}

func (h *hist) setDev(on bool) error {
	if h.dev == on {
		return nil
	}
	if err := setOption(config.CfgDevModeKey, on); err != nil {
		return err
	}
	h.dev = on
	return nil
}

func (h *hist) unsub(name string) error {
	if s := h.subs[name]; s != nil {
		delete(h.subs, name)
		return s.Cancel()
	}
	return nil
}

var current = &hist{subs: map[string]*database.Subscription{}}

func run(tr *vio.Trace, n int, s *script) error {
	h := current
	h.rnd = rand.New(rand.NewSource(s.Seed*7919 + int64(len(s.Steps))))
	// a fresh history: dev mode off, no subscriptions, no cookies
	if err := h.setDev(false); err != nil {
		return err
	}
	for _, name := range []string{"all", "one"} {
		if err := h.unsub(name); err != nil {
			return err
		}
	}
	h.cookies = [3]string{}
	tr.EmitRaw(map[string]any{"h": n, "e": "new"})
	if !wsProbed {
		ob, err := wsProbe()
		if err != nil {
			return err
		}
		tr.EmitRaw(map[string]any{"h": n, "e": "wsprobe", "ob": ob})
	}
	for i := range s.Steps {
		o := &s.Steps[i]
		tr.EmitRaw(map[string]any{"h": n, "e": "try", "op": o})
		tr.Flush()
		conc := map[string]any{}
		ev := map[string]any{"h": n, "e": o.Op, "op": o, "conc": conc}
		switch o.Op {
		case "dev":
			err := h.setDev(o.On)
			ev["ok"] = err == nil
			if err != nil {
				return err
			}
		case "sub":
			if h.subs[o.S] == nil {
				q := "api:"
				if o.S == "one" {
					q = "api:" + ownPrefix + "echoA"
				}
				sub, err := dbi.Subscribe(query.New(q))
				if err != nil {
					return err
				}
				h.subs[o.S] = sub
			}
			ev["ok"] = true
		case "unsub":
			if err := h.unsub(o.S); err != nil {
				return err
			}
			ev["ok"] = true
		case "login":
			lo := &opT{Ep: "authperm", Kf: "plain", Query: "none", Data: "none", Mime: "none",
				Cred: map[int]string{2: "user", 3: "admin", 4: "self"}[o.Perm]}
			ob := h.web(lo, http.MethodGet, conc)
			if ob.Ec != "" {
				return fmt.Errorf("login: %s %s", ob.Ec, ob.Etext)
			}
			if ob.Cookie {
				h.cookies[o.Slot] = conc["setcookie"].(string)
			}
			ev["ob"] = ob
		case "call":
			if o.Ch == "http" {
				ev["ob"] = h.web(o, o.M, conc)
			} else {
				ev["ob"] = h.bridge(o, conc)
			}
		case "pair":
			b := h.bridge(o, conc)
			w := h.web(o, o.Hm, conc)
			ev["b"], ev["w"] = b, w
			ev["same"] = b.rawBody == w.rawBody
			ev["samect"] = b.rawMime == w.rawMime
			if b.rawBody != w.rawBody {
				conc["bridgebody"], conc["httpbody"] = clip(b.rawBody), clip(w.rawBody)
			}
			if b.rawMime != w.rawMime {
				conc["bridgect"], conc["httpct"] = b.rawMime, w.rawMime
			}
		default:
			return fmt.Errorf("unknown op %q", o.Op)
		}
		tr.EmitRaw(ev)
	}
	tr.Flush()
	return nil
}

func clip(s string) string {
	if len(s) > 200 {
		return s[:200]
	}
	return s
}

func main() {
	if len(os.Args) < 3 {
		fmt.Fprintln(os.Stderr, "usage: apibr <scripts> <trace> [skip]")
		os.Exit(2)
	}
	scripts, trace := os.Args[1], os.Args[2]
	skip := 0
	if len(os.Args) > 3 {
		skip, _ = strconv.Atoi(os.Args[3])
	}
	tr, err := vio.NewTrace(trace)
	if err != nil {
		fmt.Fprintln(os.Stderr, err)
		os.Exit(2)
	}
	if err := setup(); err != nil {
		tr.EmitRaw(map[string]any{"h": skip, "e": "setup-failed", "err": err.Error()})
		tr.Close()
		fmt.Fprintln(os.Stderr, "setup:", err)
		os.Exit(3)
	}
	n := 0
	err = vio.ReadLines(scripts, func(line []byte) error {
		if n < skip {
			n++
			return nil
		}
		var s script
		if err := json.Unmarshal(line, &s); err != nil {
			return err
		}
		if s.Seed == 0 {
			s.Seed = int64(n + 1)
		}
		if err := run(tr, n, &s); err != nil {
			tr.EmitRaw(map[string]any{"h": n, "e": "infra", "err": err.Error()})
			return err
		}
		n++
		return nil
	})
	tr.Close()
	if err != nil {
		fmt.Fprintln(os.Stderr, "harness:", err)
		if portLock != nil {
			_ = os.Remove(portLock.Name())
		}
		os.Exit(4)
	}
	_ = modules.Shutdown()
	if cleanupDir != "" {
		_ = os.RemoveAll(cleanupDir)
	}
	if portLock != nil {
		_ = os.Remove(portLock.Name())
	}
	fmt.Printf("histories=%d\n", n)
}
