// Command qlang drives database/query for property C11: queries built through the API are
// printed, parsed back and compared on witness records; model-rendered query texts and every
// enumerated character string are parsed inside recover. Every observation is one ndjson event
// that spec/QueryLangTrace.tla judges.
//
// usage: qlang <scripts.ndjson> <trace.ndjson> <skip> <pool.json>
//
// Symbolic -> concrete mapping (also written into the events as readable text):
// character codes 1..13 are the runes X 7 space " \ ( ) , É Y ^ $ :  (tok scripts may select
// another map for blanks, the multi-byte rune, the letter and the digit); integer rank r is
// intAnchors[r]; float rank r is floatAnchors[r], 2147483647 is NaN.
package main

import (
	"encoding/json"
	"fmt"
	"math"
	"os"
	"strconv"
	"strings"
	"sync"

	"github.com/safing/portbase/database/query"
	"github.com/safing/portbase/database/record"
	"github.com/safing/portbase/formats/dsd"

	"verifharness/internal/vio"
)

// ---- symbolic domain ----

type val struct {
	T string  `json:"t"`
	I int     `json:"i"`
	B bool    `json:"b"`
	S []int   `json:"s"`
	L [][]int `json:"l"`
}

type node struct {
	K   string `json:"k"`
	Key []int  `json:"key"`
	Op  string `json:"op"`
	Val val    `json:"val"`
	Sub []node `json:"sub"`
}

type item struct {
	K string `json:"k"`
	W string `json:"w"`
	C []int  `json:"c"`
	I int    `json:"i"`
}

type field struct {
	Key []int `json:"key"`
	Val val   `json:"val"`
}

type script struct {
	K     string          `json:"k"`
	Ast   json.RawMessage `json:"ast"`
	Pfx   []int           `json:"pfx"`
	Ob    []int           `json:"ob"`
	Lim   int             `json:"lim"`
	Off   int             `json:"off"`
	API   int             `json:"api"`
	Items []item          `json:"items"`
	// tok
	S    []int   `json:"s"`
	Sh   string  `json:"sh"`
	J    int     `json:"j"`
	T    []int   `json:"t"`
	Wits [][]int `json:"wits"`
	Cm   int     `json:"cm"`
	Lite bool    `json:"lite"`
}

type pool struct {
	Sw [][]field `json:"sw"`
	Jw [][]field `json:"jw"`
}

const nanCode = 2147483647

var (
	intAnchors   = []int64{math.MinInt64, -(1 << 53) - 1, -1, 0, 1, 1 << 31, (1 << 53) + 1, math.MaxInt64 - 1, math.MaxInt64}
	floatAnchors = []float64{math.Inf(-1), -1e300, -1.5, 0, 5e-324, 0.1, float64(float32(0.1)), 1e300, math.Inf(1)}

	charMaps = [][]rune{
		{0, 'X', '7', ' ', '"', '\\', '(', ')', ',', 'É', 'Y', '^', '$', ':', 'l', 'i', 'm', 't'},
		{0, 'X', '7', '\t', '"', '\\', '(', ')', ',', '世', 'Y', '^', '$', ':', 'l', 'i', 'm', 't'},
		{0, 'a', '0', '\n', '"', '\\', '(', ')', ',', '😀', 'B', '^', '$', ':', 'l', 'i', 'm', 't'},
		{0, 'q', '9', '\r', '"', '\\', '(', ')', ',', 'ß', 'Y', '^', '$', ':', 'l', 'i', 'm', 't'},
		// white-space-like runes that the documented grammar does not treat as blanks: plain characters
		{0, 'X', '7', ' ', '"', '\\', '(', ')', ',', '\u00a0', 'Y', '^', '$', ':', 'l', 'i', 'm', 't'},
		{0, 'X', '7', '\t', '"', '\\', '(', ')', ',', '\u3000', 'Y', '^', '$', ':', 'l', 'i', 'm', 't'},
		{0, 'a', '0', ' ', '"', '\\', '(', ')', ',', '\u2028', 'B', '^', '$', ':', 'l', 'i', 'm', 't'},
	}

	opIDs = map[string]uint8{
		"eq": query.Equals, "gt": query.GreaterThan, "ge": query.GreaterThanOrEqual, "lt": query.LessThan, "le": query.LessThanOrEqual,
		"feq": query.FloatEquals, "fgt": query.FloatGreaterThan, "fge": query.FloatGreaterThanOrEqual,
		"flt": query.FloatLessThan, "fle": query.FloatLessThanOrEqual,
		"sameas": query.SameAs, "contains": query.Contains, "startswith": query.StartsWith, "endswith": query.EndsWith,
		"in": query.In, "matches": query.Matches, "is": query.Is, "exists": query.Exists,
	}
)

func str(codes []int, cm int) string {
	var b strings.Builder
	m := charMaps[cm]
	for _, c := range codes {
		if c >= 1 && c < len(m) {
			b.WriteRune(m[c])
		} else {
			b.WriteRune('?')
		}
	}
	return b.String()
}

// decode maps a concrete string back to character codes (0 for anything outside the map).
func decode(s string, cm int) []int {
	m := charMaps[cm]
	out := []int{}
	for _, r := range s {
		code := 0
		if r != '�' {
			for c := 1; c < len(m); c++ {
				if m[c] == r {
					code = c
					break
				}
			}
		}
		out = append(out, code)
	}
	return out
}

func floatOf(rank int) float64 {
	if rank == nanCode {
		return math.NaN()
	}
	return floatAnchors[rank]
}

// reSrc is the regular expression source of QueryLang!ReSrc: anchors and the literal with \ ( ) escaped.
func reSrc(v val, cm int) string {
	var b strings.Builder
	if v.I == 1 || v.I == 3 {
		b.WriteByte('^')
	}
	for _, r := range str(v.S, cm) {
		if r == '\\' || r == '(' || r == ')' {
			b.WriteByte('\\')
		}
		b.WriteRune(r)
	}
	if v.I == 2 || v.I == 3 {
		b.WriteByte('$')
	}
	return b.String()
}

// ---- witness records ----

// Witness is the typed record of the harness schema.
type Witness struct {
	record.Base
	sync.Mutex
	X  int64
	Y  float64
	XY string
	YX bool
	É  string
}

func structWitness(fs []field) record.Record {
	w := &Witness{}
	for _, f := range fs {
		switch str(f.Key, 0) {
		case "X":
			w.X = intAnchors[f.Val.I]
		case "Y":
			w.Y = floatOf(f.Val.I)
		case "XY":
			w.XY = str(f.Val.S, 0)
		case "YX":
			w.YX = f.Val.B
		case "É":
			w.É = str(f.Val.S, 0)
		}
	}
	w.SetKey("Y:w")
	return w
}

func jsonWitness(m map[string]any) record.Record {
	data, err := json.Marshal(m)
	if err != nil {
		panic(err)
	}
	w, err := record.NewWrapper("Y:w", nil, dsd.JSON, data)
	if err != nil {
		panic(err)
	}
	return w
}

func jsonWitnessOf(fs []field) record.Record {
	m := map[string]any{}
	for _, f := range fs {
		var v any
		switch f.Val.T {
		case "int":
			v = intAnchors[f.Val.I]
		case "float":
			v = floatOf(f.Val.I)
		case "str":
			v = str(f.Val.S, 0)
		case "bool":
			v = f.Val.B
		}
		m[str(f.Key, 0)] = v
	}
	return jsonWitness(m)
}

var (
	structPool []record.Record
	jsonPool   []record.Record
)

func matchAll(q *query.Query, rs []record.Record) []bool {
	out := make([]bool, len(rs))
	for i, r := range rs {
		out[i] = q.MatchesRecord(r)
	}
	return out
}

// ---- building queries through the API ----

type builder struct {
	api int
	n   int
}

func (b *builder) variant(k int) int {
	b.n++
	return (b.api/7 + b.n) % k
}

func (b *builder) cond(nd node) query.Condition {
	switch nd.K {
	case "and", "or":
		subs := make([]query.Condition, len(nd.Sub))
		for i := range nd.Sub {
			subs[i] = b.cond(nd.Sub[i])
		}
		if nd.K == "and" {
			return query.And(subs...)
		}
		return query.Or(subs...)
	case "not":
		return query.Not(b.cond(nd.Sub[0]))
	}
	key := str(nd.Key, 0)
	op := opIDs[nd.Op]
	v := nd.Val
	switch v.T {
	case "int":
		x := intAnchors[v.I]
		switch b.variant(3) {
		case 0:
			return query.Where(key, op, x)
		case 1:
			return query.Where(key, op, strconv.FormatInt(x, 10))
		default:
			return query.Where(key, op, int(x))
		}
	case "float":
		x := floatOf(v.I)
		if b.variant(2) == 0 {
			return query.Where(key, op, x)
		}
		return query.Where(key, op, strconv.FormatFloat(x, 'g', -1, 64))
	case "str":
		return query.Where(key, op, str(v.S, 0))
	case "list":
		l := make([]string, len(v.L))
		for i := range v.L {
			l[i] = str(v.L[i], 0)
		}
		if b.variant(2) == 0 {
			return query.Where(key, op, l)
		}
		return query.Where(key, op, strings.Join(l, ","))
	case "re":
		return query.Where(key, op, reSrc(v, 0))
	case "bool":
		switch b.variant(3) {
		case 0:
			return query.Where(key, op, v.B)
		case 1:
			return query.Where(key, op, map[bool]string{true: "t", false: "F"}[v.B])
		default:
			return query.Where(key, op, strconv.FormatBool(v.B))
		}
	}
	return query.Where(key, op, nil)
}

func isNoCondition(nd node) bool {
	return nd.K == "and" && len(nd.Sub) == 0
}

// ---- rendering model text ----

func render(items []item, cm int) string {
	var b strings.Builder
	for _, it := range items {
		switch it.K {
		case "kw":
			b.WriteString(it.W)
		case "ch":
			b.WriteString(str(it.C, cm))
		case "int":
			b.WriteString(strconv.FormatInt(intAnchors[it.I], 10))
		case "float":
			b.WriteString(strconv.FormatFloat(floatOf(it.I), 'g', -1, 64))
		case "num":
			b.WriteString(strconv.Itoa(it.I))
		}
	}
	return b.String()
}

// ---- events ----

var (
	tr *vio.Trace
	h  int
)

func emit(ev map[string]any) {
	ev["h"] = h
	tr.EmitRaw(ev)
}

func guard(ev map[string]any, fn func()) {
	defer func() {
		if p := recover(); p != nil {
			ev["panic"] = fmt.Sprint(p)
			emit(ev)
		}
	}()
	fn()
	emit(ev)
}

func ascii(s string) string {
	return strconv.QuoteToASCII(s)
}

func name(q *query.Query, cm int) []int {
	return decode(q.DatabaseName()+":"+q.DatabaseKeyPrefix(), cm)
}

// stability prints q, parses the text back and records what the second query looks like.
func stability(ev map[string]any, q *query.Query, cm int, rs ...[]record.Record) {
	p1 := q.Print()
	ev["p1"] = ascii(p1)
	q2, err := query.ParseQuery(p1)
	if err != nil {
		ev["pok"] = false
		ev["perr"] = err.Error()
		return
	}
	ev["pok"] = true
	ev["p2"] = ascii(q2.Print())
	ev["name2"] = name(q2, cm)
	for i, r := range rs {
		ev[fmt.Sprintf("r%d", i)] = matchAll(q2, r)
	}
}

func baseEvent(e string) map[string]any {
	return map[string]any{"e": e, "ok": false, "chk": false, "pok": false, "p1": "", "p2": "", "name": []int{}, "name2": []int{},
		"o0": []bool{}, "o1": []bool{}, "r0": []bool{}, "r1": []bool{}}
}

func runQuery(sc script) {
	var ast node
	if err := json.Unmarshal(sc.Ast, &ast); err != nil {
		panic(err)
	}
	// (b) through the API
	ev := baseEvent("rt")
	ev["ast"], ev["pfx"] = sc.Ast, sc.Pfx
	guard(ev, func() {
		q := query.New(str(sc.Pfx, 0))
		if !isNoCondition(ast) {
			b := &builder{api: sc.API}
			q.Where(b.cond(ast))
		}
		if len(sc.Ob) > 0 {
			q.OrderBy(str(sc.Ob, 0))
		}
		if sc.Lim > 0 {
			q.Limit(sc.Lim)
		}
		if sc.Off > 0 {
			q.Offset(sc.Off)
		}
		if _, err := q.Check(); err != nil {
			ev["err"] = err.Error()
			return
		}
		ev["chk"], ev["ok"] = true, true
		ev["name"] = name(q, 0)
		ev["o0"], ev["o1"] = matchAll(q, structPool), matchAll(q, jsonPool)
		stability(ev, q, 0, structPool, jsonPool)
	})
	// (c) from text of the documented grammar
	ev = baseEvent("txt")
	text := render(sc.Items, 0)
	ev["ast"], ev["pfx"], ev["text"] = sc.Ast, sc.Pfx, ascii(text)
	guard(ev, func() {
		q, err := query.ParseQuery(text)
		if err != nil {
			ev["err"] = err.Error()
			return
		}
		ev["ok"], ev["chk"] = true, q.IsChecked()
		ev["name"] = name(q, 0)
		ev["o0"], ev["o1"] = matchAll(q, structPool), matchAll(q, jsonPool)
		stability(ev, q, 0, structPool, jsonPool)
	})
}

func runTok(sc script) {
	cm := sc.Cm
	s := str(sc.S, cm)
	var witS, witJ []record.Record
	for _, w := range sc.Wits {
		witS = append(witS, &Witness{XY: str(w, cm)})
		witJ = append(witJ, jsonWitness(map[string]any{"XY": str(w, cm)}))
	}
	keyRecs := []record.Record{jsonWitness(map[string]any{str(sc.T, cm): 1}), jsonWitness(map[string]any{})}
	one := func(ctx, text string, recs ...[]record.Record) {
		ev := baseEvent("tok")
		ev["ctx"], ev["s"], ev["cm"], ev["text"] = ctx, sc.S, cm, ascii(text)
		ev["wits"] = sc.Wits
		if sc.Wits == nil {
			ev["wits"] = [][]int{}
		}
		guard(ev, func() {
			q, err := query.ParseQuery(text)
			if err != nil {
				ev["err"] = err.Error()
				return
			}
			ev["ok"], ev["chk"] = true, q.IsChecked()
			ev["name"] = name(q, cm)
			for i, r := range recs {
				ev[fmt.Sprintf("o%d", i)] = matchAll(q, r)
			}
			stability(ev, q, cm, recs...)
		})
	}
	opens, closes := strings.Repeat("(", sc.J), strings.Repeat(")", sc.J)
	switch sc.Sh {
	case "w":
		one("val", "query Y: where XY sameas "+s, witS, witJ)
		one("in", "query Y: where XY in "+s, witS, witJ)
		one("pfx", "query "+s)
		one("ob", "query Y: orderby "+s)
		one("key", "query Y: where "+s+" exists", keyRecs)
	case "wc":
		one("vclose", "query Y: where "+opens+"XY sameas "+s, witS, witJ)
	case "ow":
		one("kopen", "query Y: where "+s+" exists"+closes, keyRecs)
	default:
		one("xwhere", "query Y: where "+s)
		if sc.Lite {
			break
		}
		one("xval", "query Y: where XY sameas "+s)
		one("xpfx", "query "+s)
		if len(sc.S) <= 3 {
			one("xraw", s)
		}
	}
}

func main() {
	if len(os.Args) < 5 {
		fmt.Fprintln(os.Stderr, "usage: qlang <scripts> <trace> <skip> <pool.json>")
		os.Exit(2)
	}
	skip, _ := strconv.Atoi(os.Args[3])
	data, err := os.ReadFile(os.Args[4])
	if err != nil {
		fmt.Fprintln(os.Stderr, err)
		os.Exit(2)
	}
	var p pool
	if err := json.Unmarshal(data, &p); err != nil {
		fmt.Fprintln(os.Stderr, err)
		os.Exit(2)
	}
	for _, fs := range p.Sw {
		structPool = append(structPool, structWitness(fs))
	}
	for _, fs := range p.Jw {
		jsonPool = append(jsonPool, jsonWitnessOf(fs))
	}
	tr, err = vio.NewTrace(os.Args[2])
	if err != nil {
		fmt.Fprintln(os.Stderr, err)
		os.Exit(2)
	}
	err = vio.ReadLines(os.Args[1], func(line []byte) error {
		if h < skip {
			h++
			return nil
		}
		var sc script
		if err := json.Unmarshal(line, &sc); err != nil {
			return err
		}
		tr.EmitRaw(map[string]any{"e": "try", "h": h})
		tr.Flush()
		if sc.K == "q" {
			runQuery(sc)
		} else {
			runTok(sc)
		}
		h++
		return nil
	})
	tr.Close()
	if err != nil {
		fmt.Fprintln(os.Stderr, err)
		os.Exit(2)
	}
}
