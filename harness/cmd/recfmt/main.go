// Command recfmt drives database/record's storage format (property C08): it serialises records with
// the real MarshalRecord, parses byte strings with the real NewRawWrapper, unwraps typed records, and
// records what happened as one ndjson event per case for validation against spec/RecordFormatTrace.tla.
// The driver never judges anything.
//
// usage: recfmt <directives.ndjson> <trace.ndjson> [skip]
//
// directives (one per line):
//
//	{"fam":"rt","cls":..,"key":[..],"meta":{..},"format":n,"data":[..]}   wrapper round trip (from TLC)
//	{"fam":"typed","cls":..,"key":[..],"meta":{..},"t":{..}}              typed round trip (from TLC)
//	{"fam":"parse","cls":..,"b":[..]}                                     parse one byte string (from TLC)
//	{"fam":"randrt","seed":s,"count":n}      seeded random wrappers and typed records, full int64 range
//	{"fam":"randparse","seed":s,"count":n}   seeded random byte strings and mutated valid encodings
//	{"fam":"altmeta","seed":s,"count":n}     records whose meta section is JSON/CBOR/MsgPack/YAML/gzip
//	{"fam":"misc"}                           API corners (nil meta, foreign arguments): survival only
//
// Symbolic -> concrete: byte strings, keys and strings are arrays of 0..255; an int64 is the array of
// its 8 little-endian bytes; the meta flags are read back through Meta.CheckPermission.
package main

import (
	"encoding/binary"
	"encoding/json"
	"fmt"
	"math/rand"
	"os"
	"sort"
	"strconv"
	"sync"

	"github.com/safing/portbase/database/record"
	"github.com/safing/portbase/formats/dsd"
	"github.com/safing/portbase/formats/varint"

	"verifharness/internal/vio"
)

// ---------------------------------------------------------------- harness schema

// Sub is a nested struct of the harness schema.
type Sub struct {
	A int64
	B string
	C []byte
}

// Typed is the typed record of the harness: a struct embedding record.Base.
type Typed struct {
	record.Base
	sync.Mutex

	S   string
	N   int64
	U   uint64
	F   bool
	B   []byte
	L   []string
	M   map[string]int64
	Sub Sub
	P   *Sub
}

// model image of the schema (what is written to the trace and what TLC emits)
type subJ struct {
	A []int `json:"a"`
	B []int `json:"b"`
	C []int `json:"c"`
}

type typedJ struct {
	S   []int     `json:"s"`
	N   []int     `json:"n"`
	U   []int     `json:"u"`
	F   bool      `json:"f"`
	B   []int     `json:"b"`
	L   [][]int   `json:"l"`
	M   [][][]int `json:"m"` // sorted list of [key, value]
	Sub subJ      `json:"sub"`
	P   []subJ    `json:"p"` // empty: nil pointer
}

type metaJ struct {
	Created   []int `json:"created"`
	Modified  []int `json:"modified"`
	Expires   []int `json:"expires"`
	Deleted   []int `json:"deleted"`
	Secret    bool  `json:"secret"`
	Cronjewel bool  `json:"cronjewel"`
}

type directive struct {
	Fam    string  `json:"fam"`
	Cls    string  `json:"cls"`
	Key    []int   `json:"key"`
	Meta   *metaJ  `json:"meta"`
	Format int     `json:"format"`
	Data   []int   `json:"data"`
	T      *typedJ `json:"t"`
	B      []int   `json:"b"`
	Seed   int64   `json:"seed"`
	Count  int     `json:"count"`
}

// ---------------------------------------------------------------- conversions

func i64(b []int) int64 {
	var buf [8]byte
	for i := 0; i < 8 && i < len(b); i++ {
		buf[i] = byte(b[i])
	}
	return int64(binary.LittleEndian.Uint64(buf[:]))
}

func le(v int64) []int {
	var buf [8]byte
	binary.LittleEndian.PutUint64(buf[:], uint64(v))
	return vio.Ints(buf[:])
}

func str(b []int) string { return string(vio.Bytes(b)) }

func mkMeta(m *metaJ) *record.Meta {
	r := &record.Meta{Created: i64(m.Created), Modified: i64(m.Modified), Expires: i64(m.Expires), Deleted: i64(m.Deleted)}
	if m.Secret {
		r.MakeSecret()
	}
	if m.Cronjewel {
		r.MakeCrownJewel()
	}
	return r
}

func obsMeta(m *record.Meta) *metaJ {
	if m == nil {
		return zeroMeta()
	}
	return &metaJ{
		Created: le(m.Created), Modified: le(m.Modified), Expires: le(m.Expires), Deleted: le(m.Deleted),
		Secret:    !m.CheckPermission(true, false),
		Cronjewel: !m.CheckPermission(false, true),
	}
}

func zeroMeta() *metaJ {
	return &metaJ{Created: le(0), Modified: le(0), Expires: le(0), Deleted: le(0)}
}

func mkSub(s subJ) Sub { return Sub{A: i64(s.A), B: str(s.B), C: vio.Bytes(s.C)} }

func obsSub(s Sub) subJ { return subJ{A: le(s.A), B: vio.Ints([]byte(s.B)), C: vio.Ints(s.C)} }

func mkTyped(t *typedJ) *Typed {
	r := &Typed{S: str(t.S), N: i64(t.N), U: uint64(i64(t.U)), F: t.F, B: vio.Bytes(t.B), Sub: mkSub(t.Sub)}
	for _, x := range t.L {
		r.L = append(r.L, str(x))
	}
	if len(t.M) > 0 {
		r.M = map[string]int64{}
		for _, kv := range t.M {
			r.M[str(kv[0])] = i64(kv[1])
		}
	}
	if len(t.P) > 0 {
		s := mkSub(t.P[0])
		r.P = &s
	}
	return r
}

// obsTyped is the model image of a typed record; nil and empty slices/maps have the same image
// (JSON does not distinguish an absent from an empty list for the purposes of the schema).
func obsTyped(r *Typed) *typedJ {
	t := &typedJ{S: vio.Ints([]byte(r.S)), N: le(r.N), U: le(int64(r.U)), F: r.F, B: vio.Ints(r.B),
		L: [][]int{}, M: [][][]int{}, Sub: obsSub(r.Sub), P: []subJ{}}
	for _, x := range r.L {
		t.L = append(t.L, vio.Ints([]byte(x)))
	}
	keys := make([]string, 0, len(r.M))
	for k := range r.M {
		keys = append(keys, k)
	}
	sort.Strings(keys)
	for _, k := range keys {
		t.M = append(t.M, [][]int{vio.Ints([]byte(k)), le(r.M[k])})
	}
	if r.P != nil {
		t.P = append(t.P, obsSub(*r.P))
	}
	return t
}

// ---------------------------------------------------------------- trace

var (
	tr *vio.Trace
	h  int
)

func emit(ev map[string]any) {
	ev["h"] = h
	tr.EmitRaw(ev)
}

// step runs fn; a panic is recorded in the event under "panic" and reported as false.
func step(ev map[string]any, name string, fn func()) (ok bool) {
	defer func() {
		if p := recover(); p != nil {
			ev["panic"] = name + ": " + fmt.Sprint(p)
			ok = false
		}
	}()
	fn()
	return true
}

func try(what string, cls string) {
	tr.EmitRaw(map[string]any{"e": "try", "h": h, "what": what, "cls": cls})
	tr.Flush()
}

// ---------------------------------------------------------------- cases

// parsed fills the observation of NewRawWrapper under the given field prefix.
func obsParsed(ev map[string]any, pre string, w *record.Wrapper, err error) {
	if err != nil || w == nil {
		ev[pre+"ok"], ev[pre+"meta"], ev[pre+"format"], ev[pre+"data"] = false, zeroMeta(), 0, []int{}
		return
	}
	ev[pre+"ok"], ev[pre+"meta"], ev[pre+"format"], ev[pre+"data"] = true, obsMeta(w.Meta()), int(w.Format), vio.Ints(w.Data)
}

func remarshal(ev map[string]any, w *record.Wrapper) {
	ev["rok"], ev["rwire"] = false, []int{}
	if w == nil {
		return
	}
	step(ev, "MarshalRecord(parsed)", func() {
		out, err := w.MarshalRecord(w)
		if err == nil {
			ev["rok"], ev["rwire"] = true, vio.Ints(out)
		}
	})
}

func roundTripWrapper(cls string, key []int, m *metaJ, format int, data []int) {
	ev := map[string]any{"e": "rt", "typed": false, "cls": cls, "key": key, "meta": m, "format": format, "data": data,
		"rkey": []int{}, "mok": false, "wire": []int{}, "pkey": []int{}, "rok": false, "rwire": []int{}}
	obsParsed(ev, "p", nil, nil)
	defer emit(ev)
	var w, p *record.Wrapper
	var wire []byte
	var err error
	if !step(ev, "NewWrapper/MarshalRecord", func() {
		w, err = record.NewWrapper(str(key), mkMeta(m), uint8(format), vio.Bytes(data))
		if err != nil {
			return
		}
		ev["rkey"] = vio.Ints([]byte(w.Key()))
		wire, err = w.MarshalRecord(w)
		if err == nil {
			ev["mok"], ev["wire"] = true, vio.Ints(wire)
		}
	}) || err != nil {
		return
	}
	if !step(ev, "NewRawWrapper", func() {
		in := append([]byte{}, wire...)
		p, err = record.NewRawWrapper(w.DatabaseName(), w.DatabaseKey(), in)
		obsParsed(ev, "p", p, err)
		if err == nil {
			ev["pkey"] = vio.Ints([]byte(p.Key()))
		}
	}) || err != nil {
		return
	}
	remarshal(ev, p)
}

func roundTripTyped(cls string, key []int, m *metaJ, t *typedJ) {
	ev := map[string]any{"e": "rt", "typed": true, "cls": cls, "key": key, "meta": m, "format": int(dsd.JSON), "data": []int{},
		"tin": t, "rkey": []int{}, "mok": false, "wire": []int{}, "pkey": []int{}, "rok": false, "rwire": []int{},
		"uok": false, "ukey": []int{}, "umeta": zeroMeta(), "tout": t}
	obsParsed(ev, "p", nil, nil)
	defer emit(ev)
	var p *record.Wrapper
	var wire []byte
	var err error
	r := mkTyped(t)
	ev["tin"] = obsTyped(r) // the image of what is really stored (normalises nil/empty)
	ev["tout"] = obsTyped(&Typed{})
	if !step(ev, "MarshalRecord(typed)", func() {
		r.SetKey(str(key))
		r.SetMeta(mkMeta(m))
		ev["rkey"] = vio.Ints([]byte(r.Key()))
		wire, err = r.MarshalRecord(r)
		if err == nil {
			ev["mok"], ev["wire"] = true, vio.Ints(wire)
		}
	}) || err != nil {
		return
	}
	if !step(ev, "NewRawWrapper", func() {
		in := append([]byte{}, wire...)
		p, err = record.NewRawWrapper(r.DatabaseName(), r.DatabaseKey(), in)
		obsParsed(ev, "p", p, err)
		if err == nil {
			ev["pkey"] = vio.Ints([]byte(p.Key()))
		}
	}) || err != nil {
		return
	}
	remarshal(ev, p)
	step(ev, "Unwrap", func() {
		out := &Typed{}
		if err := record.Unwrap(p, out); err == nil {
			ev["uok"], ev["ukey"], ev["umeta"], ev["tout"] = true, vio.Ints([]byte(out.Key())), obsMeta(out.Meta()), obsTyped(out)
		}
	})
}

func parse(cls string, b []byte) {
	ev := map[string]any{"e": "parse", "cls": cls, "b": vio.Ints(b), "rok": false, "rwire": []int{}, "uok": false}
	obsParsed(ev, "", nil, nil)
	defer emit(ev)
	var w *record.Wrapper
	var err error
	if !step(ev, "NewRawWrapper", func() {
		in := append([]byte{}, b...)
		w, err = record.NewRawWrapper("db", "k", in)
		obsParsed(ev, "", w, err)
	}) || err != nil {
		return
	}
	remarshal(ev, w)
	// totality of the next step a storage user takes; only a panic is of interest
	step(ev, "Unwrap(parsed)", func() {
		ev["uok"] = record.Unwrap(w, &Typed{}) == nil
	})
}

// misc exercises records without metadata and foreign arguments; the events carry no verdict data.
func misc() {
	cases := map[string]func(){
		"wrapper-nil-meta": func() {
			w, _ := record.NewWrapper("db:k", nil, dsd.JSON, []byte("{}"))
			_, _ = w.MarshalRecord(w)
			_, _ = w.Marshal(w, dsd.JSON)
		},
		"typed-nil-meta": func() {
			t := &Typed{S: "x"}
			t.SetKey("db:k")
			_, _ = t.MarshalRecord(t)
			_, _ = t.Marshal(t, dsd.JSON)
		},
		"unwrap-nil": func() {
			_ = record.Unwrap(nil, &Typed{})
			_ = record.Unwrap(&Typed{}, &Typed{})
		},
		"unwrap-empty-wrapper": func() {
			_ = record.Unwrap(&record.Wrapper{}, &Typed{})
			w, _ := record.NewWrapper("", &record.Meta{}, dsd.JSON, nil)
			_ = record.Unwrap(w, &Typed{})
		},
		"parse-nil": func() {
			_, _ = record.NewRawWrapper("", "", nil)
			_, _ = record.NewRawWrapper("", "", []byte{})
		},
		"format-mismatch": func() {
			w, _ := record.NewWrapper("db:k", &record.Meta{}, dsd.CBOR, []byte{0xa0})
			_, _ = w.Marshal(w, dsd.JSON)
		},
	}
	names := make([]string, 0, len(cases))
	for n := range cases {
		names = append(names, n)
	}
	sort.Strings(names)
	for _, n := range names {
		ev := map[string]any{"e": "misc", "cls": n}
		step(ev, n, cases[n])
		emit(ev)
	}
}

// ---------------------------------------------------------------- seeded generators

var boundary = []int64{0, 1, -1, 2, 127, 128, 255, 256, -128, -129, 1 << 31, -(1 << 31), 1<<32 - 1, 1 << 32, 1 << 53,
	-(1 << 53), 1<<62 + 12345, -(1 << 62), 1<<63 - 1, -(1 << 63), -(1 << 63) + 1, 1759500000, 1759500000000}

func randI64(r *rand.Rand) int64 {
	switch r.Intn(4) {
	case 0:
		return boundary[r.Intn(len(boundary))]
	case 1:
		return int64(r.Uint64())
	case 2:
		return int64(r.Uint64() >> uint(r.Intn(64)))
	default:
		return -int64(r.Uint64() >> uint(1+r.Intn(63)))
	}
}

func randMeta(r *rand.Rand) *metaJ {
	m := &metaJ{Created: le(randI64(r)), Modified: le(randI64(r)), Expires: le(randI64(r)), Deleted: le(randI64(r)),
		Secret: r.Intn(2) == 0, Cronjewel: r.Intn(2) == 0}
	if r.Intn(3) == 0 {
		m.Deleted = le(0)
	}
	return m
}

func randBytes(r *rand.Rand, max int) []byte {
	n := r.Intn(max + 1)
	b := make([]byte, n)
	for j := range b {
		switch r.Intn(5) {
		case 0:
			b[j] = byte(r.Intn(4))
		case 1:
			b[j] = 0x80 | byte(r.Intn(128))
		case 2:
			b[j] = []byte{1, 35, 71, 74, 90, 0xff, 0x80, 0x7f}[r.Intn(8)]
		default:
			b[j] = byte(r.Intn(256))
		}
	}
	return b
}

var runes = []rune("abcXYZ019 :/\\\"'<>&\n\t\x00\x7fäßé€  �😀")

func randStr(r *rand.Rand, max int) string {
	n := r.Intn(max + 1)
	out := make([]rune, n)
	for i := range out {
		out[i] = runes[r.Intn(len(runes))]
	}
	return string(out)
}

func randKey(r *rand.Rand) []int {
	return vio.Ints([]byte([]string{"t:a", "db:x:y", "noc", ":l", "", "d:", "core:" + randStr(r, 8), randStr(r, 6)}[r.Intn(8)]))
}

func randFormat(r *rand.Rand) int {
	if r.Intn(2) == 0 {
		return []int{0, 1, 67, 71, 74, 76, 77, 89, 90, 127, 128, 129, 200, 254, 255}[r.Intn(15)]
	}
	return r.Intn(256)
}

func randSub(r *rand.Rand) Sub { return Sub{A: randI64(r), B: randStr(r, 6), C: randBytes(r, 6)} }

func randTyped(r *rand.Rand) *typedJ {
	t := &Typed{S: randStr(r, 12), N: randI64(r), U: r.Uint64() >> uint(r.Intn(64)), F: r.Intn(2) == 0, B: randBytes(r, 12), Sub: randSub(r)}
	for i := r.Intn(4); i > 0; i-- {
		t.L = append(t.L, randStr(r, 5))
	}
	if n := r.Intn(4); n > 0 {
		t.M = map[string]int64{}
		for i := 0; i < n; i++ {
			t.M[randStr(r, 4)] = randI64(r)
		}
	}
	if r.Intn(2) == 0 {
		s := randSub(r)
		t.P = &s
	}
	return obsTyped(t)
}

// validWire builds a storage form with the real writer (used as the basis of mutations).
func validWire(r *rand.Rand) []byte {
	w, _ := record.NewWrapper("db:k", mkMeta(randMeta(r)), uint8(randFormat(r)), randBytes(r, 10))
	out, err := w.MarshalRecord(w)
	if err != nil {
		return []byte{1, 0}
	}
	return out
}

func mutate(r *rand.Rand, b []byte) []byte {
	b = append([]byte{}, b...)
	for k := 1 + r.Intn(3); k > 0; k-- {
		switch r.Intn(6) {
		case 0: // flip a bit
			if len(b) > 0 {
				b[r.Intn(len(b))] ^= 1 << uint(r.Intn(8))
			}
		case 1: // replace a byte
			if len(b) > 0 {
				b[r.Intn(len(b))] = byte(r.Intn(256))
			}
		case 2: // insert
			i := r.Intn(len(b) + 1)
			ins := randBytes(r, 3)
			b = append(b[:i], append(ins, b[i:]...)...)
		case 3: // delete
			if len(b) > 0 {
				i := r.Intn(len(b))
				b = append(b[:i], b[i+1:]...)
			}
		case 4: // truncate
			b = b[:r.Intn(len(b)+1)]
		case 5: // concentrate on the header bytes
			if len(b) > 3 {
				b[r.Intn(4)] = byte(r.Intn(256))
			}
		}
	}
	return b
}

// altMeta builds a record whose meta section is written by dsd in another (also compressed) format.
func altMeta(r *rand.Rand) []byte {
	m := mkMeta(randMeta(r))
	var sec []byte
	var err error
	switch k := r.Intn(6); k {
	case 0, 1, 2, 3:
		sec, err = dsd.Dump(m, []uint8{dsd.JSON, dsd.CBOR, dsd.MsgPack, dsd.YAML}[k])
	case 4:
		sec, err = dsd.DumpAndCompress(m, []uint8{dsd.JSON, dsd.GenCode, dsd.CBOR}[r.Intn(3)], dsd.GZIP)
	default:
		sec = append([]byte{[]byte{dsd.JSON, dsd.YAML, dsd.CBOR, dsd.MsgPack, dsd.GZIP, dsd.LIST, dsd.RAW}[r.Intn(7)]}, randBytes(r, 20)...)
	}
	if err != nil {
		sec = []byte{dsd.JSON, '{', '}'}
	}
	if r.Intn(3) == 0 {
		sec = mutate(r, sec)
	}
	out := append([]byte{1}, varint.Pack64(uint64(len(sec)))...)
	out = append(out, sec...)
	if r.Intn(4) != 0 {
		out = append(out, varint.Pack8(uint8(randFormat(r)))...)
		out = append(out, randBytes(r, 8)...)
	}
	return out
}

func run(d directive) {
	switch d.Fam {
	case "rt":
		try("rt", d.Cls)
		roundTripWrapper(d.Cls, d.Key, d.Meta, d.Format, d.Data)
	case "typed":
		try("typed", d.Cls)
		roundTripTyped(d.Cls, d.Key, d.Meta, d.T)
	case "parse":
		try("parse", d.Cls)
		parse(d.Cls, vio.Bytes(d.B))
	case "misc": // API corners on which the property is silent: only survival is judged
		try("misc", "misc")
		misc()
	case "randrt":
		r := rand.New(rand.NewSource(d.Seed))
		try("randrt", "rand")
		for i := 0; i < d.Count; i++ {
			if i%3 == 2 {
				roundTripTyped("rand", randKey(r), randMeta(r), randTyped(r))
			} else {
				roundTripWrapper("rand", randKey(r), randMeta(r), randFormat(r), vio.Ints(randBytes(r, 40)))
			}
		}
	case "randparse":
		r := rand.New(rand.NewSource(d.Seed))
		try("randparse", "rand")
		for i := 0; i < d.Count; i++ {
			switch i % 4 {
			case 0:
				parse("rand", randBytes(r, 60))
			case 1: // a plausible header in front of random bytes
				parse("rand-header", append([]byte{1, byte(r.Intn(40))}, randBytes(r, 50)...))
			default:
				parse("mutant", mutate(r, validWire(r)))
			}
		}
	case "altmeta":
		r := rand.New(rand.NewSource(d.Seed))
		try("altmeta", "altmeta")
		for i := 0; i < d.Count; i++ {
			parse("altmeta", altMeta(r))
		}
	}
}

func main() {
	if len(os.Args) < 3 {
		fmt.Fprintln(os.Stderr, "usage: recfmt <directives> <trace> [skip]")
		os.Exit(2)
	}
	skip := 0
	if len(os.Args) > 3 {
		skip, _ = strconv.Atoi(os.Args[3])
	}
	var err error
	tr, err = vio.NewTrace(os.Args[2])
	if err != nil {
		fmt.Fprintln(os.Stderr, err)
		os.Exit(2)
	}
	err = vio.ReadLines(os.Args[1], func(line []byte) error {
		if h < skip {
			h++
			return nil
		}
		var d directive
		if err := json.Unmarshal(line, &d); err != nil {
			return err
		}
		run(d)
		h++
		return nil
	})
	tr.Close()
	if err != nil {
		fmt.Fprintln(os.Stderr, err)
		os.Exit(2)
	}
}
